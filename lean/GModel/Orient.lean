import GModel.Basic
/-!
# GModel.Orient — C18: orientation vectors, symmetrisation, autocorrelation

* `wrapHalf`, `direction`   `sat − cent` with `> 0.5 ↦ −1`, `< −0.5 ↦ +1` per axis
* `matching`                satellites bonded to a centre: the first four with distance below
                            1.5 × the smallest centre–satellite distance (frame 0)
* `symmetrize`              `einsum('tbi,ijk->tbkj')` + reshape: entry `b·n_ops + k` is `R_kᵀ v_b`
* `transform`               `vectors @ matrixᵀ`
* `autocorrDef`             definition: time-origin-averaged dot product, normalised at lag 0
* `autocorrAsIs`            the implemented transform in binary64: `rfft(n = 2N−1)`, `|·|²`,
                            `irfft` with its DEFAULT output length 2N−2 (defect D13, a known finding)
-/
namespace G.Orient

def wrapHalf (d : Rat) : Rat := if 1/2 < d then d - 1 else if d < -1/2 then d + 1 else d

def direction (cent sat : V3) : V3 := (sat - cent).map wrapHalf

/-- 3×3 matrix as rows -/
structure Mat where
  r1 : V3
  r2 : V3
  r3 : V3
deriving Repr, DecidableEq, Inhabited

def Mat.mulVec (m : Mat) (v : V3) : V3 := ⟨m.r1.dot v, m.r2.dot v, m.r3.dot v⟩
def Mat.transpose (m : Mat) : Mat :=
  ⟨⟨m.r1.x, m.r2.x, m.r3.x⟩, ⟨m.r1.y, m.r2.y, m.r3.y⟩, ⟨m.r1.z, m.r2.z, m.r3.z⟩⟩

/-- one frame: for every bond vector, its images under every operation, operation index minor -/
def symmetrize (ops : List Mat) (vs : List V3) : List V3 :=
  vs.flatMap (fun v => ops.map (fun r => r.transpose.mulVec v))

def transform (m : Mat) (vs : List V3) : List V3 := vs.map m.mulVec

/-- indices of the satellites bonded to a centre: squared distance below (3/2)² × the global minimum -/
def matching (dsq : List Rat) (minSq : Rat) : List Nat :=
  (((dsq.zipIdx).filter (fun p => decide (p.1 < 9/4 * minSq))).map (·.2)).take 4

/-- autocorrelation of one bond over time, by definition -/
def rawCorr (x : List V3) (m : Nat) : Rat :=
  let n := x.length
  ((List.range (n - m)).map (fun (k : Nat) => (x.getD k V3.zero).dot (x.getD (k + m) V3.zero))).sum / ((n - m : Nat) : Rat)

def autocorrDef (x : List V3) : List Rat :=
  let c0 := rawCorr x 0
  (List.range x.length).map (fun (m : Nat) => rawCorr x m / c0)

/-! ### as-is binary64 twin of `fft_autocorrelation` -/

def pi : Float := 3.141592653589793

/-- power spectrum of the length-(2N−1) zero-padded real signal at k = 0..N−1 -/
def power (sig : List Float) (k : Nat) : Float :=
  let n := sig.length
  let len : Float := Float.ofNat (2 * n - 1)
  let re := ((sig.zipIdx).map (fun p => p.1 * Float.cos (2 * pi * Float.ofNat k * Float.ofNat p.2 / len))).foldl (· + ·) 0
  let im := ((sig.zipIdx).map (fun p => p.1 * Float.sin (2 * pi * Float.ofNat k * Float.ofNat p.2 / len))).foldl (· + ·) 0
  re * re + im * im

/-- `np.fft.irfft(P)` with the default output length `2(N−1)`: the last bin is taken as Nyquist -/
def irfftDefault (p : List Float) (t : Nat) : Float :=
  let n := p.length
  let len := 2 * (n - 1)
  let terms := (p.zipIdx).map (fun q =>
    let c : Float := if q.2 = 0 || q.2 = n - 1 then 1 else 2
    c * q.1 * Float.cos (2 * pi * Float.ofNat q.2 * Float.ofNat t / Float.ofNat len))
  terms.foldl (· + ·) 0 / Float.ofNat len

/-- per bond: Σ_coordinates irfft(|rfft|²)[t] / (N − t), normalised by lag 0 -/
def autocorrAsIs (xs ys zs : List Float) : List Float :=
  let n := xs.length
  let one (sig : List Float) : List Float :=
    let p := (List.range n).map (power sig)
    (List.range n).map (fun t => irfftDefault p t / Float.ofNat (n - t))
  let s := List.zipWith (· + ·) (List.zipWith (· + ·) (one xs) (one ys)) (one zs)
  let c0 := s.headD 1
  s.map (· / c0)

end G.Orient
