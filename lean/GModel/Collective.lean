import GModel.Basic
/-!
# GModel.Collective — C12: the pairwise scan of `Collective._compute`

Rows are sorted (stably) by (stop time, start time); every earlier row `ei` is
compared with every later row `ej`.  `inner` is the loop body as it stands
after the `fix:` commit (`continue` on the first guard); `innerBreak` keeps
the original early `break` (defect D9).
-/
namespace G.Coll

structure J where
  id   : Nat      -- position in the sorted table
  atom : Int
  o    : Int
  d    : Int
  t0   : Int
  t1   : Int
deriving Repr, DecidableEq, Inhabited

/-- sort key: (stop time, start time) -/
def keyLe (a b : J) : Bool := a.t1 < b.t1 || (a.t1 == b.t1 && a.t0 ≤ b.t0)

/-- stable insertion: after every element whose key is ≤ the new one -/
def insertSorted (x : J) : List J → List J
  | [] => [x]
  | y :: ys => if keyLe y x then y :: insertSorted x ys else x :: y :: ys

/-- `sort_values(['stop time', 'start time'], ignore_index=True)` (stable) -/
def sortJ (l : List J) : List J :=
  let s := l.foldl (fun acc x => insertSorted x acc) []
  (s.zipIdx).map (fun p => { p.1 with id := p.2 })

variable (close : J → J → Bool) (ms : Int)

/-- the three conditions of the property -/
def P (a b : J) : Prop :=
  a.atom ≠ b.atom ∧ ¬ (b.t0 - a.t1 > ms) ∧ ¬ (a.t0 - b.t1 > ms) ∧ close a b = true

instance (a b : J) : Decidable (P close ms a b) := by unfold P; exact inferInstance

/-- inner loop (repaired): `continue` on every guard -/
def inner (ei : J) : List J → List (J × J)
  | [] => []
  | ej :: rest =>
    if ej.t0 - ei.t1 > ms then inner ei rest
    else if ei.t0 - ej.t1 > ms then inner ei rest
    else if ei.atom = ej.atom then inner ei rest
    else if close ei ej then (ei, ej) :: inner ei rest
    else inner ei rest

/-- inner loop as originally written: `break` on the first guard -/
def innerBreak (ei : J) : List J → List (J × J)
  | [] => []
  | ej :: rest =>
    if ej.t0 - ei.t1 > ms then []
    else if ei.t0 - ej.t1 > ms then innerBreak ei rest
    else if ei.atom = ej.atom then innerBreak ei rest
    else if close ei ej then (ei, ej) :: innerBreak ei rest
    else innerBreak ei rest

def scan : List J → List (J × J)
  | [] => []
  | ei :: rest => inner close ms ei rest ++ scan rest

def scanBreak : List J → List (J × J)
  | [] => []
  | ei :: rest => innerBreak close ms ei rest ++ scanBreak rest

/-- rows that take part in at least one pair -/
def touched (pairs : List (J × J)) : List Nat :=
  (pairs.flatMap (fun p => [p.1.id, p.2.id])).eraseDups

/-- `n_solo_jumps = len(events) − any(collective_matrix, axis=0).sum()` -/
def nSolo (n : Nat) (pairs : List (J × J)) : Nat := n - (touched pairs).length

def nColl (n : Nat) (pairs : List (J × J)) : Nat := n - nSolo n pairs

/-- closeness from squared site distances: any of the 2×2 origin/destination
distances is below the cut-off -/
def closeBy (dsq : Int → Int → Rat) (maxDistSq : Rat) (a b : J) : Bool :=
  decide (dsq a.o b.o < maxDistSq) || decide (dsq a.o b.d < maxDistSq) ||
  decide (dsq a.d b.o < maxDistSq) || decide (dsq a.d b.d < maxDistSq)

end G.Coll
