import GModel.Basic
/-!
# GModel.Split — C19 (and the split part of C15): partitioning in time

* `arraySplitSizes n k` : part sizes of `np.array_split` of `n` frames in `k` parts
* `partOf bins t`       : index of the half-open bin `[b_j, b_{j+1})` holding `t`
* `binEvents`           : `_split_transitions_events` for an arbitrary bin vector
* `trajParts`           : `Trajectory.split` frame ranges from a boundary vector
-/
namespace G.Split

/-- `np.array_split`: the first `n % k` parts have `n / k + 1` frames, the rest `n / k`. -/
def arraySplitSizes (n k : Nat) : List Nat :=
  (List.range k).map (fun (j : Nat) => n / k + (if j < n % k then 1 else 0))

/-- cut a list into consecutive chunks of the given sizes -/
def chunks {α : Type} : List Nat → List α → List (List α)
  | [], _ => []
  | s :: ss, l => l.take s :: chunks ss (l.drop s)

def arraySplit {α : Type} (k : Nat) (l : List α) : List (List α) :=
  chunks (arraySplitSizes l.length k) l

/-- consecutive pairs of a boundary vector -/
def pairwise : List Int → List (Int × Int)
  | a :: b :: r => (a, b) :: pairwise (b :: r)
  | _ => []

/-- events (here: just their times, with a payload index) of one part, re-based -/
def binEvents (bins : List Int) (times : List Int) : List (List Int) :=
  (pairwise bins).map (fun p => (times.filter (fun t => decide (p.1 ≤ t) && decide (t < p.2))).map (fun t => t - p.1))

/-- frame ranges `[start, stop)` of `Trajectory.split` -/
def trajParts (interval : List Int) : List (Int × Int) := pairwise interval

/-- `equal_parts=True`: every part trimmed to the smallest size -/
def trajPartsEqual (interval : List Int) (len : Int) : List (Int × Int) :=
  let ps := pairwise interval
  let m := ps.foldl (fun acc p => min acc (p.2 - p.1)) len
  ps.map (fun p => (p.1, p.1 + m))

end G.Split
