import GModel.Basic
/-!
# GModel.Shape — C17: collecting symmetry-equivalent points around a site

`ShapeAnalyzer.find_equivalent_positions`: for every symmetry operation `x ↦ R·x + τ`
(fractional), move the site, select the input positions within the radius of the moved site
(minimum-image distance), re-image them next to the moved site, map them back with the inverse
operation and subtract the site.  `reimage` is the repaired rounding re-image; `reimageAsWas`
the original `np.digitize(diff, [0.5, −0.4999999]) − 1` offsets, which only ever move a point by
one cell (defect D12).  `foldSupercell` is the supercell folding of `analyze_trajectory`.
-/
namespace G.Shape

/-- 3×3 matrix acting on fractional column vectors, rows r1 r2 r3 -/
structure Op where
  r1 : V3
  r2 : V3
  r3 : V3
  t  : V3
deriving Repr, DecidableEq, Inhabited

def Op.apply (o : Op) (x : V3) : V3 := ⟨o.r1.dot x + o.t.x, o.r2.dot x + o.t.y, o.r3.dot x + o.t.z⟩

/-- linear part only -/
def Op.lin (o : Op) (x : V3) : V3 := ⟨o.r1.dot x, o.r2.dot x, o.r3.dot x⟩

/-- move `p` by whole cells next to `sym`: `p − round(p − sym)` per axis -/
def reimage (sym p : V3) : V3 :=
  ⟨p.x - (rne (p.x - sym.x) : Rat), p.y - (rne (p.y - sym.y) : Rat), p.z - (rne (p.z - sym.z) : Rat)⟩

/-- `np.digitize(d, [0.5, −0.4999999]) − 1`: −1 for d ≥ 0.5, +1 for d < −0.4999999, else 0 -/
def offsetAsWas (d : Rat) : Rat := if 1/2 ≤ d then -1 else if d < -4999999/10000000 then 1 else 0

def reimageAsWas (sym p : V3) : V3 :=
  ⟨p.x + offsetAsWas (p.x - sym.x), p.y + offsetAsWas (p.y - sym.y), p.z + offsetAsWas (p.z - sym.z)⟩

/-- points collected for one operation (with its inverse): centred fractional vectors -/
def collectOp (G : Sym3) (rsq : Rat) (site : V3) (positions : List V3) (asWas : Bool) (op inv : Op) : List V3 :=
  let sym := op.apply site
  let close := positions.filter (fun p => decide (pbcDistSq G sym p < rsq))
  close.map (fun p => inv.apply (if asWas then reimageAsWas sym p else reimage sym p) - site)

def collect (G : Sym3) (rsq : Rat) (site : V3) (positions : List V3) (asWas : Bool) (ops : List (Op × Op)) : List V3 :=
  ops.flatMap (fun oi => collectOp G rsq site positions asWas oi.1 oi.2)

/-- number of (operation, position) pairs whose minimum-image distance to the moved site is below the radius -/
def countPairs (G : Sym3) (rsq : Rat) (site : V3) (positions : List V3) (ops : List (Op × Op)) : Nat :=
  (ops.map (fun oi => (positions.filter (fun p => decide (pbcDistSq G (oi.1.apply site) p < rsq))).length)).sum

/-- `np.mod(p, 1/s) · s` -/
def foldSupercell (s : Rat) (p : Rat) : Rat := (p - (((p * s).floor : Int) : Rat) / s) * s

end G.Shape
