import GModel.Basic
/-!
# GModel.Path — C10: free-energy graph, path validity, optimal costs

`free_energy_graph`: nodes = voxels with `0 ≤ E < threshold`; for every node and every move of
the table (`GGen.Moves`, regenerated from `path.py` on every run) the neighbour
`(node + move) % shape` is joined by an undirected edge of weight `½ (E_u + E_v)` when it is a
node too.  `bellmanFord` computes, in exact rationals, potentials from the start voxel for the
additive cost (`weight`), the step count (`simple`) and the bottleneck (`max` voxel energy);
`feasible` re-checks the potential edge by edge, so the optimality *certificate* theorem of
`GProofs/C10.lean` applies to whatever it returns.
-/
namespace G.Path

structure Grid where
  nx : Nat
  ny : Nat
  nz : Nat
  e  : Array Rat       -- C order
  thr : Rat
  diag : Bool

abbrev Vox := Int × Int × Int

def Grid.size (g : Grid) : Nat := g.nx * g.ny * g.nz

/-- the six face neighbours -/
def unit6 : List Vox := [(1,0,0), (-1,0,0), (0,1,0), (0,-1,0), (0,0,1), (0,0,-1)]

/-- all 26 face, edge and corner neighbours: the non-zero vectors of {−1,0,1}³ -/
def cube26 : List Vox :=
  ([-1, 0, 1].flatMap (fun (a : Int) => [-1, 0, 1].flatMap (fun (b : Int) => [-1, 0, 1].map (fun (c : Int) => (a, b, c))))).filter
    (fun v => v != (0, 0, 0))

/-- neighbour moves as the property defines them; `GProofs/C10.lean` carries the obligation that the
tables regenerated from `path.py` (`GGen.Moves`) are exactly these -/
def Grid.moves (g : Grid) : List Vox := if g.diag then cube26 else unit6

def Grid.inside (g : Grid) (v : Vox) : Bool :=
  decide (0 ≤ v.1) && decide (v.1 < g.nx) && decide (0 ≤ v.2.1) && decide (v.2.1 < g.ny) &&
  decide (0 ≤ v.2.2) && decide (v.2.2 < g.nz)

def Grid.idx (g : Grid) (v : Vox) : Nat := ((v.1.toNat * g.ny) + v.2.1.toNat) * g.nz + v.2.2.toNat

def Grid.vox (g : Grid) (k : Nat) : Vox :=
  (((k / g.nz) / g.ny : Nat), ((k / g.nz) % g.ny : Nat), (k % g.nz : Nat))

def Grid.energy (g : Grid) (v : Vox) : Rat := g.e.getD (g.idx v) 0

/-- `0 <= Fi < max_energy_threshold` -/
def Grid.isNode (g : Grid) (v : Vox) : Bool :=
  g.inside v && decide (0 ≤ g.energy v) && decide (g.energy v < g.thr)

/-- `(node + move) % data.shape` (Python's non-negative modulo) -/
def Grid.step (g : Grid) (v m : Vox) : Vox :=
  ((pmod (v.1 + m.1) g.nx : Nat), (pmod (v.2.1 + m.2.1) g.ny : Nat), (pmod (v.2.2 + m.2.2) g.nz : Nat))

/-- `u – v` is an edge of the graph -/
def Grid.adj (g : Grid) (u v : Vox) : Bool :=
  g.isNode u && g.isNode v && ((g.moves.any (fun m => g.step u m == v)) || (g.moves.any (fun m => g.step v m == u)))

def Grid.weight (g : Grid) (u v : Vox) : Rat := (g.energy u + g.energy v) / 2

/-- a list of voxels is a walk in the graph -/
def Grid.validPath (g : Grid) : List Vox → Bool
  | [] => false
  | [u] => g.isNode u
  | u :: v :: rest => g.adj u v && Grid.validPath g (v :: rest)

def Grid.edgeCost (g : Grid) : List Vox → Rat
  | u :: v :: rest => g.weight u v + Grid.edgeCost g (v :: rest)
  | _ => 0

def Grid.nodeSum (g : Grid) (p : List Vox) : Rat := (p.map g.energy).sum

def Grid.maxEnergy (g : Grid) (p : List Vox) : Rat :=
  match p with
  | [] => 0
  | u :: rest => rest.foldl (fun m v => max m (g.energy v)) (g.energy u)

/-- criterion: how a potential is extended along an edge `u → v` -/
inductive Crit where
  | sum | steps | bottleneck
deriving DecidableEq, Repr

def Grid.extend (g : Grid) (c : Crit) (du : Rat) (u v : Vox) : Rat :=
  match c with
  | .sum => du + g.weight u v
  | .steps => du + 1
  | .bottleneck => max du (g.energy v)

def Grid.initial (g : Grid) (c : Crit) (src : Vox) : Rat :=
  match c with
  | .bottleneck => g.energy src
  | _ => 0

/-- one relaxation sweep over all edges; returns the new potentials and whether anything changed -/
def Grid.sweep (g : Grid) (c : Crit) (d : Array (Option Rat)) : Array (Option Rat) × Bool := Id.run do
  let mut d := d
  let mut changed := false
  for k in [0:g.size] do
    match d.getD k none with
    | none => pure ()
    | some du =>
      let u := g.vox k
      for m in g.moves do
        let v := g.step u m
        if g.isNode v then
          let cand := g.extend c du u v
          let j := g.idx v
          match d.getD j none with
          | none => d := d.set! j (some cand); changed := true
          | some dv => if cand < dv then d := d.set! j (some cand); changed := true
  return (d, changed)

def Grid.iterate (g : Grid) (c : Crit) : Nat → Array (Option Rat) → Array (Option Rat) × Bool
  | 0, d => (d, false)
  | fuel + 1, d =>
    let (d', ch) := g.sweep c d
    if ch then Grid.iterate g c fuel d' else (d', true)

/-- potentials from `src` (`none` = unreachable) and whether a fixpoint was reached -/
def Grid.bellmanFord (g : Grid) (c : Crit) (src : Vox) : Array (Option Rat) × Bool :=
  if g.isNode src then
    let d0 : Array (Option Rat) := (Array.replicate g.size none).set! (g.idx src) (some (g.initial c src))
    g.iterate c (g.size + 2) d0
  else (Array.replicate g.size none, true)

/-- feasibility of a potential, checked edge by edge: `d v ≤ extend (d u) u v` whenever `d u` is
defined (then `d v` must be defined too) -/
def Grid.feasible (g : Grid) (c : Crit) (d : Array (Option Rat)) : Bool :=
  (List.range g.size).all (fun k =>
    match d.getD k none with
    | none => true
    | some du =>
      let u := g.vox k
      g.moves.all (fun m =>
        let v := g.step u m
        if g.isNode v then
          match d.getD (g.idx v) none with
          | none => false
          | some dv => decide (dv ≤ g.extend c du u v)
        else true))

/-- `Pathway.wrapped_sites` as intended: each coordinate modulo its own dimension -/
def wrapSite (dims : Nat × Nat × Nat) (v : Vox) : Vox :=
  ((pmod v.1 dims.1 : Nat), (pmod v.2.1 dims.2.1 : Nat), (pmod v.2.2 dims.2.2 : Nat))

/-- … and as originally written (defect D6): every coordinate modulo the x dimension -/
def wrapSiteXdim (dims : Nat × Nat × Nat) (v : Vox) : Vox :=
  ((pmod v.1 dims.1 : Nat), (pmod v.2.1 dims.1 : Nat), (pmod v.2.2 dims.1 : Nat))

/-- `frac_sites`: centre of the wrapped voxel -/
def fracSite (dims : Nat × Nat × Nat) (v : Vox) : V3 :=
  let w := wrapSite dims v
  ⟨((w.1 : Rat) + 1/2) / dims.1, ((w.2.1 : Rat) + 1/2) / dims.2.1, ((w.2.2 : Rat) + 1/2) / dims.2.2⟩

end G.Path
