import GModel.Basic
import GModel.Traj
/-!
# GModel.Fft — C06: what the FFT step of `mean_squared_displacement` computes

`np.fft.ifft(np.abs(np.fft.fft(x, n=pad)) ** 2)[k]` is the CYCLIC autocorrelation of `x` zero-padded to
length `pad` (the convolution theorem; that numpy's transforms implement it is validated numerically by the
check and stays trusted).  What is logic — and what goes wrong when the padding is changed — is whether
that cyclic sum equals the LINEAR sum `Σ_t x[t]·x[t+k]` the definition needs: it does exactly when
the wrapped-around terms hit the zero padding, `n + k ≤ pad`.
-/
namespace G.Fft
open G G.Traj

/-- the signal zero-padded (or truncated, as `np.fft.fft(x, n=pad)` does) to length `pad` -/
def padded (x : List Rat) (pad t : Nat) : Rat := if t < x.length ∧ t < pad then x.getD t 0 else 0

/-- cyclic autocorrelation of the padded signal at lag `k` -/
def cyclicAcorr (x : List Rat) (pad k : Nat) : Rat :=
  ((List.range pad).map (fun (t : Nat) => padded x pad t * padded x pad ((t + k) % pad))).sum

/-- linear autocorrelation sum at lag `k` -/
def linAcorr (x : List Rat) (k : Nat) : Rat :=
  ((List.range (x.length - k)).map (fun (t : Nat) => x.getD t 0 * x.getD (t + k) 0)).sum

/-- S2(m) as the code computes it: three cyclic autocorrelations (x, y, z tracks) / (N − m) -/
def s2Cyclic (r : List V3) (pad m : Nat) : Rat :=
  (cyclicAcorr (r.map (·.x)) pad m + cyclicAcorr (r.map (·.y)) pad m + cyclicAcorr (r.map (·.z)) pad m)
    / ((r.length - m : Nat) : Rat)

/-- `mean_squared_displacement` of one atom with the FFT step replaced by what it computes -/
def msdCode (r : List V3) (pad m : Nat) : Rat := s1 r m - 2 * s2Cyclic r pad m

end G.Fft
