import GModel.Basic
import GModel.Rdf
import GModel.Shape
/-! line-protocol operations for C11 -/
namespace G.Ops7
open G G.Rdf

def insertCount (c : Contribution) : List (Contribution × Nat) → List (Contribution × Nat)
  | [] => [(c, 1)]
  | (d, n) :: rest => if d = c then (d, n + 1) :: rest else (d, n) :: insertCount c rest

/-- `rdf lattice res nb symOf floating nframes {coords codes}…` → `code sym bin count` quadruples -/
def opRdf : Rd String := do
  let m ← rdM3
  let res ← rdRat
  let nb ← rdNat
  let symOf ← rdList rdNat
  let floating ← rdList rdNat
  let nframes ← rdNat
  let frames ← rdMany (do
      let cs ← rdMany rdV3 symOf.length
      let codes ← rdMany rdInt floating.length
      pure (cs, codes)) nframes
  let G := m.metric
  let all := frames.flatMap (fun f => frameContribs G res nb f.1 floating f.2 symOf)
  let agg := all.foldl (fun acc c => insertCount c acc) []
  pure ("ok " ++ " ".intercalate (agg.map (fun p => s!"{p.1.code} {p.1.sym} {p.1.bin} {p.2}")))

/-- `hist lattice res nb A B nframes coordsA coordsB …` → counts per left-closed bin, then number outside -/
def opHist : Rd String := do
  let m ← rdM3
  let res ← rdRat
  let nb ← rdNat
  let na ← rdNat
  let nbb ← rdNat
  let nframes ← rdNat
  let frames ← rdMany (do
      let a ← rdMany rdV3 na
      let b ← rdMany rdV3 nbb
      pure (a, b)) nframes
  let G := m.metric
  let bins := frames.flatMap (fun f => f.1.flatMap (fun p => f.2.map (fun q => binLeft res nb (pbcDistSq G p q))))
  let counts := (List.range (nb - 1)).map (fun (k : Nat) => (bins.filter (· == some k)).length)
  pure ("ok " ++ showNats counts ++ " | " ++ toString (bins.filter (· == none)).length)

/-- `uniq labelIdx states` → intended and as-was label indices -/
def opUniq : Rd String := do
  let li ← rdList rdInt
  let st ← rdList rdInt
  pure ("ok " ++ showInts (st.map (uniqify li)) ++ " | " ++ showInts (st.map (uniqifyAsWas li)))

def table : List (String × Rd String) := [("rdf", opRdf), ("hist", opHist), ("uniq", opUniq)]
end G.Ops7

namespace G.Ops7
open G G.Shape
def rdOp : Rd Op := do
  let a ← rdV3; let b ← rdV3; let c ← rdV3; let t ← rdV3
  pure ⟨a, b, c, t⟩

/-- `shape lattice rsq asWas site ops(op,inv) positions` → centred fractional points, then the squared
source distance of each point, then the pair count -/
def opShape : Rd String := do
  let m ← rdM3
  let rsq ← rdRat
  let asWas ← rdNat
  let site ← rdV3
  let ops ← rdList (do let o ← rdOp; let i ← rdOp; pure (o, i))
  let pos ← rdList rdV3
  let G := m.metric
  let pts := collect G rsq site pos (asWas != 0) ops
  let src := ops.flatMap (fun oi =>
    ((pos.filter (fun p => decide (pbcDistSq G (oi.1.apply site) p < rsq))).map (fun p => pbcDistSq G (oi.1.apply site) p)))
  pure ("ok " ++ showRats (pts.flatMap V3.toList) ++ " | " ++ showRats (pts.map G.Q) ++ " | " ++ showRats src ++ " | " ++
    toString (countPairs G rsq site pos ops))

/-- `fold s xs` -/
def opFold : Rd String := do
  let s ← rdRat
  let xs ← rdList rdRat
  pure ("ok " ++ showRats (xs.map (foldSupercell s)))

def table2 : List (String × Rd String) := [("shape", opShape), ("fold", opFold)]
end G.Ops7
