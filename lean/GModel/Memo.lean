import GModel.Basic
/-!
# GModel.Memo — C20: `weak_lru_cache` = `functools.lru_cache` over `weakref.ref(self)`

Objects have a unique identity `oid` and a *reusable* address.  A cache key is a
weak-reference object (`rid`, referent `oid`, hash fixed from the address when the
key was first hashed) plus the call arguments.  CPython semantics modelled:

* `weakref.ref(o)` returns the existing reference object of `o` while one is alive
  (here: while some cache key holds it), otherwise a fresh one;
* two reference objects are equal iff they are the same object, or both referents
  are alive and identical; a lookup compares hashes first;
* `lru_cache(maxsize)` keeps entries most-recent-first, a hit moves the entry to the
  front, a miss inserts at the front and evicts the oldest beyond `maxsize`;
* an object is alive while the user holds it or a cached *value* references it.

`f oid args` is the uncached method; `holds oid args` says which objects the
returned value keeps strong references to (`[]` for plain data, `[oid]` for a
result object that stores its creator, as `Jumps.collective()` does).
-/
namespace G.Memo

structure Ref where
  rid  : Nat
  oid  : Nat
  hash : Nat        -- address of the referent when the key was created
deriving Repr, DecidableEq, Inhabited

structure Entry where
  key   : Ref
  args  : Nat
  val   : Nat
  holds : List Nat
deriving Repr, DecidableEq, Inhabited

structure MState where
  nextRid : Nat
  held    : List (Nat × Nat)      -- objects the user still references: (oid, address)
  cache   : List Entry            -- most recently used first
  cap     : Nat
deriving Repr

def MState.init (cap : Nat) : MState := ⟨0, [], [], cap⟩

inductive Op where
  | new  (oid addr : Nat)
  | call (oid args : Nat)
  | drop (oid : Nat)
deriving Repr, DecidableEq

/-- alive: still referenced by the user, or by a cached value -/
def alive (s : MState) (oid : Nat) : Bool :=
  s.held.any (fun p => p.1 == oid) || s.cache.any (fun e => e.holds.contains oid)

def addrOf (s : MState) (oid : Nat) : Option Nat := (s.held.find? (fun p => p.1 == oid)).map (·.2)

/-- equality of weak-reference objects -/
def refEq (s : MState) (a b : Ref) : Bool :=
  a.rid == b.rid || (alive s a.oid && alive s b.oid && a.oid == b.oid)

/-- `weakref.ref(o)`: the canonical live reference object of `o`, or a fresh one -/
def refFor (s : MState) (oid addr : Nat) : Ref × Nat :=
  match s.cache.find? (fun e => e.key.oid == oid) with
  | some e => (e.key, s.nextRid)
  | none => (⟨s.nextRid, oid, addr⟩, s.nextRid + 1)

def keyMatch (s : MState) (r : Ref) (args : Nat) (e : Entry) : Bool :=
  e.args == args && e.key.hash == r.hash && refEq s e.key r

variable (f : Nat → Nat → Nat) (holds : Nat → Nat → List Nat)

/-- result of a call: new state, returned value, whether it was a cache hit;
`none` when the object is not held by the user (cannot be called) -/
def call (s : MState) (oid args : Nat) : Option (MState × Nat × Bool) :=
  match addrOf s oid with
  | none => none
  | some addr =>
    let (r, nr) := refFor s oid addr
    match s.cache.find? (keyMatch s r args) with
    | some e =>
      let rest := s.cache.filter (fun x => !(x == e))
      some ({ s with nextRid := nr, cache := e :: rest }, e.val, true)
    | none =>
      let e : Entry := ⟨r, args, f oid args, holds oid args⟩
      let c := (e :: s.cache).take s.cap
      some ({ s with nextRid := nr, cache := c }, e.val, false)

def step (s : MState) : Op → MState × Option (Nat × Bool)
  | .new oid addr => ({ s with held := (oid, addr) :: s.held }, none)
  | .drop oid => ({ s with held := s.held.filter (fun p => p.1 != oid) }, none)
  | .call oid args =>
    match call f holds s oid args with
    | some (s', v, h) => (s', some (v, h))
    | none => (s, none)

def runOps (s : MState) : List Op → MState × List (Option (Nat × Bool))
  | [] => (s, [])
  | op :: ops =>
    let (s', o) := step f holds s op
    let (s'', os) := runOps s' ops
    (s'', o :: os)

end G.Memo
