/-!
# GModel.Basic — shared executable definitions (core Lean only)

Exact arithmetic is core `Rat`.  Nothing here imports Mathlib, so the
compiled `driver` links.  Mathlib's `ℚ` is this very type, hence the
theorems in `GProofs` are about the definitions the driver executes.
-/

namespace G

/-- `np.mod(x, 1)` on exact values: `x − ⌊x⌋`. -/
def wrap (x : Rat) : Rat := x - (x.floor : Rat)

/-- `np.around` / `np.round` : round half to even. -/
def rne (x : Rat) : Int :=
  let f := x.floor
  let r := x - (f : Rat)
  if r < 1/2 then f
  else if 1/2 < r then f + 1
  else if f % 2 = 0 then f else f + 1

/-- one component of pymatgen's `to_displacements`: `d − round(d)`. -/
def minImg1 (d : Rat) : Rat := d - (rne d : Rat)

/-- `ndarray.astype(int)` on a finite value: truncation toward zero. -/
def truncZ (y : Rat) : Int := if 0 ≤ y then y.floor else -((-y).floor)

/-- `math.ceil` on an exact value. -/
def ceilZ (x : Rat) : Int := -((-x).floor)

/-- Python's `%` on integers with a positive modulus. -/
def pmod (a : Int) (n : Nat) : Nat := (a % (n : Int)).toNat

/-- Python negative-index normalisation: `some k` when `-n ≤ i < n`. -/
def pyIdx (i : Int) (n : Nat) : Option Nat :=
  if 0 ≤ i ∧ i < n then some i.toNat
  else if i < 0 ∧ -(n : Int) ≤ i then some (i + n).toNat
  else none

/-! ## 3-vectors and 3×3 matrices over `Rat` -/

structure V3 where
  x : Rat
  y : Rat
  z : Rat
deriving Repr, DecidableEq, Inhabited

namespace V3
def add (a b : V3) : V3 := ⟨a.x + b.x, a.y + b.y, a.z + b.z⟩
def sub (a b : V3) : V3 := ⟨a.x - b.x, a.y - b.y, a.z - b.z⟩
def neg (a : V3) : V3 := ⟨-a.x, -a.y, -a.z⟩
def smul (k : Rat) (a : V3) : V3 := ⟨k * a.x, k * a.y, k * a.z⟩
def map (f : Rat → Rat) (a : V3) : V3 := ⟨f a.x, f a.y, f a.z⟩
def dot (a b : V3) : Rat := a.x * b.x + a.y * b.y + a.z * b.z
def zero : V3 := ⟨0, 0, 0⟩
instance : Add V3 := ⟨add⟩
instance : Sub V3 := ⟨sub⟩
instance : Neg V3 := ⟨neg⟩
def toList (a : V3) : List Rat := [a.x, a.y, a.z]
end V3

/-- symmetric 3×3 matrix `[[a,b,c],[b,d,e],[c,e,g]]` (a metric tensor). -/
structure Sym3 where
  a : Rat
  b : Rat
  c : Rat
  d : Rat
  e : Rat
  g : Rat
deriving Repr, DecidableEq, Inhabited

/-- lattice matrix, rows are the lattice vectors (pymatgen convention). -/
structure M3 where
  r1 : V3
  r2 : V3
  r3 : V3
deriving Repr, DecidableEq, Inhabited

/-- metric tensor `M·Mᵀ`. -/
def M3.metric (m : M3) : Sym3 :=
  ⟨m.r1.dot m.r1, m.r1.dot m.r2, m.r1.dot m.r3, m.r2.dot m.r2, m.r2.dot m.r3, m.r3.dot m.r3⟩

/-- fractional → Cartesian: `v·M`. -/
def M3.cart (m : M3) (v : V3) : V3 :=
  ⟨v.x * m.r1.x + v.y * m.r2.x + v.z * m.r3.x,
   v.x * m.r1.y + v.y * m.r2.y + v.z * m.r3.y,
   v.x * m.r1.z + v.y * m.r2.z + v.z * m.r3.z⟩

/-- quadratic form `vᵀ G v` = squared Cartesian length of a fractional vector. -/
def Sym3.Q (G : Sym3) (v : V3) : Rat :=
  G.a * v.x^2 + G.d * v.y^2 + G.g * v.z^2
    + 2 * G.b * v.x * v.y + 2 * G.c * v.x * v.z + 2 * G.e * v.y * v.z

def Sym3.det (G : Sym3) : Rat :=
  G.a * G.d * G.g + 2 * G.b * G.e * G.c - G.c^2 * G.d - G.b^2 * G.g - G.a * G.e^2

/-- the three diagonal cofactors `adj(G)_ii`. -/
def Sym3.adj1 (G : Sym3) : Rat := G.d * G.g - G.e^2
def Sym3.adj2 (G : Sym3) : Rat := G.a * G.g - G.c^2
def Sym3.adj3 (G : Sym3) : Rat := G.a * G.d - G.b^2

def M3.det (m : M3) : Rat :=
  m.r1.x * (m.r2.y * m.r3.z - m.r2.z * m.r3.y)
  - m.r1.y * (m.r2.x * m.r3.z - m.r2.z * m.r3.x)
  + m.r1.z * (m.r2.x * m.r3.y - m.r2.y * m.r3.x)

/-! ## Certified minimum image

`boxMin G f K` is the minimum of `Q G (f + n)` over the integer box
`n ∈ [−K, K]³`.  `minImageSq` first reduces `f` to `[−½, ½]³`, then enlarges
`K` until the certificate `m · adj_ii ≤ (K+½)² · det G` (all `i`) holds;
`GProofs.Geometry.minImage_certified` shows that the certificate bounds
*every* image `n ∈ ℤ³`. -/

def intRange (K : Nat) : List Int :=
  (List.range (2 * K + 1)).map (fun (k : Nat) => (k : Int) - (K : Int))

def listMin : List Rat → Rat → Rat
  | [], m => m
  | x :: xs, m => listMin xs (if x < m then x else m)

def boxMin (G : Sym3) (f : V3) (K : Nat) : Rat :=
  let r := intRange K
  let vals := r.flatMap (fun (n1 : Int) => r.flatMap (fun (n2 : Int) => r.map (fun (n3 : Int) =>
    G.Q ⟨f.x + (n1 : Rat), f.y + (n2 : Rat), f.z + (n3 : Rat)⟩)))
  listMin vals (G.Q f)

def certOK (G : Sym3) (K : Nat) (m : Rat) : Bool :=
  let kk : Rat := ((K : Rat) + 1/2)^2 * G.det
  decide (m * G.adj1 ≤ kk) && decide (m * G.adj2 ≤ kk) && decide (m * G.adj3 ≤ kk)

/-- squared minimum-image length of the fractional vector `f` (already reduced to [−½, ½]³) under
metric `G`: enlarge the box until the certificate holds; `none` when `fuel` runs out before that
(never for the cells in the pools; the driver reports it as −1 and the harness rejects the case). -/
def minImageSqAux (G : Sym3) (f : V3) : Nat → Nat → Option Rat
  | 0, _ => none
  | fuel + 1, K =>
    let m := boxMin G f K
    if certOK G K m then some m else minImageSqAux G f fuel (K + 1)

def minImageSqCert (G : Sym3) (v : V3) : Option Rat :=
  minImageSqAux G (v.map minImg1) 8 1

def minImageSq (G : Sym3) (v : V3) : Rat :=
  match minImageSqCert G v with
  | some m => m
  | none => -1

/-- squared periodic distance between fractional points `a`, `b`. -/
def pbcDistSq (G : Sym3) (a b : V3) : Rat := minImageSq G (b - a)

/-! ## Token reader for the line protocol -/

abbrev Rd := StateT (List String) Option

def tok : Rd String := fun s => match s with
  | [] => none
  | t :: r => some (t, r)

def rdInt : Rd Int := do
  let t ← tok
  match t.toInt? with
  | some i => pure i
  | none => failure

def rdNat : Rd Nat := do
  let t ← tok
  match t.toNat? with
  | some i => pure i
  | none => failure

def parseRat (s : String) : Option Rat :=
  match s.splitOn "/" with
  | [n] => n.toInt?.map (fun (i : Int) => (i : Rat))
  | [n, d] => do
      let ni ← n.toInt?
      let di ← d.toNat?
      if di = 0 then none else some (mkRat ni di)
  | _ => none

def rdRat : Rd Rat := do
  let t ← tok
  match parseRat t with
  | some r => pure r
  | none => failure

def rdMany {α : Type} (p : Rd α) : Nat → Rd (List α)
  | 0 => pure []
  | n + 1 => do
    let a ← p
    let r ← rdMany p n
    pure (a :: r)

/-- counted list: `n x₁ … xₙ`. -/
def rdList {α : Type} (p : Rd α) : Rd (List α) := do
  let n ← rdNat
  rdMany p n

def rdV3 : Rd V3 := do
  let x ← rdRat
  let y ← rdRat
  let z ← rdRat
  pure ⟨x, y, z⟩

def rdM3 : Rd M3 := do
  let a ← rdV3
  let b ← rdV3
  let c ← rdV3
  pure ⟨a, b, c⟩

def showRat (r : Rat) : String :=
  if r.den = 1 then toString r.num else toString r.num ++ "/" ++ toString r.den

def showInts (l : List Int) : String := " ".intercalate (l.map toString)
def showNats (l : List Nat) : String := " ".intercalate (l.map toString)
def showRats (l : List Rat) : String := " ".intercalate (l.map showRat)

end G
