import GModel.Basic
import GModel.Rdf
/-!
# GModel.RdfNames — C11: the names of the per-state radial distributions

`rdf._get_states`: the table from the integer state code `i·10⁶ + j·10³ + k` (label indices of the
current / most recent / next site, −1 = none) to the key under which `radial_distribution` files the
counts: `@L` on a site with label `L`, `P->N` in transit from a `P` site to an `N` site, `~>…` when
one of the two is unknown.  Python's `unique_labels[-1]` (the LAST label) is what the code really
appends after `~>` when `j = −1`; the model keeps that.
`pooled` is `rdfs[state_str, symbol] += …`: all codes with the same name are added up.
-/
namespace G.RdfNames

/-- Python list indexing with a possibly negative index (−1 = last) -/
def pyGet (u : List String) (j : Int) : String :=
  if 0 ≤ j then u.getD j.toNat "" else u.getD (u.length - (-j).toNat) ""

/-- `_get_states`, one entry -/
def stateName (u : List String) (i j k : Int) : String :=
  if i ≠ -1 then "@" ++ pyGet u i
  else if j = -1 ∨ k = -1 then "~>" ++ pyGet u j
  else pyGet u j ++ "->" ++ pyGet u k

/-- the whole table in the order the code builds it: `(code, name)` -/
def table (u : List String) : List (Int × String) :=
  let r : List Int := (-1) :: (List.range u.length).map (fun (n : Nat) => (n : Int))
  r.flatMap (fun i => r.flatMap (fun j => r.map (fun k => (Rdf.stateCode i j k, stateName u i j k))))

/-- dict semantics: a later entry with the same key overwrites an earlier one -/
def lookup (tbl : List (Int × String)) (code : Int) : Option String :=
  tbl.foldl (fun acc e => if e.1 = code then some e.2 else acc) none

/-- counts filed under a name: the sum over all contributions whose code carries that name -/
def pooled (name : Int → String) (contribs : List (Int × Nat)) (key : String) : Nat :=
  ((contribs.filter (fun c => name c.1 == key)).map (·.2)).sum

end G.RdfNames
