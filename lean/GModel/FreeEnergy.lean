import GModel.Basic
/-!
# GModel.FreeEnergy — C09, executable twin in binary64

`Volume.get_free_energy`: `prob = data / data.sum()`, `F = −T · k_B · log(prob)`,
`np.nan_to_num` (so an unvisited voxel, `log 0 = −∞ ⇒ F = +∞`, becomes the largest finite
double).  The specification over ℝ and its theorems are in `GProofs/C09.lean`; `Float.log` is
opaque to proof, so this twin is only *compared* (relative 1e-12) with the implementation.
-/
namespace G.FreeEnergy

/-- `scipy.constants.physical_constants['Boltzmann constant in eV/K'][0]` -/
def kB : Float := 8.617333262145179e-05

/-- `np.nan_to_num(+inf)` -/
def big : Float := 1.7976931348623157e308

def ratToFloat (r : Rat) : Float := Float.ofInt r.num / Float.ofNat r.den

def freeEnergy (T : Float) (d : List Nat) : List Float :=
  let s : Float := Float.ofNat d.sum
  d.map (fun x =>
    if x = 0 then big
    else (-T * kB) * Float.log (Float.ofNat x / s))

/-- voxels that become graph nodes: `0 ≤ F < threshold` -/
def isNode (thr : Float) (f : Float) : Bool := 0.0 ≤ f && f < thr

end G.FreeEnergy
