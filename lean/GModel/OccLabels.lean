import GModel.Basic
import GModel.Counts
import GModel.Labels
/-!
# GModel.OccLabels — C05: occupancy per site and per site label

`Transitions.occupancy()`: site `k` gets (number of (frame, atom) entries of `states` equal to `k`) / (number of frames).
`atom_locations()`: per label, the sum of the occupancies of the sites with that label, over the number of diffusing atoms.
`occupancy_by_site_type()`: per label, the mean occupancy of the sites with that label.
Labels are listed in order of first occurrence (dict insertion order).
-/
namespace G.OccLabels
open G G.Counts

/-- occupancy of site `k` -/
def siteOcc (states : List Int) (nFrames : Nat) (k : Nat) : Rat := (occCount states (k : Int) : Rat) / (nFrames : Rat)

/-- site indices carrying label `a` -/
def sitesOf (labels : List String) (a : String) : List Nat := (List.range labels.length).filter (fun k => labels.getD k "" = a)

def labelKeys (labels : List String) : List String := labels.eraseDups

/-- `atom_locations()[a]` -/
def atomLocation (labels : List String) (states : List Int) (nFrames nFloat : Nat) (a : String) : Rat :=
  (((sitesOf labels a).map (siteOcc states nFrames)).sum) / (nFloat : Rat)

/-- `occupancy_by_site_type()[a]` -/
def occByType (labels : List String) (states : List Int) (nFrames : Nat) (a : String) : Rat :=
  (((sitesOf labels a).map (siteOcc states nFrames)).sum) / ((sitesOf labels a).length : Rat)

end G.OccLabels
