import GModel.Basic
/-!
# GModel.Events — C03: the transition-event table of one atom

`_calculate_transition_events` (src/gemdat/transitions.py) per atom:
change frames of the outer and of the inner history, their sorted union,
one row per frame.  `eventsAlgo` is the code as it stands after the `fix:`
commit (slice comparison + `np.union1d`); `Roll` keeps the original
`np.roll` formulation (with its `i2[-1]` `IndexError`) for the record.

`ffillAlgo` / `bfillAlgo` transcribe `utils.ffill` / `utils.bfill`
(`where` / `arange` / `maximum.accumulate` / fancy take).
-/

namespace G.Events

structure Event where
  t  : Nat
  s0 : Int
  s1 : Int
  i0 : Int
  i1 : Int
deriving Repr, DecidableEq, Inhabited

/-- frames `t` (offset by the start index) with `xs[t] ≠ xs[t+1]`:
`np.nonzero(x[1:] != x[:-1])`. -/
def changes : Nat → List Int → List Nat
  | t, a :: b :: rest => (if a ≠ b then [t] else []) ++ changes (t + 1) (b :: rest)
  | _, _ => []

/-- insert into an ascending duplicate-free list. -/
def ins (k : Nat) : List Nat → List Nat
  | [] => [k]
  | x :: xs => if k < x then k :: x :: xs else if k = x then x :: xs else x :: ins k xs

/-- `np.union1d` (sorted, duplicate-free union) of two ascending index lists. -/
def union (xs ys : List Nat) : List Nat := xs.foldr ins ys

/-- row construction: `atom_site[time]`, `atom_site[time+1]`, … -/
def rowAt (s i : List Int) (t : Nat) : Event :=
  ⟨t, s.getD t (-1), s.getD (t + 1) (-1), i.getD t (-1), i.getD (t + 1) (-1)⟩

/-- event rows of one atom as the (repaired) code builds them. -/
def eventsAlgo (s i : List Int) : List Event :=
  (union (changes 0 s) (changes 0 i)).map (rowAt s i)

/-- specification: walk both histories in lock-step, emit a row wherever
either differs between consecutive frames. -/
def eventsSpec : Nat → List Int → List Int → List Event
  | t, a :: b :: s, x :: y :: i =>
    (if a ≠ b ∨ x ≠ y then [⟨t, a, b, x, y⟩] else []) ++ eventsSpec (t + 1) (b :: s) (y :: i)
  | _, _, _ => []

/-- replay an atom's rows from its first-frame state: the state at frame `t`. -/
def replayAt (s0 i0 : Int) (rows : List Event) (t : Nat) : Int × Int :=
  rows.foldl (fun st e => if e.t < t then (e.s1, e.i1) else st) (s0, i0)

/-! ### The original `np.roll` formulation (kept for `GProofs.History`) -/
namespace Roll

def neqRollAux (h : Int) : List Int → List Bool
  | [] => []
  | [a] => [a != h]
  | a :: b :: r => (a != b) :: neqRollAux h (b :: r)

/-- `x != np.roll(x, -1)` -/
def neqRoll : List Int → List Bool
  | [] => []
  | h :: r => neqRollAux h (h :: r)

/-- `np.nonzero` with running index -/
def nonzeroFrom : Nat → List Bool → List Nat
  | _, [] => []
  | t, b :: bs => (if b then [t] else []) ++ nonzeroFrom (t + 1) bs

/-- "drop last event if it is on the last timestep"; `none` = `IndexError` on `[-1]` of an empty array -/
def dropWrap (T : Nat) (is : List Nat) : Option (List Nat) :=
  match is.getLast? with
  | none => none
  | some l => if l = T - 1 then some is.dropLast else some is

def changesAlgo (xs : List Int) : Option (List Nat) :=
  dropWrap xs.length (nonzeroFrom 0 (neqRoll xs))

inductive Res where
  | skip                       -- `continue`: no outer change
  | indexError                 -- `i2[-1]` on an empty array
  | rows (r : List Event)
deriving Repr

/-- one atom, as the code stood before the repair. -/
def eventsRoll (s i : List Int) : Res :=
  let i1 := nonzeroFrom 0 (neqRoll s)
  if i1.isEmpty then .skip else
  let i2 := nonzeroFrom 0 (neqRoll i)
  match dropWrap s.length i1, dropWrap i.length i2 with
  | some a, some b => .rows ((union a b).map (rowAt s i))
  | _, _ => .indexError

end Roll

/-! ### forward / backward fill -/

/-- `idx = where(arr != fill, arange, 0); maximum.accumulate(idx)` -/
def ffillIdx : Nat → Nat → List Int → List Nat
  | _, _, [] => []
  | t, m, x :: xs =>
    let i := if x ≠ -1 then t else 0
    let m' := max m i
    m' :: ffillIdx (t + 1) m' xs

/-- `arr[idx]` -/
def ffillAlgo (arr : List Int) : List Int :=
  (ffillIdx 0 0 arr).map (fun i => arr.getD i (-1))

/-- `fliplr ∘ ffill ∘ fliplr` -/
def bfillAlgo (arr : List Int) : List Int := (ffillAlgo arr.reverse).reverse

/-- specification of forward fill: carry the most recent non-`-1` value. -/
def ffillSpec : Int → List Int → List Int
  | _, [] => []
  | last, x :: xs => if x ≠ -1 then x :: ffillSpec x xs else last :: ffillSpec last xs

/-- specification of backward fill: the next non-`-1` value. -/
def bfillSpec : List Int → List Int
  | [] => []
  | x :: xs =>
    let r := bfillSpec xs
    (if x ≠ -1 then x else r.headD (-1)) :: r

end G.Events
