import GModel.Ops
import GModel.Ops2
namespace G
/-- run one protocol line -/
def runLine (tables : List (List (String × Rd String))) (line : String) : String :=
  match (line.splitOn " ").filter (· ≠ "") with
  | [] => "bad-op"
  | op :: args =>
    match (tables.flatten).lookup op with
    | none => "bad-op"
    | some p =>
      match p.run args with
      | some (out, []) => out
      | _ => "bad-op"

def allTables : List (List (String × Rd String)) := [Ops.table, Ops2.table]
end G
