import GModel.Ops
import GModel.Ops2
import GModel.Ops3
import GModel.Ops4
import GModel.Ops5
import GModel.Ops6
import GModel.Ops7
import GModel.Ops8
import GModel.Ops9
import GModel.Ops10
namespace G
/-- run one protocol line -/
def runLine (tables : List (List (String × Rd String))) (line : String) : String :=
  match (line.splitOn " ").filter (· ≠ "") with
  | [] => "bad-op"
  | op :: args =>
    match (tables.flatten).lookup op with
    | none => "bad-op"
    | some p =>
      match p.run args with
      | some (out, []) => out
      | _ => "bad-op"

def allTables : List (List (String × Rd String)) := [Ops.table, Ops2.table, Ops2.table2, Ops3.table, Ops4.table, Ops5.table, Ops5.table2, Ops6.table, Ops7.table, Ops7.table2, Ops8.table, Ops8.table2, Ops8.table3, Ops9.table, Ops10.table]
end G
