import GModel.Basic
/-!
# GModel.CacheFile — C16: the "try cache / except / re-parse / rewrite" loader

The loader state machine is parametric in
* `parse : Args → Val`  what parsing the source files with these arguments yields,
* `name  : Args → Nat`  the (default) cache file the arguments map to,
* a codec `encode : Val → Bytes`, `decode : Bytes → Option Val`.
`load` is the code path shared by `from_vasprun / from_lammps / from_gromacs`:
if the cache file exists try to decode it and return that; on ANY failure fall through,
parse the source and (re)write the whole cache file.  Faults model what an interrupted,
non-atomic write or a damaged disk leaves behind.
-/
namespace G.Cache

abbrev Bytes := List Nat
abbrev FS := List (Nat × Bytes)      -- cache files by name

def FS.get (fs : FS) (n : Nat) : Option Bytes := (fs.find? (fun p => p.1 == n)).map (·.2)
def FS.put (fs : FS) (n : Nat) (b : Bytes) : FS := (n, b) :: fs.filter (fun p => p.1 != n)
def FS.del (fs : FS) (n : Nat) : FS := fs.filter (fun p => p.1 != n)

structure Loader (Args Val : Type) where
  parse  : Args → Val
  name   : Args → Nat
  encode : Val → Bytes
  decode : Bytes → Option Val

variable {Args Val : Type}

/-- one call of a loader: (returned value, new file system, whether the cache was used) -/
def load (L : Loader Args Val) (fs : FS) (a : Args) : Val × FS × Bool :=
  match fs.get (L.name a) with
  | some b =>
    match L.decode b with
    | some v => (v, fs, true)
    | none => let v := L.parse a; (v, fs.put (L.name a) (L.encode v), false)
  | none => let v := L.parse a; (v, fs.put (L.name a) (L.encode v), false)

inductive Fault where
  | truncate (file : Nat) (keep : Nat)     -- an interrupted write: only a proper prefix reached the disk
  | garbage  (file : Nat) (content : Bytes) -- unreadable content
  | delete   (file : Nat)
deriving Repr

def applyFault (fs : FS) : Fault → FS
  | .truncate n k => match fs.get n with
      | some b => fs.put n (b.take k)
      | none => fs
  | .garbage n c => fs.put n c
  | .delete n => fs.del n

inductive Step (Args : Type) where
  | load (a : Args)
  | fault (f : Fault)

/-- run a history; returns the final file system and, for every load, (args, value, cache used) -/
def run (L : Loader Args Val) : FS → List (Step Args) → FS × List (Args × Val × Bool)
  | fs, [] => (fs, [])
  | fs, .load a :: rest =>
    let (v, fs', hit) := load L fs a
    let (fs'', outs) := run L fs' rest
    (fs'', (a, v, hit) :: outs)
  | fs, .fault f :: rest => run L (applyFault fs f) rest

/-! executable instance for the driver: values are numbers, the codec is length-prefixed
(`[len, payload…]`), hence prefix-free -/

def encodeNat (v : Nat) : Bytes := [3, v, v + 1, v + 2]
def decodeNat : Bytes → Option Nat
  | [3, a, b, c] => if b = a + 1 ∧ c = a + 2 then some a else none
  | _ => none

end G.Cache
