import GModel.Basic
/-!
# GModel.Volume — C08 (density volume) and C09 (free energy, executable twin)

`trajectory_to_volume`: per axis `n = ⌊L / resolution⌋` voxels, bin edges `k / n`
(`np.linspace(0, 1, n+1)[1:]`), `np.digitize(x, edges)` = number of edges ≤ x, counts by
`np.unique` + assignment.  `voxel_to_frac_coords`, `frac_coords_to_voxel`, `voxel_size`.
-/
namespace G.Volume

/-- `np.digitize(x, bins)` for increasing bins, right=False: number of bins ≤ x -/
def digitize (bins : List Rat) (x : Rat) : Nat := (bins.filter (fun b => decide (b ≤ x))).length

/-- `np.linspace(0, 1, n+1)[1:]` -/
def edges (n : Nat) : List Rat := (List.range n).map (fun (k : Nat) => ((k : Rat) + 1) / (n : Rat))

def voxOf (n : Nat) (x : Rat) : Nat := digitize (edges n) x

/-- largest `n ≤ fuel` with `(n · res)² ≤ Lsq`: `int(L // res)` for `L = √Lsq` -/
def nVoxAux (lsq res : Rat) : Nat → Nat
  | 0 => 0
  | k + 1 => if (((k + 1 : Nat) : Rat) * res) ^ 2 ≤ lsq then k + 1 else nVoxAux lsq res k

/-- the search starts at `⌊L²/res²⌋ + 1 ≥ L/res`, so nothing larger can qualify -/
def nVox (lsq res : Rat) : Nat := nVoxAux lsq res ((lsq / res ^ 2).floor.toNat + 1)

/-- voxel index triple of a fractional point -/
def voxel3 (nx ny nz : Nat) (p : V3) : Nat × Nat × Nat := (voxOf nx p.x, voxOf ny p.y, voxOf nz p.z)

/-- dense counts in C order (i major, k minor) -/
def counts (nx ny nz : Nat) (pts : List V3) : List Nat :=
  let idx := pts.map (voxel3 nx ny nz)
  (List.range nx).flatMap (fun (i : Nat) => (List.range ny).flatMap (fun (j : Nat) => (List.range nz).map (fun (k : Nat) =>
    (idx.filter (fun t => t == (i, j, k))).length)))

/-- `voxel_to_frac_coords`: centre of voxel `v` -/
def voxelToFrac (n : Nat) (v : Int) : Rat := ((v : Rat) + 1/2) / (n : Rat)

/-- `frac_coords_to_voxel`: `(x · n).astype(int)` (truncation toward zero) -/
def fracToVoxel (n : Nat) (x : Rat) : Int :=
  let y := x * (n : Rat)
  if 0 ≤ y then y.floor else -((-y).floor)

end G.Volume
