import GModel.Events
/-!
# GModel.Jumps — C04: the event → jump state machine of one atom

`step` transcribes one iteration of the loop body of
`_generic_transitions_to_jumps` (src/gemdat/jumps.py): block 1 decides the
pending `candidate_jump` (the only reader of `minimal_residence`), blocks 2–3
maintain `fromevent` and emit jumps / candidates.  `spec` is the definition the
property states: consecutive distinct entries of the visited-site sequence.
-/

namespace G.Jumps
open G.Events

structure Jump where
  o  : Int
  d  : Int
  t0 : Nat
  t1 : Nat
deriving Repr, DecidableEq, Inhabited

structure St where
  frm  : Option Event
  cand : Option Jump
  out  : List Jump
deriving Repr

def St.init : St := ⟨none, none, []⟩

/-- block 1: a pending candidate is committed once the atom has stayed
`minimal_residence` steps, dropped if it moved on too early. -/
def blk1 (mr : Int) (cand : Option Jump) (out : List Jump) (e : Event) : Option Jump × List Jump :=
  match cand with
  | some c =>
    if (e.t : Int) - (c.t0 : Int) ≥ mr then (none, out ++ [c])
    else if c.d ≠ e.s1 then (none, out)
    else (some c, out)
  | none => (none, out)

/-- blocks 2 + 3. -/
def blk23 (frm0 : Option Event) (cand : Option Jump) (out : List Jump) (e : Event) : St :=
  let frm := if e.s0 ≠ -1 ∧ e.s0 ≠ e.s1 then some e else frm0
  match frm with
  | none => ⟨none, cand, out⟩
  | some f =>
    if e.s1 = f.s0 then ⟨none, none, out⟩
    else if e.i1 ≠ -1 then ⟨none, none, out ++ [⟨f.s0, e.s1, f.t, e.t + 1⟩]⟩
    else if e.s1 ≠ f.s1 then ⟨none, some ⟨f.s0, e.s1, f.t, e.t + 1⟩, out⟩
    else ⟨some f, cand, out⟩

def step (mr : Int) (st : St) (e : Event) : St :=
  let p := blk1 mr st.cand st.out e
  blk23 st.frm p.1 p.2 e

def run (mr : Int) (st : St) (es : List Event) : St := es.foldl (step mr) st

/-- jumps of one atom from its event rows, including the final
`start site != destination site` filter. -/
def jumpsOfEvents (mr : Int) (es : List Event) : List Jump :=
  ((run mr St.init es).out).filter (fun j => j.o ≠ j.d)

/-- jumps of one atom from its outer / inner site histories. -/
def jumpsOfHistory (mr : Int) (s i : List Int) : List Jump :=
  jumpsOfEvents mr (eventsAlgo s i)

/-- specification: consecutive distinct entries of the visited-site sequence;
`last` = (most recent site visited, its last frame so far). -/
def spec : Option (Int × Nat) → Nat → List Int → List Jump
  | _, _, [] => []
  | last, t, x :: xs =>
    if x = -1 then spec last (t + 1) xs
    else match last with
      | some (l, tl) =>
        if l ≠ x then ⟨l, x, tl, t⟩ :: spec (some (x, t)) (t + 1) xs
        else spec (some (x, t)) (t + 1) xs
      | none => spec (some (x, t)) (t + 1) xs

def defaultJumps (s : List Int) : List Jump := spec none 0 s

end G.Jumps
