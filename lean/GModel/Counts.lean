import GModel.Basic
/-!
# GModel.Counts — C05: count matrices, occupancy, jump-diffusivity sum

`matrixAsIs` transcribes `_calculate_transitions_matrix`: the unique
(start, destination) pairs in `np.unique(axis=0)` (lexicographic) order, each
*assigned* (not accumulated) through numpy fancy indexing, which applies
Python's negative-index rule — so a row touching "no site" (−1) lands in the
last row/column and may be overwritten (defect D5, a known finding).
-/
namespace G.Counts

abbrev Pair := Int × Int

def pairLt (a b : Pair) : Bool := a.1 < b.1 || (a.1 == b.1 && a.2 < b.2)

def insPair (p : Pair) : List Pair → List Pair
  | [] => [p]
  | q :: qs => if pairLt p q then p :: q :: qs else if p = q then q :: qs else q :: insPair p qs

/-- `np.unique(pairs, axis=0)`: ascending, duplicate-free -/
def uniquePairs (rows : List Pair) : List Pair := rows.foldr insPair []

def countPair (rows : List Pair) (p : Pair) : Nat := (rows.filter (· = p)).length

abbrev Mat := List (List Nat)

def zeros (n : Nat) : Mat := List.replicate n (List.replicate n 0)

def setAt {α : Type} (l : List α) (k : Nat) (v : α) : List α := l.set k v

def Mat.set (m : Mat) (i j v : Nat) : Mat :=
  match m[i]? with
  | some row => List.set m i (List.set row j v)
  | none => m

def Mat.get (m : Mat) (i j : Nat) : Nat := (m.getD i []).getD j 0

/-- one fancy-index assignment; `none` = IndexError -/
def assign (n : Nat) (m : Mat) (p : Pair) (v : Nat) : Option Mat :=
  match pyIdx p.1 n, pyIdx p.2 n with
  | some i, some j => some (m.set i j v)
  | _, _ => none

/-- `_calculate_transitions_matrix` -/
def matrixAsIs (rows : List Pair) (n : Nat) : Option Mat :=
  (uniquePairs rows).foldl (fun acc p => acc.bind (fun m => assign n m p (countPair rows p))) (some (zeros n))

/-- what the property states: entry (i, j) = number of recorded moves i → j -/
def matrixSpec (rows : List Pair) (n : Nat) : Mat :=
  (List.range n).map (fun (i : Nat) => (List.range n).map (fun (j : Nat) => countPair rows ((i : Int), (j : Int))))

def Mat.sum (m : Mat) : Nat := (m.map List.sum).sum

/-- Σ_{ij} w(i,j) · M_{ij} -/
def weightedSum (w : Nat → Nat → Rat) (m : Mat) : Rat :=
  ((m.zipIdx).map (fun ri => ((ri.1.zipIdx).map (fun cj => w ri.2 cj.2 * (cj.1 : Rat))).sum)).sum

/-- number of (frame, atom) entries equal to site `k` -/
def occCount (states : List Int) (k : Int) : Nat := (states.filter (· = k)).length

end G.Counts
