import GModel.Basic
import GModel.Labels
/-! line-protocol operations: species selection (C13), label counter (C05), best peak (C10) -/
namespace G.Ops9
open G G.Labels G.Counts

def rdStr : Rd String := tok

def showBools (l : List Bool) : String := " ".intercalate (l.map (fun b => if b then "1" else "0"))

/-- `selmask fixed|floating n names… m species…` → one 0/1 per atom -/
def opSelMask : Rd String := do
  let mode ← tok
  let names ← rdList rdStr
  let species ← rdList rdStr
  match mode with
  | "fixed" => pure ("ok " ++ showBools (fixedMask names species))
  | "floating" => pure ("ok " ++ showBools (floatingMask names species))
  | "others" => pure ("ok " ++ " ".intercalate (others names species))
  | _ => failure

def rdPair : Rd Pair := do
  let a ← rdInt
  let b ← rdInt
  pure (a, b)

/-- `labelcounter n labels… k rows…` → `a b count` triples in order of first occurrence -/
def opLabelCounter : Rd String := do
  let labels ← rdList rdStr
  let rows ← rdList rdPair
  pure ("ok " ++ " ".intercalate ((counter labels rows).map (fun e => e.1.1 ++ " " ++ e.1.2 ++ " " ++ toString e.2)))

/-- `ratemean nparts counts… nfloat parttime` -/
def opRateMean : Rd String := do
  let counts ← rdList rdNat
  let nf ← rdNat
  let pt ← rdRat
  if nf = 0 ∨ pt = 0 ∨ counts = [] then failure
  pure ("ok " ++ showRat (rateMean counts nf pt))

def rdOptRat : Rd (Option Rat) := do
  let t ← tok
  if t = "none" then pure none
  else match parseRat t with
    | some r => pure (some r)
    | none => failure

/-- `bestpeak n cost|none …` → `none` or `index cost` -/
def opBestPeak : Rd String := do
  let costs ← rdList rdOptRat
  match bestPeak costs with
  | none => pure "ok none"
  | some (k, c) => pure ("ok " ++ toString k ++ " " ++ showRat c)

def table : List (String × Rd String) :=
  [("selmask", opSelMask), ("labelcounter", opLabelCounter), ("ratemean", opRateMean), ("bestpeak", opBestPeak)]

end G.Ops9
