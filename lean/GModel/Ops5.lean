import GModel.Basic
import GModel.Volume
import GModel.FreeEnergy
/-! line-protocol operations for C08 -/
namespace G.Ops5
open G G.Volume

/-- `volume nx ny nz pts` -/
def opVolume : Rd String := do
  let nx ← rdNat; let ny ← rdNat; let nz ← rdNat
  let pts ← rdList rdV3
  pure ("ok " ++ showNats (counts nx ny nz pts))

/-- `nvox Lsq res` -/
def opNVox : Rd String := do
  let lsq ← rdRat; let res ← rdRat
  pure ("ok " ++ toString (nVox lsq res))

/-- `voxof n x…` -/
def opVoxOf : Rd String := do
  let n ← rdNat
  let xs ← rdList rdRat
  pure ("ok " ++ showNats (xs.map (voxOf n)))

/-- `roundtrip n` : is `fracToVoxel (voxelToFrac v) = v` for all v < n (1/0) -/
def opRoundTrip : Rd String := do
  let n ← rdNat
  let ok := (List.range n).all (fun (v : Nat) => fracToVoxel n (voxelToFrac n v) == (v : Int))
  pure ("ok " ++ (if ok then "1" else "0"))

def table : List (String × Rd String) := [
  ("volume", opVolume), ("nvox", opNVox), ("voxof", opVoxOf), ("roundtrip", opRoundTrip)]
end G.Ops5

namespace G.Ops5
open G G.FreeEnergy
/-- `fe T thr d…` → bit patterns of F per voxel, then node flags -/
def opFe : Rd String := do
  let t ← rdRat
  let thr ← rdRat
  let d ← rdList rdNat
  let f := freeEnergy (ratToFloat t) d
  let bits := f.map (fun x => toString x.toBits.toNat)
  let nodes := f.map (fun x => if isNode (ratToFloat thr) x then "1" else "0")
  pure (" ".intercalate (["ok"] ++ bits ++ ["|"] ++ nodes))
def table2 : List (String × Rd String) := [("fe", opFe)]
end G.Ops5
