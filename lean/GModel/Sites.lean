import GModel.Basic
/-!
# GModel.Sites — C02: site assignment by true minimum-image distance

`within G r s x` : the atom at fractional `x` is inside the sphere of radius `r` around the site
at fractional `s`, under the certified minimum-image distance of the cell with metric `G`.
`assign` gives the index of the first site in range, or −1 ("no site"); with disjoint spheres
(which `_compute_site_radius` guarantees for the automatic radius) at most one site is in range.
`integerRemap` models `utils.integer_remap` with an explicit palette (history of defect D3).
-/
namespace G.Sites

def within (G : Sym3) (r : Rat) (s x : V3) : Bool := decide (pbcDistSq G s x < r ^ 2)

/-- index of the first site whose (own) radius covers `x`, else −1 -/
def assignFrom (G : Sym3) (frac : Rat) : Nat → List (V3 × Rat) → V3 → Int
  | _, [], _ => -1
  | k, (s, r) :: rest, x => if within G (r * frac) s x then (k : Int) else assignFrom G frac (k + 1) rest x

def assign (G : Sym3) (frac : Rat) (sites : List (V3 × Rat)) (x : V3) : Int := assignFrom G frac 0 sites x

/-- all sites in range (for the overlap stream: the assigned site must be one of them) -/
def inRange (G : Sym3) (frac : Rat) (sites : List (V3 × Rat)) (x : V3) : List Nat :=
  ((sites.zipIdx).filter (fun p => within G (p.1.2 * frac) p.1.1 x)).map (·.2)

/-- smallest squared minimum-image distance between two different sites -/
def minPairSq (G : Sym3) (sites : List V3) : Option Rat :=
  let ds := (sites.zipIdx).flatMap (fun a => (sites.zipIdx).filterMap (fun b =>
    if a.2 < b.2 then some (pbcDistSq G a.1 b.1) else none))
  match ds with
  | [] => none
  | d :: rest => some (listMin rest d)

/-- `np.digitize(a, palette, right=True)`: number of palette entries strictly below `a` -/
def digitizeRight (palette : List Int) (a : Int) : Nat := (palette.filter (· < a)).length

/-- `integer_remap(a, key, palette)` : `key[digitize(a, palette, right=True)]` -/
def integerRemap (key palette : List Int) (a : Int) : Option Int := key[digitizeRight palette a]?

end G.Sites
