import GModel.Basic
import GModel.Path
/-! line-protocol operations for C10 -/
namespace G.Ops6
open G G.Path

def rdVox : Rd Vox := do
  let a ← rdInt; let b ← rdInt; let c ← rdInt; pure (a, b, c)

def rdGrid : Rd Grid := do
  let nx ← rdNat; let ny ← rdNat; let nz ← rdNat
  let thr ← rdRat
  let diag ← rdNat
  let e ← rdMany rdRat (nx * ny * nz)
  pure ⟨nx, ny, nz, e.toArray, thr, diag != 0⟩

def showOpt (o : Option Rat) : String := match o with | some r => showRat r | none => "none"

/-- `optimum grid src dst` → optimal additive cost, step count, bottleneck, each with a
certificate flag (fixpoint reached and potential re-checked feasible) -/
def opOptimum : Rd String := do
  let g ← rdGrid
  let src ← rdVox
  let dst ← rdVox
  let one (c : Crit) : String :=
    let (d, fix) := g.bellmanFord c src
    let ok := fix && g.feasible c d
    let v := if g.inside dst then d.getD (g.idx dst) none else none
    showOpt v ++ " " ++ (if ok then "1" else "0")
  pure ("ok " ++ one .sum ++ " " ++ one .steps ++ " " ++ one .bottleneck)

/-- `pathcheck grid path` → valid? edge-cost node-sum max-energy -/
def opPathCheck : Rd String := do
  let g ← rdGrid
  let p ← rdList rdVox
  pure ("ok " ++ (if g.validPath p then "1" else "0") ++ " " ++ showRat (g.edgeCost p) ++ " " ++
    showRat (g.nodeSum p) ++ " " ++ showRat (g.maxEnergy p))

/-- `nodes grid` → node flags in C order; `edges grid` → number of undirected edges incl. self loops -/
def opNodes : Rd String := do
  let g ← rdGrid
  pure ("ok " ++ " ".intercalate ((List.range g.size).map (fun k => if g.isNode (g.vox k) then "1" else "0")))

def opWrap : Rd String := do
  let dx ← rdNat; let dy ← rdNat; let dz ← rdNat
  let p ← rdList rdVox
  let w := p.map (wrapSite (dx, dy, dz))
  let f := p.map (fracSite (dx, dy, dz))
  pure ("ok " ++ " ".intercalate (w.map (fun v => s!"{v.1} {v.2.1} {v.2.2}")) ++ " | " ++ showRats (f.flatMap V3.toList))

def table : List (String × Rd String) := [
  ("optimum", opOptimum), ("pathcheck", opPathCheck), ("nodes", opNodes), ("wrap", opWrap)]
end G.Ops6
