import GModel.Basic
import GModel.Orient
import GModel.FreeEnergy
import GModel.CacheFile
import GModel.Metrics
/-! line-protocol operations for C18 -/
namespace G.Ops8
open G G.Orient

def rdMat : Rd Mat := do
  let a ← rdV3; let b ← rdV3; let c ← rdV3; pure ⟨a, b, c⟩

/-- `orient lattice ncent nsat nframes {cent… sat…}…` → bonds (c, s pairs), then per frame the fractional
direction vectors, then per frame the squared lengths, then the squared certified distances -/
def opOrient : Rd String := do
  let m ← rdM3
  let nc ← rdNat
  let ns ← rdNat
  let nf ← rdNat
  let frames ← rdMany (do
      let c ← rdMany rdV3 nc
      let s ← rdMany rdV3 ns
      pure (c, s)) nf
  let G := m.metric
  match frames with
  | [] => pure "ok"
  | (c0, s0) :: _ =>
    let wrapped0c := c0.map (·.map wrap)
    let wrapped0s := s0.map (·.map wrap)
    let d0 := wrapped0c.map (fun c => wrapped0s.map (fun s => pbcDistSq G c s))
    let minSq := listMin d0.flatten (d0.flatten.headD 0)
    let bonds : List (Nat × Nat) := (d0.zipIdx).flatMap (fun row => (matching row.1 minSq).map (fun j => (row.2, j)))
    let dirs := frames.map (fun f => bonds.map (fun b =>
      direction ((f.1.getD b.1 V3.zero).map wrap) ((f.2.getD b.2 V3.zero).map wrap)))
    let lens := dirs.map (fun fr => fr.map G.Q)
    let cert := frames.map (fun f => bonds.map (fun b => pbcDistSq G (f.1.getD b.1 V3.zero) (f.2.getD b.2 V3.zero)))
    pure ("ok " ++ showNats (bonds.flatMap (fun b => [b.1, b.2])) ++ " | " ++ showRats (dirs.flatten.flatMap V3.toList) ++ " | " ++
      showRats lens.flatten ++ " | " ++ showRats cert.flatten)

/-- `symm nops ops nv vs` -/
def opSymm : Rd String := do
  let ops ← rdList rdMat
  let vs ← rdList rdV3
  pure ("ok " ++ showRats ((symmetrize ops vs).flatMap V3.toList))

def opTransform : Rd String := do
  let m ← rdMat
  let vs ← rdList rdV3
  pure ("ok " ++ showRats ((transform m vs).flatMap V3.toList))

/-- `acorr nt vs` → definition (rationals) -/
def opAcorr : Rd String := do
  let vs ← rdList rdV3
  pure ("ok " ++ showRats (autocorrDef vs))

/-- `acorr-asis nt vs` → as-is binary64 twin (bit patterns) -/
def opAcorrAsIs : Rd String := do
  let vs ← rdList rdV3
  let f := FreeEnergy.ratToFloat
  let r := autocorrAsIs (vs.map (fun v => f v.x)) (vs.map (fun v => f v.y)) (vs.map (fun v => f v.z))
  pure ("ok " ++ " ".intercalate (r.map (fun x => toString x.toBits.toNat)))

def table : List (String × Rd String) := [
  ("orient", opOrient), ("symm", opSymm), ("transform", opTransform), ("acorr", opAcorr), ("acorr-asis", opAcorrAsIs)]
end G.Ops8

namespace G.Ops8
open G G.Cache
/-- step tokens: `l args` | `t file keep` | `g file` | `d file`; args are numbers, `name a = a / 10`
(arguments 10f .. 10f+9 share cache file f only if they also parse equal: `parse a = a / 10`; an
un-keyed option is modelled by `parse a = a`, selected by the leading flag) -/
def rdStep : Rd (Step Nat) := do
  let t ← tok
  match t with
  | "l" => do let a ← rdNat; pure (.load a)
  | "t" => do let f ← rdNat; let k ← rdNat; pure (.fault (.truncate f k))
  | "g" => do let f ← rdNat; pure (.fault (.garbage f [9, 9]))
  | "d" => do let f ← rdNat; pure (.fault (.delete f))
  | _ => failure

/-- `cache keyedflag steps` → per load `value:hit`, then the sorted list of complete cache files -/
def opCache : Rd String := do
  let keyed ← rdNat
  let steps ← rdList rdStep
  let L : Loader Nat Nat := ⟨(fun a => if keyed = 1 then a / 10 else a), (fun a => a / 10), encodeNat, decodeNat⟩
  let (fs, outs) := run L [] steps
  let good := (fs.filter (fun p => (decodeNat p.2).isSome)).map (·.1)
  pure ("ok " ++ " ".intercalate (outs.map (fun o => s!"{o.2.1}:{if o.2.2 then 1 else 0}")) ++ " | " ++ showNats good)
def table2 : List (String × Rd String) := [("cache", opCache)]
end G.Ops8

namespace G.Ops8
open G G.Metrics
/-- `amps speeds` -/
def opAmps : Rd String := do
  let sp ← rdList rdRat
  pure ("ok " ++ showRats (amplitudes sp))
/-- `latinfo lattice` → det(M) and the metric determinant -/
def opLatInfo : Rd String := do
  let m ← rdM3
  pure ("ok " ++ showRat m.det ++ " " ++ showRat m.metric.det)
def table3 : List (String × Rd String) := [("amps", opAmps), ("latinfo", opLatInfo)]
end G.Ops8
