import GModel.Basic
import GModel.Events
import GModel.Jumps
/-!
# GModel.Ops — line protocol: one operation per line in, one result line out.

`ok …` carries the canonical result tokens, `err <kind>` an error the
implementation is expected to raise as well, `bad-op` an unparsable line.
-/
namespace G.Ops
open G G.Events G.Jumps

def showEvent (e : Event) : String :=
  s!"{e.t} {e.s0} {e.s1} {e.i0} {e.i1}"
def showEvents (es : List Event) : String :=
  " ".intercalate (toString es.length :: es.map showEvent)
def showJump (j : Jump) : String := s!"{j.o} {j.d} {j.t0} {j.t1}"
def showJumps (js : List Jump) : String :=
  " ".intercalate (toString js.length :: js.map showJump)

def rdEvent : Rd Event := do
  let t ← rdNat; let s0 ← rdInt; let s1 ← rdInt; let i0 ← rdInt; let i1 ← rdInt
  pure ⟨t, s0, s1, i0, i1⟩

/-- `events s i` -/
def opEvents : Rd String := do
  let s ← rdList rdInt
  let i ← rdList rdInt
  pure ("ok " ++ showEvents (eventsAlgo s i))

def opEventsSpec : Rd String := do
  let s ← rdList rdInt
  let i ← rdList rdInt
  pure ("ok " ++ showEvents (eventsSpec 0 s i))

def opEventsRoll : Rd String := do
  let s ← rdList rdInt
  let i ← rdList rdInt
  pure (match Roll.eventsRoll s i with
    | .skip => "ok skip"
    | .indexError => "err index-error"
    | .rows r => "ok " ++ showEvents r)

def opFfill : Rd String := do
  let s ← rdList rdInt
  pure ("ok " ++ showInts (ffillAlgo s))
def opBfill : Rd String := do
  let s ← rdList rdInt
  pure ("ok " ++ showInts (bfillAlgo s))
def opFfillSpec : Rd String := do
  let s ← rdList rdInt
  pure ("ok " ++ showInts (ffillSpec (-1) s))
def opBfillSpec : Rd String := do
  let s ← rdList rdInt
  pure ("ok " ++ showInts (bfillSpec s))

/-- `jumps mr s i` -/
def opJumps : Rd String := do
  let mr ← rdInt
  let s ← rdList rdInt
  let i ← rdList rdInt
  pure ("ok " ++ showJumps (jumpsOfHistory mr s i))

/-- `jumpsev mr events` : the machine on an arbitrary event list -/
def opJumpsEv : Rd String := do
  let mr ← rdInt
  let es ← rdList rdEvent
  pure ("ok " ++ showJumps (jumpsOfEvents mr es))

def opJumpsSpec : Rd String := do
  let s ← rdList rdInt
  pure ("ok " ++ showJumps (defaultJumps s))

def table : List (String × Rd String) := [
  ("events", opEvents), ("events-spec", opEventsSpec), ("events-roll", opEventsRoll),
  ("ffill", opFfill), ("bfill", opBfill), ("ffill-spec", opFfillSpec), ("bfill-spec", opBfillSpec),
  ("jumps", opJumps), ("jumps-ev", opJumpsEv), ("jumps-spec", opJumpsSpec)
]

end G.Ops
