import GModel.Basic
import GModel.Counts
/-!
# GModel.Labels — species selection (C13), per-label counters and rates (C05), choice of the best peak (C10)

Executable, core Lean only.
-/
namespace G.Labels
open G G.Counts

/-! ## species selection of `Trajectory.drift` (C13)

`fixed_species=names` selects the atoms whose symbol is one of `names`; `floating_species=names` selects the atoms
whose symbol is NOT one of `names` (whole-symbol comparison, never substring). -/

def fixedMask (names species : List String) : List Bool := species.map (fun s => names.contains s)

def floatingMask (names species : List String) : List Bool := species.map (fun s => !names.contains s)

/-- the symbols of all other species -/
def others (names species : List String) : List String := species.filter (fun s => !names.contains s)

/-! ## per-label jump counter and rates (C05) -/

/-- label of a site index (`""` for an index outside the table, never produced for valid rows) -/
def labelOf (labels : List String) (i : Int) : String :=
  if 0 ≤ i then labels.getD i.toNat "" else ""

def labelPair (labels : List String) (p : Pair) : String × String := (labelOf labels p.1, labelOf labels p.2)

/-- `Jumps.counter()[a, b]`: number of jump rows whose origin site is labelled `a` and destination site `b` -/
def counterGet (labels : List String) (rows : List Pair) (a b : String) : Nat :=
  (rows.filter (fun p => labelPair labels p = (a, b))).length

/-- the distinct label pairs that occur, in order of first occurrence -/
def keys (labels : List String) (rows : List Pair) : List (String × String) :=
  (rows.map (labelPair labels)).eraseDups

def counter (labels : List String) (rows : List Pair) : List ((String × String) × Nat) :=
  (keys labels rows).map (fun k => (k, counterGet labels rows k.1 k.2))

/-- `Jumps.rates`: mean over the time parts of (count / (number of floating atoms × duration of a part)) -/
def rateMean (counts : List Nat) (nFloat : Nat) (partTime : Rat) : Rat :=
  ((counts.map (fun (c : Nat) => (c : Rat) / ((nFloat : Rat) * partTime))).sum) / (counts.length : Rat)

/-! ## `optimal_percolating_path`: scan over the supplied peaks (C10)

`costs[k]` is `none` when peak `k` has no percolating path (the loop `continue`s) and `some c` otherwise; the scan keeps
the first peak of strictly smallest cost. -/

def bestStep (acc : Option (Nat × Rat)) (kc : Nat × Option Rat) : Option (Nat × Rat) :=
  match kc.2 with
  | none => acc
  | some c =>
    match acc with
    | none => some (kc.1, c)
    | some (k, b) => if c < b then some (kc.1, c) else some (k, b)

def bestPeakFrom (acc : Option (Nat × Rat)) (costs : List (Nat × Option Rat)) : Option (Nat × Rat) :=
  costs.foldl bestStep acc

def bestPeak (costs : List (Option Rat)) : Option (Nat × Rat) :=
  bestPeakFrom none ((List.range costs.length).zip costs)

end G.Labels
