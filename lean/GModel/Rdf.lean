import GModel.Basic
/-!
# GModel.Rdf — C11: radial distributions as brute-force histograms

`radial_distribution`: per frame all minimum-image distances from the floating atoms to ALL atoms,
`np.digitize(d, bins, right=True)` with `bins = k·resolution` (k < nb): the bin of a distance is
the least `k` with `d ≤ k·res`, and `nb` (overflow, dropped at the end) when there is none; counts
are accumulated per (state of the floating atom, symbol of the other atom).
`radial_distribution_between_species`: `np.histogram` (left-closed bins, last one closed).
State codes: `i·10⁶ + j·10³ + k` from the label indices of the current / previous / next site.
-/
namespace G.Rdf

/-- `digitize(√dsq, [0, res, 2res, …, (nb−1)res], right=True)` on squared distances -/
def binRightAux (res dsq : Rat) (nb : Nat) : Nat → Nat
  | 0 => nb
  | fuel + 1 =>
    let k := nb - (fuel + 1)
    if dsq ≤ ((k : Rat) * res) ^ 2 then k else binRightAux res dsq nb fuel

def binRight (res : Rat) (nb : Nat) (dsq : Rat) : Nat := binRightAux res dsq nb nb

/-- `np.histogram(√dsq, bins=[0, res, …, (nb−1)res])`: bin index or `none` (outside the range) -/
def binLeft (res : Rat) (nb : Nat) (dsq : Rat) : Option Nat :=
  if nb < 2 then none else
  if dsq = (((nb - 1 : Nat) : Rat) * res) ^ 2 then some (nb - 2) else
  match (List.range (nb - 1)).find? (fun (k : Nat) => decide (((k : Rat) * res) ^ 2 ≤ dsq) && decide (dsq < (((k + 1 : Nat) : Rat) * res) ^ 2)) with
  | some k => some k
  | none => none

/-- label index of a site state: `mapping = [-1] ++ labelIdx`, intended lookup `mapping[state + 1]` -/
def uniqify (labelIdx : List Int) (state : Int) : Int :=
  if state < 0 then -1 else labelIdx.getD state.toNat (-1)

/-- as originally written (defect D8): `mapping[digitize(state, arange(n), right=True)]`, which is
`mapping[state]` for `state ≥ 0` — the label of the PREVIOUS site index, "none" for site 0 -/
def uniqifyAsWas (labelIdx : List Int) (state : Int) : Int :=
  if state ≤ 0 then -1 else labelIdx.getD (state.toNat - 1) (-1)

/-- `states·10⁶ + states_prev·10³ + states_next` -/
def stateCode (i j k : Int) : Int := i * 1000000 + j * 1000 + k

structure Contribution where
  code : Int
  sym  : Nat
  bin  : Nat
deriving DecidableEq, Repr

/-- all (frame, floating atom, other atom) contributions of one frame -/
def frameContribs (G : Sym3) (res : Rat) (nb : Nat) (coords : List V3) (floating : List Nat)
    (codes : List Int) (symOf : List Nat) : List Contribution :=
  (floating.zip codes).flatMap (fun fc =>
    (coords.zip symOf).map (fun cs =>
      ⟨fc.2, cs.2, binRight res nb (pbcDistSq G (coords.getD fc.1 V3.zero) cs.1)⟩))

end G.Rdf
