import GModel.Basic
/-!
# GModel.Metrics — C14: derived metrics

* `amplitudes`  `TrajectoryMetrics.amplitudes` for one atom: the speed series (successive
  differences of the distance from the start, first entry = first distance) is cut where its
  sign changes (`np.sign`, `np.roll`, `np.array_split(speed, splits[1:-1] + 1)`) and each piece summed
* `speedOf`     `np.diff(distances, prepend=0)`
* scaling: `M3.scale`, used by the theorems on density / diffusivity scaling
* `weightedMean` the algebra of `utils.meanfreq` over an abstract non-negative spectrum
-/
namespace G.Metrics

def sgn (x : Rat) : Int := if 0 < x then 1 else if x < 0 then -1 else 0

/-- `np.diff(d, prepend=0)` -/
def speedOf : Rat → List Rat → List Rat
  | _, [] => []
  | prev, d :: ds => (d - prev) :: speedOf d ds

/-- indices `t` with `sign[t] ≠ sign[(t+1) % n]` -/
def flips (signs : List Int) : List Nat :=
  let n := signs.length
  (List.range n).filter (fun t => signs.getD t 0 != signs.getD ((t + 1) % n) 0)

/-- `splits[1:-1] + 1` -/
def cutPoints (fl : List Nat) : List Nat := ((fl.drop 1).dropLast).map (· + 1)

/-- `np.array_split(arr, indices)`: pieces `[0:i₁], [i₁:i₂], …, [i_k:]` for ascending indices -/
def splitAt (arr : List Rat) : Nat → List Nat → List (List Rat)
  | _, [] => [arr]
  | off, i :: is => arr.take (i - off) :: splitAt (arr.drop (i - off)) i is

def amplitudes (speed : List Rat) : List Rat :=
  (splitAt speed 0 (cutPoints (flips (speed.map sgn)))).map List.sum

def M3.scale (k : Rat) (m : M3) : M3 := ⟨V3.smul k m.r1, V3.smul k m.r2, V3.smul k m.r3⟩

/-- `Σ f_i P_i / Σ P_i` -/
def weightedMean (f p : List Rat) : Rat := (List.zipWith (· * ·) f p).sum / p.sum

/-- mass-weighted mean of per-atom coordinates (one scalar component) -/
def massMean (w x : List Rat) : Rat := (List.zipWith (· * ·) w x).sum / w.sum

end G.Metrics
