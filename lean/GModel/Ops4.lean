import GModel.Basic
import GModel.Traj
/-! line-protocol operations for C01, C06, C13, C15: scenarios on trajectory objects -/
namespace G.Ops4
open G G.Traj

def rdFrame (n : Nat) : Rd Frame := rdMany rdRat n

/-- object: `T A` then `T·3A` coordinates -/
def rdObj : Rd TState := do
  let t ← rdNat
  let a ← rdNat
  let fs ← rdMany (rdFrame (3 * a)) t
  pure (fresh fs)

def rdOptInt : Rd (Option Int) := do
  let t ← tok
  if t = "N" then pure none else
  match t.toInt? with
  | some i => pure (some i)
  | none => failure

def rdMask : Rd (List Bool) := do
  let l ← rdList rdNat
  pure (l.map (· != 0))

def showFrames (fs : List Frame) : String := showRats fs.flatten

structure Env where
  G    : Sym3
  M    : M3
  objs : Array TState

def getObj (e : Env) (k : Nat) : Option TState := e.objs[k]?

/-- one op: returns the new environment and an output segment; `none` = malformed -/
def doOp (e : Env) : Rd (Env × String) := do
  let t ← tok
  let k ← rdNat
  match getObj e k with
  | none => failure
  | some s =>
    match t with
    | "P" => let (s', r) := positions s; pure ({ e with objs := e.objs.set! k s' }, "P " ++ showFrames r)
    | "D" => let (s', r) := displacements s; pure ({ e with objs := e.objs.set! k s' }, "D " ++ showFrames r)
    | "C" => let (s', r) := cumDisp s; pure ({ e with objs := e.objs.set! k s' }, "C " ++ showFrames r)
    | "R" => let (s', r) := distSq e.G s; pure ({ e with objs := e.objs.set! k s' }, "R " ++ showRats r.flatten)
    | "B" => pure (e, "B " ++ showRats s.base)
    | "F" => do
      let mask ← rdMask
      let (s', n) := filterT mask s
      pure ({ e with objs := (e.objs.set! k s').push n }, "F " ++ toString (e.objs.size))
    | "S" => do
      let a ← rdOptInt; let b ← rdOptInt; let c ← rdOptInt
      let (s', n) := sliceT a b c s
      match n with
      | some n => pure ({ e with objs := (e.objs.set! k s').push n }, "S " ++ toString (e.objs.size))
      | none => pure ({ e with objs := (e.objs.set! k s').push (fresh []) }, "S err")
    | "E" => do
      let j ← rdNat
      match getObj e j with
      | none => failure
      | some o =>
        let (s', o') := extendT s o
        pure ({ e with objs := (e.objs.set! k s').set! j o' }, "E ok")
    | "Y" => do
      let mask ← rdMask
      let (s', d) := if mask.isEmpty then driftAll s else driftSel mask s
      pure ({ e with objs := e.objs.set! k s' }, "Y " ++ showRats (d.flatMap V3.toList))
    | "X" => do
      let mask ← rdMask
      let (s', n) := applyDrift (if mask.isEmpty then none else some mask) s
      pure ({ e with objs := (e.objs.set! k s').push n }, "X " ++ toString (e.objs.size))
    | "M" =>
      -- MSD per atom per lag from Cartesian unwrapped tracks
      let (s', c) := cumDisp s
      let nAtoms := (c.headD []).length / 3
      let tracks : List (List V3) := (List.range nAtoms).map (fun (a : Nat) =>
        c.map (fun f => e.M.cart ((toV3s f).getD a V3.zero)))
      let n := c.length
      let vals := tracks.flatMap (fun r => (List.range n).flatMap (fun (m : Nat) => [msdAlgo r m, msdDef r m]))
      pure ({ e with objs := e.objs.set! k s' }, "M " ++ showRats vals)
    | _ => failure

def doOps (e : Env) : Nat → Rd (List String)
  | 0 => pure []
  | n + 1 => do
    let (e', out) ← doOp e
    let rest ← doOps e' n
    pure (out :: rest)

/-- `traj M3 nobj objs… nops ops…` -/
def opTraj : Rd String := do
  let m ← rdM3
  let objs ← rdList rdObj
  let nops ← rdNat
  let outs ← doOps ⟨m.metric, m, objs.toArray⟩ nops
  pure ("ok " ++ " ; ".intercalate outs)

def table : List (String × Rd String) := [("traj", opTraj)]
end G.Ops4
