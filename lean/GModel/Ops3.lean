import GModel.Basic
import GModel.Memo
/-! line-protocol operations for C20 -/
namespace G.Ops3
open G G.Memo

/-- op tokens: `n oid addr` | `c oid args` | `d oid` -/
def rdOp : Rd Op := do
  let t ← tok
  match t with
  | "n" => do let o ← rdNat; let a ← rdNat; pure (.new o a)
  | "c" => do let o ← rdNat; let a ← rdNat; pure (.call o a)
  | "d" => do let o ← rdNat; pure (.drop o)
  | _ => failure

/-- `memo cap selfref nobj ops…` → per op: `-` | `h`/`m` + cache size; then aliveness of objects 0..nobj-1 -/
def opMemo : Rd String := do
  let cap ← rdNat
  let selfref ← rdNat
  let nobj ← rdNat
  let ops ← rdList rdOp
  -- values are irrelevant for hit/miss prediction; use an injective pairing so that a
  -- cross-object hit would be visible in the value column
  let f : Nat → Nat → Nat := fun o a => o * 1000003 + a
  let holds : Nat → Nat → List Nat := fun o _ => if selfref = 1 then [o] else []
  let rec go (s : MState) (ops : List Op) (acc : List String) : MState × List String :=
    match ops with
    | [] => (s, acc.reverse)
    | op :: rest =>
      let (s', o) := step f holds s op
      let t := match o with
        | none => "-"
        | some (v, h) => (if h then "h" else "m") ++ ":" ++ toString v ++ ":" ++ toString s'.cache.length
      go s' rest (t :: acc)
  let (s, outs) := go (MState.init cap) ops []
  let al := (List.range nobj).map (fun o => if alive s o then "1" else "0")
  pure (" ".intercalate (["ok"] ++ outs ++ ["|"] ++ al))

def table : List (String × Rd String) := [("memo", opMemo)]
end G.Ops3
