import GModel.Basic
/-!
# GModel.CacheName — C16: the default cache file name of a loader

`Path(file).with_suffix(f'.{t1}….{hash}.cache')`: a file name is its list of dot-separated components;
`with_suffix` keeps all but the LAST component (all of them when there is only one) and appends the
components of the new suffix.  The hash is an 8-hex digest of the JSON of the hashed parameters; here it is
a parameter `hashOf` applied to the hashed values (its injectivity on the argument sets used is the
trusted assumption stated in DESIGN.md).
-/
namespace G.CacheName

/-- `Path(name).with_suffix(suffix)` on dot-separated components -/
def withSuffix (name suffix : List String) : List String :=
  (if name.length ≤ 1 then name else name.dropLast) ++ suffix

/-- default cache name: template components, then the hash, then `cache` -/
def cacheName (file template : List String) (hash : String) : List String :=
  withSuffix file (template ++ [hash, "cache"])

end G.CacheName
