import GModel.Basic
import GModel.Ops
import GModel.Pipeline
/-! line-protocol operation: the whole per-atom chain (C07) -/
namespace G.Ops10
open G G.Ops G.Pipeline

/-- `pipe lattice frac mr sites(with radius) pts` → `states | inner | events | jumps` of one atom -/
def opPipe : Rd String := do
  let m ← rdM3
  let frac ← rdRat
  let mr ← rdInt
  let sites ← rdList (do let s ← rdV3; let r ← rdRat; pure (s, r))
  let pts ← rdList rdV3
  let r := run m.metric frac mr sites pts
  pure ("ok " ++ showInts r.states ++ " | " ++ showInts r.inner ++ " | " ++ showEvents r.events ++ " | " ++ showJumps r.jumps)

def table : List (String × Rd String) := [("pipe", opPipe)]
end G.Ops10
