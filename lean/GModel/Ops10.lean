import GModel.Basic
import GModel.Ops
import GModel.Pipeline
import GModel.RdfNames
import GModel.Fft
import GModel.CacheName
import GModel.OccLabels
/-! line-protocol operation: the whole per-atom chain (C07) -/
namespace G.Ops10
open G G.Ops G.Pipeline

/-- `pipe lattice frac mr sites(with radius) pts` → `states | inner | events | jumps` of one atom -/
def opPipe : Rd String := do
  let m ← rdM3
  let frac ← rdRat
  let mr ← rdInt
  let sites ← rdList (do let s ← rdV3; let r ← rdRat; pure (s, r))
  let pts ← rdList rdV3
  let r := run m.metric frac mr sites pts
  pure ("ok " ++ showInts r.states ++ " | " ++ showInts r.inner ++ " | " ++ showEvents r.events ++ " | " ++ showJumps r.jumps)

/-- `rdfnames n labels…` → `code name` for every key of the dictionary `_get_states` builds from these unique labels -/
def opRdfNames : Rd String := do
  let u ← rdList tok
  let tbl := RdfNames.table u
  let codes := (tbl.map (·.1)).eraseDups
  pure ("ok " ++ " ".intercalate (codes.map (fun c => s!"{c} {(RdfNames.lookup tbl c).getD "?"}")))

/-- `cacorr pad n xs…` → cyclic autocorrelation of `xs` zero-padded / truncated to `pad`, lags 0..n−1 -/
def opCAcorr : Rd String := do
  let pad ← rdNat
  let xs ← rdList rdRat
  pure ("ok " ++ showRats ((List.range xs.length).map (Fft.cyclicAcorr xs pad)))

/-- `cachename k file-components… m template-components… hash` → the default cache file name, components joined by dots -/
def opCacheName : Rd String := do
  let file ← rdList tok
  let tmpl ← rdList tok
  let h ← tok
  pure ("ok " ++ ".".intercalate (CacheName.cacheName file tmpl h))

/-- `bylabel n labels… m states… nFrames nFloat` → `label atom_location occupancy_by_site_type` per label, in order of first occurrence -/
def opByLabel : Rd String := do
  let labels ← rdList tok
  let states ← rdList rdInt
  let nFrames ← rdNat
  let nFloat ← rdNat
  pure ("ok " ++ " ".intercalate ((OccLabels.labelKeys labels).map (fun a =>
    s!"{a} {showRat (OccLabels.atomLocation labels states nFrames nFloat a)} {showRat (OccLabels.occByType labels states nFrames a)}")))

def table : List (String × Rd String) := [("pipe", opPipe), ("rdfnames", opRdfNames), ("cacorr", opCAcorr), ("cachename", opCacheName), ("bylabel", opByLabel)]
end G.Ops10
