import GModel.Basic
/-!
# GModel.Traj — C01, C06, C13, C15: the trajectory container

`TState` mirrors the mutable state of `gemdat.Trajectory` (a pymatgen `Trajectory`):
`coords` is either positions or per-step displacements (`disp`), `base` the
`base_positions` fixed at construction.  Frames are flat lists of `3·atoms`
fractional coordinates.

* `toPositions` / `toDisplacements` : pymatgen's mode switches plus GEMDAT's `np.mod(·, 1)`
* `positions`, `displacements`, `cumDisp`, `distSq` : the read-only queries (they switch mode in place)
* `filterT`, `sliceT`, `extendT` : `filter`, `__getitem__(slice)`, `extend`
* `drift`, `applyDrift` : C13
* `msdAlgo` / `msdDef` : C06 (S1 by the code's cumulative-sum recursion, S2 = direct
  autocorrelation sums, which is what the zero-padded FFT computes)
-/
namespace G.Traj

abbrev Frame := List Rat

structure TState where
  disp   : Bool
  coords : List Frame
  base   : Frame
deriving Repr, DecidableEq, Inhabited

def vadd (a b : Frame) : Frame := List.zipWith (· + ·) a b
def vsub (a b : Frame) : Frame := List.zipWith (· - ·) a b

/-- running sums of frames: `np.cumsum(axis=0)` -/
def cumsumFrom (acc : Frame) : List Frame → List Frame
  | [] => []
  | f :: fs => let a := vadd acc f; a :: cumsumFrom a fs

def zerosLike (f : Frame) : Frame := f.map (fun _ => 0)

def cumsum (fs : List Frame) : List Frame :=
  match fs with
  | [] => []
  | f :: _ => cumsumFrom (zerosLike f) fs

/-- consecutive differences with a zero first frame, then `d − round(d)`:
pymatgen `to_displacements` for a periodic trajectory -/
def diffs (prev : Frame) : List Frame → List Frame
  | [] => []
  | f :: fs => (vsub f prev).map minImg1 :: diffs f fs

def toDispCoords (fs : List Frame) : List Frame :=
  match fs with
  | [] => []
  | f :: rest => zerosLike f :: diffs f rest

def fresh (coords : List Frame) : TState := ⟨false, coords, coords.headD []⟩

/-- `Trajectory.to_positions` (GEMDAT override: always wraps) -/
def toPositions (s : TState) : TState :=
  let c := if s.disp then (cumsum s.coords).map (vadd s.base) else s.coords
  { s with disp := false, coords := c.map (·.map wrap) }

/-- `Trajectory.to_displacements` -/
def toDisplacements (s : TState) : TState :=
  if s.disp then s else { s with disp := true, coords := toDispCoords s.coords }

def positions (s : TState) : TState × List Frame := let s' := toPositions s; (s', s'.coords)
def displacements (s : TState) : TState × List Frame := let s' := toDisplacements s; (s', s'.coords)
def cumDisp (s : TState) : TState × List Frame := let s' := toDisplacements s; (s', cumsum s'.coords)

/-- split a flat frame into 3-vectors -/
def toV3s : Frame → List V3
  | x :: y :: z :: r => ⟨x, y, z⟩ :: toV3s r
  | _ => []

/-- squared `distances_from_base_position`, [frame][atom] -/
def distSq (G : Sym3) (s : TState) : TState × List (List Rat) :=
  let (s', c) := cumDisp s
  (s', c.map (fun f => (toV3s f).map G.Q))

/-- the canonical wrapped positions a state denotes -/
def absPos (s : TState) : List Frame := (toPositions s).coords

/-- keep the atoms whose mask bit is set -/
def maskFrame (mask : List Bool) (f : Frame) : Frame :=
  ((toV3s f).zip mask).flatMap (fun p => if p.2 then p.1.toList else [])

/-- `Trajectory.filter`: switches the source to positions, builds a fresh trajectory -/
def filterT (mask : List Bool) (s : TState) : TState × TState :=
  let s' := toPositions s
  (s', fresh (s'.coords.map (maskFrame mask)))

/-- Python `slice.indices(len)` followed by `range(start, stop, step)`; `none` = `None` -/
def adjust (x : Option Int) (len : Int) (neg : Bool) (isStart : Bool) : Int :=
  match x with
  | none => if isStart then (if neg then len - 1 else 0) else (if neg then -1 else len)
  | some v =>
    if v < 0 then
      let w := v + len
      if w < 0 then (if neg then -1 else 0) else w
    else if v ≥ len then (if neg then len - 1 else len) else v

def rangeList (start stop step : Int) : Nat → List Int
  | 0 => []
  | fuel + 1 =>
    if (step > 0 ∧ start < stop) ∨ (step < 0 ∧ start > stop) then start :: rangeList (start + step) stop step fuel
    else []

/-- selected frame indices; `none` when `step = 0` (ValueError) -/
def sliceIndices (start stop step : Option Int) (len : Nat) : Option (List Nat) :=
  let st := step.getD 1
  if st = 0 then none else
  let neg := decide (st < 0)
  let a := adjust start len neg true
  let b := adjust stop len neg false
  some ((rangeList a b st (len + 1)).map Int.toNat)

/-- `Trajectory.__getitem__(slice)`; `none` = error (zero step, or an empty selection, which
pymatgen cannot build) -/
def sliceT (start stop step : Option Int) (s : TState) : TState × Option TState :=
  let s' := toPositions s
  match sliceIndices start stop step s'.coords.length with
  | none => (s', none)
  | some idx =>
    if idx.isEmpty then (s', none)
    else (s', some (fresh (idx.map (fun k => s'.coords.getD k []))))

/-- `Trajectory.extend(other)`: both switched to positions, frames appended in place -/
def extendT (s o : TState) : TState × TState :=
  let s' := toPositions s
  let o' := toPositions o
  ({ s' with coords := s'.coords ++ o'.coords }, o')

/-! ## C13: drift -/

def scaleFrame (k : Rat) (f : Frame) : Frame := f.map (k * ·)

/-- mean over all atoms of a frame: `np.mean(displacements, axis=1)` -/
def meanAll (f : Frame) : V3 :=
  let vs := toV3s f
  let n : Rat := vs.length
  let sum := vs.foldl (· + ·) V3.zero
  ⟨sum.x / n, sum.y / n, sum.z / n⟩

/-- `Trajectory.drift()` without species: mean of the trajectory's own displacements -/
def driftAll (s : TState) : TState × List V3 :=
  let (s', d) := displacements s
  (s', d.map meanAll)

/-- `Trajectory.drift(fixed_species=…)`: `self.filter(species).displacements` — the source is
switched to positions, the selection is a fresh trajectory whose displacements are re-derived
from wrapped positions -/
def driftSel (mask : List Bool) (s : TState) : TState × List V3 :=
  let (s', sel) := filterT mask s
  let (_, d) := displacements sel
  (s', d.map meanAll)

def subDrift (f : Frame) (d : V3) : Frame :=
  (toV3s f).flatMap (fun v => (v - d).toList)

/-- `apply_drift_correction`: `displacements − drift` with the original base positions, stored
as displacements; `mask = none` means "no species given" -/
def applyDrift (mask : Option (List Bool)) (s : TState) : TState × TState :=
  let (s1, dr) := match mask with
    | some m => driftSel m s
    | none => driftAll s
  let (s2, d) := displacements s1
  (s2, ⟨true, List.zipWith subDrift d dr, s2.base⟩)

/-! ## C06: mean squared displacement of one atom from its Cartesian track -/

def sqLen (v : V3) : Rat := v.dot v

/-- definition: average over time origins of |r(t+m) − r(t)|² -/
def msdDef (r : List V3) (m : Nat) : Rat :=
  let n := r.length
  let terms := (List.range (n - m)).map (fun (k : Nat) => sqLen (r.getD (k + m) V3.zero - r.getD k V3.zero))
  terms.sum / ((n - m : Nat) : Rat)

/-- S2(m): autocorrelation sum / (N − m) -/
def s2 (r : List V3) (m : Nat) : Rat :=
  let n := r.length
  ((List.range (n - m)).map (fun (k : Nat) => (r.getD k V3.zero).dot (r.getD (k + m) V3.zero))).sum / ((n - m : Nat) : Rat)

/-- S1(m) by the code's recursion: `2ΣD − cumsum(insert(D,0,0)[:-1] + flip(D))`, `D` padded by a 0 -/
def s1 (r : List V3) (m : Nat) : Rat :=
  let n := r.length
  let D : Nat → Rat := fun k => if k < n then sqLen (r.getD k V3.zero) else 0
  let total := ((List.range n).map D).sum
  -- cumsum index m sums, for j = 0..m, insert(D,0,0)[j] + flip(Dpad)[j] = D(j-1) + Dpad(n-j)
  let cs := ((List.range (m + 1)).map (fun (j : Nat) => (if j = 0 then 0 else D (j - 1)) + D (n - j))).sum
  (2 * total - cs) / ((n - m : Nat) : Rat)

def msdAlgo (r : List V3) (m : Nat) : Rat := s1 r m - 2 * s2 r m

end G.Traj
