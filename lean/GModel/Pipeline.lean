import GModel.Basic
import GModel.Sites
import GModel.Events
import GModel.Jumps
/-!
# GModel.Pipeline — C07: one atom's whole analysis chain as a single function

`Trajectory.transitions_between_sites(...)` followed by `.jumps(minimal_residence)`:
fractional positions of one atom → outer / inner site history (`Sites.assign`, inner radius =
`frac` × radius) → event rows (`Events.eventsAlgo`) → jumps (`Jumps.jumpsOfHistory`).
The pieces are the models of C02, C03 and C04; here they are composed so that the invariance
theorems of C07 can be stated about the results a user sees, not about the pieces.
-/
namespace G.Pipeline
open G G.Sites G.Events G.Jumps

/-- site history of one atom -/
def statesOf (G : Sym3) (frac : Rat) (sites : List (V3 × Rat)) (xs : List V3) : List Int :=
  xs.map (assign G frac sites)

structure Result where
  states : List Int
  inner  : List Int
  events : List Event
  jumps  : List Jump
deriving Repr, DecidableEq

/-- the chain for one atom -/
def run (G : Sym3) (frac : Rat) (mr : Int) (sites : List (V3 × Rat)) (xs : List V3) : Result :=
  let s := statesOf G 1 sites xs
  let i := statesOf G frac sites xs
  ⟨s, i, eventsAlgo s i, jumpsOfHistory mr s i⟩

/-- renaming of site indices -/
def Event.relabel (f : Int → Int) (e : Event) : Event := ⟨e.t, f e.s0, f e.s1, f e.i0, f e.i1⟩
def Jump.relabel (f : Int → Int) (j : Jump) : Jump := ⟨f j.o, f j.d, j.t0, j.t1⟩
def Result.relabel (f : Int → Int) (r : Result) : Result :=
  ⟨r.states.map f, r.inner.map f, r.events.map (Event.relabel f), r.jumps.map (Jump.relabel f)⟩

/-- the index renaming induced by moving site `k` to position `σ k`; "no site" (−1) stays −1 -/
def siteMap (σ : Nat → Nat) (k : Int) : Int := if k < 0 then k else (σ k.toNat : Int)

end G.Pipeline
