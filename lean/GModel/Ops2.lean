import GModel.Basic
import GModel.Collective
import GModel.Counts
import GModel.Split
import GModel.Sites
/-! line-protocol operations for C05, C12, C19 -/
namespace G.Ops2
open G

def rdJ : Rd Coll.J := do
  let a ← rdInt; let o ← rdInt; let d ← rdInt; let t0 ← rdInt; let t1 ← rdInt
  pure ⟨0, a, o, d, t0, t1⟩

def showJ (j : Coll.J) : String := s!"{j.atom} {j.o} {j.d} {j.t0} {j.t1}"

/-- squared minimum-image distance table of the sites -/
def siteDsq (G : Sym3) (sites : List V3) : Int → Int → Rat := fun i j =>
  match sites[i.toNat]?, sites[j.toNat]? with
  | some a, some b => if i < 0 ∨ j < 0 then 0 else pbcDistSq G a b
  | _, _ => 0

/-- `coll <break?> ms maxDistSq lattice sites rows` -/
def opCollGen (brk : Bool) : Rd String := do
  let ms ← rdInt
  let md ← rdRat
  let m ← rdM3
  let sites ← rdList rdV3
  let rows ← rdList rdJ
  let sorted := Coll.sortJ rows
  let close := Coll.closeBy (siteDsq m.metric sites) md
  let pairs := if brk then Coll.scanBreak close ms sorted else Coll.scan close ms sorted
  let n := sorted.length
  let body := pairs.map (fun p => showJ p.1 ++ " " ++ showJ p.2)
  pure (" ".intercalate (["ok", toString pairs.length] ++ body ++
    [toString (Coll.nSolo n pairs), toString (Coll.nColl n pairs)]))

def rdPair : Rd Counts.Pair := do
  let a ← rdInt; let b ← rdInt; pure (a, b)

def showMat (m : Counts.Mat) : String := showNats m.flatten

def opMatrix : Rd String := do
  let n ← rdNat
  let rows ← rdList rdPair
  pure (match Counts.matrixAsIs rows n with
    | some m => "ok " ++ showMat m
    | none => "err index-error")

def opMatrixSpec : Rd String := do
  let n ← rdNat
  let rows ← rdList rdPair
  pure ("ok " ++ showMat (Counts.matrixSpec rows n))

/-- `jumpdiff lattice sites rows` : Σ_{ij} D²_{ij} · M_{ij} with M the as-is matrix -/
def opJumpDiff : Rd String := do
  let m ← rdM3
  let sites ← rdList rdV3
  let rows ← rdList rdPair
  let n := sites.length
  let dsq := siteDsq m.metric sites
  pure (match Counts.matrixAsIs rows n with
    | some mat => "ok " ++ showRat (Counts.weightedSum (fun i j => dsq i j) mat)
    | none => "err index-error")

/-- `sitedist lattice sites` : all squared minimum-image distances (row-major) -/
def opSiteDist : Rd String := do
  let m ← rdM3
  let sites ← rdList rdV3
  let G := m.metric
  pure ("ok " ++ showRats (sites.flatMap (fun a => sites.map (fun b => pbcDistSq G a b))))

/-- `pbcd lattice a b` -/
def opPbcD : Rd String := do
  let m ← rdM3
  let a ← rdV3
  let b ← rdV3
  pure ("ok " ++ showRat (pbcDistSq m.metric a b))

/-- `occ n states` : count per site 0..n-1, then the count of "no site" -/
def opOcc : Rd String := do
  let n ← rdNat
  let st ← rdList rdInt
  let cs := (List.range n).map (fun (k : Nat) => Counts.occCount st (k : Int))
  pure ("ok " ++ showNats (cs ++ [Counts.occCount st (-1)]))

def opArraySplit : Rd String := do
  let n ← rdNat
  let k ← rdNat
  pure ("ok " ++ showNats (Split.arraySplitSizes n k))

def showParts (ps : List (List Int)) : String :=
  " ".intercalate (ps.map (fun p => " ".intercalate (toString p.length :: p.map toString)))

def opBinEvents : Rd String := do
  let bins ← rdList rdInt
  let times ← rdList rdInt
  pure ("ok " ++ showParts (Split.binEvents bins times))

def opTrajParts : Rd String := do
  let iv ← rdList rdInt
  pure ("ok " ++ " ".intercalate ((Split.trajParts iv).map (fun p => s!"{p.1} {p.2}")))

def opTrajPartsEq : Rd String := do
  let len ← rdInt
  let iv ← rdList rdInt
  pure ("ok " ++ " ".intercalate ((Split.trajPartsEqual iv len).map (fun p => s!"{p.1} {p.2}")))

def table : List (String × Rd String) := [
  ("coll", opCollGen false), ("coll-break", opCollGen true),
  ("matrix", opMatrix), ("matrix-spec", opMatrixSpec), ("jumpdiff", opJumpDiff),
  ("sitedist", opSiteDist), ("pbcd", opPbcD), ("occ", opOcc),
  ("array-split", opArraySplit), ("bin-events", opBinEvents),
  ("traj-parts", opTrajParts), ("traj-parts-eq", opTrajPartsEq)
]
end G.Ops2

namespace G.Ops2
open G
/-- `assign lattice frac sites(with radius) pts` → site index per point, and the number of sites in range -/
def opAssign : Rd String := do
  let m ← rdM3
  let frac ← rdRat
  let sites ← rdList (do let s ← rdV3; let r ← rdRat; pure (s, r))
  let pts ← rdList rdV3
  let G := m.metric
  let a := pts.map (Sites.assign G frac sites)
  let n := pts.map (fun x => ((Sites.inRange G frac sites x).length : Int))
  pure ("ok " ++ showInts a ++ " | " ++ showInts n)

/-- `minpair lattice sites` → smallest squared site-site distance -/
def opMinPair : Rd String := do
  let m ← rdM3
  let sites ← rdList rdV3
  pure (match Sites.minPairSq m.metric sites with
    | some d => "ok " ++ showRat d
    | none => "ok none")

/-- `pbcmany lattice a pts` → squared distances from `a` to each point -/
def opPbcMany : Rd String := do
  let m ← rdM3
  let a ← rdV3
  let pts ← rdList rdV3
  pure ("ok " ++ showRats (pts.map (pbcDistSq m.metric a)))

def table2 : List (String × Rd String) := [("assign", opAssign), ("minpair", opMinPair), ("pbcmany", opPbcMany)]
end G.Ops2
