import Lean
/-!
`#audit_module M` prints, for every theorem declared in module `M`, the axioms
it depends on (one line `AUDIT <name> : <axioms>`), so the harness can check
on every run that each is within {propext, Classical.choice, Quot.sound}.
-/
open Lean Elab Command

elab "#audit_module " id:ident : command => do
  let env ← getEnv
  let some modIdx := env.getModuleIdx? id.getId
    | throwError "unknown module {id.getId}"
  let mut names : Array Name := #[]
  for (n, ci) in env.constants.map₁.toList do
    if env.getModuleIdxFor? n == some modIdx then
      match ci with
      | .thmInfo _ =>
        -- only theorems written in the source (auto-generated equation lemmas have no range)
        if !n.isInternal && (← findDeclarationRanges? n).isSome then names := names.push n
      | _ => pure ()
  let sorted := names.qsort (fun a b => a.toString < b.toString)
  for n in sorted do
    let axs ← collectAxioms n
    let axl := axs.toList.map toString
    logInfo m!"AUDIT {n} : {" ".intercalate axl}"
  logInfo m!"AUDIT-COUNT {id.getId} {sorted.size}"
