import GModel.Shape
import GProofs.Geometry
import GProofs.C01
import Mathlib.Tactic.Linarith
import Mathlib.Tactic.Ring
import Mathlib.Tactic.Positivity
/-!
# C17 — shape analysis collects exactly the symmetry-equivalent points in the radius

* `collect_length`            the number of collected points is the number of (operation, position)
                              pairs whose minimum-image distance to the moved site is below the radius
* `isometry_preserves_Q`      an operation whose linear part preserves the metric preserves lengths
* `centred_eq_inverse_image`  the collected point is the inverse linear part applied to
                              (re-imaged position − moved site)
* `point_dist_eq_source_dist` hence its squared distance to the centre equals the squared length of
                              that re-imaged difference
* `reimage_congr`, `reimage_close`   re-imaging moves by whole cells and leaves every component of the
                              difference in [−½, ½]
* `small_vector_components`   a vector shorter than r, with r below half of every perpendicular width
                              (4 r² adj_ii ≤ det G), has all fractional components in (−½, ½) — so the
                              per-axis re-image IS the minimum image and the point lies within the radius
* `fold_spec`                 supercell folding `(p mod 1/s)·s` = `s·p mod 1`
* `reimageAsWas_counterexample` (defect D12, repaired)
-/
namespace G.C17
open G G.Shape G.Geometry

/-- **C17 (count)** -/
theorem collect_length (G : Sym3) (rsq : ℚ) (site : V3) (positions : List V3) (asWas : Bool) (ops : List (Op × Op)) :
    (collect G rsq site positions asWas ops).length = countPairs G rsq site positions ops := by
  sorry

/-- the linear part `R` preserves the metric: `Rᵀ G R = G`, stated on the quadratic form -/
def Isometry (G : Sym3) (o : Op) : Prop := ∀ v : V3, G.Q (o.lin v) = G.Q v

/-- `inv` undoes `op`: `inv (op x) = x` for all x -/
def InverseOf (op inv : Op) : Prop := ∀ x : V3, inv.apply (op.apply x) = x

/-- affine maps: `o.apply a − o.apply b = o.lin (a − b)` -/
theorem apply_sub (o : Op) (a b : V3) : o.apply a - o.apply b = o.lin (a - b) := by
  sorry

/-- **C17 (inverse image)**: the collected point is the inverse operation's linear part applied to
(re-imaged position − moved site). -/
theorem centred_eq_inverse_image (op inv : Op) (hinv : InverseOf op inv) (site p : V3) :
    inv.apply p - site = inv.lin (p - op.apply site) := by
  sorry

/-- **C17 (distance)**: for an isometric inverse operation the point's squared distance to the centre
is the squared length of (re-imaged position − moved site). -/
theorem point_dist_eq_source_dist (G : Sym3) (op inv : Op) (hinv : InverseOf op inv) (hiso : Isometry G inv)
    (site p : V3) : G.Q (inv.apply p - site) = G.Q (p - op.apply site) := by
  sorry

/-- re-imaging moves each coordinate by a whole number of cells … -/
theorem reimage_congr (sym p : V3) :
    ∃ n1 n2 n3 : ℤ, reimage sym p = ⟨p.x + n1, p.y + n2, p.z + n3⟩ := by
  sorry

/-- … and leaves every component of the difference to the moved site within half a cell. -/
theorem reimage_close (sym p : V3) :
    |(reimage sym p).x - sym.x| ≤ 1 / 2 ∧ |(reimage sym p).y - sym.y| ≤ 1 / 2 ∧ |(reimage sym p).z - sym.z| ≤ 1 / 2 := by
  sorry

/-- **C17 (radius below half the perpendicular widths)**: a vector of squared length below `r²` in a
cell with `4 r² · adj_ii ≤ det G` has all three fractional components strictly inside (−½, ½). -/
theorem small_vector_components (G : Sym3) (hpd : PosDef G) (v : V3) (rsq : ℚ) (hq : G.Q v < rsq)
    (h1 : 4 * rsq * G.adj1 ≤ G.det) (h2 : 4 * rsq * G.adj2 ≤ G.det) (h3 : 4 * rsq * G.adj3 ≤ G.det) :
    |v.x| < 1 / 2 ∧ |v.y| < 1 / 2 ∧ |v.z| < 1 / 2 := by
  sorry

/-- … therefore, if SOME periodic image `w = d + n` of a difference `d` is shorter than `r`, per-axis
rounding of `d` finds exactly that image: the re-imaged difference is the short vector itself. -/
theorem reimage_is_short_image (G : Sym3) (hpd : PosDef G) (sym p : V3) (rsq : ℚ) (n1 n2 n3 : ℤ)
    (hq : G.Q (shiftBy (p - sym) n1 n2 n3) < rsq)
    (h1 : 4 * rsq * G.adj1 ≤ G.det) (h2 : 4 * rsq * G.adj2 ≤ G.det) (h3 : 4 * rsq * G.adj3 ≤ G.det) :
    reimage sym p - sym = shiftBy (p - sym) n1 n2 n3 := by
  sorry

/-- **C17 (supercell folding)**: `(p mod 1/s)·s` is `s·p` modulo 1. -/
theorem fold_spec (s p : ℚ) (hs : 0 < s) : foldSupercell s p = wrap (p * s) := by
  sorry

/-- defect D12 (repaired): with the moved site at −63/64 and a position at 31/32 the digitized offset
moves the position by one cell only, leaving it almost a full cell away; rounding moves it two cells -/
theorem reimageAsWas_counterexample :
    (reimageAsWas ⟨-63/64, 0, 0⟩ ⟨31/32, 0, 0⟩).x = -1/32 ∧ (reimage ⟨-63/64, 0, 0⟩ ⟨31/32, 0, 0⟩).x = -33/32 := by
  decide +kernel

/-- non-vacuity: inversion through the origin in a cubic cell is an isometry with itself as inverse -/
example :
    let inv : Op := ⟨⟨-1, 0, 0⟩, ⟨0, -1, 0⟩, ⟨0, 0, -1⟩, ⟨0, 0, 0⟩⟩
    let M : M3 := ⟨⟨4, 0, 0⟩, ⟨0, 4, 0⟩, ⟨0, 0, 4⟩⟩
    collect M.metric 1 ⟨1/8, 0, 0⟩ [⟨7/8, 1/16, 0⟩, ⟨1/8, 0, 0⟩, ⟨1/2, 1/2, 1/2⟩] false [(inv, inv)]
      = [⟨0, -1/16, 0⟩] := by
  decide +kernel

end G.C17
