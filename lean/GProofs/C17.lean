import GModel.Shape
import GProofs.Geometry
import GProofs.C01
import Mathlib.Tactic.Linarith
import Mathlib.Tactic.Ring
import Mathlib.Tactic.Positivity
/-!
# C17 — shape analysis collects exactly the symmetry-equivalent points in the radius

* `collect_length`            the number of collected points is the number of (operation, position)
                              pairs whose minimum-image distance to the moved site is below the radius
* `isometry_preserves_Q`      an operation whose linear part preserves the metric preserves lengths
* `centred_eq_inverse_image`  the collected point is the inverse linear part applied to
                              (re-imaged position − moved site)
* `point_dist_eq_source_dist` hence its squared distance to the centre equals the squared length of
                              that re-imaged difference
* `reimage_congr`, `reimage_close`   re-imaging moves by whole cells and leaves every component of the
                              difference in [−½, ½]
* `small_vector_components`   a vector shorter than r, with r below half of every perpendicular width
                              (4 r² adj_ii ≤ det G), has all fractional components in (−½, ½) — so the
                              per-axis re-image IS the minimum image and the point lies within the radius
* `fold_spec`                 supercell folding `(p mod 1/s)·s` = `s·p mod 1`
* `reimageAsWas_counterexample` (defect D12, repaired)
-/
namespace G.C17
open G G.Shape G.Geometry

/-- componentwise form of the `V3` subtraction -/
theorem v3_sub_def (a b : V3) : a - b = ⟨a.x - b.x, a.y - b.y, a.z - b.z⟩ := rfl

/-- **C17 (count)** -/
theorem collect_length (G : Sym3) (rsq : ℚ) (site : V3) (positions : List V3) (asWas : Bool) (ops : List (Op × Op)) :
    (collect G rsq site positions asWas ops).length = countPairs G rsq site positions ops := by
  unfold collect countPairs collectOp
  simp only [List.length_flatMap, List.length_map]

/-- the linear part `R` preserves the metric: `Rᵀ G R = G`, stated on the quadratic form -/
def Isometry (G : Sym3) (o : Op) : Prop := ∀ v : V3, G.Q (o.lin v) = G.Q v

/-- `inv` undoes `op`: `inv (op x) = x` for all x -/
def InverseOf (op inv : Op) : Prop := ∀ x : V3, inv.apply (op.apply x) = x

/-- affine maps: `o.apply a − o.apply b = o.lin (a − b)` -/
theorem apply_sub (o : Op) (a b : V3) : o.apply a - o.apply b = o.lin (a - b) := by
  simp only [v3_sub_def, Op.apply, Op.lin, V3.dot, V3.mk.injEq]
  refine ⟨?_, ?_, ?_⟩ <;> ring

/-- **C17 (inverse image)**: the collected point is the inverse operation's linear part applied to
(re-imaged position − moved site). -/
theorem centred_eq_inverse_image (op inv : Op) (hinv : InverseOf op inv) (site p : V3) :
    inv.apply p - site = inv.lin (p - op.apply site) := by
  have h := apply_sub inv p (op.apply site)
  rw [hinv site] at h
  exact h

/-- **C17 (distance)**: for an isometric inverse operation the point's squared distance to the centre
is the squared length of (re-imaged position − moved site). -/
theorem point_dist_eq_source_dist (G : Sym3) (op inv : Op) (hinv : InverseOf op inv) (hiso : Isometry G inv)
    (site p : V3) : G.Q (inv.apply p - site) = G.Q (p - op.apply site) := by
  rw [centred_eq_inverse_image op inv hinv site p, hiso]

/-- re-imaging moves each coordinate by a whole number of cells … -/
theorem reimage_congr (sym p : V3) :
    ∃ n1 n2 n3 : ℤ, reimage sym p = ⟨p.x + n1, p.y + n2, p.z + n3⟩ := by
  refine ⟨-rne (p.x - sym.x), -rne (p.y - sym.y), -rne (p.z - sym.z), ?_⟩
  simp only [reimage, V3.mk.injEq]
  refine ⟨?_, ?_, ?_⟩ <;> push_cast <;> ring

/-- … and leaves every component of the difference to the moved site within half a cell. -/
theorem reimage_close (sym p : V3) :
    |(reimage sym p).x - sym.x| ≤ 1 / 2 ∧ |(reimage sym p).y - sym.y| ≤ 1 / 2 ∧ |(reimage sym p).z - sym.z| ≤ 1 / 2 := by
  have hx := G.C01.abs_sub_rne_le_half (p.x - sym.x)
  have hy := G.C01.abs_sub_rne_le_half (p.y - sym.y)
  have hz := G.C01.abs_sub_rne_le_half (p.z - sym.z)
  have ex : (reimage sym p).x - sym.x = p.x - sym.x - (rne (p.x - sym.x) : ℚ) := by
    simp only [reimage]; ring
  have ey : (reimage sym p).y - sym.y = p.y - sym.y - (rne (p.y - sym.y) : ℚ) := by
    simp only [reimage]; ring
  have ez : (reimage sym p).z - sym.z = p.z - sym.z - (rne (p.z - sym.z) : ℚ) := by
    simp only [reimage]; ring
  rw [ex, ey, ez]
  exact ⟨hx, hy, hz⟩

/-- scalar core of `small_vector_components` -/
theorem abs_lt_half_of_bound (D A q r x : ℚ) (hD : 0 < D) (hA : 0 < A) (h : D * x ^ 2 ≤ A * q)
    (hq : q < r) (hr : 4 * r * A ≤ D) : |x| < 1 / 2 := by
  have h1 : A * q < A * r := mul_lt_mul_of_pos_left hq hA
  have h2 : D * x ^ 2 < D * (1 / 4) := by linarith
  have h3 : x ^ 2 < 1 / 4 := lt_of_mul_lt_mul_left h2 hD.le
  have h4 : x ^ 2 < (1 / 2 : ℚ) ^ 2 := by linarith [show ((1 : ℚ) / 2) ^ 2 = 1 / 4 by norm_num]
  exact abs_lt_of_sq_lt_sq h4 (by norm_num)

/-- **C17 (radius below half the perpendicular widths)**: a vector of squared length below `r²` in a
cell with `4 r² · adj_ii ≤ det G` has all three fractional components strictly inside (−½, ½). -/
theorem small_vector_components (G : Sym3) (hpd : PosDef G) (v : V3) (rsq : ℚ) (hq : G.Q v < rsq)
    (h1 : 4 * rsq * G.adj1 ≤ G.det) (h2 : 4 * rsq * G.adj2 ≤ G.det) (h3 : 4 * rsq * G.adj3 ≤ G.det) :
    |v.x| < 1 / 2 ∧ |v.y| < 1 / 2 ∧ |v.z| < 1 / 2 := by
  obtain ⟨_, _, _, ha1, ha2, ha3, hdet⟩ := hpd
  have hpd' : PosDef G := ⟨‹_›, ‹_›, ‹_›, ha1, ha2, ha3, hdet⟩
  refine ⟨?_, ?_, ?_⟩
  · exact abs_lt_half_of_bound G.det G.adj1 (G.Q v) rsq v.x hdet ha1 (coord_sq_le₁ G hpd' v) hq h1
  · exact abs_lt_half_of_bound G.det G.adj2 (G.Q v) rsq v.y hdet ha2 (coord_sq_le₂ G hpd' v) hq h2
  · exact abs_lt_half_of_bound G.det G.adj3 (G.Q v) rsq v.z hdet ha3 (coord_sq_le₃ G hpd' v) hq h3

/-- if the image `d + n` lies strictly inside (−½, ½), rounding `d` finds `−n` (no tie possible) -/
theorem rne_eq_neg_of_abs_lt (d : ℚ) (n : ℤ) (h : |d + n| < 1 / 2) : rne d = -n := by
  have h1 := G.C01.abs_sub_rne_le_half d
  rw [abs_le] at h1
  rw [abs_lt] at h
  have h2 : ((rne d + n : ℤ) : ℚ) < 1 := by push_cast; linarith [h1.1, h1.2, h.1, h.2]
  have h3 : (-1 : ℚ) < ((rne d + n : ℤ) : ℚ) := by push_cast; linarith [h1.1, h1.2, h.1, h.2]
  have h2' : rne d + n < 1 := by exact_mod_cast h2
  have h3' : -1 < rne d + n := by exact_mod_cast h3
  omega

/-- … therefore, if SOME periodic image `w = d + n` of a difference `d` is shorter than `r`, per-axis
rounding of `d` finds exactly that image: the re-imaged difference is the short vector itself. -/
theorem reimage_is_short_image (G : Sym3) (hpd : PosDef G) (sym p : V3) (rsq : ℚ) (n1 n2 n3 : ℤ)
    (hq : G.Q (shiftBy (p - sym) n1 n2 n3) < rsq)
    (h1 : 4 * rsq * G.adj1 ≤ G.det) (h2 : 4 * rsq * G.adj2 ≤ G.det) (h3 : 4 * rsq * G.adj3 ≤ G.det) :
    reimage sym p - sym = shiftBy (p - sym) n1 n2 n3 := by
  obtain ⟨hx, hy, hz⟩ := small_vector_components G hpd _ rsq hq h1 h2 h3
  have ex : (shiftBy (p - sym) n1 n2 n3).x = p.x - sym.x + n1 := rfl
  have ey : (shiftBy (p - sym) n1 n2 n3).y = p.y - sym.y + n2 := rfl
  have ez : (shiftBy (p - sym) n1 n2 n3).z = p.z - sym.z + n3 := rfl
  rw [ex] at hx; rw [ey] at hy; rw [ez] at hz
  have rx := rne_eq_neg_of_abs_lt _ _ hx
  have ry := rne_eq_neg_of_abs_lt _ _ hy
  have rz := rne_eq_neg_of_abs_lt _ _ hz
  simp only [v3_sub_def, reimage, shiftBy, V3.mk.injEq]
  rw [rx, ry, rz]
  refine ⟨?_, ?_, ?_⟩ <;> push_cast <;> ring

/-- **C17 (supercell folding)**: `(p mod 1/s)·s` is `s·p` modulo 1. -/
theorem fold_spec (s p : ℚ) (hs : 0 < s) : foldSupercell s p = wrap (p * s) := by
  have hs' : s ≠ 0 := ne_of_gt hs
  have hf : (p * s).floor = ⌊p * s⌋ := rfl
  unfold foldSupercell wrap
  rw [hf]
  field_simp

/-- defect D12 (repaired): with the moved site at −63/64 and a position at 31/32 the digitized offset
moves the position by one cell only, leaving it almost a full cell away; rounding moves it two cells -/
theorem reimageAsWas_counterexample :
    (reimageAsWas ⟨-63/64, 0, 0⟩ ⟨31/32, 0, 0⟩).x = -1/32 ∧ (reimage ⟨-63/64, 0, 0⟩ ⟨31/32, 0, 0⟩).x = -33/32 := by
  decide +kernel

/-- non-vacuity: inversion through the origin in a cubic cell is an isometry with itself as inverse -/
example :
    let inv : Op := ⟨⟨-1, 0, 0⟩, ⟨0, -1, 0⟩, ⟨0, 0, -1⟩, ⟨0, 0, 0⟩⟩
    let M : M3 := ⟨⟨4, 0, 0⟩, ⟨0, 4, 0⟩, ⟨0, 0, 4⟩⟩
    collect M.metric 1 ⟨1/8, 0, 0⟩ [⟨7/8, 1/16, 0⟩, ⟨1/8, 0, 0⟩, ⟨1/2, 1/2, 1/2⟩] false [(inv, inv)]
      = [⟨0, -1/16, 0⟩] := by
  decide +kernel

end G.C17
