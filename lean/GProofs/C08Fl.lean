import GModel.Volume
import Mathlib.Data.Rat.Floor
import Mathlib.Tactic.Linarith
import Mathlib.Tactic.Ring
import Mathlib.Tactic.Positivity
/-!
# C08, rounding: the voxel round trip survives floating-point rounding

`voxel_to_frac_coords` computes `(v + 0.5) / n` and `frac_coords_to_voxel` truncates `x · n`.
`v + 0.5` is exact for every `v < 2^52`; the division and the multiplication each commit a
relative error of at most `u` (`u = 2^-53` for IEEE binary64 round-to-nearest).  The theorem holds
for ANY rounding operator with that error bound — so in particular for binary64 — and for every
grid size `n` and every voxel index `v` with `(v + ½)(2u + u²) < ½`, i.e. `v` below about `2^51`.
-/
namespace G.C08Fl

/-- **C08 (round trip under rounding)** -/
theorem roundtrip_fl (u : ℚ) (hu : 0 ≤ u) (fl : ℚ → ℚ) (hfl : ∀ x, |fl x - x| ≤ u * |x|)
    (n v : ℕ) (hn : 0 < n) (hv : ((v : ℚ) + 1 / 2) * (2 * u + u ^ 2) < 1 / 2) :
    ⌊fl (fl (((v : ℚ) + 1 / 2) / n) * n)⌋ = (v : ℤ) := by
  have hnq : (0 : ℚ) < (n : ℚ) := by exact_mod_cast hn
  have hvq : (0 : ℚ) ≤ (v : ℚ) := Nat.cast_nonneg v
  have ha : (0 : ℚ) < (v : ℚ) + 1 / 2 := by linarith
  have hy1 : (0 : ℚ) < ((v : ℚ) + 1 / 2) / n := div_pos ha hnq
  have hy1n : ((v : ℚ) + 1 / 2) / n * n = (v : ℚ) + 1 / 2 := div_mul_cancel₀ _ (ne_of_gt hnq)
  -- first rounding, scaled by `n`
  have h1 := hfl (((v : ℚ) + 1 / 2) / n)
  rw [abs_of_pos hy1] at h1
  have h1' : |fl (((v : ℚ) + 1 / 2) / n) * n - ((v : ℚ) + 1 / 2)| ≤ u * ((v : ℚ) + 1 / 2) := by
    have e : fl (((v : ℚ) + 1 / 2) / n) * n - ((v : ℚ) + 1 / 2)
        = (fl (((v : ℚ) + 1 / 2) / n) - ((v : ℚ) + 1 / 2) / n) * n := by
      rw [sub_mul, hy1n]
    rw [e, abs_mul, abs_of_pos hnq]
    calc |fl (((v : ℚ) + 1 / 2) / n) - ((v : ℚ) + 1 / 2) / n| * n
        ≤ (u * (((v : ℚ) + 1 / 2) / n)) * n := mul_le_mul_of_nonneg_right h1 (le_of_lt hnq)
      _ = u * ((v : ℚ) + 1 / 2) := by rw [mul_assoc, hy1n]
  -- second rounding
  have h2 := hfl (fl (((v : ℚ) + 1 / 2) / n) * n)
  generalize fl (((v : ℚ) + 1 / 2) / n) * n = w at h1' h2
  generalize fl w = y at h2
  have hw : |w| ≤ ((v : ℚ) + 1 / 2) * (1 + u) := by
    have h := abs_le.mp h1'
    rw [abs_le]
    constructor <;> nlinarith [mul_nonneg hu (le_of_lt ha)]
  have h2' : |y - w| ≤ u * (((v : ℚ) + 1 / 2) * (1 + u)) :=
    le_trans h2 (mul_le_mul_of_nonneg_left hw hu)
  have h1'' := abs_le.mp h1'
  have h2'' := abs_le.mp h2'
  rw [Int.floor_eq_iff]
  push_cast
  constructor <;> nlinarith

/-- the bound covers every voxel index below 2^50 for u = 2^-53 -/
theorem bound_binary64 (v : ℕ) (hv : v < 2 ^ 50) :
    ((v : ℚ) + 1 / 2) * (2 * (1 / 2 ^ 53) + (1 / 2 ^ 53 : ℚ) ^ 2) < 1 / 2 := by
  have h : (v : ℚ) < 2 ^ 50 := by exact_mod_cast hv
  have h0 : (0 : ℚ) ≤ (v : ℚ) := Nat.cast_nonneg v
  have hc : (0 : ℚ) < 2 * (1 / 2 ^ 53) + (1 / 2 ^ 53 : ℚ) ^ 2 := by positivity
  calc ((v : ℚ) + 1 / 2) * (2 * (1 / 2 ^ 53) + (1 / 2 ^ 53 : ℚ) ^ 2)
      < (2 ^ 50 + 1 / 2) * (2 * (1 / 2 ^ 53) + (1 / 2 ^ 53 : ℚ) ^ 2) :=
        mul_lt_mul_of_pos_right (by linarith) hc
    _ < 1 / 2 := by norm_num

end G.C08Fl
