import GGen.FormulasC06
import GModel.Traj
import GProofs.C06
import GProofs.C06Fft
import Mathlib.Tactic.Ring
/-!
# C06 — obligations on the slice regenerated from /repo's source (GGen/FormulasC06.lean): `Trajectory.mean_squared_displacement`

The array code of the function is recorded as flags (compared as source text); the combination of the two terms is translated.
Together with `C06.msdAlgo_eq_def` (the S1 recursion and the autocorrelation sums give the definition) this ties the proved
algorithm to the lines that implement it.
-/
namespace G.C06Gen
open G G.Traj G.Fft

theorem msdCombine_eq (a b : ℚ) : Gen.msdCombine a b = a - 2 * b := by
  unfold Gen.msdCombine; ring

/-- combining the model's two terms as the source does gives the model's algorithm … -/
theorem msdCombine_model (r : List V3) (m : Nat) : Gen.msdCombine (s1 r m) (s2 r m) = msdAlgo r m := by
  rw [msdCombine_eq]; rfl

/-- … hence the mean squared displacement by its definition, for every track and every lag below the number of frames -/
theorem msdCombine_is_definition (r : List V3) (m : Nat) (hm : m < r.length) :
    Gen.msdCombine (s1 r m) (s2 r m) = msdDef r m := by
  rw [msdCombine_model]; exact C06.msdAlgo_eq_def r m hm

/-- the transform length written in the source leaves room for every lag that is kept: no wrapped-around term … -/
theorem msdFftLength_ok (n k : Nat) (hk : k < n) : n + k ≤ Gen.msdFftLength n := by
  unfold Gen.msdFftLength; omega

/-- … hence the code — FFT step read as the cyclic autocorrelation of the signal padded to the SOURCE's length, terms combined as
the source combines them — computes the definition, for every track and every lag -/
theorem msd_source_is_definition (r : List V3) (m : Nat) (hm : m < r.length) :
    Gen.msdCombine (s1 r m) (s2Cyclic r (Gen.msdFftLength r.length) m) = msdDef r m := by
  rw [C06Fft.s2Cyclic_eq_s2 r _ m (msdFftLength_ok r.length m hm)]
  exact msdCombine_is_definition r m hm

end G.C06Gen
