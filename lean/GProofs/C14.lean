import GModel.Metrics
import GProofs.C06
import Mathlib.Tactic.Linarith
import Mathlib.Tactic.Ring
import Mathlib.Tactic.FieldSimp
import Mathlib.Tactic.Positivity
/-!
# C14 — derived metrics obey their formulas and physical scaling laws

* `det_scale`, `Q_scale`     scaling the cell by `k`: volume × k³, squared lengths × k²
                             (⇒ particle density ÷ k³, diffusivities × k², amplitudes × k)
* `diffusivity_scale_cell`, `diffusivity_scale_time`, `density_scale`, `conductivity_scale_charge`
                             the formulas as written in `TrajectoryMetrics`, over ℚ
* `speedOf_sum`              the speed series telescopes to the final distance
* `splitAt_flatten`, `amplitudes_sum`   cutting the speed series at sign changes loses nothing:
                             the vibration amplitudes of an atom sum to its final distance
* `weightedMean_scale_power`, `weightedMean_scale_freq`   mean frequency: invariant under amplitude
                             scaling of the spectrum, ÷ s when all frequencies are ÷ s
* `massMean_const`           atoms that all move identically: the centre of mass moves the same way
                             (⇒ Haven ratio 1)
-/
namespace G.C14
open G G.Metrics

theorem det_scale (k : ℚ) (m : M3) : (M3.scale k m).det = k ^ 3 * m.det := by
  simp only [M3.scale, V3.smul, M3.det]
  ring

/-- squared Cartesian length of a fractional vector scales with k² -/
theorem Q_scale (k : ℚ) (m : M3) (v : V3) : (M3.scale k m).metric.Q v = k ^ 2 * m.metric.Q v := by
  simp only [M3.scale, V3.smul, M3.metric, V3.dot, Sym3.Q]
  ring

/-- tracer diffusivity formula: mean final squared distance / (2 d N_t Δt) -/
def tracerD (meanSq : ℚ) (d : ℚ) (T dt : ℚ) : ℚ := meanSq / (2 * d * (T * dt))

theorem diffusivity_scale_cell (k meanSq d T dt : ℚ) : tracerD (k ^ 2 * meanSq) d T dt = k ^ 2 * tracerD meanSq d T dt := by
  simp only [tracerD]
  rw [mul_div_assoc]

-- (`hs` is not needed: over ℚ with `x / 0 = 0` the identity also holds for `s = 0`)
set_option linter.unusedVariables false in
theorem diffusivity_scale_time (s meanSq d T dt : ℚ) (hs : s ≠ 0) :
    tracerD meanSq d T (s * dt) = tracerD meanSq d T dt / s := by
  simp only [tracerD]
  rw [div_div]
  congr 1
  ring

-- (`hk` is not needed, same reason)
set_option linter.unusedVariables false in
/-- particle density N / V -/
theorem density_scale (k n vol : ℚ) (hk : k ≠ 0) : n / (k ^ 3 * vol) = (n / vol) / k ^ 3 := by
  rw [div_div, mul_comm]

/-- Nernst–Einstein: σ = e² z² D ρ / (k_B T) — quadratic in the ion charge -/
def conductivity (e z D rho kB temp : ℚ) : ℚ := e ^ 2 * z ^ 2 * D * rho / (kB * temp)

theorem conductivity_scale_charge (e z D rho kB temp c : ℚ) :
    conductivity e (c * z) D rho kB temp = c ^ 2 * conductivity e z D rho kB temp := by
  simp only [conductivity]
  rw [← mul_div_assoc]
  congr 1
  ring

/-- **C14 (telescoping)**: the speeds (differences of the distance from the start, first = first
distance) add up to the final distance. -/
theorem speedOf_sum (prev : ℚ) (d : List ℚ) : (speedOf prev d).sum = d.getLastD prev - prev := by
  induction d generalizing prev with
  | nil => simp [speedOf]
  | cons a ds ih =>
    rw [speedOf, List.sum_cons, ih a, List.getLastD_cons]
    ring

/-- splitting at any ascending cut points and concatenating gives the series back -/
theorem splitAt_flatten (arr : List ℚ) (off : Nat) (cuts : List Nat) : (splitAt arr off cuts).flatten = arr := by
  induction cuts generalizing arr off with
  | nil => simp [splitAt]
  | cons i is ih =>
    rw [splitAt, List.flatten_cons, ih, List.take_append_drop]

theorem sum_map_sum (l : List (List ℚ)) : (l.map List.sum).sum = l.flatten.sum := by
  induction l with
  | nil => simp
  | cons a l ih => rw [List.map_cons, List.sum_cons, List.flatten_cons, List.sum_append, ih]

/-- **C14 (amplitudes)**: the vibration amplitudes of an atom sum to the sum of its speeds … -/
theorem amplitudes_sum (speed : List ℚ) : (amplitudes speed).sum = speed.sum := by
  unfold amplitudes
  rw [sum_map_sum, splitAt_flatten]

/-- … hence to its final distance from the starting point. -/
theorem amplitudes_sum_final (d : List ℚ) : (amplitudes (speedOf 0 d)).sum = d.getLastD 0 := by
  rw [amplitudes_sum, speedOf_sum, sub_zero]

theorem sum_map_mul_left' (p : List ℚ) (c : ℚ) : (p.map (c * ·)).sum = c * p.sum := by
  induction p with
  | nil => simp
  | cons a p ih => simp only [List.map_cons, List.sum_cons, ih]; ring

theorem zipWith_mul_map_right (f p : List ℚ) (c : ℚ) :
    (List.zipWith (· * ·) f (p.map (c * ·))).sum = c * (List.zipWith (· * ·) f p).sum := by
  induction f generalizing p with
  | nil => simp
  | cons a f ih =>
    cases p with
    | nil => simp
    | cons b p => simp only [List.map_cons, List.zipWith_cons_cons, List.sum_cons, ih]; ring

theorem zipWith_mul_map_left (f p : List ℚ) (s : ℚ) :
    (List.zipWith (· * ·) (f.map (· / s)) p).sum = (List.zipWith (· * ·) f p).sum / s := by
  induction f generalizing p with
  | nil => simp
  | cons a f ih =>
    cases p with
    | nil => simp
    | cons b p => simp only [List.map_cons, List.zipWith_cons_cons, List.sum_cons, ih]; ring

theorem zipWith_mul_const (w : List ℚ) (x : ℚ) :
    (List.zipWith (· * ·) w (w.map (fun _ => x))).sum = w.sum * x := by
  induction w with
  | nil => simp
  | cons a w ih => simp only [List.map_cons, List.zipWith_cons_cons, List.sum_cons, ih]; ring

/-- **C14 (mean frequency)**: invariant when the whole spectrum is multiplied by c ≠ 0 (amplitude scaling) … -/
theorem weightedMean_scale_power (f p : List ℚ) (c : ℚ) (hc : c ≠ 0) :
    weightedMean f (p.map (c * ·)) = weightedMean f p := by
  unfold weightedMean
  rw [zipWith_mul_map_right, sum_map_mul_left', mul_div_mul_left _ _ hc]

/-- … and divided by s when every frequency is divided by s (time-step scaling). -/
theorem weightedMean_scale_freq (f p : List ℚ) (s : ℚ) : weightedMean (f.map (· / s)) p = weightedMean f p / s := by
  unfold weightedMean
  rw [zipWith_mul_map_left, div_right_comm]

/-- **C14 (Haven ratio one)**: if every atom has the same displacement x, the mass-weighted mean is x. -/
theorem massMean_const (w : List ℚ) (x : ℚ) (hw : w.sum ≠ 0) : massMean w (w.map (fun _ => x)) = x := by
  unfold massMean
  rw [zipWith_mul_const, mul_div_cancel_left₀ _ hw]

/-- non-vacuity -/
example : amplitudes [1, 2, -1, -2, 3, 0, 1, -1] = [0, 3, 0, 1, -1] ∧ (amplitudes [1, 2, -1, -2, 3, 0, 1, -1]).sum = 3 ∧
    speedOf 0 [1, 3, 2, 0, 3, 3, 4, 3] = [1, 2, -1, -2, 3, 0, 1, -1] := by
  decide +kernel

end G.C14
