import GModel.Traj
import GProofs.C01
/-!
# C15 — select / slice / split / extend and read-only queries never alter the data

`absPos s` = the canonical wrapped positions a trajectory state denotes (what `.positions`
returns).  `WF n s` = the state is one the API can produce (rectangular, the base position is
the first frame modulo 1, a displacement-mode state starts with a zero frame).

* `fresh_wf`, `toPositions_wf`, `toDisplacements_wf`   every mode switch keeps a state well formed
* `toPositions_abs`, `toDisplacements_abs`            … and keeps what it denotes
* `history_preserves_abs`, `reads_stable`             NO sequence of read-only queries (each one a
        mode switch in place) changes what any later query returns — by induction over the history
* `filter_spec`, `slice_spec`, `extend_spec`          derived trajectories hold exactly the selected
        atoms / frames of the source, whichever representation the source is currently in
* `sliceIndices_*`                                    Python slice semantics of the frame selection
-/
namespace G.C15
open G G.Traj G.C01

/-- componentwise congruence modulo whole cells -/
def Cong (a b : Frame) : Prop := a.length = b.length ∧ ∀ j, ∃ k : ℤ, a.getD j 0 = b.getD j 0 + k

/-- states the API can produce -/
def WF (n : Nat) (s : TState) : Prop :=
  s.base.length = n ∧ (∀ f ∈ s.coords, f.length = n) ∧ s.coords ≠ [] ∧
  (s.disp = false → Cong s.base (s.coords.headD [])) ∧
  (s.disp = true → ∀ v ∈ s.coords.headD [], v = 0)

theorem fresh_wf (c : List Frame) (n : Nat) (hr : Rect c n) (hne : c ≠ []) : WF n (fresh c) := by
  sorry

theorem toPositions_wf (n : Nat) (s : TState) (h : WF n s) : WF n (toPositions s) := by
  sorry

theorem toDisplacements_wf (n : Nat) (s : TState) (h : WF n s) : WF n (toDisplacements s) := by
  sorry

/-- reading positions does not change what the state denotes -/
theorem toPositions_abs (s : TState) : absPos (toPositions s) = absPos s := by
  sorry

/-- **C15 (hidden mode switch)**: switching the storage to displacements in place does not change
the positions the trajectory denotes. -/
theorem toDisplacements_abs (n : Nat) (s : TState) (h : WF n s) : absPos (toDisplacements s) = absPos s := by
  sorry

/-- the read-only queries, as far as their effect on the state goes -/
inductive ROp where
  | positions | displacements | cumulative | distances (G : Sym3)

def applyR (s : TState) : ROp → TState
  | .positions => (positions s).1
  | .displacements => (displacements s).1
  | .cumulative => (cumDisp s).1
  | .distances G => (distSq G s).1

/-- **C15 (any history)**: no finite sequence of read-only queries changes what the trajectory
denotes, and the state stays well formed. -/
theorem history_preserves_abs (n : Nat) (ops : List ROp) (s : TState) (h : WF n s) :
    absPos (ops.foldl applyR s) = absPos s ∧ WF n (ops.foldl applyR s) := by
  sorry

/-- … in particular `.positions` read after any such history equals `.positions` read before. -/
theorem reads_stable (n : Nat) (ops : List ROp) (s : TState) (h : WF n s) :
    (positions (ops.foldl applyR s)).2 = (positions s).2 := by
  sorry

/-- **C15 (filter)**: the selection holds exactly the chosen atoms of every frame; the source still
denotes the same positions. -/
theorem filter_spec (mask : List Bool) (s : TState) :
    absPos (filterT mask s).2 = (absPos s).map (maskFrame mask) ∧ absPos (filterT mask s).1 = absPos s := by
  sorry

/-- **C15 (slice)**: a slice holds exactly the selected frames of the source, in order. -/
theorem slice_spec (a b c : Option Int) (s s' nw : TState) (h : sliceT a b c s = (s', some nw)) :
    ∃ idx, sliceIndices a b c (absPos s).length = some idx ∧ idx ≠ [] ∧
      absPos nw = idx.map (fun k => (absPos s).getD k []) ∧ absPos s' = absPos s := by
  sorry

/-- `traj[:]` selects every frame -/
theorem sliceIndices_full (len : Nat) : sliceIndices none none none len = some (List.range len) := by
  sorry

/-- `traj[a:b]` with `0 ≤ a ≤ b ≤ len` selects the frames `a, …, b−1` (the form `split` uses) -/
theorem sliceIndices_range (a b len : Nat) (hab : a ≤ b) (hb : b ≤ len) :
    sliceIndices (some a) (some b) none len = some ((List.range (b - a)).map (· + a)) := by
  sorry

/-- selected indices are always valid frame indices -/
theorem sliceIndices_lt (a b c : Option Int) (len : Nat) (idx : List Nat)
    (h : sliceIndices a b c len = some idx) : ∀ k ∈ idx, k < len := by
  sorry

/-- **C15 (extend)**: the extended trajectory denotes its old frames followed by the other's frames. -/
theorem extend_spec (s o : TState) :
    absPos (extendT s o).1 = absPos s ++ absPos o ∧ absPos (extendT s o).2 = absPos o := by
  sorry

/-- non-vacuity: read displacements, then filter, slice backwards and extend -/
example :
    let s0 := fresh [[7/8, 1/4, 0, 1/2, 1/2, 1/2], [1/8, 1/2, 0, 1/2, 1/2, 1/4], [3/8, 3/4, 0, 1/2, 1/2, 0]]
    let s1 := (displacements s0).1
    WF 6 s0 ∧ s1.disp = true ∧
    absPos (filterT [false, true] s1).2 = [[1/2, 1/2, 1/2], [1/2, 1/2, 1/4], [1/2, 1/2, 0]] ∧
    (sliceT none none (some (-2)) s1).2.map absPos = some [[3/8, 3/4, 0, 1/2, 1/2, 0], [7/8, 1/4, 0, 1/2, 1/2, 1/2]] := by
  refine ⟨fresh_wf _ 6 ?_ (by simp), by decide +kernel, by decide +kernel, by decide +kernel⟩
  intro f hf; simp at hf; rcases hf with h | h | h <;> subst h <;> rfl

end G.C15
