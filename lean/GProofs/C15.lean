import GModel.Traj
import GProofs.C01
/-!
# C15 — select / slice / split / extend and read-only queries never alter the data

`absPos s` = the canonical wrapped positions a trajectory state denotes (what `.positions`
returns).  `WF n s` = the state is one the API can produce (rectangular, the base position is
the first frame modulo 1, a displacement-mode state starts with a zero frame).

* `fresh_wf`, `toPositions_wf`, `toDisplacements_wf`   every mode switch keeps a state well formed
* `toPositions_abs`, `toDisplacements_abs`            … and keeps what it denotes
* `history_preserves_abs`, `reads_stable`             NO sequence of read-only queries (each one a
        mode switch in place) changes what any later query returns — by induction over the history
* `filter_spec`, `slice_spec`, `extend_spec`          derived trajectories hold exactly the selected
        atoms / frames of the source, whichever representation the source is currently in
* `sliceIndices_*`                                    Python slice semantics of the frame selection
-/
namespace G.C15
open G G.Traj G.C01

/-- componentwise congruence modulo whole cells -/
def Cong (a b : Frame) : Prop := a.length = b.length ∧ ∀ j, ∃ k : ℤ, a.getD j 0 = b.getD j 0 + k

/-- states the API can produce -/
def WF (n : Nat) (s : TState) : Prop :=
  s.base.length = n ∧ (∀ f ∈ s.coords, f.length = n) ∧ s.coords ≠ [] ∧
  (s.disp = false → Cong s.base (s.coords.headD [])) ∧
  (s.disp = true → ∀ v ∈ s.coords.headD [], v = 0)

/-! ### helpers -/

theorem map_wrap_idem (c : List Frame) :
    (c.map (·.map wrap)).map (·.map wrap) = c.map (·.map wrap) := by
  simp [List.map_map, Function.comp_def, wrap_wrap]

theorem absPos_of_pos (s : TState) (h : s.disp = false) : absPos s = s.coords.map (·.map wrap) := by
  simp [absPos, toPositions, h]

theorem absPos_of_disp (s : TState) (h : s.disp = true) :
    absPos s = ((cumsum s.coords).map (vadd s.base)).map (·.map wrap) := by
  simp [absPos, toPositions, h]

theorem Cong.to01 {a b : Frame} {n : Nat} (h : Cong a b) (hn : a.length = n) : G.C01.Cong a b n :=
  ⟨hn, by rw [← h.1, hn], fun j _ => h.2 j⟩

theorem Cong.refl (a : Frame) : Cong a a := ⟨rfl, fun _ => ⟨0, by simp⟩⟩

theorem getD_zero_of_ge (a : Frame) (j : Nat) (h : a.length ≤ j) : a.getD j 0 = 0 := by
  simp [List.getD_eq_getElem?_getD, List.getElem?_eq_none h]

theorem Cong.map_wrap_right {a b : Frame} (h : Cong a b) : Cong a (b.map wrap) := by
  refine ⟨by simpa using h.1, fun j => ?_⟩
  by_cases hj : j < b.length
  · obtain ⟨k, hk⟩ := h.2 j
    obtain ⟨m, hm⟩ := wrap_congr (b.getD j 0)
    rw [getD_map _ _ _ hj, hm, hk]
    exact ⟨k - m, by push_cast; ring⟩
  · have hj' : b.length ≤ j := Nat.le_of_not_lt hj
    rw [getD_zero_of_ge a j (by rw [h.1]; exact hj'), getD_zero_of_ge _ j (by simpa using hj')]
    exact ⟨0, by simp⟩

theorem rect_cumsumFrom (n : Nat) : ∀ (fs : List Frame) (acc : Frame), acc.length = n → Rect fs n →
    Rect (cumsumFrom acc fs) n := by
  intro fs
  induction fs with
  | nil => intro acc _ _ f hf; simp [cumsumFrom] at hf
  | cons g fs ih =>
    intro acc hacc hr f hf
    have hg : g.length = n := hr g (by simp)
    have ha : (vadd acc g).length = n := by rw [length_vadd, hacc, hg]; simp
    simp only [cumsumFrom, List.mem_cons] at hf
    rcases hf with hf | hf
    · rw [hf]; exact ha
    · exact ih _ ha (fun f hf => hr f (List.mem_cons_of_mem _ hf)) f hf

theorem rect_diffs (n : Nat) : ∀ (fs : List Frame) (p : Frame), p.length = n → Rect fs n →
    Rect (diffs p fs) n := by
  intro fs
  induction fs with
  | nil => intro p _ _ f hf; simp [diffs] at hf
  | cons g fs ih =>
    intro p hp hr f hf
    have hg : g.length = n := hr g (by simp)
    simp only [diffs, List.mem_cons] at hf
    rcases hf with hf | hf
    · rw [hf]; simp [length_vsub, hg, hp]
    · exact ih _ hg (fun f hf => hr f (List.mem_cons_of_mem _ hf)) f hf

theorem vadd_zero_right (a z : Frame) (hl : a.length = z.length) (hz : ∀ v ∈ z, v = 0) : vadd a z = a := by
  apply ext_getD _ _ a.length (by rw [length_vadd, hl]; simp) rfl
  intro j hj
  have hjz : j < z.length := hl ▸ hj
  rw [getD_vadd _ _ _ hj hjz, getD_eq _ _ _ hjz, hz _ (List.getElem_mem hjz), add_zero]

theorem vadd_zero_left (z a : Frame) (hl : z.length = a.length) (hz : ∀ v ∈ z, v = 0) : vadd z a = a := by
  apply ext_getD _ _ a.length (by rw [length_vadd, hl]; simp) rfl
  intro j hj
  have hjz : j < z.length := hl ▸ hj
  rw [getD_vadd _ _ _ hjz hj, getD_eq _ _ _ hjz, hz _ (List.getElem_mem hjz), zero_add]

theorem mem_zerosLike (f : Frame) : ∀ v ∈ zerosLike f, v = 0 := by
  intro v hv
  simp only [zerosLike, List.mem_map] at hv
  obtain ⟨_, _, rfl⟩ := hv
  rfl

theorem fresh_wf (c : List Frame) (n : Nat) (hr : Rect c n) (hne : c ≠ []) : WF n (fresh c) := by
  cases c with
  | nil => exact absurd rfl hne
  | cons f rest =>
    refine ⟨hr f (by simp), hr, hne, fun _ => Cong.refl _, fun h => ?_⟩
    simp [fresh] at h

theorem toPositions_wf (n : Nat) (s : TState) (h : WF n s) : WF n (toPositions s) := by
  obtain ⟨hb, hr, hne, hp, hd⟩ := h
  obtain ⟨dsp, coords, base⟩ := s
  cases coords with
  | nil => exact absurd rfl hne
  | cons f rest =>
    have hf : f.length = n := hr f (by simp)
    cases dsp with
    | false =>
      refine ⟨hb, ?_, by simp [toPositions], fun _ => ?_, fun h => by simp [toPositions] at h⟩
      · intro g hg
        simp only [toPositions, Bool.false_eq_true, if_false, List.mem_map] at hg
        obtain ⟨g', hg', rfl⟩ := hg
        simpa using hr g' hg'
      · have := (hp rfl).map_wrap_right
        simpa [toPositions] using this
    | true =>
      have hz : ∀ v ∈ f, v = 0 := hd rfl
      have hzl : (zerosLike f).length = n := by rw [length_zerosLike, hf]
      have h1 : vadd (zerosLike f) f = f := vadd_zerosLike_left f
      have h2 : vadd base f = base := vadd_zero_right base f (by rw [hf]; exact hb) hz
      have hrc : Rect (cumsumFrom f rest) n :=
        rect_cumsumFrom n rest f hf (fun g hg => hr g (List.mem_cons_of_mem _ hg))
      refine ⟨hb, ?_, by simp [toPositions, cumsum, cumsumFrom], fun _ => ?_,
        fun h => by simp [toPositions] at h⟩
      · intro g hg
        simp only [toPositions, if_true, cumsum, cumsumFrom, h1, List.map_cons, List.mem_cons,
          List.mem_map] at hg
        rcases hg with rfl | ⟨g', ⟨g'', hg'', rfl⟩, rfl⟩
        · simpa [h2] using hb
        · simp [length_vadd, hrc g'' hg'', show base.length = n from hb]
      · have : Cong base (base.map wrap) := (Cong.refl base).map_wrap_right
        simpa [toPositions, cumsum, cumsumFrom, h1, h2] using this

theorem toDisplacements_wf (n : Nat) (s : TState) (h : WF n s) : WF n (toDisplacements s) := by
  obtain ⟨dsp, coords, base⟩ := s
  cases dsp with
  | true => simpa [toDisplacements] using h
  | false =>
    obtain ⟨hb, hr, hne, hp, hd⟩ := h
    cases coords with
    | nil => exact absurd rfl hne
    | cons f rest =>
      have hf : f.length = n := hr f (by simp)
      have hzl : (zerosLike f).length = n := by rw [length_zerosLike, hf]
      have hrd : Rect (diffs f rest) n :=
        rect_diffs n rest f hf (fun g hg => hr g (List.mem_cons_of_mem _ hg))
      refine ⟨hb, ?_, by simp [toDisplacements, toDispCoords], fun h => by simp [toDisplacements] at h,
        fun _ => ?_⟩
      · intro g hg
        simp only [toDisplacements, Bool.false_eq_true, if_false, toDispCoords, List.mem_cons] at hg
        rcases hg with rfl | hg
        · exact hzl
        · exact hrd g hg
      · simpa [toDisplacements, toDispCoords] using mem_zerosLike f

/-- reading positions does not change what the state denotes -/
theorem toPositions_abs (s : TState) : absPos (toPositions s) = absPos s := by
  show (toPositions (toPositions s)).coords = (toPositions s).coords
  have h : (toPositions s).disp = false := rfl
  have := absPos_of_pos (toPositions s) h
  unfold absPos at this
  rw [this]
  simp only [toPositions]
  exact map_wrap_idem _

/-- **C15 (hidden mode switch)**: switching the storage to displacements in place does not change
the positions the trajectory denotes. -/
theorem toDisplacements_abs (n : Nat) (s : TState) (h : WF n s) : absPos (toDisplacements s) = absPos s := by
  obtain ⟨dsp, coords, base⟩ := s
  cases dsp with
  | true => simp [toDisplacements]
  | false =>
    obtain ⟨hb, hr, hne, hp, hd⟩ := h
    cases coords with
    | nil => exact absurd rfl hne
    | cons f rest =>
      have hb : base.length = n := hb
      have hf : f.length = n := hr f (by simp)
      have hzl : (zerosLike f).length = n := by rw [length_zerosLike, hf]
      have hbz : vadd base (zerosLike f) = base :=
        vadd_zero_right base _ (by rw [hzl, hb]) (mem_zerosLike f)
      have hc : G.C01.Cong (vadd base (zerosLike f)) f n := by
        rw [hbz]; exact (hp rfl).to01 hb
      have key := cumsum_diffs_wrap base n hb rest f (zerosLike f)
        (fun g hg => hr g (List.mem_cons_of_mem _ hg)) hzl hc
      rw [absPos_of_disp _ (by simp [toDisplacements]), absPos_of_pos _ rfl]
      have hzz : vadd (zerosLike (zerosLike f)) (zerosLike f) = zerosLike f := vadd_zerosLike_left _
      simp only [toDisplacements, Bool.false_eq_true, if_false, toDispCoords, cumsum, cumsumFrom, hzz,
        List.map_cons]
      rw [key, hc.map_wrap]

/-- the read-only queries, as far as their effect on the state goes -/
inductive ROp where
  | positions | displacements | cumulative | distances (G : Sym3)

def applyR (s : TState) : ROp → TState
  | .positions => (positions s).1
  | .displacements => (displacements s).1
  | .cumulative => (cumDisp s).1
  | .distances G => (distSq G s).1

/-- **C15 (any history)**: no finite sequence of read-only queries changes what the trajectory
denotes, and the state stays well formed. -/
theorem applyR_cases (s : TState) (op : ROp) :
    applyR s op = toPositions s ∨ applyR s op = toDisplacements s := by
  cases op
  · exact Or.inl rfl
  · exact Or.inr rfl
  · exact Or.inr rfl
  · exact Or.inr rfl

theorem applyR_step (n : Nat) (s : TState) (op : ROp) (h : WF n s) :
    absPos (applyR s op) = absPos s ∧ WF n (applyR s op) := by
  rcases applyR_cases s op with e | e <;> rw [e]
  · exact ⟨toPositions_abs s, toPositions_wf n s h⟩
  · exact ⟨toDisplacements_abs n s h, toDisplacements_wf n s h⟩

theorem history_preserves_abs (n : Nat) (ops : List ROp) (s : TState) (h : WF n s) :
    absPos (ops.foldl applyR s) = absPos s ∧ WF n (ops.foldl applyR s) := by
  induction ops generalizing s with
  | nil => exact ⟨rfl, h⟩
  | cons op ops ih =>
    obtain ⟨h1, h2⟩ := applyR_step n s op h
    obtain ⟨h3, h4⟩ := ih (applyR s op) h2
    exact ⟨by rw [List.foldl_cons, h3, h1], h4⟩

/-- … in particular `.positions` read after any such history equals `.positions` read before. -/
theorem reads_stable (n : Nat) (ops : List ROp) (s : TState) (h : WF n s) :
    (positions (ops.foldl applyR s)).2 = (positions s).2 :=
  (history_preserves_abs n ops s h).1

theorem map_wrap_of_wrapped (f : Frame) (h : ∀ v ∈ f, wrap v = v) : f.map wrap = f := by
  conv_rhs => rw [← List.map_id f]
  exact List.map_congr_left h

theorem wrapped_map_wrap (g : Frame) : ∀ v ∈ g.map wrap, wrap v = v := by
  intro v hv
  obtain ⟨u, _, rfl⟩ := List.mem_map.mp hv
  exact wrap_wrap u

theorem wrapped_absPos (s : TState) : ∀ f ∈ absPos s, ∀ v ∈ f, wrap v = v := by
  intro f hf
  simp only [absPos, toPositions, List.mem_map] at hf
  obtain ⟨g, _, rfl⟩ := hf
  exact wrapped_map_wrap g

theorem absPos_fresh (c : List Frame) : absPos (fresh c) = c.map (·.map wrap) :=
  absPos_of_pos _ rfl

theorem absPos_fresh_wrapped (c : List Frame) (h : ∀ f ∈ c, ∀ v ∈ f, wrap v = v) :
    absPos (fresh c) = c := by
  rw [absPos_fresh]
  conv_rhs => rw [← List.map_id c]
  exact List.map_congr_left (fun f hf => map_wrap_of_wrapped f (h f hf))

theorem mem_toV3s : ∀ (f : Frame) (p : V3), p ∈ toV3s f → p.x ∈ f ∧ p.y ∈ f ∧ p.z ∈ f
  | x :: y :: z :: r, p, h => by
    simp only [toV3s, List.mem_cons] at h
    rcases h with rfl | h
    · simp
    · have := mem_toV3s r p h
      simp [this]
  | [], p, h => by simp [toV3s] at h
  | [_], p, h => by simp [toV3s] at h
  | [_, _], p, h => by simp [toV3s] at h

theorem mem_maskFrame (mask : List Bool) (f : Frame) (v : ℚ) (h : v ∈ maskFrame mask f) : v ∈ f := by
  simp only [maskFrame, List.mem_flatMap] at h
  obtain ⟨p, hp, hv⟩ := h
  have hp1 : p.1 ∈ toV3s f := (List.of_mem_zip hp).1
  obtain ⟨hx, hy, hz⟩ := mem_toV3s f p.1 hp1
  split at hv
  · simp only [V3.toList, List.mem_cons, List.not_mem_nil, or_false] at hv
    rcases hv with rfl | rfl | rfl <;> assumption
  · simp at hv

/-- **C15 (filter)**: the selection holds exactly the chosen atoms of every frame; the source still
denotes the same positions. -/
theorem filter_spec (mask : List Bool) (s : TState) :
    absPos (filterT mask s).2 = (absPos s).map (maskFrame mask) ∧ absPos (filterT mask s).1 = absPos s := by
  refine ⟨?_, toPositions_abs s⟩
  show absPos (fresh ((absPos s).map (maskFrame mask))) = _
  apply absPos_fresh_wrapped
  intro f hf v hv
  obtain ⟨g, hg, rfl⟩ := List.mem_map.mp hf
  exact wrapped_absPos s g hg v (mem_maskFrame mask g v hv)

/-- **C15 (slice)**: a slice holds exactly the selected frames of the source, in order. -/
theorem slice_spec (a b c : Option Int) (s s' nw : TState) (h : sliceT a b c s = (s', some nw)) :
    ∃ idx, sliceIndices a b c (absPos s).length = some idx ∧ idx ≠ [] ∧
      absPos nw = idx.map (fun k => (absPos s).getD k []) ∧ absPos s' = absPos s := by
  have h' : (match sliceIndices a b c (absPos s).length with
      | none => (toPositions s, none)
      | some idx =>
        if idx.isEmpty then (toPositions s, none)
        else (toPositions s, some (fresh (idx.map (fun k => (absPos s).getD k []))))) = (s', some nw) := h
  cases hi : sliceIndices a b c (absPos s).length with
  | none => rw [hi] at h'; simp at h'
  | some idx =>
    rw [hi] at h'
    simp only at h'
    by_cases he : idx.isEmpty
    · rw [if_pos he] at h'; simp at h'
    · rw [if_neg he] at h'
      obtain ⟨h1, h2⟩ := Prod.mk.inj h'
      have h2 := Option.some.inj h2
      subst h1 h2
      refine ⟨idx, rfl, fun hn => he (by rw [hn]; rfl), ?_, toPositions_abs s⟩
      apply absPos_fresh_wrapped
      intro f hf v hv
      obtain ⟨k, _, rfl⟩ := List.mem_map.mp hf
      by_cases hk : k < (absPos s).length
      · exact wrapped_absPos s _ (getD_mem _ k hk) v hv
      · rw [List.getD_eq_getElem?_getD, List.getElem?_eq_none (Nat.le_of_not_lt hk)] at hv
        simp at hv

theorem rangeList_one : ∀ (fuel k : Nat) (a : Int), k ≤ fuel →
    rangeList a (a + k) 1 fuel = (List.range k).map (fun (i : Nat) => a + (i : Int)) := by
  intro fuel
  induction fuel with
  | zero =>
    intro k a hk
    have : k = 0 := by omega
    subst this
    rfl
  | succ fuel ih =>
    intro k a hk
    cases k with
    | zero =>
      have hc : ¬((1 : Int) > 0 ∧ a < a + ((0 : Nat) : Int) ∨ (1 : Int) < 0 ∧ a > a + ((0 : Nat) : Int)) := by
        omega
      simp only [rangeList]
      rw [if_neg hc]
      rfl
    | succ k =>
      have hc : ((1 : Int) > 0 ∧ a < a + ((k + 1 : Nat) : Int) ∨ (1 : Int) < 0 ∧ a > a + ((k + 1 : Nat) : Int)) := by
        omega
      have e : a + ((k + 1 : Nat) : Int) = (a + 1) + (k : Int) := by push_cast; omega
      simp only [rangeList]
      rw [if_pos hc, e, ih k (a + 1) (by omega), List.range_succ_eq_map, List.map_cons, List.map_map]
      congr 1
      · simp
      · apply List.map_congr_left
        intro i _
        simp only [Function.comp, Nat.succ_eq_add_one]
        push_cast
        omega

theorem rangeList_mem_pos : ∀ (fuel : Nat) (a b st x : Int), 0 < st → x ∈ rangeList a b st fuel →
    a ≤ x ∧ x < b := by
  intro fuel
  induction fuel with
  | zero => intro a b st x _ h; simp [rangeList] at h
  | succ fuel ih =>
    intro a b st x hst h
    simp only [rangeList] at h
    split at h
    · rename_i hc
      have hab : a < b := by omega
      rcases List.mem_cons.mp h with rfl | h
      · exact ⟨le_refl _, hab⟩
      · have := ih (a + st) b st x hst h
        omega
    · simp at h

theorem rangeList_mem_neg : ∀ (fuel : Nat) (a b st x : Int), st < 0 → x ∈ rangeList a b st fuel →
    b < x ∧ x ≤ a := by
  intro fuel
  induction fuel with
  | zero => intro a b st x _ h; simp [rangeList] at h
  | succ fuel ih =>
    intro a b st x hst h
    simp only [rangeList] at h
    split at h
    · rename_i hc
      have hab : b < a := by omega
      rcases List.mem_cons.mp h with rfl | h
      · exact ⟨hab, le_refl _⟩
      · have := ih (a + st) b st x hst h
        omega
    · simp at h

theorem adjust_pos_bounds (x : Option Int) (len : Nat) (isStart : Bool) :
    0 ≤ adjust x len false isStart ∧ adjust x len false isStart ≤ len := by
  unfold adjust
  cases x with
  | none => cases isStart <;> simp
  | some v =>
    simp only [Bool.false_eq_true, if_false]
    split
    · split <;> omega
    · split <;> omega

theorem adjust_neg_bounds (x : Option Int) (len : Nat) (isStart : Bool) :
    -1 ≤ adjust x len true isStart ∧ adjust x len true isStart ≤ (len : Int) - 1 := by
  unfold adjust
  cases x with
  | none => cases isStart <;> simp
  | some v =>
    simp only [if_true]
    split
    · split <;> omega
    · split <;> omega

theorem adjust_nat (a len : Nat) (isStart : Bool) (h : a ≤ len) :
    adjust (some (a : Int)) len false isStart = a := by
  unfold adjust
  have h1 : ¬ ((a : Int) < 0) := by omega
  simp only [Bool.false_eq_true, if_false]
  rw [if_neg h1]
  split
  · omega
  · rfl

/-- `traj[:]` selects every frame -/
theorem sliceIndices_full (len : Nat) : sliceIndices none none none len = some (List.range len) := by
  have h := rangeList_one (len + 1) len 0 (by omega)
  rw [Int.zero_add] at h
  have e : sliceIndices none none none len = some ((rangeList 0 (len : Int) 1 (len + 1)).map Int.toNat) := rfl
  rw [e, h, List.map_map]
  congr 1
  conv_rhs => rw [← List.map_id (List.range len)]
  apply List.map_congr_left
  intro i _
  simp

/-- `traj[a:b]` with `0 ≤ a ≤ b ≤ len` selects the frames `a, …, b−1` (the form `split` uses) -/
theorem sliceIndices_range (a b len : Nat) (hab : a ≤ b) (hb : b ≤ len) :
    sliceIndices (some a) (some b) none len = some ((List.range (b - a)).map (· + a)) := by
  have e : sliceIndices (some (a : Int)) (some (b : Int)) none len
      = some ((rangeList (adjust (some (a : Int)) len false true) (adjust (some (b : Int)) len false false)
          1 (len + 1)).map Int.toNat) := rfl
  have hb' : (b : Int) = (a : Int) + ((b - a : Nat) : Int) := by omega
  rw [e, adjust_nat a len true (by omega), adjust_nat b len false hb, hb',
    rangeList_one (len + 1) (b - a) a (by omega), List.map_map]
  congr 1
  apply List.map_congr_left
  intro i _
  simp only [Function.comp]
  omega

/-- selected indices are always valid frame indices -/
theorem sliceIndices_lt (a b c : Option Int) (len : Nat) (idx : List Nat)
    (h : sliceIndices a b c len = some idx) : ∀ k ∈ idx, k < len := by
  unfold sliceIndices at h
  simp only at h
  split at h
  · simp at h
  · rename_i hst
    have h := Option.some.inj h
    subst h
    intro k hk
    obtain ⟨x, hx, rfl⟩ := List.mem_map.mp hk
    by_cases hneg : c.getD 1 < 0
    · rw [decide_eq_true hneg] at hx
      have h1 := rangeList_mem_neg _ _ _ _ _ hneg hx
      have h2 := adjust_neg_bounds a len true
      have h3 := adjust_neg_bounds b len false
      omega
    · rw [decide_eq_false hneg] at hx
      have h1 := rangeList_mem_pos _ _ _ _ _ (by omega) hx
      have h2 := adjust_pos_bounds a len true
      have h3 := adjust_pos_bounds b len false
      omega

/-- **C15 (extend)**: the extended trajectory denotes its old frames followed by the other's frames. -/
theorem extend_spec (s o : TState) :
    absPos (extendT s o).1 = absPos s ++ absPos o ∧ absPos (extendT s o).2 = absPos o := by
  refine ⟨?_, toPositions_abs o⟩
  have e : absPos (extendT s o).1 = (absPos s ++ absPos o).map (·.map wrap) := absPos_of_pos _ rfl
  rw [e]
  conv_rhs => rw [← List.map_id (absPos s ++ absPos o)]
  apply List.map_congr_left
  intro f hf
  apply map_wrap_of_wrapped
  rcases List.mem_append.mp hf with hf | hf
  · exact wrapped_absPos s f hf
  · exact wrapped_absPos o f hf

/-- non-vacuity: read displacements, then filter, slice backwards and extend -/
example :
    let s0 := fresh [[7/8, 1/4, 0, 1/2, 1/2, 1/2], [1/8, 1/2, 0, 1/2, 1/2, 1/4], [3/8, 3/4, 0, 1/2, 1/2, 0]]
    let s1 := (displacements s0).1
    WF 6 s0 ∧ s1.disp = true ∧
    absPos (filterT [false, true] s1).2 = [[1/2, 1/2, 1/2], [1/2, 1/2, 1/4], [1/2, 1/2, 0]] ∧
    (sliceT none none (some (-2)) s1).2.map absPos = some [[3/8, 3/4, 0, 1/2, 1/2, 0], [7/8, 1/4, 0, 1/2, 1/2, 1/2]] := by
  refine ⟨fresh_wf _ 6 ?_ (by simp), by decide +kernel, by decide +kernel, by decide +kernel⟩
  intro f hf; simp at hf; rcases hf with h | h | h <;> subst h <;> rfl

end G.C15
