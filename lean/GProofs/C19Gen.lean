import GGen.FormulasC19
import GModel.Split
import GProofs.C19
import Mathlib.Tactic.Linarith
import Mathlib.Tactic.Ring
/-!
# C19 — obligations on the formula slice regenerated from /repo's source (GGen/FormulasC19.lean):
the time bins of `_split_transitions_events` and the frame intervals of `Trajectory.split`
-/
namespace G.C19Gen
open G G.Split

/-- half-open parts: an event belongs to the part `[start, stop)` -/
theorem inPart_iff (t a b : ℚ) : Gen.inPart t a b = true ↔ a ≤ t ∧ t < b := by
  unfold Gen.inPart
  simp only [decide_eq_true_eq, ge_iff_le]

/-- … which is the selection of the model's `binEvents` (so `C19.binEvents_count`: every event in exactly one part) -/
theorem inPart_eq_model (t a b : Int) : Gen.inPart (t : ℚ) (a : ℚ) (b : ℚ) = (decide (a ≤ t) && decide (t < b)) := by
  rw [Bool.eq_iff_iff, inPart_iff]
  simp only [Bool.and_eq_true, decide_eq_true_eq, Int.cast_le, Int.cast_lt]

/-- two consecutive parts never share an event, and together they cover `[a, c)` -/
theorem inPart_consecutive (t a b c : ℚ) (hab : a ≤ b) (hbc : b ≤ c) :
    (Gen.inPart t a c = true ↔ (Gen.inPart t a b = true ∨ Gen.inPart t b c = true)) ∧
    ¬ (Gen.inPart t a b = true ∧ Gen.inPart t b c = true) := by
  simp only [inPart_iff]
  refine ⟨⟨fun ⟨h1, h2⟩ => ?_, fun h => ?_⟩, fun ⟨⟨_, h1⟩, ⟨h2, _⟩⟩ => absurd h1 (not_lt.mpr h2)⟩
  · rcases lt_or_ge t b with h | h
    · exact Or.inl ⟨h1, h⟩
    · exact Or.inr ⟨h, h2⟩
  · rcases h with ⟨h1, h2⟩ | ⟨h1, h2⟩
    · exact ⟨h1, lt_of_lt_of_le h2 hbc⟩
    · exact ⟨le_trans hab h1, h2⟩

/-- re-based times of a part start at zero and stay below the part's length -/
theorem rebase_range (t a b : ℚ) (h : Gen.inPart t a b = true) : 0 ≤ Gen.rebase t a ∧ Gen.rebase t a < b - a := by
  obtain ⟨h1, h2⟩ := (inPart_iff t a b).mp h
  unfold Gen.rebase
  constructor <;> linarith

/-- re-basing is undone by adding the part's first boundary (no event is altered otherwise) -/
theorem rebase_inv (t a : ℚ) : Gen.rebase t a + a = t := by
  unfold Gen.rebase
  ring

/-- the bins run from 0 to one past the last possible event time (events have times 0 … n_states − 1 … n_states),
with one boundary more than parts -/
theorem bins_args (n p : ℚ) : Gen.binsStart n p = 0 ∧ Gen.binsStop n p = n + 1 ∧ Gen.binsCount n p = p + 1 := by
  unfold Gen.binsStart Gen.binsStop Gen.binsCount
  refine ⟨?_, ?_, ?_⟩ <;> ring

/-- the frame interval of `Trajectory.split` runs from frame 0 to the last frame index -/
theorem split_args (n p : ℚ) : Gen.splitStart n p = 0 ∧ Gen.splitStop n p = n - 1 ∧ Gen.splitCount n p = p + 1 := by
  unfold Gen.splitStart Gen.splitStop Gen.splitCount
  refine ⟨?_, ?_, ?_⟩ <;> ring

end G.C19Gen
