import GGen.FormulasC20
/-!
# C20 — obligations on the slice regenerated from /repo's source (GGen/FormulasC20.lean): the `weak_lru_cache` decorator
and the set of methods it is applied to

`GModel.Memo` models a memo keyed on (weak reference to the object, arguments) that stores results only; the theorems of
`GProofs.C20` (`memo_transparent`, `hit_same_object`, `cache_bounded`, `no_leak`) are about that model.  The flags below record
that the decorator still has exactly this shape, and the list pins WHICH methods are cached: `no_leak` needs that a cached
result holds no strong reference to its object, which is a property of each method's return value and was audited by hand
for the methods listed in `auditedValueMethods` (arrays, numbers, data frames, dictionaries, graphs of plain indices).
-/
namespace G.C20Gen
open G

theorem memo_is_lru_on_weak_reference : Gen.memoIsLruOnWeakReference = true := rfl

theorem memo_stores_only_results : Gen.memoStoresOnlyResults = true := rfl

theorem cache_capacity_pos : 0 < Gen.cacheCapacity := by decide

/-- methods whose cached RESULT was audited to hold no strong reference to the object it was computed for -/
def auditedValueMethods : List String :=
  ["collective.Collective.site_pair_count_matrix", "collective.Collective.site_pair_count_matrix_labels",
   "collective.Collective.multiple_collective", "jumps.Jumps.jump_diffusivity", "jumps.Jumps.matrix",
   "jumps.Jumps.activation_energies", "jumps.Jumps.counter", "jumps.Jumps._counter", "jumps.Jumps.to_graph", "jumps.Jumps.rates",
   "metrics.TrajectoryMetrics.speed", "metrics.TrajectoryMetrics.particle_density", "metrics.TrajectoryMetrics.mol_per_liter",
   "metrics.TrajectoryMetrics.tracer_diffusivity", "metrics.TrajectoryMetrics.tracer_diffusivity_center_of_mass",
   "metrics.TrajectoryMetrics.haven_ratio", "metrics.TrajectoryMetrics.tracer_conductivity",
   "metrics.TrajectoryMetrics.attempt_frequency", "metrics.TrajectoryMetrics.vibration_amplitude",
   "metrics.TrajectoryMetrics.amplitudes", "transitions.Transitions.matrix", "transitions.Transitions.states_next",
   "transitions.Transitions.states_prev"]

/-- the one cached method whose result DOES store its object (`Collective.jumps`): the recorded known finding D14 -/
def knownLeakingMethods : List String := ["jumps.Jumps.collective"]

/-- every cached method is either audited or the recorded known finding; a newly cached method has to be audited first -/
theorem cached_methods_audited : ∀ m ∈ Gen.cachedMethods, m ∈ auditedValueMethods ∨ m ∈ knownLeakingMethods := by
  decide

end G.C20Gen
