import GModel.Rdf
import GProofs.Geometry
import Mathlib.Tactic.Linarith
import Mathlib.Tactic.Ring
import Mathlib.Tactic.Positivity
/-!
# C11 — radial distributions equal brute-force histograms and partition over states

* `binRight_le`, `binRight_spec`   `np.digitize(d, k·res, right=True)` puts a distance in the least
        bin `k` with `d ≤ k·res`, in the overflow bin `nb` when there is none
* `frameContribs_length`, `frameContribs_mem`   every (floating atom, other atom) pair of a frame
        contributes exactly ONE (state, symbol, bin) cell — the per-state distributions partition
        the pair counts
* `stateCode_injective`   the integer state code determines (current, previous, next) label
* `uniqify_spec`, `uniqifyAsWas_counterexample`   label lookup (defect D8, repaired)
* `binLeft_spec`          `np.histogram` bins are left-closed, the last one closed
* `pair_count_symm`       raw pair counts are symmetric in the two species
-/
namespace G.C11
open G G.Rdf

theorem binRightAux_le (res dsq : ℚ) (nb fuel : Nat) (h : fuel ≤ nb) : binRightAux res dsq nb fuel ≤ nb := by
  induction fuel with
  | zero => simp [binRightAux]
  | succ n ih =>
    simp only [binRightAux]
    split
    · omega
    · exact ih (by omega)

theorem binRight_le (res : ℚ) (nb : Nat) (dsq : ℚ) : binRight res nb dsq ≤ nb := by
  exact binRightAux_le res dsq nb nb (Nat.le_refl nb)

theorem binRightAux_spec (res dsq : ℚ) (nb fuel : Nat) (h : fuel ≤ nb)
    (inv : ∀ j, j < nb - fuel → ((j : ℚ) * res) ^ 2 < dsq) :
    (binRightAux res dsq nb fuel < nb → dsq ≤ ((binRightAux res dsq nb fuel : ℚ) * res) ^ 2) ∧
      (∀ j, j < binRightAux res dsq nb fuel → j < nb → ((j : ℚ) * res) ^ 2 < dsq) := by
  induction fuel with
  | zero =>
    simp only [binRightAux]
    refine ⟨fun hlt => absurd hlt (Nat.lt_irrefl nb), fun j hj _ => inv j (by omega)⟩
  | succ n ih =>
    simp only [binRightAux]
    split
    · rename_i hc
      exact ⟨fun _ => hc, fun j hj _ => inv j hj⟩
    · rename_i hc
      apply ih (by omega)
      intro j hj
      by_cases hjn : j < nb - (n + 1)
      · exact inv j hjn
      · have hje : j = nb - (n + 1) := by omega
        subst hje
        exact not_le.mp hc

/-- **C11 (bin of a distance)**: the bin is the least `k < nb` with `dsq ≤ (k·res)²`; the overflow
bin `nb` is used exactly when no such `k` exists. -/
theorem binRight_spec (res : ℚ) (nb : Nat) (dsq : ℚ) :
    let k := binRight res nb dsq
    (k < nb → dsq ≤ ((k : ℚ) * res) ^ 2) ∧ (∀ j, j < k → j < nb → ((j : ℚ) * res) ^ 2 < dsq) := by
  have := binRightAux_spec res dsq nb nb (Nat.le_refl nb) (by intro j hj; omega)
  simpa [binRight] using this

theorem sum_map_const_nat {α : Type} (l : List α) (c : Nat) :
    (l.map (fun _ => c)).sum = l.length * c := by
  induction l with
  | nil => simp
  | cons a t ih => simp [Nat.succ_mul, Nat.add_comm]

/-- **C11 (partition)**: a frame yields exactly one contribution per (floating atom, atom) pair … -/
theorem frameContribs_length (G : Sym3) (res : ℚ) (nb : Nat) (coords : List V3) (floating : List Nat)
    (codes : List Int) (symOf : List Nat) (hc : codes.length = floating.length) (hs : symOf.length = coords.length) :
    (frameContribs G res nb coords floating codes symOf).length = floating.length * coords.length := by
  unfold frameContribs
  rw [List.length_flatMap]
  simp only [List.length_map, List.length_zip, hs, Nat.min_self]
  rw [sum_map_const_nat, List.length_zip, hc, Nat.min_self]

/-- … carrying the state code of the floating atom, the symbol of the other atom and a bin ≤ nb. -/
theorem frameContribs_mem (G : Sym3) (res : ℚ) (nb : Nat) (coords : List V3) (floating : List Nat)
    (codes : List Int) (symOf : List Nat) (c : Contribution)
    (h : c ∈ frameContribs G res nb coords floating codes symOf) :
    c.code ∈ codes ∧ c.sym ∈ symOf ∧ c.bin ≤ nb := by
  unfold frameContribs at h
  rw [List.mem_flatMap] at h
  obtain ⟨fc, hfc, h⟩ := h
  rw [List.mem_map] at h
  obtain ⟨cs, hcs, rfl⟩ := h
  refine ⟨(List.of_mem_zip (a := fc.1) (b := fc.2) hfc).2, (List.of_mem_zip (a := cs.1) (b := cs.2) hcs).2, ?_⟩
  exact binRight_le _ _ _

/-- **C11 (state codes)**: with fewer than 999 labels the code `i·10⁶ + j·10³ + k` is injective. -/
theorem stateCode_injective (i j k i' j' k' : Int)
    (hi : -1 ≤ i ∧ i < 999) (hj : -1 ≤ j ∧ j < 999) (hk : -1 ≤ k ∧ k < 999)
    (hi' : -1 ≤ i' ∧ i' < 999) (hj' : -1 ≤ j' ∧ j' < 999) (hk' : -1 ≤ k' ∧ k' < 999)
    (h : stateCode i j k = stateCode i' j' k') : i = i' ∧ j = j' ∧ k = k' := by
  unfold stateCode at h
  omega

/-- **C11 (labels)**: a site state is mapped to the label of that very site, "no site" to "none". -/
theorem uniqify_spec (labelIdx : List Int) (state : Int) :
    (state = -1 → uniqify labelIdx state = -1) ∧
    (∀ n : Nat, state = n → n < labelIdx.length → uniqify labelIdx state = labelIdx.getD n (-1)) := by
  refine ⟨fun h => by subst h; simp [uniqify], fun n hn _ => ?_⟩
  subst hn
  simp [uniqify]

/-- defect D8 (repaired): the original lookup gave site 1 the label of site 0 and site 0 "none" -/
theorem uniqifyAsWas_counterexample :
    uniqifyAsWas [0, 1, 0] 0 = -1 ∧ uniqifyAsWas [0, 1, 0] 1 = 0 ∧ uniqify [0, 1, 0] 0 = 0 ∧ uniqify [0, 1, 0] 1 = 1 := by
  decide

/-- `np.histogram`: bin `k` holds `(k·res)² ≤ dsq < ((k+1)·res)²`, the last bin also its right edge -/
theorem binLeft_spec (res : ℚ) (hres : 0 < res) (nb : Nat) (dsq : ℚ) (hd : 0 ≤ dsq) (k : Nat)
    (h : binLeft res nb dsq = some k) :
    k + 1 < nb ∧ ((k : ℚ) * res) ^ 2 ≤ dsq ∧
      (dsq < (((k + 1 : Nat) : ℚ) * res) ^ 2 ∨ (k + 2 = nb ∧ dsq = (((k + 1 : Nat) : ℚ) * res) ^ 2)) := by
  unfold binLeft at h
  split at h
  · exact absurd h (by simp)
  · rename_i hnb
    have hnb2 : 2 ≤ nb := by omega
    split at h
    · rename_i hd2
      have hk : k = nb - 2 := by injection h with h; exact h.symm
      have hk1 : k + 1 = nb - 1 := by omega
      refine ⟨by omega, ?_, Or.inr ⟨by omega, by rw [hk1]; exact hd2⟩⟩
      rw [hd2, ← hk1]
      have hle : (k : ℚ) * res ≤ ((k + 1 : Nat) : ℚ) * res := by
        push_cast
        nlinarith
      have h0 : 0 ≤ (k : ℚ) * res := by positivity
      exact pow_le_pow_left₀ h0 hle 2
    · split at h
      · rename_i k' hfind
        have hkk : k' = k := by injection h
        subst hkk
        have hmem := List.mem_of_find?_eq_some hfind
        have hp := List.find?_some hfind
        rw [List.mem_range] at hmem
        simp only [Bool.and_eq_true, decide_eq_true_eq] at hp
        exact ⟨by omega, hp.1, Or.inl hp.2⟩
      · exact absurd h (by simp)

theorem count_flatMap_nil {α β : Type} [DecidableEq β] (B : List α) (x : β) :
    (B.flatMap (fun _ => ([] : List β))).count x = 0 := by
  induction B with
  | nil => simp
  | cons b t ih => simpa [List.flatMap_cons] using ih

theorem count_flatMap_cons_inner {α β : Type} [DecidableEq β] (a : α) (A B : List α) (g : α → α → β) (x : β) :
    (B.flatMap (fun q => (a :: A).map (fun p => g p q))).count x =
      (B.map (fun q => g a q)).count x + (B.flatMap (fun q => A.map (fun p => g p q))).count x := by
  induction B with
  | nil => simp
  | cons b t ih =>
    simp only [List.flatMap_cons, List.map_cons, List.count_append, List.count_cons] at ih ⊢
    omega

theorem count_flatMap_swap {α β : Type} [DecidableEq β] (A B : List α) (g : α → α → β) (x : β) :
    (A.flatMap (fun p => B.map (fun q => g p q))).count x =
      (B.flatMap (fun q => A.map (fun p => g p q))).count x := by
  induction A with
  | nil => simp [count_flatMap_nil]
  | cons a t ih =>
    rw [count_flatMap_cons_inner, List.flatMap_cons, List.count_append, ih]

/-- **C11 (symmetry)**: for a symmetric pair function the multiset of values over A × B equals that
over B × A — raw pair counts do not depend on the order of the two species. -/
theorem pair_count_symm {α β : Type} [DecidableEq β] (A B : List α) (f : α → α → β) (hf : ∀ p q, f p q = f q p) (x : β) :
    ((A.flatMap (fun p => B.map (fun q => f p q))).count x) = ((B.flatMap (fun q => A.map (fun p => f q p))).count x) := by
  have hswap : (fun q => A.map (fun p => f q p)) = (fun q => A.map (fun p => f p q)) := by
    funext q
    exact List.map_congr_left (fun p _ => hf q p)
  rw [hswap]
  exact count_flatMap_swap A B f x

/-- non-vacuity -/
example : binRight (1/2) 5 (9/16) = 2 ∧ binRight (1/2) 5 1 = 2 ∧ binRight (1/2) 5 0 = 0 ∧ binRight (1/2) 5 5 = 5 ∧
    binLeft (1/2) 5 1 = some 2 ∧ binLeft (1/2) 5 4 = some 3 ∧ binLeft (1/2) 5 5 = none := by
  decide +kernel

end G.C11
