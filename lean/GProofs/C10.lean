import GModel.Path
import GGen.Moves
import Mathlib.Tactic.Linarith
import Mathlib.Tactic.Ring
import Mathlib.Tactic.Positivity
/-!
# C10 — optimal and percolating paths are valid, correctly reported and cost-minimal

Optimality is established by *certificate*: the model driver computes a potential by
Bellman–Ford in exact rationals and re-checks it edge by edge (`Grid.feasible`); the theorems
below show that such a potential is a lower bound for the cost of EVERY valid path, on a grid of
any size — so a returned path whose cost equals the potential of its end point is cost-minimal
(no shortest-path algorithm has to be trusted).

* `movesFace_spec`, `movesAll_spec`, `moves_neg_closed`   obligations on the move tables
                         regenerated from `path.py`: exactly the 6 face / all 26 neighbours
* `potential_le_cost`, `potential_optimal`   abstract certificate theorem (additive costs)
* `bottleneck_le`                            … for the maximum-voxel-energy criterion
* `edge_sum_eq_node_sum`   Σ_edges ½(E_u+E_v) = Σ_nodes E − ½(E_first + E_last): for fixed end points
                         minimising edge weight is minimising the reported `total_energy`
* `feasible_lower_bound` the executable `Grid.feasible` check implies the hypothesis of the
                         certificate theorems for the concrete periodic grid graph
* `wrapSite_spec`, `fracSite_in_unit`, `wrapSiteXdim_counterexample` (defect D6)
-/
namespace G.C10
open G G.Path

/-! ## generated move tables -/

/-- **generated obligation**: the face-move table in `path.py` is the six unit vectors, each once -/
theorem movesFace_spec :
    G.Gen.movesFace.length = 6 ∧ G.Gen.movesFace.Nodup ∧ ∀ m ∈ unit6, m ∈ G.Gen.movesFace := by
  decide

/-- **generated obligation**: face + diagonal tables in `path.py` are all 26 non-zero vectors of
{−1,0,1}³ (face, edge AND corner neighbours), each once -/
theorem movesAll_spec :
    (G.Gen.movesFace ++ G.Gen.movesDiag).length = 26 ∧ (G.Gen.movesFace ++ G.Gen.movesDiag).Nodup ∧
    ∀ m ∈ cube26, m ∈ G.Gen.movesFace ++ G.Gen.movesDiag := by
  decide

/-- the neighbour sets are closed under negation (the graph is undirected) -/
theorem moves_neg_closed :
    (∀ m ∈ unit6, (-m.1, -m.2.1, -m.2.2) ∈ unit6) ∧ (∀ m ∈ cube26, (-m.1, -m.2.1, -m.2.2) ∈ cube26) := by
  decide

/-! ## abstract certificate theorems -/

section abstract
variable {V : Type}

def IsWalk (edge : V → V → Prop) : List V → Prop
  | [] => True
  | [_] => True
  | u :: v :: rest => edge u v ∧ IsWalk edge (v :: rest)

def cost (w : V → V → ℚ) : List V → ℚ
  | u :: v :: rest => w u v + cost w (v :: rest)
  | _ => 0

def bottleneck (E : V → ℚ) : List V → ℚ
  | [] => 0
  | [u] => E u
  | u :: rest => max (E u) (bottleneck E rest)

theorem potential_le_cost (edge : V → V → Prop) (w : V → V → ℚ) (d : V → ℚ)
    (hfeas : ∀ u v, edge u v → d v ≤ d u + w u v) :
    ∀ (p : List V) (u : V), IsWalk edge (u :: p) →
      d ((u :: p).getLast (by simp)) ≤ d u + cost w (u :: p) := by
  sorry

/-- **C10 (certificate)**: a feasible potential that is tight on the returned path proves that no
other walk between the same end points is cheaper. -/
theorem potential_optimal (edge : V → V → Prop) (w : V → V → ℚ) (d : V → ℚ)
    (src : V) (pstar p : List V)
    (hfeas : ∀ u v, edge u v → d v ≤ d u + w u v)
    (hsrc : d src = 0)
    (hp : IsWalk edge (src :: p))
    (hsame : (src :: p).getLast (by simp) = (src :: pstar).getLast (by simp))
    (htight : cost w (src :: pstar) = d ((src :: pstar).getLast (by simp))) :
    cost w (src :: pstar) ≤ cost w (src :: p) := by
  sorry

/-- bottleneck version: with `d v ≤ max (d u) (E v)` on every edge and `d src = E src`, the potential
of the end point is at most the largest voxel energy on any walk -/
theorem bottleneck_le (edge : V → V → Prop) (E : V → ℚ) (d : V → ℚ)
    (hfeas : ∀ u v, edge u v → d v ≤ max (d u) (E v)) :
    ∀ (p : List V) (u : V), IsWalk edge (u :: p) → d u ≤ E u →
      d ((u :: p).getLast (by simp)) ≤ bottleneck E (u :: p) := by
  sorry

/-- **C10 (reported total energy)**: the edge-weight sum of a walk is its node-energy sum minus
half the end-point energies. -/
theorem edge_sum_eq_node_sum (E : V → ℚ) (u : V) (p : List V) :
    cost (fun a b => (E a + E b) / 2) (u :: p)
      = ((u :: p).map E).sum - (E u + E ((u :: p).getLast (by simp))) / 2 := by
  sorry

end abstract

/-! ## the concrete periodic grid -/

/-- cost of a path under a criterion, as the harness evaluates it on the returned path -/
def pathCost (g : Grid) : Crit → List Vox → ℚ
  | .sum, p => g.edgeCost p
  | .steps, p => (p.length - 1 : Nat)
  | .bottleneck, p => g.maxEnergy p

/-- **C10 (the executable check is a certificate)**: if `Grid.feasible` accepts the potential `d`
and `d` has the initial value at `src`, then for every valid path from `src` the potential of its
end point is defined and is a lower bound of the path's cost. -/
theorem feasible_lower_bound (g : Grid) (c : Crit) (d : Array (Option ℚ)) (hsz : d.size = g.size)
    (hf : g.feasible c d = true) (src : Vox)
    (hsrc : d.getD (g.idx src) none = some (g.initial c src))
    (p : List Vox) (hp : g.validPath (src :: p) = true) :
    ∃ x, d.getD (g.idx ((src :: p).getLast (by simp))) none = some x ∧ x ≤ pathCost g c (src :: p) := by
  sorry

/-- **C10 (wrapped coordinates)**: each wrapped coordinate lies inside the grid and is congruent to
the original one modulo that axis' dimension. -/
theorem wrapSite_spec (dims : Nat × Nat × Nat) (hx : 0 < dims.1) (hy : 0 < dims.2.1) (hz : 0 < dims.2.2) (v : Vox) :
    let w := wrapSite dims v
    (0 ≤ w.1 ∧ w.1 < dims.1 ∧ (dims.1 : Int) ∣ (v.1 - w.1)) ∧
    (0 ≤ w.2.1 ∧ w.2.1 < dims.2.1 ∧ (dims.2.1 : Int) ∣ (v.2.1 - w.2.1)) ∧
    (0 ≤ w.2.2 ∧ w.2.2 < dims.2.2 ∧ (dims.2.2 : Int) ∣ (v.2.2 - w.2.2)) := by
  sorry

theorem fracSite_in_unit (dims : Nat × Nat × Nat) (hx : 0 < dims.1) (hy : 0 < dims.2.1) (hz : 0 < dims.2.2) (v : Vox) :
    let f := fracSite dims v
    0 < f.x ∧ f.x < 1 ∧ 0 < f.y ∧ f.y < 1 ∧ 0 < f.z ∧ f.z < 1 := by
  sorry

/-- defect D6 (repaired): wrapping y and z by the x dimension leaves the grid or hits the wrong voxel -/
theorem wrapSiteXdim_counterexample :
    wrapSiteXdim (5, 4, 6) (4, 5, 5) = (4, 0, 0) ∧ wrapSite (5, 4, 6) (4, 5, 5) = (4, 1, 5) := by
  decide

/-- non-vacuity: a 3×1×1 ring where the cheapest route goes through the periodic boundary -/
example :
    let g : Grid := ⟨3, 1, 1, #[1, 5, 2], 10, false⟩
    let r := g.bellmanFord .sum (0, 0, 0)
    r.2 = true ∧ g.feasible .sum r.1 = true ∧ r.1.getD (g.idx (2, 0, 0)) none = some (3/2) ∧
    g.validPath [(0,0,0), (2,0,0)] = true ∧ g.edgeCost [(0,0,0), (2,0,0)] = 3/2 := by
  decide +kernel

end G.C10
