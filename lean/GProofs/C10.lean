import GModel.Path
import GGen.Moves
import Mathlib.Tactic.Linarith
import Mathlib.Tactic.Ring
import Mathlib.Tactic.Positivity
/-!
# C10 — optimal and percolating paths are valid, correctly reported and cost-minimal

Optimality is established by *certificate*: the model driver computes a potential by
Bellman–Ford in exact rationals and re-checks it edge by edge (`Grid.feasible`); the theorems
below show that such a potential is a lower bound for the cost of EVERY valid path, on a grid of
any size — so a returned path whose cost equals the potential of its end point is cost-minimal
(no shortest-path algorithm has to be trusted).

* `movesFace_spec`, `movesAll_spec`, `moves_neg_closed`   obligations on the move tables
                         regenerated from `path.py`: exactly the 6 face / all 26 neighbours
* `potential_le_cost`, `potential_optimal`   abstract certificate theorem (additive costs)
* `bottleneck_le`                            … for the maximum-voxel-energy criterion
* `edge_sum_eq_node_sum`   Σ_edges ½(E_u+E_v) = Σ_nodes E − ½(E_first + E_last): for fixed end points
                         minimising edge weight is minimising the reported `total_energy`
* `feasible_lower_bound` the executable `Grid.feasible` check implies the hypothesis of the
                         certificate theorems for the concrete periodic grid graph
* `wrapSite_spec`, `fracSite_in_unit`, `wrapSiteXdim_counterexample` (defect D6)
-/
namespace G.C10
open G G.Path

/-! ## generated move tables -/

/-- **generated obligation**: the face-move table in `path.py` is the six unit vectors, each once -/
theorem movesFace_spec :
    G.Gen.movesFace.length = 6 ∧ G.Gen.movesFace.Nodup ∧ ∀ m ∈ unit6, m ∈ G.Gen.movesFace := by
  decide

/-- **generated obligation**: face + diagonal tables in `path.py` are all 26 non-zero vectors of
{−1,0,1}³ (face, edge AND corner neighbours), each once -/
theorem movesAll_spec :
    (G.Gen.movesFace ++ G.Gen.movesDiag).length = 26 ∧ (G.Gen.movesFace ++ G.Gen.movesDiag).Nodup ∧
    ∀ m ∈ cube26, m ∈ G.Gen.movesFace ++ G.Gen.movesDiag := by
  decide

/-- the neighbour sets are closed under negation (the graph is undirected) -/
theorem moves_neg_closed :
    (∀ m ∈ unit6, (-m.1, -m.2.1, -m.2.2) ∈ unit6) ∧ (∀ m ∈ cube26, (-m.1, -m.2.1, -m.2.2) ∈ cube26) := by
  decide

/-! ## abstract certificate theorems -/

section abstract
variable {V : Type}

def IsWalk (edge : V → V → Prop) : List V → Prop
  | [] => True
  | [_] => True
  | u :: v :: rest => edge u v ∧ IsWalk edge (v :: rest)

def cost (w : V → V → ℚ) : List V → ℚ
  | u :: v :: rest => w u v + cost w (v :: rest)
  | _ => 0

def bottleneck (E : V → ℚ) : List V → ℚ
  | [] => 0
  | [u] => E u
  | u :: rest => max (E u) (bottleneck E rest)

theorem potential_le_cost (edge : V → V → Prop) (w : V → V → ℚ) (d : V → ℚ)
    (hfeas : ∀ u v, edge u v → d v ≤ d u + w u v) :
    ∀ (p : List V) (u : V), IsWalk edge (u :: p) →
      d ((u :: p).getLast (by simp)) ≤ d u + cost w (u :: p) := by
  intro p
  induction p with
  | nil => intro u _; simp [cost]
  | cons v rest ih =>
    intro u hw
    obtain ⟨huv, hrest⟩ := hw
    have h1 := ih v hrest
    have h2 := hfeas u v huv
    have : (u :: v :: rest).getLast (by simp) = (v :: rest).getLast (by simp) := by
      simp [List.getLast_cons]
    rw [this]
    simp only [cost]
    linarith

/-- **C10 (certificate)**: a feasible potential that is tight on the returned path proves that no
other walk between the same end points is cheaper. -/
theorem potential_optimal (edge : V → V → Prop) (w : V → V → ℚ) (d : V → ℚ)
    (src : V) (pstar p : List V)
    (hfeas : ∀ u v, edge u v → d v ≤ d u + w u v)
    (hsrc : d src = 0)
    (hp : IsWalk edge (src :: p))
    (hsame : (src :: p).getLast (by simp) = (src :: pstar).getLast (by simp))
    (htight : cost w (src :: pstar) = d ((src :: pstar).getLast (by simp))) :
    cost w (src :: pstar) ≤ cost w (src :: p) := by
  have h := potential_le_cost edge w d hfeas p src hp
  rw [hsame, hsrc] at h
  linarith

theorem head_le_bottleneck (E : V → ℚ) (a : V) (q : List V) : E a ≤ bottleneck E (a :: q) := by
  cases q with
  | nil => simp [bottleneck]
  | cons c q => simp [bottleneck]

theorem bottleneck_cons_cons (E : V → ℚ) (a b : V) (q : List V) :
    bottleneck E (a :: b :: q) = max (E a) (bottleneck E (b :: q)) := by
  simp [bottleneck]

/-- general form: the potential of the end point is at most the larger of the start potential and the
bottleneck of the walk -/
theorem bottleneck_le_max (edge : V → V → Prop) (E : V → ℚ) (d : V → ℚ)
    (hfeas : ∀ u v, edge u v → d v ≤ max (d u) (E v)) :
    ∀ (q : List V) (a : V), IsWalk edge (a :: q) →
      d ((a :: q).getLast (by simp)) ≤ max (d a) (bottleneck E (a :: q)) := by
  intro q
  induction q with
  | nil => intro a _; simp [bottleneck]
  | cons b q ihq =>
    intro a haq
    obtain ⟨hab, hq⟩ := haq
    have e1 : (a :: b :: q).getLast (by simp) = (b :: q).getLast (by simp) := by
      simp [List.getLast_cons]
    rw [e1, bottleneck_cons_cons]
    have h3 := ihq b hq
    have h4 := hfeas a b hab
    have h5 : E b ≤ bottleneck E (b :: q) := head_le_bottleneck E b q
    refine le_trans h3 (max_le ?_ ?_)
    · refine le_trans h4 (max_le (le_max_left _ _) ?_)
      exact le_trans h5 (le_trans (le_max_right _ _) (le_max_right _ _))
    · exact le_trans (le_max_right _ _) (le_max_right _ _)

/-- bottleneck version: with `d v ≤ max (d u) (E v)` on every edge and `d src = E src`, the potential
of the end point is at most the largest voxel energy on any walk -/
theorem bottleneck_le (edge : V → V → Prop) (E : V → ℚ) (d : V → ℚ)
    (hfeas : ∀ u v, edge u v → d v ≤ max (d u) (E v)) :
    ∀ (p : List V) (u : V), IsWalk edge (u :: p) → d u ≤ E u →
      d ((u :: p).getLast (by simp)) ≤ bottleneck E (u :: p) := by
  intro p u hw hu
  refine le_trans (bottleneck_le_max edge E d hfeas p u hw) (max_le ?_ (le_refl _))
  exact le_trans hu (head_le_bottleneck E u p)

/-- **C10 (reported total energy)**: the edge-weight sum of a walk is its node-energy sum minus
half the end-point energies. -/
theorem edge_sum_eq_node_sum (E : V → ℚ) (u : V) (p : List V) :
    cost (fun a b => (E a + E b) / 2) (u :: p)
      = ((u :: p).map E).sum - (E u + E ((u :: p).getLast (by simp))) / 2 := by
  induction p generalizing u with
  | nil => simp [cost]
  | cons v rest ih =>
    have this : (u :: v :: rest).getLast (by simp) = (v :: rest).getLast (by simp) := by
      simp [List.getLast_cons]
    rw [this]
    have h := ih v
    simp only [cost, List.map_cons, List.sum_cons] at h ⊢
    rw [h]
    ring

end abstract

/-! ## the concrete periodic grid -/

/-- cost of a path under a criterion, as the harness evaluates it on the returned path -/
def pathCost (g : Grid) : Crit → List Vox → ℚ
  | .sum, p => g.edgeCost p
  | .steps, p => (p.length - 1 : Nat)
  | .bottleneck, p => g.maxEnergy p

theorem pmod_cast (a : Int) (n : Nat) (hn : 0 < n) : ((pmod a n : Nat) : Int) = a % (n : Int) := by
  unfold pmod
  exact Int.toNat_of_nonneg (Int.emod_nonneg _ (by omega))

theorem pmod_spec (a : Int) (n : Nat) (hn : 0 < n) :
    0 ≤ ((pmod a n : Nat) : Int) ∧ ((pmod a n : Nat) : Int) < n ∧ (n : Int) ∣ (a - (pmod a n : Nat)) := by
  rw [pmod_cast a n hn]
  refine ⟨Int.emod_nonneg _ (by omega), Int.emod_lt_of_pos _ (by omega), ?_⟩
  exact Int.dvd_self_sub_emod

theorem pmod_back (a m : Int) (n : Nat) (h0 : 0 ≤ a) (h1 : a < n) :
    ((pmod (((pmod (a + m) n : Nat) : Int) + -m) n : Nat) : Int) = a := by
  have hn : 0 < n := by omega
  rw [pmod_cast _ _ hn, pmod_cast _ _ hn, Int.emod_add_emod]
  have e : a + m + -m = a := by omega
  rw [e, Int.emod_eq_of_lt h0 h1]

theorem inside_iff (g : Grid) (v : Vox) :
    g.inside v = true ↔
      (0 ≤ v.1 ∧ v.1 < g.nx) ∧ (0 ≤ v.2.1 ∧ v.2.1 < g.ny) ∧ (0 ≤ v.2.2 ∧ v.2.2 < g.nz) := by
  simp only [Grid.inside, Bool.and_eq_true, decide_eq_true_eq]
  constructor
  · rintro ⟨⟨⟨⟨⟨a, b⟩, c⟩, d⟩, e⟩, f⟩; exact ⟨⟨a, b⟩, ⟨c, d⟩, ⟨e, f⟩⟩
  · rintro ⟨⟨a, b⟩, ⟨c, d⟩, ⟨e, f⟩⟩; exact ⟨⟨⟨⟨⟨a, b⟩, c⟩, d⟩, e⟩, f⟩

theorem isNode_inside (g : Grid) (v : Vox) (h : g.isNode v = true) : g.inside v = true := by
  simp only [Grid.isNode, Bool.and_eq_true] at h
  exact h.1.1

/-- C-order index arithmetic -/
theorem idx_arith (nx ny nz a b c : Nat) (ha : a < nx) (hb : b < ny) (hc : c < nz) :
    ((a * ny + b) * nz + c) / nz / ny = a ∧ ((a * ny + b) * nz + c) / nz % ny = b ∧
    ((a * ny + b) * nz + c) % nz = c ∧ (a * ny + b) * nz + c < nx * ny * nz := by
  have hnz : 0 < nz := by omega
  have hny : 0 < ny := by omega
  have h1 : ((a * ny + b) * nz + c) / nz = a * ny + b := by
    rw [Nat.add_comm, Nat.add_mul_div_right _ _ hnz, Nat.div_eq_of_lt hc, Nat.zero_add]
  have h2 : ((a * ny + b) * nz + c) % nz = c := by
    rw [Nat.add_comm, Nat.add_mul_mod_self_right, Nat.mod_eq_of_lt hc]
  have h3 : (a * ny + b) / ny = a := by
    rw [Nat.add_comm, Nat.add_mul_div_right _ _ hny, Nat.div_eq_of_lt hb, Nat.zero_add]
  have h4 : (a * ny + b) % ny = b := by
    rw [Nat.add_comm, Nat.add_mul_mod_self_right, Nat.mod_eq_of_lt hb]
  refine ⟨by rw [h1, h3], by rw [h1, h4], h2, ?_⟩
  have h5 : a * ny + b + 1 ≤ nx * ny := by
    have h : (a + 1) * ny ≤ nx * ny := Nat.mul_le_mul_right _ ha
    rw [Nat.add_mul] at h
    omega
  have h6 : (a * ny + b + 1) * nz ≤ nx * ny * nz := Nat.mul_le_mul_right _ h5
  rw [Nat.add_mul] at h6
  omega

/-- `vox` inverts `idx` on the grid, and `idx` stays below `size` -/
theorem vox_idx (g : Grid) (v : Vox) (h : g.inside v = true) :
    g.vox (g.idx v) = v ∧ g.idx v < g.size := by
  obtain ⟨⟨a0, a1⟩, ⟨b0, b1⟩, ⟨c0, c1⟩⟩ := (inside_iff g v).mp h
  have ea := Int.toNat_of_nonneg a0
  have eb := Int.toNat_of_nonneg b0
  have ec := Int.toNat_of_nonneg c0
  have ha : v.1.toNat < g.nx := by omega
  have hb : v.2.1.toNat < g.ny := by omega
  have hc : v.2.2.toNat < g.nz := by omega
  obtain ⟨k1, k2, k3, k4⟩ := idx_arith g.nx g.ny g.nz _ _ _ ha hb hc
  refine ⟨?_, k4⟩
  unfold Grid.vox Grid.idx
  rw [k1, k2, k3, ea, eb, ec]

/-- stepping back along the negated move returns to a voxel of the grid -/
theorem step_neg (g : Grid) (v m : Vox) (h : g.inside v = true) :
    g.step (g.step v m) (-m.1, -m.2.1, -m.2.2) = v := by
  obtain ⟨⟨a0, a1⟩, ⟨b0, b1⟩, ⟨c0, c1⟩⟩ := (inside_iff g v).mp h
  have e1 := pmod_back v.1 m.1 g.nx a0 a1
  have e2 := pmod_back v.2.1 m.2.1 g.ny b0 b1
  have e3 := pmod_back v.2.2 m.2.2 g.nz c0 c1
  show (((pmod (((pmod (v.1 + m.1) g.nx : Nat) : Int) + -m.1) g.nx : Nat) : Int),
        ((pmod (((pmod (v.2.1 + m.2.1) g.ny : Nat) : Int) + -m.2.1) g.ny : Nat) : Int),
        ((pmod (((pmod (v.2.2 + m.2.2) g.nz : Nat) : Int) + -m.2.2) g.nz : Nat) : Int)) = v
  rw [e1, e2, e3]

theorem moves_neg (g : Grid) (m : Vox) (hm : m ∈ g.moves) : (-m.1, -m.2.1, -m.2.2) ∈ g.moves := by
  unfold Grid.moves at hm ⊢
  split at hm
  · rename_i hd; rw [if_pos hd]; exact moves_neg_closed.2 m hm
  · rename_i hd; rw [if_neg hd]; exact moves_neg_closed.1 m hm

/-- every edge is witnessed by a forward step (the move sets are closed under negation) -/
theorem adj_forward (g : Grid) (u v : Vox) (h : g.adj u v = true) :
    ∃ m ∈ g.moves, g.step u m = v ∧ g.isNode u = true ∧ g.isNode v = true := by
  simp only [Grid.adj, Bool.and_eq_true, Bool.or_eq_true, List.any_eq_true, beq_iff_eq] at h
  obtain ⟨⟨hu, hv⟩, h | h⟩ := h
  · obtain ⟨m, hm, e⟩ := h
    exact ⟨m, hm, e, hu, hv⟩
  · obtain ⟨m, hm, e⟩ := h
    refine ⟨_, moves_neg g m hm, ?_, hu, hv⟩
    rw [← e]
    exact step_neg g v m (isNode_inside g v hv)

/-- what `feasible` checks for one forward edge -/
theorem feasible_edge (g : Grid) (c : Crit) (d : Array (Option ℚ)) (hf : g.feasible c d = true)
    (u m : Vox) (du : ℚ) (hu : g.isNode u = true) (hdu : d.getD (g.idx u) none = some du)
    (hm : m ∈ g.moves) (hv : g.isNode (g.step u m) = true) :
    ∃ dv, d.getD (g.idx (g.step u m)) none = some dv ∧ dv ≤ g.extend c du u (g.step u m) := by
  obtain ⟨e1, e2⟩ := vox_idx g u (isNode_inside g u hu)
  unfold Grid.feasible at hf
  rw [List.all_eq_true] at hf
  have h := hf (g.idx u) (List.mem_range.mpr e2)
  simp only [hdu, e1] at h
  rw [List.all_eq_true] at h
  have h' := h m hm
  simp only [hv, if_true] at h'
  cases hdv : d.getD (g.idx (g.step u m)) none with
  | none => rw [hdv] at h'; exact absurd h' (by simp)
  | some dv =>
    rw [hdv] at h'
    exact ⟨dv, rfl, by simpa using h'⟩

theorem foldl_max_mono (g : Grid) (p : List Vox) (a b : ℚ) (h : a ≤ b) :
    p.foldl (fun m v => max m (g.energy v)) a ≤ p.foldl (fun m v => max m (g.energy v)) b := by
  induction p generalizing a b with
  | nil => simpa using h
  | cons v rest ih =>
    simp only [List.foldl_cons]
    exact ih _ _ (max_le_max h (le_refl _))

/-- accumulated bound along a path starting with potential `du` -/
def accBound (g : Grid) : Crit → ℚ → Vox → List Vox → ℚ
  | .sum, du, u, p => du + g.edgeCost (u :: p)
  | .steps, du, _, p => du + (p.length : ℚ)
  | .bottleneck, du, _, p => p.foldl (fun m v => max m (g.energy v)) du

theorem feasible_acc (g : Grid) (c : Crit) (d : Array (Option ℚ)) (hf : g.feasible c d = true) :
    ∀ (p : List Vox) (u : Vox) (du : ℚ), d.getD (g.idx u) none = some du →
      g.validPath (u :: p) = true →
      ∃ x, d.getD (g.idx ((u :: p).getLast (by simp))) none = some x ∧ x ≤ accBound g c du u p := by
  intro p
  induction p with
  | nil =>
    intro u du hdu _
    refine ⟨du, by simpa using hdu, ?_⟩
    cases c <;> simp [accBound, Grid.edgeCost]
  | cons v rest ih =>
    intro u du hdu hp
    simp only [Grid.validPath, Bool.and_eq_true] at hp
    obtain ⟨hadj, hrest⟩ := hp
    obtain ⟨m, hm, hstep, hu, hv⟩ := adj_forward g u v hadj
    obtain ⟨dv, hdv, hle⟩ := feasible_edge g c d hf u m du hu hdu hm (by rw [hstep]; exact hv)
    rw [hstep] at hdv hle
    obtain ⟨x, hx, hxle⟩ := ih v dv hdv hrest
    have e : (u :: v :: rest).getLast (by simp) = (v :: rest).getLast (by simp) := by
      simp [List.getLast_cons]
    rw [e]
    refine ⟨x, hx, le_trans hxle ?_⟩
    cases c with
    | sum =>
      simp only [accBound, Grid.extend] at hle ⊢
      have e2 : g.edgeCost (u :: v :: rest) = g.weight u v + g.edgeCost (v :: rest) := rfl
      rw [e2]
      linarith
    | steps =>
      simp only [accBound, Grid.extend, List.length_cons] at hle ⊢
      push_cast
      linarith
    | bottleneck =>
      simp only [accBound, Grid.extend, List.foldl_cons] at hle ⊢
      exact foldl_max_mono g rest _ _ hle

/-- **C10 (the executable check is a certificate)**: if `Grid.feasible` accepts the potential `d`
and `d` has the initial value at `src`, then for every valid path from `src` the potential of its
end point is defined and is a lower bound of the path's cost. -/
theorem feasible_lower_bound (g : Grid) (c : Crit) (d : Array (Option ℚ)) (hsz : d.size = g.size)
    (hf : g.feasible c d = true) (src : Vox)
    (hsrc : d.getD (g.idx src) none = some (g.initial c src))
    (p : List Vox) (hp : g.validPath (src :: p) = true) :
    ∃ x, d.getD (g.idx ((src :: p).getLast (by simp))) none = some x ∧ x ≤ pathCost g c (src :: p) := by
  -- `hsz` is not needed: every array access is `getD`
  have _ := hsz
  obtain ⟨x, hx, hle⟩ := feasible_acc g c d hf p src _ hsrc hp
  refine ⟨x, hx, le_trans hle (le_of_eq ?_)⟩
  cases c with
  | sum => simp [accBound, pathCost, Grid.initial]
  | steps => simp [accBound, pathCost, Grid.initial]
  | bottleneck => simp [accBound, pathCost, Grid.initial, Grid.maxEnergy]

/-- **C10 (wrapped coordinates)**: each wrapped coordinate lies inside the grid and is congruent to
the original one modulo that axis' dimension. -/
theorem wrapSite_spec (dims : Nat × Nat × Nat) (hx : 0 < dims.1) (hy : 0 < dims.2.1) (hz : 0 < dims.2.2) (v : Vox) :
    let w := wrapSite dims v
    (0 ≤ w.1 ∧ w.1 < dims.1 ∧ (dims.1 : Int) ∣ (v.1 - w.1)) ∧
    (0 ≤ w.2.1 ∧ w.2.1 < dims.2.1 ∧ (dims.2.1 : Int) ∣ (v.2.1 - w.2.1)) ∧
    (0 ≤ w.2.2 ∧ w.2.2 < dims.2.2 ∧ (dims.2.2 : Int) ∣ (v.2.2 - w.2.2)) := by
  exact ⟨pmod_spec v.1 dims.1 hx, pmod_spec v.2.1 dims.2.1 hy, pmod_spec v.2.2 dims.2.2 hz⟩

theorem fracSite_in_unit (dims : Nat × Nat × Nat) (hx : 0 < dims.1) (hy : 0 < dims.2.1) (hz : 0 < dims.2.2) (v : Vox) :
    let f := fracSite dims v
    0 < f.x ∧ f.x < 1 ∧ 0 < f.y ∧ f.y < 1 ∧ 0 < f.z ∧ f.z < 1 := by
  have key : ∀ (a : Int) (n : Nat), 0 < n →
      0 < ((((pmod a n : Nat) : Int) : ℚ) + 1/2) / (n : ℚ) ∧
      ((((pmod a n : Nat) : Int) : ℚ) + 1/2) / (n : ℚ) < 1 := by
    intro a n hn
    obtain ⟨h0, h1, _⟩ := pmod_spec a n hn
    have hnq : (0 : ℚ) < (n : ℚ) := by exact_mod_cast hn
    have h0q : (0 : ℚ) ≤ (((pmod a n : Nat) : Int) : ℚ) := by exact_mod_cast h0
    have h1' : ((pmod a n : Nat) : Int) + 1 ≤ (n : Int) := by omega
    have h1q : (((pmod a n : Nat) : Int) : ℚ) + 1 ≤ (n : ℚ) := by exact_mod_cast h1'
    constructor
    · apply div_pos _ hnq
      linarith
    · rw [div_lt_one hnq]
      linarith
  obtain ⟨a1, a2⟩ := key v.1 dims.1 hx
  obtain ⟨b1, b2⟩ := key v.2.1 dims.2.1 hy
  obtain ⟨c1, c2⟩ := key v.2.2 dims.2.2 hz
  exact ⟨a1, a2, b1, b2, c1, c2⟩

/-- defect D6 (repaired): wrapping y and z by the x dimension leaves the grid or hits the wrong voxel -/
theorem wrapSiteXdim_counterexample :
    wrapSiteXdim (5, 4, 6) (4, 5, 5) = (4, 0, 0) ∧ wrapSite (5, 4, 6) (4, 5, 5) = (4, 1, 5) := by
  decide

/-- non-vacuity: a 3×1×1 ring where the cheapest route goes through the periodic boundary -/
example :
    let g : Grid := ⟨3, 1, 1, #[1, 5, 2], 10, false⟩
    let r := g.bellmanFord .sum (0, 0, 0)
    r.2 = true ∧ g.feasible .sum r.1 = true ∧ r.1.getD (g.idx (2, 0, 0)) none = some (3/2) ∧
    g.validPath [(0,0,0), (2,0,0)] = true ∧ g.edgeCost [(0,0,0), (2,0,0)] = 3/2 := by
  decide +kernel

end G.C10
