import GGen.FormulasC02
import GProofs.C02
import Mathlib.Tactic.NormNum
import Mathlib.Tactic.Linarith
import Mathlib.Tactic.Ring
/-!
# C02 — obligations on the formula slice regenerated from /repo's source (GGen/FormulasC02.lean): `_compute_site_radius`

Every theorem here is ABOUT THE GENERATED DEFINITIONS: when the source formula changes, the definition changes with it
and the theorem either still holds (a harmless rewrite) or stops checking (then the check searches for a failing input).
-/
namespace G.C02Gen
open G

/-- whatever radius is returned, two spheres of that radius around the closest pair of sites do not overlap -/
theorem autoRadius_no_overlap (vib d r : ℚ) (h : Gen.autoRadius vib d = some r) : 2 * r ≤ d := by
  unfold Gen.autoRadius at h
  -- (`split_ifs` discards the `none = some r` branch by itself)
  split_ifs at h <;> (have hr := Option.some.inj h; subst hr; linarith)

/-- when the radius had to be reduced the spheres are strictly disjoint, with the margin of C02.auto_radius_disjoint -/
theorem autoRadius_shrunk (vib d r : ℚ) (hd : d < 4 * vib) (h : Gen.autoRadius vib d = some r) :
    r = d / 2 - 5 / 1000 ∧ 1 / 4 ≤ r ∧ 4 * r ^ 2 < d ^ 2 := by
  have hr : r = d / 2 - 5 / 1000 ∧ 1 / 4 ≤ r := by
    unfold Gen.autoRadius at h
    split_ifs at h with h1 h2 <;> first
      | (exfalso; linarith)
      | (have hr := Option.some.inj h
         subst hr
         have hB := not_lt.mp (fun hb => h1 ⟨by assumption, hb⟩)
         constructor <;> linarith)
  obtain ⟨hr1, hr2⟩ := hr
  exact ⟨hr1, hr2, C02.auto_radius_disjoint d r (by linarith) (by linarith)⟩

/-- the amplitude-based radius is kept exactly when it does not overlap -/
theorem autoRadius_kept (vib d : ℚ) (hd : 4 * vib ≤ d) : Gen.autoRadius vib d = some (2 * vib) := by
  unfold Gen.autoRadius
  split_ifs with h1 h2
  · exfalso
    linarith [h1.1]
  · exfalso
    linarith
  · exact congrArg some (by ring)

/-- the error branch: sites closer than 0.51 Å whose spheres would overlap -/
theorem autoRadius_none_iff (vib d : ℚ) : Gen.autoRadius vib d = none ↔ d < 4 * vib ∧ d < 51 / 100 := by
  unfold Gen.autoRadius
  constructor
  · intro h
    split_ifs at h with hc
    exact ⟨by linarith [hc.1], by linarith [hc.2]⟩
  · rintro ⟨h1, h2⟩
    rw [if_pos]
    exact ⟨by linarith, by linarith⟩

example : Gen.autoRadius (6 / 10) (24 / 10) = some (12 / 10) := by decide +kernel
example : Gen.autoRadius 1 (24 / 10) = some (1195 / 1000) := by decide +kernel
example : Gen.autoRadius 1 (1 / 2) = none := by decide +kernel

/-- the separations that enter are minimum-image distances of the SIMULATION cell (not of the site structure's own cell) -/
theorem site_separations_in_simulation_cell : Gen.siteSeparationsInSimulationCell = true := by
  rfl

end G.C02Gen
