import GGen.FormulasC18
import GModel.Orient
import GProofs.C18
import Mathlib.Tactic.Linarith
import Mathlib.Tactic.Ring
/-!
# C18 — obligations on the formula slice regenerated from /repo's source (GGen/FormulasC18.lean):
the ±1 wrap of `Orientations._fractional_directions`
-/
namespace G.C18Gen
open G

/-- the generated wrap is the model's `wrapHalf` of the raw difference (so `C18.direction_spec` and
`direction_is_short_image` apply to it) -/
theorem fracDirection_eq_model (sat cent : ℚ) : Gen.fracDirection sat cent = Orient.wrapHalf (sat - cent) := by
  unfold Gen.fracDirection Orient.wrapHalf
  simp only [gt_iff_lt]
  split_ifs <;> linarith

/-- for wrapped coordinates (both in [0, 1)) the component is the difference shifted by −1, 0 or +1 and lies in [−1/2, 1/2] -/
theorem fracDirection_spec (sat cent : ℚ) (hs0 : 0 ≤ sat) (hs1 : sat < 1) (hc0 : 0 ≤ cent) (hc1 : cent < 1) :
    |Gen.fracDirection sat cent| ≤ 1 / 2 ∧
    (Gen.fracDirection sat cent = sat - cent - 1 ∨ Gen.fracDirection sat cent = sat - cent ∨ Gen.fracDirection sat cent = sat - cent + 1) := by
  rw [fracDirection_eq_model]
  refine ⟨C18.wrapHalf_range (sat - cent) (by linarith) (by linarith), ?_⟩
  unfold Orient.wrapHalf
  split_ifs
  · exact Or.inl rfl
  · exact Or.inr (Or.inr rfl)
  · exact Or.inr (Or.inl rfl)

/-- the wrap is decided independently at every frame: it depends on nothing but the two coordinates of that frame -/
theorem fracDirection_small (sat cent : ℚ) (h : |sat - cent| ≤ 1 / 2) : Gen.fracDirection sat cent = sat - cent := by
  rw [fracDirection_eq_model]
  rw [abs_le] at h
  unfold Orient.wrapHalf
  rw [if_neg (by linarith [h.2]), if_neg (by linarith [h.1])]

end G.C18Gen
