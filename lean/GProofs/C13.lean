import GModel.Traj
namespace G.C13
theorem placeholder : True := trivial
end G.C13
