import GModel.Traj
import GProofs.C01
import GProofs.C15
/-!
# C13 — drift correction removes exactly the reference-frame motion

Model: `GModel.Traj.driftAll / driftSel / applyDrift` (the selection path goes through
`filter`, i.e. through wrapped positions, exactly as the code does).

Algebraic core
* `mean_sub_mean`        the mean over a non-empty selection of `d_a − mean_b d_b` is zero
* `minImg1_small`        a step of size < ½ survives the round trip through positions modulo 1
* `minImg1_small_shift`  … also after adding whole cells

End to end (list-level model)
* `corrected_shape`      result is stored as displacements with the ORIGINAL base positions
* `first_frame_unchanged_partial`  first frame is kept, for frames of whole atoms (`3 ∣ n`); the
                         statement without `3 ∣ n` is false (`first_frame_unchanged_counterexample`)
* `corrected_roundtrip`  under `SmallSteps` the displacements re-derived from the corrected
                         trajectory's wrapped positions are its stored displacements
* `residual_drift_zero`  after correction the mean per-frame displacement of the reference atoms
                         is zero in every frame (under `SmallSteps`)
* `idempotent`           correcting again changes nothing (under `SmallSteps`)
* `small_steps_needed`   without `SmallSteps` a second correction can change the data

The hypothesis `SmallSteps` (every corrected step stays below half a cell) is a domain
precondition: positions modulo 1 cannot represent a larger step.  An EMPTY selection is excluded
explicitly: Lean's `0 / 0 = 0` would make the statements hold for the wrong reason where numpy
yields NaN.
-/
namespace G.C13
open G G.Traj G.C01

/-! ## algebraic core -/

/-- mean of a list of rationals -/
def mean (l : List ℚ) : ℚ := l.sum / l.length

theorem sum_map_sub (l : List ℚ) (c : ℚ) : (l.map (· - c)).sum = l.sum - l.length * c := by
  induction l with
  | nil => simp
  | cons a l ih =>
    simp only [List.map_cons, List.sum_cons, List.length_cons, ih]
    push_cast
    ring

/-- **C13 (core)**: subtracting the mean of a non-empty selection from each member leaves a
selection whose mean is zero. -/
theorem mean_sub_mean (l : List ℚ) (hne : l ≠ []) : mean (l.map (· - mean l)) = 0 := by
  have hl : (l.length : ℚ) ≠ 0 := by
    have : l.length ≠ 0 := fun h => hne (List.eq_nil_of_length_eq_zero h)
    exact_mod_cast this
  unfold mean
  rw [sum_map_sub, List.length_map, mul_div_cancel₀ _ hl, sub_self, zero_div]

theorem rne_shift_small (x : ℚ) (k : ℤ) (h : |x| < 1 / 2) : rne (x + k) = k := by
  have h1 := abs_sub_rne_le_half (x + k)
  rw [abs_le] at h1
  rw [abs_lt] at h
  have h2 : ((rne (x + k) - k : ℤ) : ℚ) < 1 := by push_cast; linarith
  have h3 : (-1 : ℚ) < ((rne (x + k) - k : ℤ) : ℚ) := by push_cast; linarith
  have h2' : rne (x + k) - k < 1 := by exact_mod_cast h2
  have h3' : -1 < rne (x + k) - k := by exact_mod_cast h3
  omega

/-- a step smaller than half a cell is its own minimum image … -/
theorem minImg1_small (x : ℚ) (h : |x| < 1 / 2) : minImg1 x = x := by
  have hr := rne_shift_small x 0 h
  rw [Int.cast_zero, add_zero] at hr
  unfold minImg1
  rw [hr, Int.cast_zero, sub_zero]

/-- … also when whole cells were added in between (positions are only known modulo 1) -/
theorem minImg1_small_shift (x : ℚ) (k : ℤ) (h : |x| < 1 / 2) : minImg1 (x + k) = x := by
  unfold minImg1
  rw [rne_shift_small x k h]
  ring

/-! ### sums of 3-vectors -/

theorem foldl_x (vs : List V3) (acc : V3) :
    (vs.foldl (· + ·) acc).x = acc.x + (vs.map (·.x)).sum := by
  induction vs generalizing acc with
  | nil => simp
  | cons v vs ih =>
    rw [List.foldl_cons, ih, List.map_cons, List.sum_cons]
    show (acc.x + v.x) + _ = _
    ring

theorem foldl_y (vs : List V3) (acc : V3) :
    (vs.foldl (· + ·) acc).y = acc.y + (vs.map (·.y)).sum := by
  induction vs generalizing acc with
  | nil => simp
  | cons v vs ih =>
    rw [List.foldl_cons, ih, List.map_cons, List.sum_cons]
    show (acc.y + v.y) + _ = _
    ring

theorem foldl_z (vs : List V3) (acc : V3) :
    (vs.foldl (· + ·) acc).z = acc.z + (vs.map (·.z)).sum := by
  induction vs generalizing acc with
  | nil => simp
  | cons v vs ih =>
    rw [List.foldl_cons, ih, List.map_cons, List.sum_cons]
    show (acc.z + v.z) + _ = _
    ring

/-- componentwise mean of a list of 3-vectors -/
def meanV (vs : List V3) : V3 := ⟨mean (vs.map (·.x)), mean (vs.map (·.y)), mean (vs.map (·.z))⟩

theorem meanAll_eq (f : Frame) : meanAll f = meanV (toV3s f) := by
  simp only [meanAll, meanV, mean, foldl_x, foldl_y, foldl_z, List.length_map]
  simp [V3.zero]

theorem sum_zero (l : List ℚ) (h : ∀ v ∈ l, v = 0) : l.sum = 0 := by
  induction l with
  | nil => rfl
  | cons a l ih =>
    rw [List.sum_cons, h a (by simp), ih (fun v hv => h v (List.mem_cons_of_mem _ hv)), add_zero]

/-- the drift of frame 0 is zero because the first displacement frame is zero -/
theorem meanAll_zero (f : Frame) (h : ∀ v ∈ f, v = 0) : meanAll f = V3.zero := by
  rw [meanAll_eq]
  have hx : ((toV3s f).map (·.x)).sum = 0 := by
    apply sum_zero
    intro v hv
    obtain ⟨p, hp, rfl⟩ := List.mem_map.mp hv
    exact h _ (G.C15.mem_toV3s f p hp).1
  have hy : ((toV3s f).map (·.y)).sum = 0 := by
    apply sum_zero
    intro v hv
    obtain ⟨p, hp, rfl⟩ := List.mem_map.mp hv
    exact h _ (G.C15.mem_toV3s f p hp).2.1
  have hz : ((toV3s f).map (·.z)).sum = 0 := by
    apply sum_zero
    intro v hv
    obtain ⟨p, hp, rfl⟩ := List.mem_map.mp hv
    exact h _ (G.C15.mem_toV3s f p hp).2.2
  simp only [meanV, mean, hx, hy, hz, zero_div]
  rfl

theorem meanV_sub_meanV (W : List V3) (hW : W ≠ []) :
    meanV (W.map (fun v => v - meanV W)) = V3.zero := by
  have hx : ∀ c : V3, (W.map (fun v => v - c)).map (·.x) = (W.map (·.x)).map (· - c.x) := by
    intro c; rw [List.map_map, List.map_map]; apply List.map_congr_left; intro v _; rfl
  have hy : ∀ c : V3, (W.map (fun v => v - c)).map (·.y) = (W.map (·.y)).map (· - c.y) := by
    intro c; rw [List.map_map, List.map_map]; apply List.map_congr_left; intro v _; rfl
  have hz : ∀ c : V3, (W.map (fun v => v - c)).map (·.z) = (W.map (·.z)).map (· - c.z) := by
    intro c; rw [List.map_map, List.map_map]; apply List.map_congr_left; intro v _; rfl
  have hne : ∀ g : V3 → ℚ, W.map g ≠ [] := by intro g; simpa using hW
  have e : meanV (W.map (fun v => v - meanV W))
      = ⟨mean ((W.map (·.x)).map (· - mean (W.map (·.x)))),
         mean ((W.map (·.y)).map (· - mean (W.map (·.y)))),
         mean ((W.map (·.z)).map (· - mean (W.map (·.z))))⟩ := by
    show V3.mk _ _ _ = _
    rw [hx, hy, hz]
    rfl
  rw [e, mean_sub_mean _ (hne _), mean_sub_mean _ (hne _), mean_sub_mean _ (hne _)]
  rfl


/-! ### frames as lists of 3-vectors -/

/-- flatten a list of 3-vectors into a frame (inverse of `toV3s`) -/
def flat (vs : List V3) : Frame := vs.flatMap V3.toList

theorem flat_nil : flat [] = [] := rfl

theorem flat_cons (v : V3) (vs : List V3) : flat (v :: vs) = v.x :: v.y :: v.z :: flat vs := by
  simp [flat, V3.toList]

theorem flat_length (vs : List V3) : (flat vs).length = 3 * vs.length := by
  induction vs with
  | nil => rfl
  | cons v vs ih => rw [flat_cons]; simp only [List.length_cons, ih]; omega

theorem toV3s_flat (vs : List V3) : toV3s (flat vs) = vs := by
  induction vs with
  | nil => rfl
  | cons v vs ih => rw [flat_cons, toV3s, ih]

theorem flat_toV3s : ∀ (f : Frame), 3 ∣ f.length → flat (toV3s f) = f
  | [], _ => rfl
  | [_], h => by simp at h
  | [_, _], h => by simp at h
  | x :: y :: z :: r, h => by
    have hr : 3 ∣ r.length := by
      simp only [List.length_cons] at h
      omega
    rw [toV3s, flat_cons, flat_toV3s r hr]

theorem exists_flat (f : Frame) (h : 3 ∣ f.length) : ∃ A, f = flat A :=
  ⟨toV3s f, (flat_toV3s f h).symm⟩

/-- the selected vectors -/
def sel : List Bool → List V3 → List V3
  | b :: m, v :: vs => if b then v :: sel m vs else sel m vs
  | _, _ => []

theorem sel_nil_right (m : List Bool) : sel m [] = [] := by
  cases m <;> rfl

theorem sel_nil_left (vs : List V3) : sel [] vs = [] := rfl

theorem sel_cons (b : Bool) (m : List Bool) (v : V3) (vs : List V3) :
    sel (b :: m) (v :: vs) = if b then v :: sel m vs else sel m vs := rfl

theorem maskFrame_eq (m : List Bool) (f : Frame) : maskFrame m f = flat (sel m (toV3s f)) := by
  unfold maskFrame
  generalize toV3s f = vs
  induction vs generalizing m with
  | nil => simp [sel_nil_right, flat_nil]
  | cons v vs ih =>
    cases m with
    | nil => simp [sel_nil_left, flat_nil]
    | cons b m =>
      rw [List.zip_cons_cons, List.flatMap_cons, ih m, sel_cons]
      cases b
      · simp
      · simp [flat_cons, V3.toList]

theorem toV3s_maskFrame (m : List Bool) (f : Frame) : toV3s (maskFrame m f) = sel m (toV3s f) := by
  rw [maskFrame_eq, toV3s_flat]

/-- componentwise binary operation on 3-vectors -/
def v3zip (op : ℚ → ℚ → ℚ) (u v : V3) : V3 := ⟨op u.x v.x, op u.y v.y, op u.z v.z⟩

theorem zipWith_flat (op : ℚ → ℚ → ℚ) (a b : List V3) :
    List.zipWith op (flat a) (flat b) = flat (List.zipWith (v3zip op) a b) := by
  induction a generalizing b with
  | nil => simp [flat_nil]
  | cons u a ih =>
    cases b with
    | nil => simp [flat_nil]
    | cons v b =>
      rw [List.zipWith_cons_cons, flat_cons, flat_cons, flat_cons]
      simp only [List.zipWith_cons_cons, ih b]
      rfl

theorem map_flat (g : ℚ → ℚ) (a : List V3) : (flat a).map g = flat (a.map (V3.map g)) := by
  induction a with
  | nil => rfl
  | cons u a ih =>
    rw [List.map_cons, flat_cons, flat_cons]
    simp only [List.map_cons, ih]
    rfl

theorem sel_map (g : V3 → V3) (m : List Bool) (a : List V3) : sel m (a.map g) = (sel m a).map g := by
  induction a generalizing m with
  | nil => simp [sel_nil_right]
  | cons u a ih =>
    cases m with
    | nil => rfl
    | cons b m =>
      rw [List.map_cons, sel_cons, sel_cons, ih m]
      cases b <;> simp

theorem sel_zipWith (g : V3 → V3 → V3) (m : List Bool) (a b : List V3) :
    sel m (List.zipWith g a b) = List.zipWith g (sel m a) (sel m b) := by
  induction a generalizing m b with
  | nil => simp [sel_nil_right]
  | cons u a ih =>
    cases b with
    | nil => simp [sel_nil_right]
    | cons v b =>
      cases m with
      | nil => simp [sel_nil_left]
      | cons c m =>
        rw [List.zipWith_cons_cons, sel_cons, sel_cons, sel_cons, ih m b]
        cases c <;> simp

theorem sel_ne_nil (m : List Bool) (vs : List V3) (a : Nat) (ha : a < vs.length)
    (hm : m.getD a false = true) : sel m vs ≠ [] := by
  induction m generalizing vs a with
  | nil => simp at hm
  | cons b m ih =>
    cases vs with
    | nil => simp at ha
    | cons v vs =>
      rw [sel_cons]
      cases b with
      | true => simp
      | false =>
        cases a with
        | zero => simp at hm
        | succ a =>
          simp only [Bool.false_eq_true, if_false]
          exact ih vs a (by simpa using ha) (by simpa using hm)

/-- `maskFrame` commutes with "difference, then a componentwise map" -/
theorem maskFrame_vsub_map (m : List Bool) (g : ℚ → ℚ) (a b : Frame) (ha : 3 ∣ a.length) (hb : 3 ∣ b.length) :
    maskFrame m ((vsub a b).map g) = (vsub (maskFrame m a) (maskFrame m b)).map g := by
  obtain ⟨A, rfl⟩ := exists_flat a ha
  obtain ⟨B, rfl⟩ := exists_flat b hb
  simp only [vsub, zipWith_flat, map_flat, maskFrame_eq, toV3s_flat, sel_map, sel_zipWith]

theorem maskFrame_map (m : List Bool) (g : ℚ → ℚ) (a : Frame) (ha : 3 ∣ a.length) :
    maskFrame m (a.map g) = (maskFrame m a).map g := by
  obtain ⟨A, rfl⟩ := exists_flat a ha
  simp only [map_flat, maskFrame_eq, toV3s_flat, sel_map]

theorem maskFrame_zerosLike (m : List Bool) (a : Frame) (ha : 3 ∣ a.length) :
    maskFrame m (zerosLike a) = zerosLike (maskFrame m a) :=
  maskFrame_map m _ a ha

theorem diffs_mask (m : List Bool) : ∀ (rest : List Frame) (p : Frame), 3 ∣ p.length →
    (∀ f ∈ rest, 3 ∣ f.length) →
    diffs (maskFrame m p) (rest.map (maskFrame m)) = (diffs p rest).map (maskFrame m) := by
  intro rest
  induction rest with
  | nil => intro p _ _; rfl
  | cons g rest ih =>
    intro p hp hr
    have hg : 3 ∣ g.length := hr g (by simp)
    simp only [List.map_cons, diffs]
    rw [ih g hg (fun f hf => hr f (List.mem_cons_of_mem _ hf)), maskFrame_vsub_map m _ g p hg hp]

theorem toDispCoords_mask (m : List Bool) (P : List Frame) (h : ∀ f ∈ P, 3 ∣ f.length) :
    toDispCoords (P.map (maskFrame m)) = (toDispCoords P).map (maskFrame m) := by
  cases P with
  | nil => rfl
  | cons p rest =>
    have hp : 3 ∣ p.length := h p (by simp)
    simp only [List.map_cons, toDispCoords]
    rw [diffs_mask m rest p hp (fun f hf => h f (List.mem_cons_of_mem _ hf)), maskFrame_zerosLike m p hp]

/-! ### `subDrift` -/

theorem subDrift_eq (f : Frame) (d : V3) : subDrift f d = flat ((toV3s f).map (fun v => v - d)) := by
  simp [subDrift, flat, List.flatMap_map]

theorem v3_sub_zero (v : V3) : v - V3.zero = v := by
  cases v
  show V3.mk _ _ _ = _
  simp [V3.zero]

theorem subDrift_zero (f : Frame) (h : 3 ∣ f.length) : subDrift f V3.zero = f := by
  rw [subDrift_eq]
  have : (toV3s f).map (fun v => v - V3.zero) = toV3s f := by
    conv_rhs => rw [← List.map_id (toV3s f)]
    apply List.map_congr_left
    intro v _
    exact v3_sub_zero v
  rw [this, flat_toV3s f h]

theorem length_subDrift (f : Frame) (d : V3) (h : 3 ∣ f.length) : (subDrift f d).length = f.length := by
  obtain ⟨A, rfl⟩ := exists_flat f h
  rw [subDrift_eq, toV3s_flat, flat_length, flat_length, List.length_map]

theorem maskFrame_subDrift (m : List Bool) (f : Frame) (d : V3) :
    maskFrame m (subDrift f d) = flat ((sel m (toV3s f)).map (fun v => v - d)) := by
  rw [maskFrame_eq, subDrift_eq, toV3s_flat, sel_map]

/-! ### round trip through wrapped positions -/

theorem roundtrip_step (base acc g : Frame) (n : Nat) (hb : base.length = n) (ha : acc.length = n)
    (hg : g.length = n) (hs : ∀ v ∈ g, |v| < 1 / 2) :
    (vsub ((vadd base (vadd acc g)).map wrap) ((vadd base acc).map wrap)).map minImg1 = g := by
  have hag : (vadd acc g).length = n := by rw [length_vadd, ha, hg]; simp
  have h1 : (vadd base (vadd acc g)).length = n := by rw [length_vadd, hb, hag]; simp
  have h2 : (vadd base acc).length = n := by rw [length_vadd, hb, ha]; simp
  have h3 : (vsub ((vadd base (vadd acc g)).map wrap) ((vadd base acc).map wrap)).length = n := by
    rw [length_vsub]; simp [h1, h2]
  apply ext_getD _ _ n (by simpa using h3) hg
  intro j hj
  rw [getD_map _ _ _ (by rw [h3]; exact hj),
    getD_vsub _ _ _ (by simpa [h1] using hj) (by simpa [h2] using hj),
    getD_map _ _ _ (by rw [h1]; exact hj), getD_map _ _ _ (by rw [h2]; exact hj),
    getD_vadd _ _ _ (hb ▸ hj) (by rw [hag]; exact hj), getD_vadd _ _ _ (ha ▸ hj) (hg ▸ hj),
    getD_vadd _ _ _ (hb ▸ hj) (ha ▸ hj)]
  obtain ⟨k1, hk1⟩ := wrap_congr (base.getD j 0 + (acc.getD j 0 + g.getD j 0))
  obtain ⟨k2, hk2⟩ := wrap_congr (base.getD j 0 + acc.getD j 0)
  have hsm : |g.getD j 0| < 1 / 2 := by
    rw [getD_eq _ _ _ (hg ▸ hj)]
    exact hs _ (List.getElem_mem _)
  rw [hk1, hk2]
  have e : base.getD j 0 + (acc.getD j 0 + g.getD j 0) + (k1 : ℚ) - (base.getD j 0 + acc.getD j 0 + (k2 : ℚ))
      = g.getD j 0 + ((k1 - k2 : ℤ) : ℚ) := by push_cast; ring
  rw [e, minImg1_small_shift _ _ hsm]

theorem roundtrip_diffs (base : Frame) (n : Nat) (hb : base.length = n) :
    ∀ (rest : List Frame) (acc : Frame), acc.length = n → Rect rest n →
      (∀ f ∈ rest, ∀ v ∈ f, |v| < 1 / 2) →
      diffs ((vadd base acc).map wrap) (((cumsumFrom acc rest).map (vadd base)).map (·.map wrap)) = rest := by
  intro rest
  induction rest with
  | nil => intro acc _ _ _; rfl
  | cons g rest ih =>
    intro acc ha hr hs
    have hg : g.length = n := hr g (by simp)
    have hag : (vadd acc g).length = n := by rw [length_vadd, ha, hg]; simp
    simp only [cumsumFrom, List.map_cons, diffs]
    rw [roundtrip_step base acc g n hb ha hg (hs g (by simp)),
      ih (vadd acc g) hag (fun f hf => hr f (List.mem_cons_of_mem _ hf))
        (fun f hf => hs f (List.mem_cons_of_mem _ hf))]

/-- **round trip**: a well-formed displacement-mode state whose steps are all below half a cell is
recovered exactly when its displacements are re-derived from its wrapped positions. -/
theorem roundtrip (n : Nat) (c : TState) (h : G.C15.WF n c) (hd : c.disp = true)
    (hs : ∀ f ∈ c.coords, ∀ v ∈ f, |v| < 1 / 2) : toDispCoords (absPos c) = c.coords := by
  obtain ⟨dsp, coords, base⟩ := c
  obtain ⟨hb, hr, hne, _, hz⟩ := h
  simp only at hd
  subst hd
  cases coords with
  | nil => exact absurd rfl hne
  | cons z rest =>
    have hb : base.length = n := hb
    have hzl : z.length = n := hr z (by simp)
    have hz0 : ∀ v ∈ z, v = 0 := hz rfl
    have hbz : vadd base z = base := G.C15.vadd_zero_right base z (by rw [hzl]; exact hb) hz0
    rw [G.C15.absPos_of_disp _ rfl]
    simp only [cumsum, cumsumFrom, vadd_zerosLike_left, List.map_cons, toDispCoords]
    rw [roundtrip_diffs base n hb rest z hzl (fun f hf => hr f (List.mem_cons_of_mem _ hf))
      (fun f hf => hs f (List.mem_cons_of_mem _ hf))]
    congr 1
    apply ext_getD _ _ n (by rw [length_zerosLike, hbz]; simpa using hb) hzl
    intro j hj
    rw [getD_zerosLike, getD_eq _ _ _ (hzl ▸ hj), hz0 _ (List.getElem_mem _)]

/-! ### the corrected state -/

theorem zipWith_map_right_self {α β γ : Type} (f : α → β → γ) (g : α → β) (l : List α) :
    List.zipWith f l (l.map g) = l.map (fun x => f x (g x)) := by
  induction l with
  | nil => rfl
  | cons a l ih => simp [ih]

theorem zipWith_subDrift_zero : ∀ (C : List Frame) (zs : List V3), zs.length = C.length →
    (∀ v ∈ zs, v = V3.zero) → (∀ f ∈ C, 3 ∣ f.length) → List.zipWith subDrift C zs = C := by
  intro C
  induction C with
  | nil => intro zs _ _ _; simp
  | cons f C ih =>
    intro zs hl hz h3
    cases zs with
    | nil => simp at hl
    | cons v zs =>
      rw [List.zipWith_cons_cons, hz v (by simp), subDrift_zero f (h3 f (by simp)),
        ih zs (by simpa using hl) (fun v hv => hz v (List.mem_cons_of_mem _ hv))
          (fun f hf => h3 f (List.mem_cons_of_mem _ hf))]

theorem length_diffs : ∀ (rest : List Frame) (p : Frame), (diffs p rest).length = rest.length := by
  intro rest
  induction rest with
  | nil => intro p; rfl
  | cons g rest ih => intro p; simp [diffs, ih]

theorem length_toDispCoords (P : List Frame) : (toDispCoords P).length = P.length := by
  cases P with
  | nil => rfl
  | cons p rest => simp [toDispCoords, length_diffs]

/-- subtracting, frame by frame, a vector that vanishes on zero frames keeps a displacement-mode
state well formed -/
theorem wf_sub (n : Nat) (s' : TState) (μ : Frame → V3) (hμ : ∀ f, (∀ v ∈ f, v = 0) → μ f = V3.zero)
    (h : G.C15.WF n s') (hd : s'.disp = true) (h3 : 3 ∣ n) :
    G.C15.WF n ⟨true, s'.coords.map (fun f => subDrift f (μ f)), s'.base⟩ := by
  obtain ⟨hb, hr, hne, _, hz⟩ := h
  refine ⟨hb, ?_, by simpa using hne, fun h => by simp at h, fun _ => ?_⟩
  · intro g hg
    obtain ⟨f, hf, rfl⟩ := List.mem_map.mp hg
    rw [length_subDrift _ _ (by rw [hr f hf]; exact h3)]
    exact hr f hf
  · cases hc : s'.coords with
    | nil => exact absurd hc hne
    | cons z rest =>
      have hz0 : ∀ v ∈ z, v = 0 := by
        have := hz hd
        rw [hc] at this
        exact this
      have hzl : z.length = n := hr z (by rw [hc]; simp)
      simp only [List.map_cons, List.headD_cons]
      rw [hμ z hz0, subDrift_zero z (by rw [hzl]; exact h3)]
      exact hz0

theorem toDisplacements_toPositions (s : TState) :
    toDisplacements (toPositions s) = ⟨true, toDispCoords (absPos s), s.base⟩ := rfl

theorem applyDrift_some_raw (m : List Bool) (s : TState) :
    (applyDrift (some m) s).2 = ⟨true, List.zipWith subDrift (toDispCoords (absPos s))
      ((toDispCoords ((absPos s).map (maskFrame m))).map meanAll), s.base⟩ := rfl

theorem driftSel_raw (m : List Bool) (s : TState) :
    (driftSel m s).2 = (toDispCoords ((absPos s).map (maskFrame m))).map meanAll := rfl

theorem absPos_rect3 (n : Nat) (s : TState) (h : G.C15.WF n s) (h3 : 3 ∣ n) :
    ∀ f ∈ absPos s, 3 ∣ f.length := by
  intro f hf
  rw [(G.C15.toPositions_wf n s h).2.1 f hf]
  exact h3

/-- the corrected trajectory in closed form: every displacement frame minus the mean displacement
of its selected atoms -/
theorem applyDrift_some_eq (n : Nat) (m : List Bool) (s : TState) (h : G.C15.WF n s) (h3 : 3 ∣ n) :
    (applyDrift (some m) s).2 = ⟨true, (toDispCoords (absPos s)).map
      (fun f => subDrift f (meanAll (maskFrame m f))), s.base⟩ := by
  rw [applyDrift_some_raw, toDispCoords_mask m _ (absPos_rect3 n s h h3), List.map_map,
    zipWith_map_right_self]
  rfl

theorem applyDrift_none_eq (s : TState) :
    (applyDrift none s).2 = ⟨true, (toDisplacements s).coords.map (fun f => subDrift f (meanAll f)), s.base⟩ := by
  obtain ⟨d, c, b⟩ := s
  cases d
  · show TState.mk true (List.zipWith subDrift (toDispCoords c) ((toDispCoords c).map meanAll)) b = _
    rw [zipWith_map_right_self]
    rfl
  · show TState.mk true (List.zipWith subDrift c (c.map meanAll)) b = _
    rw [zipWith_map_right_self]
    rfl

theorem toDisplacements_disp (s : TState) : (toDisplacements s).disp = true := by
  obtain ⟨d, c, b⟩ := s
  cases d <;> rfl

theorem toDisplacements_base (s : TState) : (toDisplacements s).base = s.base := by
  obtain ⟨d, c, b⟩ := s
  cases d <;> rfl

theorem corrected_wf (n : Nat) (mask : Option (List Bool)) (s : TState) (h : G.C15.WF n s) (h3 : 3 ∣ n) :
    G.C15.WF n (applyDrift mask s).2 := by
  cases mask with
  | some m =>
    rw [applyDrift_some_eq n m s h h3]
    have hw := G.C15.toDisplacements_wf n _ (G.C15.toPositions_wf n s h)
    exact wf_sub n (toDisplacements (toPositions s)) (fun f => meanAll (maskFrame m f))
      (fun f hf => meanAll_zero _ (fun v hv => hf v (G.C15.mem_maskFrame m f v hv))) hw rfl h3
  | none =>
    rw [applyDrift_none_eq]
    have hw := G.C15.toDisplacements_wf n s h
    have := wf_sub n (toDisplacements s) meanAll (fun f hf => meanAll_zero f hf) hw
      (toDisplacements_disp s) h3
    rwa [toDisplacements_base] at this

/-- a well-formed state starts at its base position modulo 1 -/
theorem absPos_head (n : Nat) (s : TState) (h : G.C15.WF n s) :
    (absPos s).head? = some (s.base.map wrap) := by
  obtain ⟨hb, _, hne, hp, _⟩ := G.C15.toPositions_wf n s h
  have hwr := G.C15.wrapped_absPos s
  change (toPositions s).coords.head? = _
  change ∀ f ∈ (toPositions s).coords, ∀ v ∈ f, wrap v = v at hwr
  cases hc : (toPositions s).coords with
  | nil => exact absurd hc hne
  | cons q rest =>
    have hcong : G.C15.Cong (toPositions s).base q := by
      have := hp rfl
      rw [hc] at this
      exact this
    have hq : q.map wrap = q := G.C15.map_wrap_of_wrapped q (hwr q (by rw [hc]; simp))
    have hm := (hcong.to01 hb).map_wrap
    rw [List.head?_cons, ← hq, ← hm]
    rfl

/-! ## end to end -/

/-- **C13 (shape)**: the corrected trajectory is stored as displacements and keeps the original
base positions. -/
theorem corrected_shape (mask : Option (List Bool)) (s : TState) :
    (applyDrift mask s).2.disp = true ∧ (applyDrift mask s).2.base = (displacements (match mask with
      | some m => (driftSel m s).1 | none => (driftAll s).1)).1.base := by
  cases mask with
  | some m => exact ⟨rfl, rfl⟩
  | none => exact ⟨rfl, rfl⟩

theorem corrected_base (mask : Option (List Bool)) (s : TState) : (applyDrift mask s).2.base = s.base := by
  cases mask with
  | some m => rfl
  | none => rw [applyDrift_none_eq]

/- ORIGINAL STATEMENT (FALSE as written: for `n` not a multiple of 3 `subDrift` drops the trailing
`n % 3` coordinates of every frame, so the corrected frames are shorter than the source frames):

theorem first_frame_unchanged (n : Nat) (mask : Option (List Bool)) (s : TState) (h : G.C15.WF n s) :
    (absPos (applyDrift mask s).2).head? = (absPos s).head?

Counterexample (`n = 1`): see `first_frame_unchanged_counterexample` below. -/

/-- the original `first_frame_unchanged` (without `3 ∣ n`) fails: a one-coordinate frame is
well formed for `n = 1`, but the corrected first frame is empty -/
theorem first_frame_unchanged_counterexample :
    G.C15.WF 1 (fresh [[1/2]]) ∧
    (absPos (applyDrift none (fresh [[1/2]])).2).head? = some [] ∧
    (absPos (fresh [[1/2]])).head? = some [1/2] := by
  refine ⟨G.C15.fresh_wf _ 1 ?_ (by simp), by decide +kernel, by decide +kernel⟩
  intro f hf
  simp at hf
  subst hf
  rfl

/-- **C13 (first frame)**: the first frame of the corrected trajectory is the first frame of the
source — for frames that consist of whole atoms (`3 ∣ n`; this hypothesis is necessary, see
`first_frame_unchanged_counterexample`). -/
theorem first_frame_unchanged_partial (n : Nat) (mask : Option (List Bool)) (s : TState)
    (h : G.C15.WF n s) (h3 : 3 ∣ n) :
    (absPos (applyDrift mask s).2).head? = (absPos s).head? := by
  rw [absPos_head n _ (corrected_wf n mask s h h3), absPos_head n s h, corrected_base]

/-- the selection picks at least one atom of an `n/3`-atom frame -/
def NonEmptySel (mask : List Bool) (n : Nat) : Prop := ∃ a, a < n / 3 ∧ mask.getD a false = true

/-- every corrected step (all atoms, all frames, all components) is below half a cell -/
def SmallSteps (mask : List Bool) (s : TState) : Prop :=
  ∀ f ∈ (applyDrift (some mask) s).2.coords, ∀ v ∈ f, |v| < 1 / 2

/-- under `SmallSteps` the displacements re-derived from the corrected trajectory's wrapped
positions are exactly its stored displacements -/
theorem corrected_roundtrip (n : Nat) (mask : List Bool) (s : TState) (h : G.C15.WF n s) (h3 : 3 ∣ n)
    (hsmall : SmallSteps mask s) :
    toDispCoords (absPos (applyDrift (some mask) s).2) = (applyDrift (some mask) s).2.coords :=
  roundtrip n _ (corrected_wf n (some mask) s h h3) rfl hsmall

/-- **C13 (residual drift)**: after correction with respect to a non-empty reference selection the
mean per-frame displacement of that selection is zero in every frame. -/
theorem residual_drift_zero (n : Nat) (mask : List Bool) (s : TState) (h : G.C15.WF n s) (h3 : 3 ∣ n)
    (hsel : NonEmptySel mask n) (hsmall : SmallSteps mask s) :
    ∀ v ∈ (driftSel mask (applyDrift (some mask) s).2).2, v = V3.zero := by
  have hw := corrected_wf n (some mask) s h h3
  rw [driftSel_raw, toDispCoords_mask _ _ (absPos_rect3 n _ hw h3),
    corrected_roundtrip n mask s h h3 hsmall, applyDrift_some_eq n mask s h h3]
  intro v hv
  simp only [List.map_map, List.mem_map, Function.comp] at hv
  obtain ⟨f, hf, rfl⟩ := hv
  have hfl : f.length = n :=
    (G.C15.toDisplacements_wf n _ (G.C15.toPositions_wf n s h)).2.1 f hf
  rw [maskFrame_subDrift, meanAll_eq, toV3s_flat, meanAll_eq, toV3s_maskFrame]
  apply meanV_sub_meanV
  obtain ⟨a, ha, hm⟩ := hsel
  obtain ⟨A, rfl⟩ := exists_flat f (by rw [hfl]; exact h3)
  rw [toV3s_flat]
  rw [flat_length] at hfl
  exact sel_ne_nil mask A a (by omega) hm

/-- applying the correction a second time returns the very same state -/
theorem applyDrift_fixed (n : Nat) (mask : List Bool) (s : TState) (h : G.C15.WF n s) (h3 : 3 ∣ n)
    (hsel : NonEmptySel mask n) (hsmall : SmallSteps mask s) :
    (applyDrift (some mask) (applyDrift (some mask) s).2).2 = (applyDrift (some mask) s).2 := by
  have hw := corrected_wf n (some mask) s h h3
  have hres := residual_drift_zero n mask s h h3 hsel hsmall
  have hrt := corrected_roundtrip n mask s h h3 hsmall
  have hlen : (driftSel mask (applyDrift (some mask) s).2).2.length
      = (applyDrift (some mask) s).2.coords.length := by
    rw [driftSel_raw, List.length_map, length_toDispCoords, List.length_map, ← hrt, length_toDispCoords]
  have h3c : ∀ f ∈ (applyDrift (some mask) s).2.coords, 3 ∣ f.length := by
    intro f hf
    rw [hw.2.1 f hf]
    exact h3
  have e : (applyDrift (some mask) (applyDrift (some mask) s).2).2
      = ⟨true, List.zipWith subDrift (toDispCoords (absPos (applyDrift (some mask) s).2))
          (driftSel mask (applyDrift (some mask) s).2).2, (applyDrift (some mask) s).2.base⟩ := rfl
  rw [e, hrt, zipWith_subDrift_zero _ _ hlen hres h3c]
  rfl

/-- **C13 (idempotent)**: applying the correction again changes nothing. -/
theorem idempotent (n : Nat) (mask : List Bool) (s : TState) (h : G.C15.WF n s) (h3 : 3 ∣ n)
    (hsel : NonEmptySel mask n) (hsmall : SmallSteps mask s) :
    absPos (applyDrift (some mask) (applyDrift (some mask) s).2).2 = absPos (applyDrift (some mask) s).2 := by
  rw [applyDrift_fixed n mask s h h3 hsel hsmall]

/-- without `SmallSteps` the statement fails: reference atom steps +3/8, the other atom −3/8, so the
corrected step of the second atom is −3/4, which positions modulo 1 turn into +1/4 -/
theorem small_steps_needed :
    let s := fresh [[0, 0, 0, 0, 0, 0], [3/8, 0, 0, -3/8, 0, 0]]
    let c1 := (applyDrift (some [true, false]) s).2
    let c2 := (applyDrift (some [true, false]) c1).2
    c1.coords ≠ c2.coords := by
  decide +kernel

/-- non-vacuity: two reference atoms moving differently, one floating atom -/
example :
    let s := fresh [[1/8, 0, 0, 1/2, 0, 0, 7/8, 0, 0], [1/4, 0, 0, 1/2, 0, 0, 1/8, 0, 0]]
    (driftSel [true, true, false] s).2 = [V3.zero, ⟨1/16, 0, 0⟩] ∧
    absPos (applyDrift (some [true, true, false]) s).2
      = [[1/8, 0, 0, 1/2, 0, 0, 7/8, 0, 0], [3/16, 0, 0, 7/16, 0, 0, 1/16, 0, 0]] ∧
    (driftSel [true, true, false] (applyDrift (some [true, true, false]) s).2).2 = [V3.zero, V3.zero] := by
  decide +kernel

end G.C13
