import GModel.Traj
import GProofs.C01
import GProofs.C15
/-!
# C13 — drift correction removes exactly the reference-frame motion

Model: `GModel.Traj.driftAll / driftSel / applyDrift` (the selection path goes through
`filter`, i.e. through wrapped positions, exactly as the code does).

Algebraic core
* `mean_sub_mean`        the mean over a non-empty selection of `d_a − mean_b d_b` is zero
* `minImg1_small`        a step of size < ½ survives the round trip through positions modulo 1
* `minImg1_small_shift`  … also after adding whole cells

End to end (list-level model)
* `corrected_shape`      result is stored as displacements with the ORIGINAL base positions
* `first_frame_unchanged`
* `residual_drift_zero`  after correction the mean per-frame displacement of the reference atoms
                         is zero in every frame (under `SmallSteps`)
* `idempotent`           correcting again changes nothing (under `SmallSteps`)
* `small_steps_needed`   without `SmallSteps` a second correction can change the data

The hypothesis `SmallSteps` (every corrected step stays below half a cell) is a domain
precondition: positions modulo 1 cannot represent a larger step.  An EMPTY selection is excluded
explicitly: Lean's `0 / 0 = 0` would make the statements hold for the wrong reason where numpy
yields NaN.
-/
namespace G.C13
open G G.Traj G.C01

/-! ## algebraic core -/

/-- mean of a list of rationals -/
def mean (l : List ℚ) : ℚ := l.sum / l.length

/-- **C13 (core)**: subtracting the mean of a non-empty selection from each member leaves a
selection whose mean is zero. -/
theorem mean_sub_mean (l : List ℚ) (hne : l ≠ []) : mean (l.map (· - mean l)) = 0 := by
  sorry

/-- a step smaller than half a cell is its own minimum image … -/
theorem minImg1_small (x : ℚ) (h : |x| < 1 / 2) : minImg1 x = x := by
  sorry

/-- … also when whole cells were added in between (positions are only known modulo 1) -/
theorem minImg1_small_shift (x : ℚ) (k : ℤ) (h : |x| < 1 / 2) : minImg1 (x + k) = x := by
  sorry

/-- the drift of frame 0 is zero because the first displacement frame is zero -/
theorem meanAll_zero (f : Frame) (h : ∀ v ∈ f, v = 0) : meanAll f = V3.zero := by
  sorry

/-! ## end to end -/

/-- **C13 (shape)**: the corrected trajectory is stored as displacements and keeps the original
base positions. -/
theorem corrected_shape (mask : Option (List Bool)) (s : TState) :
    (applyDrift mask s).2.disp = true ∧ (applyDrift mask s).2.base = (displacements (match mask with
      | some m => (driftSel m s).1 | none => (driftAll s).1)).1.base := by
  sorry

theorem corrected_base (mask : Option (List Bool)) (s : TState) : (applyDrift mask s).2.base = s.base := by
  sorry

/-- **C13 (first frame)**: the first frame of the corrected trajectory is the first frame of the source. -/
theorem first_frame_unchanged (n : Nat) (mask : Option (List Bool)) (s : TState) (h : G.C15.WF n s) :
    (absPos (applyDrift mask s).2).head? = (absPos s).head? := by
  sorry

/-- the selection picks at least one atom of an `n/3`-atom frame -/
def NonEmptySel (mask : List Bool) (n : Nat) : Prop := ∃ a, a < n / 3 ∧ mask.getD a false = true

/-- every corrected step (all atoms, all frames, all components) is below half a cell -/
def SmallSteps (mask : List Bool) (s : TState) : Prop :=
  ∀ f ∈ (applyDrift (some mask) s).2.coords, ∀ v ∈ f, |v| < 1 / 2

/-- **C13 (residual drift)**: after correction with respect to a non-empty reference selection the
mean per-frame displacement of that selection is zero in every frame. -/
theorem residual_drift_zero (n : Nat) (mask : List Bool) (s : TState) (h : G.C15.WF n s) (h3 : 3 ∣ n)
    (hsel : NonEmptySel mask n) (hsmall : SmallSteps mask s) :
    ∀ v ∈ (driftSel mask (applyDrift (some mask) s).2).2, v = V3.zero := by
  sorry

/-- **C13 (idempotent)**: applying the correction again changes nothing. -/
theorem idempotent (n : Nat) (mask : List Bool) (s : TState) (h : G.C15.WF n s) (h3 : 3 ∣ n)
    (hsel : NonEmptySel mask n) (hsmall : SmallSteps mask s) :
    absPos (applyDrift (some mask) (applyDrift (some mask) s).2).2 = absPos (applyDrift (some mask) s).2 := by
  sorry

/-- without `SmallSteps` the statement fails: reference atom steps +3/8, the other atom −3/8, so the
corrected step of the second atom is −3/4, which positions modulo 1 turn into +1/4 -/
theorem small_steps_needed :
    let s := fresh [[0, 0, 0, 0, 0, 0], [3/8, 0, 0, -3/8, 0, 0]]
    let c1 := (applyDrift (some [true, false]) s).2
    let c2 := (applyDrift (some [true, false]) c1).2
    c1.coords ≠ c2.coords := by
  decide +kernel

/-- non-vacuity: two reference atoms moving differently, one floating atom -/
example :
    let s := fresh [[1/8, 0, 0, 1/2, 0, 0, 7/8, 0, 0], [1/4, 0, 0, 1/2, 0, 0, 1/8, 0, 0]]
    (driftSel [true, true, false] s).2 = [V3.zero, ⟨1/16, 0, 0⟩] ∧
    absPos (applyDrift (some [true, true, false]) s).2
      = [[1/8, 0, 0, 1/2, 0, 0, 7/8, 0, 0], [3/16, 0, 0, 7/16, 0, 0, 1/16, 0, 0]] ∧
    (driftSel [true, true, false] (applyDrift (some [true, true, false]) s).2).2 = [V3.zero, V3.zero] := by
  decide +kernel

end G.C13
