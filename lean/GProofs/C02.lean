import GModel.Sites
import GProofs.Geometry
import Mathlib.Tactic.Linarith
import Mathlib.Tactic.Ring
import Mathlib.Tactic.Positivity
/-!
# C02 — site assignment follows the true minimum-image distance

`GProofs.Geometry.minImageSqCert_spec` shows that the model's periodic distance is the exact
minimum over all lattice images for every cell.  On top of that:

* `assign_range`, `assign_sound`, `assign_none_iff`   `assign` returns the first site whose sphere
        contains the atom, −1 exactly when no sphere does
* `two_spheres_close`, `unique_of_disjoint`   if the atom is inside two spheres of radius r then the
        two sites are less than 2r apart (minimum image) — so with r ≤ half the smallest site
        separation (what the automatic radius guarantees) the assignment is unique
* `auto_radius_disjoint`   r = d_min/2 − 0.005 gives 4r² < d_min²
* `inner_subset`           inner fraction ≤ 1 and unique assignment ⇒ inner site ∈ {none, outer site}
* `remap_identity`, `remap_visited_counterexample`   per-label index mapping (defect D3)
-/
namespace G.C02
open G G.Sites G.Geometry

theorem assignFrom_range (G : Sym3) (frac : ℚ) (sites : List (V3 × ℚ)) (k : Nat) (x : V3) :
    assignFrom G frac k sites x = -1 ∨
      ((k : Int) ≤ assignFrom G frac k sites x ∧ assignFrom G frac k sites x < (k + sites.length : Nat)) := by
  induction sites generalizing k with
  | nil => left; rfl
  | cons p rest ih =>
    obtain ⟨s, r⟩ := p
    simp only [assignFrom, List.length_cons]
    by_cases hw : within G (r * frac) s x = true
    · rw [if_pos hw]
      right
      constructor
      · exact le_refl _
      · omega
    · rw [if_neg hw]
      rcases ih (k + 1) with h | ⟨h1, h2⟩
      · left; exact h
      · right
        constructor
        · omega
        · omega

/-- the result is "no site" or a valid site index -/
theorem assign_range (G : Sym3) (frac : ℚ) (sites : List (V3 × ℚ)) (x : V3) :
    assign G frac sites x = -1 ∨ (0 ≤ assign G frac sites x ∧ assign G frac sites x < sites.length) := by
  unfold assign
  rcases assignFrom_range G frac sites 0 x with h | ⟨h1, h2⟩
  · left; exact h
  · right
    constructor
    · simpa using h1
    · simpa using h2

/-- generalised soundness: result `k + j` means the `j`-th entry is the first one containing `x` -/
theorem assignFrom_sound (G : Sym3) (frac : ℚ) (sites : List (V3 × ℚ)) (x : V3) (k j : Nat)
    (h : assignFrom G frac k sites x = ((k + j : Nat) : Int)) :
    ∃ s r, sites[j]? = some (s, r) ∧ within G (r * frac) s x = true ∧
      ∀ i, i < j → ∀ s' r', sites[i]? = some (s', r') → within G (r' * frac) s' x = false := by
  induction sites generalizing k j with
  | nil =>
    simp only [assignFrom] at h
    omega
  | cons p rest ih =>
    obtain ⟨s, r⟩ := p
    simp only [assignFrom] at h
    by_cases hw : within G (r * frac) s x = true
    · rw [if_pos hw] at h
      have hj : j = 0 := by omega
      subst hj
      refine ⟨s, r, rfl, hw, ?_⟩
      intro i hi
      omega
    · rw [if_neg hw] at h
      have hj : 1 ≤ j := by
        rcases assignFrom_range G frac rest (k + 1) x with h' | ⟨h1, _⟩
        · rw [h] at h'; omega
        · rw [h] at h1; omega
      obtain ⟨j', rfl⟩ : ∃ j', j = j' + 1 := ⟨j - 1, by omega⟩
      have h' : assignFrom G frac (k + 1) rest x = ((k + 1 + j' : Nat) : Int) := by
        rw [h]; congr 1; omega
      obtain ⟨s0, r0, hget, hin, hearlier⟩ := ih (k + 1) j' h'
      refine ⟨s0, r0, ?_, hin, ?_⟩
      · rw [List.getElem?_cons_succ]; exact hget
      · intro i hi s' r' hi'
        cases i with
        | zero =>
          rw [List.getElem?_cons_zero] at hi'
          have hp : (s, r) = (s', r') := Option.some.inj hi'
          have hs : s = s' := congrArg Prod.fst hp
          have hr : r = r' := congrArg Prod.snd hp
          subst hs; subst hr
          exact Bool.eq_false_iff.mpr hw
        | succ i' =>
          rw [List.getElem?_cons_succ] at hi'
          exact hearlier i' (by omega) s' r' hi'

/-- **C02 (sound)**: a reported site really contains the atom, and no earlier site does. -/
theorem assign_sound (G : Sym3) (frac : ℚ) (sites : List (V3 × ℚ)) (x : V3) (k : Nat)
    (h : assign G frac sites x = (k : Int)) :
    ∃ s r, sites[k]? = some (s, r) ∧ within G (r * frac) s x = true ∧
      ∀ j, j < k → ∀ s' r', sites[j]? = some (s', r') → within G (r' * frac) s' x = false := by
  apply assignFrom_sound G frac sites x 0 k
  unfold assign at h
  rw [h, Nat.zero_add]

theorem assignFrom_none_iff (G : Sym3) (frac : ℚ) (sites : List (V3 × ℚ)) (x : V3) (k : Nat) :
    assignFrom G frac k sites x = -1 ↔ ∀ p ∈ sites, within G (p.2 * frac) p.1 x = false := by
  induction sites generalizing k with
  | nil =>
    constructor
    · intro _ p hp; cases hp
    · intro _; rfl
  | cons p rest ih =>
    obtain ⟨s, r⟩ := p
    simp only [assignFrom]
    by_cases hw : within G (r * frac) s x = true
    · rw [if_pos hw]
      constructor
      · intro h; omega
      · intro h
        have := h (s, r) List.mem_cons_self
        simp only at this
        rw [hw] at this
        cases this
    · rw [if_neg hw]
      rw [ih (k + 1)]
      constructor
      · intro h p hp
        rcases List.mem_cons.mp hp with rfl | hp
        · exact Bool.eq_false_iff.mpr hw
        · exact h p hp
      · intro h p hp
        exact h p (List.mem_cons_of_mem _ hp)

/-- **C02 (complete)**: "no site" is reported exactly when the atom is outside every sphere. -/
theorem assign_none_iff (G : Sym3) (frac : ℚ) (sites : List (V3 × ℚ)) (x : V3) :
    assign G frac sites x = -1 ↔ ∀ p ∈ sites, within G (p.2 * frac) p.1 x = false :=
  assignFrom_none_iff G frac sites x 0

/-- a positive-definite form is non-negative -/
theorem Q_nonneg_of_posdef (G : Sym3) (hpd : PosDef G) (v : V3) : 0 ≤ G.Q v := by
  have h := coord_sq_le₁ G hpd v
  obtain ⟨_, _, _, p1, _, _, pdet⟩ := hpd
  have h0 : 0 ≤ G.det * v.x ^ 2 := mul_nonneg pdet.le (sq_nonneg _)
  have h1 : 0 ≤ G.adj1 * G.Q v := le_trans h0 h
  exact (mul_nonneg_iff_of_pos_left p1).mp h1

/-- **C02 (spheres)**: an atom inside two spheres of radius `r` forces the two centres to be less
than `2r` apart under the minimum-image distance. -/
theorem two_spheres_close (G : Sym3) (hpd : PosDef G) (s1 s2 x : V3) (r m1 m2 m12 : ℚ)
    (h1 : minImageSqCert G (x - s1) = some m1) (h2 : minImageSqCert G (x - s2) = some m2)
    (h12 : minImageSqCert G (s2 - s1) = some m12)
    (hr1 : m1 < r ^ 2) (hr2 : m2 < r ^ 2) : m12 < 4 * r ^ 2 := by
  obtain ⟨_, a1, a2, a3, ha⟩ := minImageSqCert_spec G hpd (x - s1) m1 h1
  obtain ⟨_, b1, b2, b3, hb⟩ := minImageSqCert_spec G hpd (x - s2) m2 h2
  obtain ⟨hle, _⟩ := minImageSqCert_spec G hpd (s2 - s1) m12 h12
  have hk := hle (a1 - b1) (a2 - b2) (a3 - b3)
  have hshift : shiftBy (s2 - s1) (a1 - b1) (a2 - b2) (a3 - b3)
      = shiftBy (x - s1) a1 a2 a3 - shiftBy (x - s2) b1 b2 b3 := by
    show shiftBy (V3.sub s2 s1) (a1 - b1) (a2 - b2) (a3 - b3)
      = V3.sub (shiftBy (V3.sub x s1) a1 a2 a3) (shiftBy (V3.sub x s2) b1 b2 b3)
    simp only [shiftBy, V3.sub, V3.mk.injEq]
    refine ⟨?_, ?_, ?_⟩ <;> push_cast <;> ring
  rw [hshift] at hk
  have hpar := Q_parallelogram G (shiftBy (x - s1) a1 a2 a3) (shiftBy (x - s2) b1 b2 b3)
  have hnn := Q_nonneg_of_posdef G hpd (shiftBy (x - s1) a1 a2 a3 + shiftBy (x - s2) b1 b2 b3)
  rw [← ha, ← hb] at hpar
  linarith

/-- … hence with `2r ≤` the site separation no atom is inside both spheres: the assignment is unique. -/
theorem unique_of_disjoint (G : Sym3) (hpd : PosDef G) (s1 s2 x : V3) (r m1 m2 m12 : ℚ)
    (h1 : minImageSqCert G (x - s1) = some m1) (h2 : minImageSqCert G (x - s2) = some m2)
    (h12 : minImageSqCert G (s2 - s1) = some m12) (hsep : 4 * r ^ 2 ≤ m12) :
    ¬ (m1 < r ^ 2 ∧ m2 < r ^ 2) := by
  rintro ⟨hr1, hr2⟩
  have := two_spheres_close G hpd s1 s2 x r m1 m2 m12 h1 h2 h12 hr1 hr2
  linarith

/-- the automatic radius `½ d_min − 0.005` (taken when `2·vibration amplitude` would overlap) keeps
the spheres disjoint: `4 r² < d_min²` -/
theorem auto_radius_disjoint (dmin r : ℚ) (hr0 : 0 ≤ r) (hr : r ≤ dmin / 2 - 5 / 1000) : 4 * r ^ 2 < dmin ^ 2 := by
  have h2 : 2 * r < dmin := by linarith
  have h3 : 0 ≤ 2 * r := by linarith
  have h4 : (2 * r) ^ 2 < dmin ^ 2 := pow_lt_pow_left₀ h2 h3 (by norm_num)
  calc 4 * r ^ 2 = (2 * r) ^ 2 := by ring
    _ < dmin ^ 2 := h4

/-- a smaller radius selects a subset: inside the scaled sphere ⇒ inside the full sphere
(for certified distances, i.e. `pbcDistSq ≥ 0`) -/
theorem within_mono (G : Sym3) (r frac : ℚ) (s x : V3) (hr : 0 ≤ r) (hf0 : 0 ≤ frac) (hf1 : frac ≤ 1)
    (hcert : 0 ≤ pbcDistSq G s x) (h : within G (r * frac) s x = true) : within G r s x = true := by
  have _ := hcert
  simp only [within, decide_eq_true_eq] at h ⊢
  have h0 : 0 ≤ r * frac := mul_nonneg hr hf0
  have h1 : r * frac ≤ r := by
    have := mul_le_mul_of_nonneg_left hf1 hr
    linarith
  have h2 : (r * frac) ^ 2 ≤ r ^ 2 := pow_le_pow_left₀ h0 h1 2
  linarith

/-- **C02 (inner site)**: with an inner fraction in (0, 1] and at most one sphere containing the
atom, the inner site is either "none" or the outer site. -/
theorem inner_subset (G : Sym3) (frac : ℚ) (sites : List (V3 × ℚ)) (x : V3) (hf0 : 0 ≤ frac) (hf1 : frac ≤ 1)
    (hr : ∀ p ∈ sites, 0 ≤ p.2) (hcert : ∀ p ∈ sites, 0 ≤ pbcDistSq G p.1 x)
    (huniq : ∀ (i j : Nat) (p q : V3 × ℚ), sites[i]? = some p → sites[j]? = some q →
      within G p.2 p.1 x = true → within G q.2 q.1 x = true → i = j) :
    assign G frac sites x = -1 ∨ assign G frac sites x = assign G 1 sites x := by
  rcases assign_range G frac sites x with h | ⟨h0, _⟩
  · left; exact h
  · right
    obtain ⟨k, hk⟩ : ∃ k : Nat, assign G frac sites x = (k : Int) :=
      ⟨(assign G frac sites x).toNat, (Int.toNat_of_nonneg h0).symm⟩
    obtain ⟨s, r, hget, hin, _⟩ := assign_sound G frac sites x k hk
    have hmem : (s, r) ∈ sites := List.mem_of_getElem? hget
    have hfull : within G r s x = true :=
      within_mono G r frac s x (hr (s, r) hmem) hf0 hf1 (hcert (s, r) hmem) hin
    rcases assign_range G 1 sites x with h1 | ⟨h1, _⟩
    · have := (assign_none_iff G 1 sites x).mp h1 (s, r) hmem
      simp only [mul_one] at this
      rw [hfull] at this
      cases this
    · obtain ⟨j, hj⟩ : ∃ j : Nat, assign G 1 sites x = (j : Int) :=
        ⟨(assign G 1 sites x).toNat, (Int.toNat_of_nonneg h1).symm⟩
      obtain ⟨s', r', hget', hin', _⟩ := assign_sound G 1 sites x j hj
      rw [mul_one] at hin'
      have hkj : k = j := huniq k j (s, r) (s', r') hget hget' hfull hin'
      rw [hk, hj, hkj]

/-- `np.digitize(a, arange(n), right=True) = min a n` -/
theorem digitizeRight_range (n a : Nat) :
    digitizeRight ((List.range n).map (fun (k : Nat) => (k : Int))) (a : Int) = min a n := by
  unfold digitizeRight
  induction n with
  | zero => simp
  | succ n ih =>
    rw [List.range_succ, List.map_append, List.filter_append, List.length_append, ih]
    by_cases h : n < a
    · have : decide (((n : Nat) : Int) < (a : Int)) = true := by
        rw [decide_eq_true_eq]; exact_mod_cast h
      simp only [List.map_cons, List.map_nil, List.filter_cons, this, List.filter_nil, if_true,
        List.length_cons, List.length_nil]
      omega
    · have : decide (((n : Nat) : Int) < (a : Int)) = false := by
        rw [decide_eq_false_iff_not]; exact_mod_cast h
      simp only [List.map_cons, List.map_nil, List.filter_cons, this, List.filter_nil,
        Bool.false_eq_true, if_false, List.length_nil]
      omega

/-- per-label mapping as repaired: indexing the group's key array is the identity-palette remap -/
theorem remap_identity (key : List Int) (a : Nat) (ha : a < key.length) :
    integerRemap key ((List.range key.length).map (fun (k : Nat) => (k : Int))) (a : Int) = key[a]? := by
  unfold integerRemap
  rw [digitizeRight_range, Nat.min_eq_left (le_of_lt ha)]

/-- defect D3 (repaired): with the palette of *visited* group members [1, 2] (member 0 never visited)
group-local index 2 is mapped to key[1] instead of key[2] -/
theorem remap_visited_counterexample :
    integerRemap [5, 7, 9] [1, 2] 2 = some 7 ∧ integerRemap [5, 7, 9] [0, 1, 2] 2 = some 9 := by
  decide

/-- non-vacuity: a cubic 8 Å cell, two sites 2 Å apart through the boundary, radius 0.9 -/
example :
    let M : M3 := ⟨⟨8, 0, 0⟩, ⟨0, 8, 0⟩, ⟨0, 0, 8⟩⟩
    let sites : List (V3 × ℚ) := [(⟨1/8, 0, 0⟩, 9/10), (⟨7/8, 0, 0⟩, 9/10)]
    assign M.metric 1 sites ⟨15/16, 0, 0⟩ = 1 ∧ assign M.metric (1/2) sites ⟨15/16, 0, 0⟩ = -1 ∧
    assign M.metric 1 sites ⟨1/2, 0, 0⟩ = -1 ∧ minImageSqCert M.metric (⟨7/8, 0, 0⟩ - ⟨1/8, 0, 0⟩) = some 4 := by
  decide +kernel

end G.C02
