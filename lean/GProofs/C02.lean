import GModel.Sites
import GProofs.Geometry
import Mathlib.Tactic.Linarith
import Mathlib.Tactic.Ring
import Mathlib.Tactic.Positivity
/-!
# C02 — site assignment follows the true minimum-image distance

`GProofs.Geometry.minImageSqCert_spec` shows that the model's periodic distance is the exact
minimum over all lattice images for every cell.  On top of that:

* `assign_range`, `assign_sound`, `assign_none_iff`   `assign` returns the first site whose sphere
        contains the atom, −1 exactly when no sphere does
* `two_spheres_close`, `unique_of_disjoint`   if the atom is inside two spheres of radius r then the
        two sites are less than 2r apart (minimum image) — so with r ≤ half the smallest site
        separation (what the automatic radius guarantees) the assignment is unique
* `auto_radius_disjoint`   r = d_min/2 − 0.005 gives 4r² < d_min²
* `inner_subset`           inner fraction ≤ 1 and unique assignment ⇒ inner site ∈ {none, outer site}
* `remap_identity`, `remap_visited_counterexample`   per-label index mapping (defect D3)
-/
namespace G.C02
open G G.Sites G.Geometry

theorem assignFrom_range (G : Sym3) (frac : ℚ) (sites : List (V3 × ℚ)) (k : Nat) (x : V3) :
    assignFrom G frac k sites x = -1 ∨
      ((k : Int) ≤ assignFrom G frac k sites x ∧ assignFrom G frac k sites x < (k + sites.length : Nat)) := by
  sorry

/-- the result is "no site" or a valid site index -/
theorem assign_range (G : Sym3) (frac : ℚ) (sites : List (V3 × ℚ)) (x : V3) :
    assign G frac sites x = -1 ∨ (0 ≤ assign G frac sites x ∧ assign G frac sites x < sites.length) := by
  sorry

/-- **C02 (sound)**: a reported site really contains the atom, and no earlier site does. -/
theorem assign_sound (G : Sym3) (frac : ℚ) (sites : List (V3 × ℚ)) (x : V3) (k : Nat)
    (h : assign G frac sites x = (k : Int)) :
    ∃ s r, sites[k]? = some (s, r) ∧ within G (r * frac) s x = true ∧
      ∀ j, j < k → ∀ s' r', sites[j]? = some (s', r') → within G (r' * frac) s' x = false := by
  sorry

/-- **C02 (complete)**: "no site" is reported exactly when the atom is outside every sphere. -/
theorem assign_none_iff (G : Sym3) (frac : ℚ) (sites : List (V3 × ℚ)) (x : V3) :
    assign G frac sites x = -1 ↔ ∀ p ∈ sites, within G (p.2 * frac) p.1 x = false := by
  sorry

/-- **C02 (spheres)**: an atom inside two spheres of radius `r` forces the two centres to be less
than `2r` apart under the minimum-image distance. -/
theorem two_spheres_close (G : Sym3) (hpd : PosDef G) (s1 s2 x : V3) (r m1 m2 m12 : ℚ)
    (h1 : minImageSqCert G (x - s1) = some m1) (h2 : minImageSqCert G (x - s2) = some m2)
    (h12 : minImageSqCert G (s2 - s1) = some m12)
    (hr1 : m1 < r ^ 2) (hr2 : m2 < r ^ 2) : m12 < 4 * r ^ 2 := by
  sorry

/-- … hence with `2r ≤` the site separation no atom is inside both spheres: the assignment is unique. -/
theorem unique_of_disjoint (G : Sym3) (hpd : PosDef G) (s1 s2 x : V3) (r m1 m2 m12 : ℚ)
    (h1 : minImageSqCert G (x - s1) = some m1) (h2 : minImageSqCert G (x - s2) = some m2)
    (h12 : minImageSqCert G (s2 - s1) = some m12) (hsep : 4 * r ^ 2 ≤ m12) :
    ¬ (m1 < r ^ 2 ∧ m2 < r ^ 2) := by
  sorry

/-- the automatic radius `½ d_min − 0.005` (taken when `2·vibration amplitude` would overlap) keeps
the spheres disjoint: `4 r² < d_min²` -/
theorem auto_radius_disjoint (dmin r : ℚ) (hr0 : 0 ≤ r) (hr : r ≤ dmin / 2 - 5 / 1000) : 4 * r ^ 2 < dmin ^ 2 := by
  sorry

/-- a smaller radius selects a subset: inside the scaled sphere ⇒ inside the full sphere
(for certified distances, i.e. `pbcDistSq ≥ 0`) -/
theorem within_mono (G : Sym3) (r frac : ℚ) (s x : V3) (hr : 0 ≤ r) (hf0 : 0 ≤ frac) (hf1 : frac ≤ 1)
    (hcert : 0 ≤ pbcDistSq G s x) (h : within G (r * frac) s x = true) : within G r s x = true := by
  sorry

/-- **C02 (inner site)**: with an inner fraction in (0, 1] and at most one sphere containing the
atom, the inner site is either "none" or the outer site. -/
theorem inner_subset (G : Sym3) (frac : ℚ) (sites : List (V3 × ℚ)) (x : V3) (hf0 : 0 ≤ frac) (hf1 : frac ≤ 1)
    (hr : ∀ p ∈ sites, 0 ≤ p.2) (hcert : ∀ p ∈ sites, 0 ≤ pbcDistSq G p.1 x)
    (huniq : ∀ (i j : Nat) (p q : V3 × ℚ), sites[i]? = some p → sites[j]? = some q →
      within G p.2 p.1 x = true → within G q.2 q.1 x = true → i = j) :
    assign G frac sites x = -1 ∨ assign G frac sites x = assign G 1 sites x := by
  sorry

/-- per-label mapping as repaired: indexing the group's key array is the identity-palette remap -/
theorem remap_identity (key : List Int) (a : Nat) (ha : a < key.length) :
    integerRemap key ((List.range key.length).map (fun (k : Nat) => (k : Int))) (a : Int) = key[a]? := by
  sorry

/-- defect D3 (repaired): with the palette of *visited* group members [1, 2] (member 0 never visited)
group-local index 2 is mapped to key[1] instead of key[2] -/
theorem remap_visited_counterexample :
    integerRemap [5, 7, 9] [1, 2] 2 = some 7 ∧ integerRemap [5, 7, 9] [0, 1, 2] 2 = some 9 := by
  decide

/-- non-vacuity: a cubic 8 Å cell, two sites 2 Å apart through the boundary, radius 0.9 -/
example :
    let M : M3 := ⟨⟨8, 0, 0⟩, ⟨0, 8, 0⟩, ⟨0, 0, 8⟩⟩
    let sites : List (V3 × ℚ) := [(⟨1/8, 0, 0⟩, 9/10), (⟨7/8, 0, 0⟩, 9/10)]
    assign M.metric 1 sites ⟨15/16, 0, 0⟩ = 1 ∧ assign M.metric (1/2) sites ⟨15/16, 0, 0⟩ = -1 ∧
    assign M.metric 1 sites ⟨1/2, 0, 0⟩ = -1 ∧ minImageSqCert M.metric (⟨7/8, 0, 0⟩ - ⟨1/8, 0, 0⟩) = some 4 := by
  decide +kernel

end G.C02
