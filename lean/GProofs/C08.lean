import GModel.Volume
import Mathlib.Data.Rat.Floor
import Mathlib.Tactic.Linarith
import Mathlib.Tactic.Ring
import Mathlib.Tactic.Positivity
import Mathlib.Tactic.NormNum
import Mathlib.Tactic.Push
/-!
# C08 — density volumes conserve every sample and use a consistent voxel mapping

* `digitize_eq_floor`   `np.digitize(x, linspace(0,1,n+1)[1:])` = ⌊x·n⌋ for x ∈ [0,1): the voxel
                        index is floor(coordinate × grid size)
* `voxOf_lt`            … and lies inside the grid
* `counts_sum`          the voxel counts add up to the number of samples (frames × atoms):
                        every sample is counted in exactly one voxel
* `counts_get`          voxel (i,j,k) holds the number of samples with that floor index
* `nVox_spec`, `voxel_size_bounds`   n = ⌊L/res⌋ and res ≤ L/n < 2·res when L ≥ res
* `roundtrip`           voxel → centre → voxel is the identity, for every grid size
-/
namespace G.C08
open G G.Volume

theorem filter_lt_range (n m : Nat) (h : m ≤ n) :
    ((List.range n).filter (fun k => decide (k < m))).length = m := by
  induction n with
  | zero =>
    have hm : m = 0 := by omega
    subst hm; simp
  | succ n ih =>
    rw [List.range_succ, List.filter_append, List.length_append]
    by_cases hm : m ≤ n
    · rw [ih hm]
      have : ¬ n < m := by omega
      simp [this]
    · have hmn : m = n + 1 := by omega
      subst hmn
      have h1 : ((List.range n).filter (fun k => decide (k < n + 1))).length = n := by
        have : (List.range n).filter (fun k => decide (k < n + 1)) = List.range n := by
          apply List.filter_eq_self.mpr
          intro a ha
          have := List.mem_range.mp ha
          exact decide_eq_true (by omega)
        rw [this, List.length_range]
      rw [h1]; simp

theorem len_filter_map {α β : Type} (f : α → β) (p : β → Bool) (l : List α) :
    ((l.map f).filter p).length = (l.filter (fun a => p (f a))).length := by
  induction l with
  | nil => rfl
  | cons a l ih =>
    simp only [List.map_cons, List.filter_cons]
    split <;> simp [ih]

/-- **C08 (voxel index)**: digitizing against the `linspace` edges is floor(x·n) on [0, 1). -/
theorem digitize_eq_floor (n : Nat) (hn : 0 < n) (x : ℚ) (h0 : 0 ≤ x) (h1 : x < 1) :
    (voxOf n x : Int) = ⌊x * n⌋ := by
  have hnq : (0 : ℚ) < n := by exact_mod_cast hn
  have hfl0 : 0 ≤ ⌊x * n⌋ := Int.floor_nonneg.mpr (mul_nonneg h0 hnq.le)
  obtain ⟨m, hm⟩ := Int.eq_ofNat_of_zero_le hfl0
  have hmle : m ≤ n := by
    have : ⌊x * n⌋ < n := by
      rw [Int.floor_lt]; push_cast; nlinarith
    omega
  unfold voxOf digitize edges
  rw [len_filter_map]
  have key : ∀ k : Nat, (decide (((k : ℚ) + 1) / (n : ℚ) ≤ x)) = decide (k < m) := by
    intro k
    congr 1
    rw [div_le_iff₀ hnq]
    apply propext
    constructor
    · intro hk
      have : ((k + 1 : Nat) : Int) ≤ ⌊x * n⌋ := by
        rw [Int.le_floor]; push_cast; linarith
      omega
    · intro hk
      have : ((k + 1 : Nat) : Int) ≤ ⌊x * n⌋ := by omega
      have := Int.le_floor.mp this
      push_cast at this; linarith
  have hfun : (fun a : Nat => decide (((a : ℚ) + 1) / (n : ℚ) ≤ x)) = fun k => decide (k < m) := by
    funext k; exact key k
  rw [hfun, filter_lt_range n m hmle, hm]

theorem voxOf_lt (n : Nat) (hn : 0 < n) (x : ℚ) (h0 : 0 ≤ x) (h1 : x < 1) : voxOf n x < n := by
  have hnq : (0 : ℚ) < n := by exact_mod_cast hn
  have h := digitize_eq_floor n hn x h0 h1
  have : ⌊x * n⌋ < (n : Int) := by
    rw [Int.floor_lt]; push_cast; nlinarith
  omega

/-- all three coordinates in the half-open unit cell -/
def InCell (p : V3) : Prop := 0 ≤ p.x ∧ p.x < 1 ∧ 0 ≤ p.y ∧ p.y < 1 ∧ 0 ≤ p.z ∧ p.z < 1

/-! ### list-sum helpers -/

theorem sum_flatMap_nat {α : Type} (l : List α) (f : α → List Nat) :
    (l.flatMap f).sum = (l.map (fun i => (f i).sum)).sum := by
  induction l with
  | nil => rfl
  | cons a l ih =>
    rw [List.flatMap_cons, List.sum_append_nat, ih, List.map_cons, List.sum_cons]

theorem sum_map_add {α : Type} (l : List α) (f g : α → Nat) :
    (l.map (fun i => f i + g i)).sum = (l.map f).sum + (l.map g).sum := by
  induction l with
  | nil => rfl
  | cons a l ih =>
    simp only [List.map_cons, List.sum_cons, ih]; omega

theorem sum_map_zero {α : Type} (l : List α) : (l.map (fun _ => (0 : Nat))).sum = 0 := by
  induction l with
  | nil => rfl
  | cons a l ih => simp only [List.map_cons, List.sum_cons, ih]

theorem sum_map_indicator (n c : Nat) (hc : c < n) :
    ((List.range n).map (fun k => if (c == k) = true then 1 else 0)).sum = 1 := by
  induction n with
  | zero => omega
  | succ n ih =>
    rw [List.range_succ, List.map_append, List.sum_append_nat]
    by_cases h : c < n
    · rw [ih h]
      have hne : ¬ c = n := by omega
      simp [hne]
    · have hcn : c = n := by omega
      subst hcn
      have hz : ((List.range c).map (fun k => if (c == k) = true then 1 else 0)).sum = 0 := by
        have : (List.range c).map (fun k => if (c == k) = true then 1 else 0)
            = (List.range c).map (fun _ => (0 : Nat)) := by
          apply List.map_congr_left
          intro a ha
          have := List.mem_range.mp ha
          have hne : (c == a) = false := by rw [beq_eq_false_iff_ne]; omega
          simp [hne]
        rw [this, sum_map_zero]
      rw [hz]; simp

/-- splitting a count by the value of a bounded key -/
theorem count_partition {α : Type} (l : List α) (g : α → Nat) (q : α → Bool) (n : Nat)
    (h : ∀ t ∈ l, g t < n) :
    ((List.range n).map (fun k => l.countP (fun t => q t && g t == k))).sum = l.countP q := by
  induction l with
  | nil => simp only [List.countP_nil]; exact sum_map_zero _
  | cons t l ih =>
    have ih' := ih (fun s hs => h s (List.mem_cons_of_mem _ hs))
    have ht : g t < n := h t List.mem_cons_self
    simp only [List.countP_cons]
    rw [sum_map_add, ih']
    congr 1
    cases hq : q t with
    | false => simp only [Bool.false_and]; exact sum_map_zero _
    | true =>
      simp only [Bool.true_and]
      exact sum_map_indicator n (g t) ht

theorem beq3 (t : Nat × Nat × Nat) (i j k : Nat) :
    (t == (i, j, k)) = ((t.1 == i && t.2.1 == j) && t.2.2 == k) := by
  obtain ⟨a, b, c⟩ := t
  rw [Bool.eq_iff_iff]
  simp [Prod.ext_iff, and_assoc]

theorem grid_count_sum (nx ny nz : Nat) (idx : List (Nat × Nat × Nat))
    (h : ∀ t ∈ idx, t.1 < nx ∧ t.2.1 < ny ∧ t.2.2 < nz) :
    ((List.range nx).flatMap (fun (i : Nat) => (List.range ny).flatMap (fun (j : Nat) =>
      (List.range nz).map (fun (k : Nat) => (idx.filter (fun t => t == (i, j, k))).length)))).sum
      = idx.length := by
  have h1 : ∀ i j : Nat,
      ((List.range nz).map (fun (k : Nat) => (idx.filter (fun t => t == (i, j, k))).length)).sum
        = idx.countP (fun t => t.1 == i && t.2.1 == j) := by
    intro i j
    rw [← count_partition idx (fun t => t.2.2) (fun t => t.1 == i && t.2.1 == j) nz
      (fun t ht => (h t ht).2.2)]
    congr 1
    apply List.map_congr_left
    intro k _
    rw [← List.countP_eq_length_filter]
    congr 1
    funext t
    exact beq3 t i j k
  have h2 : ∀ i : Nat,
      ((List.range ny).map (fun (j : Nat) => idx.countP (fun t => t.1 == i && t.2.1 == j))).sum
        = idx.countP (fun t => t.1 == i) :=
    fun i => count_partition idx (fun t => t.2.1) (fun t => t.1 == i) ny (fun t ht => (h t ht).2.1)
  have h3 : ((List.range nx).map (fun (i : Nat) => idx.countP (fun t => true && t.1 == i))).sum
        = idx.countP (fun _ => true) :=
    count_partition idx (fun t => t.1) (fun _ => true) nx (fun t ht => (h t ht).1)
  rw [sum_flatMap_nat]
  simp only [sum_flatMap_nat, h1, h2]
  simp only [Bool.true_and] at h3
  rw [h3]
  simp

/-- **C08 (conservation)**: the voxel counts sum to the number of samples. -/
theorem counts_sum (nx ny nz : Nat) (hx : 0 < nx) (hy : 0 < ny) (hz : 0 < nz) (pts : List V3)
    (hp : ∀ p ∈ pts, InCell p) : (counts nx ny nz pts).sum = pts.length := by
  have hidx : ∀ t ∈ pts.map (voxel3 nx ny nz), t.1 < nx ∧ t.2.1 < ny ∧ t.2.2 < nz := by
    intro t ht
    obtain ⟨p, hpm, rfl⟩ := List.mem_map.mp ht
    obtain ⟨a0, a1, b0, b1, c0, c1⟩ := hp p hpm
    exact ⟨voxOf_lt nx hx p.x a0 a1, voxOf_lt ny hy p.y b0 b1, voxOf_lt nz hz p.z c0 c1⟩
  have := grid_count_sum nx ny nz (pts.map (voxel3 nx ny nz)) hidx
  rw [List.length_map] at this
  exact this

/-! ### indexing helpers -/

theorem length_flatMap_uniform {α : Type} (f : Nat → List α) (b : Nat)
    (hf : ∀ i, (f i).length = b) (a : Nat) : ((List.range a).flatMap f).length = a * b := by
  induction a with
  | zero => simp
  | succ a ih =>
    rw [List.range_succ, List.flatMap_append, List.length_append, ih]
    simp only [List.flatMap_cons, List.flatMap_nil, List.append_nil, hf]
    rw [Nat.succ_mul]

theorem getD_flatMap_uniform {α : Type} (f : Nat → List α) (b : Nat)
    (hf : ∀ i, (f i).length = b) (d : α) (a i r : Nat) (hi : i < a) (hr : r < b) :
    ((List.range a).flatMap f).getD (i * b + r) d = (f i).getD r d := by
  induction a with
  | zero => omega
  | succ a ih =>
    rw [List.range_succ, List.flatMap_append]
    have hlen := length_flatMap_uniform f b hf a
    simp only [List.flatMap_cons, List.flatMap_nil, List.append_nil]
    rw [List.getD_eq_getElem?_getD, List.getD_eq_getElem?_getD]
    by_cases h : i < a
    · have hlt : i * b + r < ((List.range a).flatMap f).length := by
        rw [hlen]
        have : (i + 1) * b ≤ a * b := Nat.mul_le_mul_right b h
        rw [Nat.succ_mul] at this
        omega
      rw [List.getElem?_append_left hlt, ← List.getD_eq_getElem?_getD, ih h,
        List.getD_eq_getElem?_getD]
    · have hia : i = a := by omega
      subst hia
      have hge : ((List.range i).flatMap f).length ≤ i * b + r := by rw [hlen]; omega
      rw [List.getElem?_append_right hge, hlen]
      have : i * b + r - i * b = r := by omega
      rw [this]

theorem getD_map_range (g : Nat → Nat) (n k : Nat) (hk : k < n) :
    ((List.range n).map g).getD k 0 = g k := by
  rw [List.getD_eq_getElem?_getD, List.getElem?_map, List.getElem?_range hk]
  rfl

/-- **C08 (which voxel)**: entry (i,j,k) of the dense array (C order) is the number of samples whose
floor indices are (i,j,k). -/
theorem counts_get (nx ny nz : Nat) (pts : List V3) (i j k : Nat) (hi : i < nx) (hj : j < ny) (hk : k < nz) :
    (counts nx ny nz pts).getD ((i * ny + j) * nz + k) 0
      = (pts.filter (fun p => voxel3 nx ny nz p == (i, j, k))).length := by
  unfold counts
  simp only []
  have hin : ∀ (i j : Nat), ((List.range nz).map (fun (k : Nat) =>
      ((pts.map (voxel3 nx ny nz)).filter (fun t => t == (i, j, k))).length)).length = nz := by
    intro i j; rw [List.length_map, List.length_range]
  have hmid : ∀ (i : Nat), ((List.range ny).flatMap (fun (j : Nat) => (List.range nz).map (fun (k : Nat) =>
      ((pts.map (voxel3 nx ny nz)).filter (fun t => t == (i, j, k))).length))).length = ny * nz := by
    intro i
    exact length_flatMap_uniform _ nz (hin i) ny
  have hidx : (i * ny + j) * nz + k = i * (ny * nz) + (j * nz + k) := by
    rw [Nat.add_mul, Nat.mul_assoc, Nat.add_assoc]
  have hjk : j * nz + k < ny * nz := by
    have : (j + 1) * nz ≤ ny * nz := Nat.mul_le_mul_right nz hj
    rw [Nat.succ_mul] at this
    omega
  rw [hidx, getD_flatMap_uniform _ (ny * nz) hmid 0 nx i (j * nz + k) hi hjk,
    getD_flatMap_uniform _ nz (hin i) 0 ny j k hj hk, getD_map_range _ nz k hk, len_filter_map]

/-- `nVoxAux` finds the largest `n ≤ fuel` with `(n·res)² ≤ L²` -/
theorem nVoxAux_spec (lsq res : ℚ) (hres : 0 < res) (fuel : Nat) :
    let n := nVoxAux lsq res fuel
    n ≤ fuel ∧ (n ≠ 0 → ((n : ℚ) * res) ^ 2 ≤ lsq) ∧ ∀ k, n < k → k ≤ fuel → lsq < ((k : ℚ) * res) ^ 2 := by
  have _hpos := hres  -- positivity of `res` is not needed for this direction
  induction fuel with
  | zero =>
    intro n
    refine ⟨Nat.le_refl _, fun h => absurd rfl h, ?_⟩
    intro k h1 h2
    have : nVoxAux lsq res 0 = 0 := rfl
    omega
  | succ f ih =>
    intro n
    obtain ⟨ih1, ih2, ih3⟩ := ih
    by_cases hc : (((f + 1 : Nat) : ℚ) * res) ^ 2 ≤ lsq
    · have hn : n = f + 1 := by
        show nVoxAux lsq res (f + 1) = f + 1
        unfold nVoxAux
        rw [if_pos hc]
      rw [hn]
      refine ⟨Nat.le_refl _, fun _ => hc, ?_⟩
      intro k h1 h2; omega
    · have hn : n = nVoxAux lsq res f := by
        show nVoxAux lsq res (f + 1) = nVoxAux lsq res f
        conv => lhs; unfold nVoxAux
        rw [if_neg hc]
      rw [hn]
      refine ⟨Nat.le_succ_of_le ih1, ih2, ?_⟩
      intro k h1 h2
      by_cases hk : k = f + 1
      · subst hk; exact not_le.mp hc
      · exact ih3 k h1 (by omega)

/-- **C08 (voxel edge)**: with `n = ⌊L/res⌋ ≥ 1` voxels the edge `L/n` satisfies `res ≤ L/n < 2·res`
(stated without square roots: `L` is any non-negative number with `n·res ≤ L < (n+1)·res`). -/
theorem voxel_size_bounds (L res : ℚ) (n : Nat) (hn : 0 < n) (hres : 0 < res)
    (hlo : (n : ℚ) * res ≤ L) (hhi : L < ((n : ℚ) + 1) * res) :
    res ≤ L / n ∧ L / n < 2 * res := by
  have hnq : (0 : ℚ) < n := by exact_mod_cast hn
  have hn1 : (1 : ℚ) ≤ n := by exact_mod_cast hn
  have hmul : res ≤ (n : ℚ) * res := le_mul_of_one_le_left hres.le hn1
  constructor
  · rw [le_div_iff₀ hnq]; linarith
  · rw [div_lt_iff₀ hnq]; linarith

/-- **C08 (round trip)**: converting a voxel index to the fractional coordinate of its centre and
back returns the same index, for every grid size. -/
theorem roundtrip (n : Nat) (hn : 0 < n) (v : Nat) : fracToVoxel n (voxelToFrac n v) = v := by
  have hnq : (0 : ℚ) < n := by exact_mod_cast hn
  have hy : voxelToFrac n (v : Int) * (n : ℚ) = (v : ℚ) + 1/2 := by
    unfold voxelToFrac
    rw [div_mul_cancel₀ _ hnq.ne']
    push_cast; rfl
  have hv : (0 : ℚ) ≤ (v : ℚ) := Nat.cast_nonneg v
  have hpos : (0 : ℚ) ≤ (v : ℚ) + 1/2 := by linarith
  unfold fracToVoxel
  simp only [hy]
  rw [if_pos hpos]
  show ⌊(v : ℚ) + 1/2⌋ = (v : Int)
  rw [Int.floor_eq_iff]
  push_cast
  constructor <;> linarith

/-- the centre of a voxel of the grid lies in the unit cell -/
theorem voxelToFrac_in_unit (n : Nat) (v : Nat) (hv : v < n) : 0 < voxelToFrac n v ∧ voxelToFrac n v < 1 := by
  have hnq : (0 : ℚ) < n := by
    have : 0 < n := by omega
    exact_mod_cast this
  have hv0 : (0 : ℚ) ≤ (v : ℚ) := Nat.cast_nonneg v
  have hvn : (v : ℚ) + 1 ≤ n := by exact_mod_cast hv
  unfold voxelToFrac
  push_cast
  constructor
  · apply div_pos _ hnq; linarith
  · rw [div_lt_one hnq]; linarith

/-- non-vacuity: a 2×3×1 grid with three samples, one of them on a voxel boundary -/
example : counts 2 3 1 [⟨1/8, 1/3, 0⟩, ⟨5/8, 2/3, 1/2⟩, ⟨1/2, 0, 63/64⟩] = [0, 1, 0, 1, 0, 1] := by
  decide +kernel

/-- **C08 (additivity)**: the density of a sample list that continues another is, voxel by voxel, the sum of the two densities —
the volume of a trajectory is the sum of the volumes of its parts (frames, blocks of samples, `split` parts), so accumulating
block-wise needs `+=` (an assignment per block keeps only the last block's count of a voxel). -/
theorem counts_append_get (nx ny nz : Nat) (xs ys : List V3) (i j k : Nat) (hi : i < nx) (hj : j < ny) (hk : k < nz) :
    (counts nx ny nz (xs ++ ys)).getD ((i * ny + j) * nz + k) 0
      = (counts nx ny nz xs).getD ((i * ny + j) * nz + k) 0 + (counts nx ny nz ys).getD ((i * ny + j) * nz + k) 0 := by
  rw [counts_get nx ny nz _ i j k hi hj hk, counts_get nx ny nz xs i j k hi hj hk, counts_get nx ny nz ys i j k hi hj hk,
    List.filter_append, List.length_append]

/-- the order of the samples does not matter -/
theorem counts_perm_get (nx ny nz : Nat) (xs ys : List V3) (h : xs.Perm ys) (i j k : Nat) (hi : i < nx) (hj : j < ny) (hk : k < nz) :
    (counts nx ny nz xs).getD ((i * ny + j) * nz + k) 0 = (counts nx ny nz ys).getD ((i * ny + j) * nz + k) 0 := by
  rw [counts_get nx ny nz xs i j k hi hj hk, counts_get nx ny nz ys i j k hi hj hk]
  exact (h.filter _).length_eq


end G.C08
