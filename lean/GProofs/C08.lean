import GModel.Volume
import Mathlib.Data.Rat.Floor
import Mathlib.Tactic.Linarith
import Mathlib.Tactic.Ring
import Mathlib.Tactic.Positivity
/-!
# C08 — density volumes conserve every sample and use a consistent voxel mapping

* `digitize_eq_floor`   `np.digitize(x, linspace(0,1,n+1)[1:])` = ⌊x·n⌋ for x ∈ [0,1): the voxel
                        index is floor(coordinate × grid size)
* `voxOf_lt`            … and lies inside the grid
* `counts_sum`          the voxel counts add up to the number of samples (frames × atoms):
                        every sample is counted in exactly one voxel
* `counts_get`          voxel (i,j,k) holds the number of samples with that floor index
* `nVox_spec`, `voxel_size_bounds`   n = ⌊L/res⌋ and res ≤ L/n < 2·res when L ≥ res
* `roundtrip`           voxel → centre → voxel is the identity, for every grid size
-/
namespace G.C08
open G G.Volume

theorem filter_lt_range (n m : Nat) (h : m ≤ n) :
    ((List.range n).filter (fun k => decide (k < m))).length = m := by
  sorry

/-- **C08 (voxel index)**: digitizing against the `linspace` edges is floor(x·n) on [0, 1). -/
theorem digitize_eq_floor (n : Nat) (hn : 0 < n) (x : ℚ) (h0 : 0 ≤ x) (h1 : x < 1) :
    (voxOf n x : Int) = ⌊x * n⌋ := by
  sorry

theorem voxOf_lt (n : Nat) (hn : 0 < n) (x : ℚ) (h0 : 0 ≤ x) (h1 : x < 1) : voxOf n x < n := by
  sorry

/-- all three coordinates in the half-open unit cell -/
def InCell (p : V3) : Prop := 0 ≤ p.x ∧ p.x < 1 ∧ 0 ≤ p.y ∧ p.y < 1 ∧ 0 ≤ p.z ∧ p.z < 1

/-- **C08 (conservation)**: the voxel counts sum to the number of samples. -/
theorem counts_sum (nx ny nz : Nat) (hx : 0 < nx) (hy : 0 < ny) (hz : 0 < nz) (pts : List V3)
    (hp : ∀ p ∈ pts, InCell p) : (counts nx ny nz pts).sum = pts.length := by
  sorry

/-- **C08 (which voxel)**: entry (i,j,k) of the dense array (C order) is the number of samples whose
floor indices are (i,j,k). -/
theorem counts_get (nx ny nz : Nat) (pts : List V3) (i j k : Nat) (hi : i < nx) (hj : j < ny) (hk : k < nz) :
    (counts nx ny nz pts).getD ((i * ny + j) * nz + k) 0
      = (pts.filter (fun p => voxel3 nx ny nz p == (i, j, k))).length := by
  sorry

/-- `nVoxAux` finds the largest `n ≤ fuel` with `(n·res)² ≤ L²` -/
theorem nVoxAux_spec (lsq res : ℚ) (hres : 0 < res) (fuel : Nat) :
    let n := nVoxAux lsq res fuel
    n ≤ fuel ∧ (n ≠ 0 → ((n : ℚ) * res) ^ 2 ≤ lsq) ∧ ∀ k, n < k → k ≤ fuel → lsq < ((k : ℚ) * res) ^ 2 := by
  sorry

/-- **C08 (voxel edge)**: with `n = ⌊L/res⌋ ≥ 1` voxels the edge `L/n` satisfies `res ≤ L/n < 2·res`
(stated without square roots: `L` is any non-negative number with `n·res ≤ L < (n+1)·res`). -/
theorem voxel_size_bounds (L res : ℚ) (n : Nat) (hn : 0 < n) (hres : 0 < res)
    (hlo : (n : ℚ) * res ≤ L) (hhi : L < ((n : ℚ) + 1) * res) :
    res ≤ L / n ∧ L / n < 2 * res := by
  sorry

/-- **C08 (round trip)**: converting a voxel index to the fractional coordinate of its centre and
back returns the same index, for every grid size. -/
theorem roundtrip (n : Nat) (hn : 0 < n) (v : Nat) : fracToVoxel n (voxelToFrac n v) = v := by
  sorry

/-- the centre of a voxel of the grid lies in the unit cell -/
theorem voxelToFrac_in_unit (n : Nat) (v : Nat) (hv : v < n) : 0 < voxelToFrac n v ∧ voxelToFrac n v < 1 := by
  sorry

/-- non-vacuity: a 2×3×1 grid with three samples, one of them on a voxel boundary -/
example : counts 2 3 1 [⟨1/8, 1/3, 0⟩, ⟨5/8, 2/3, 1/2⟩, ⟨1/2, 0, 63/64⟩] = [0, 1, 0, 1, 0, 1] := by
  decide +kernel

end G.C08
