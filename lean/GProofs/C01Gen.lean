import GGen.FormulasC01
import GProofs.C01
import Mathlib.Tactic.Linarith
import Mathlib.Tactic.Ring
/-!
# C01 — obligations on the formula slice regenerated from /repo's source (GGen/FormulasC01.lean): `Trajectory.to_positions`

Every theorem here is ABOUT THE GENERATED DEFINITIONS: when the source formula changes, the definition changes with it
and the theorem either still holds (a harmless rewrite) or stops checking (then the check searches for a failing input).
-/
namespace G.C01Gen
open G

/-- the guard `coords[coords >= 1] = 0` never fires in exact arithmetic: the reported coordinate is `x mod 1` -/
theorem toPositionsCoord_eq_wrap (x : ℚ) : Gen.toPositionsCoord x = wrap x := by
  have h := (C01.wrap_range x).2
  unfold Gen.toPositionsCoord
  split_ifs with hge
  · exact absurd hge (not_le.mpr h)
  · rfl

theorem toPositionsCoord_in_unit (x : ℚ) : 0 ≤ Gen.toPositionsCoord x ∧ Gen.toPositionsCoord x < 1 := by
  rw [toPositionsCoord_eq_wrap]
  exact C01.wrap_range x

theorem toPositionsCoord_congr (x : ℚ) : ∃ k : ℤ, Gen.toPositionsCoord x = x + k := by
  rw [toPositionsCoord_eq_wrap]
  exact C01.wrap_congr x

end G.C01Gen
