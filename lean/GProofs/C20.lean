import GModel.Memo
/-!
# C20 — memoised results are transparent and never leak between objects

Model: `GModel.Memo` (CPython `weakref.ref` identity/equality, `lru_cache` order, address reuse).

* `CacheOK`, `init_ok`, `step_ok`   invariant: every entry stores `f` of *its own* object, a
                                    reference object belongs to one object only
* `call_transparent`, `memo_transparent`   every call, in every operation sequence (creation,
                                    destruction, address reuse, eviction), returns `f oid args`
* `hit_same_object`                 a hit always comes from an entry of the calling object
* `cache_bounded`                   never more than `maxsize` entries
* `no_leak`                         values that hold no reference to their object ⇒ a dropped
                                    object is dead, whatever the cache still contains
* `leak_witness`                    a value that stores its creator keeps it alive (defect D14)
-/
namespace G.C20
open G.Memo

variable (f : Nat → Nat → Nat) (holds : Nat → Nat → List Nat)

/-- cache invariant -/
def CacheOK (s : MState) : Prop :=
  (∀ e ∈ s.cache, e.val = f e.key.oid e.args ∧ e.holds = holds e.key.oid e.args) ∧
  (∀ e1 ∈ s.cache, ∀ e2 ∈ s.cache, e1.key.rid = e2.key.rid → e1.key.oid = e2.key.oid) ∧
  (∀ e ∈ s.cache, e.key.rid < s.nextRid)

theorem init_ok (cap : Nat) : CacheOK f holds (MState.init cap) := by
  simp [CacheOK, MState.init]

omit f holds in
theorem refFor_spec (s : MState) (oid addr : Nat)
    (h2 : ∀ e1 ∈ s.cache, ∀ e2 ∈ s.cache, e1.key.rid = e2.key.rid → e1.key.oid = e2.key.oid)
    (h3 : ∀ e ∈ s.cache, e.key.rid < s.nextRid) :
    (refFor s oid addr).1.oid = oid ∧
    (∀ e ∈ s.cache, e.key.rid = (refFor s oid addr).1.rid → e.key.oid = oid) ∧
    (∀ e ∈ s.cache, e.key.rid < (refFor s oid addr).2) ∧
    (refFor s oid addr).1.rid < (refFor s oid addr).2 := by
  unfold refFor
  split
  · rename_i e0 he0
    have hm := List.mem_of_find?_eq_some he0
    have hp := List.find?_some he0
    simp at hp
    refine ⟨hp, ?_, h3, h3 _ hm⟩
    intro e he hr
    rw [← hp]
    exact h2 e he e0 hm hr
  · refine ⟨rfl, ?_, ?_, ?_⟩
    · intro e he hr
      have := h3 e he
      simp at hr
      omega
    · intro e he
      have := h3 e he
      simp
      omega
    · simp

theorem call_spec (s s' : MState) (oid args v : Nat) (hit : Bool)
    (h : call f holds s oid args = some (s', v, hit)) :
    ∃ addr, addrOf s oid = some addr ∧
      ((∃ e, s.cache.find? (keyMatch s (refFor s oid addr).1 args) = some e ∧
          s' = { s with nextRid := (refFor s oid addr).2,
                        cache := e :: s.cache.filter (fun x => !(x == e)) } ∧
          v = e.val ∧ hit = true) ∨
       (s.cache.find? (keyMatch s (refFor s oid addr).1 args) = none ∧
          s' = { s with nextRid := (refFor s oid addr).2,
                        cache := ((⟨(refFor s oid addr).1, args, f oid args, holds oid args⟩ : Entry)
                                  :: s.cache).take s.cap } ∧
          v = f oid args ∧ hit = false)) := by
  unfold call at h
  split at h
  · simp at h
  · rename_i addr ha
    refine ⟨addr, ha, ?_⟩
    simp only at h
    split at h
    · rename_i e he
      simp only [Option.some.injEq, Prod.mk.injEq] at h
      left
      exact ⟨e, he, h.1.symm, h.2.1.symm, h.2.2.symm⟩
    · rename_i he
      simp only [Option.some.injEq, Prod.mk.injEq] at h
      right
      exact ⟨he, h.1.symm, h.2.1.symm, h.2.2.symm⟩

/-- a hit is always served from an entry that belongs to the calling object and argument -/
theorem hit_same_object (s s' : MState) (oid args v : Nat) (hok : CacheOK f holds s)
    (h : call f holds s oid args = some (s', v, true)) :
    ∃ e ∈ s.cache, e.key.oid = oid ∧ e.args = args ∧ v = e.val := by
  obtain ⟨addr, _, hc⟩ := call_spec f holds s s' oid args v true h
  obtain ⟨_, h2, h3⟩ := hok
  obtain ⟨r1, r2, _, _⟩ := refFor_spec s oid addr h2 h3
  rcases hc with ⟨e, he, _, hv, _⟩ | ⟨_, _, _, hf⟩
  · have hm := List.mem_of_find?_eq_some he
    have hp := List.find?_some he
    refine ⟨e, hm, ?_, ?_, hv⟩
    · simp only [keyMatch, refEq, Bool.and_eq_true, Bool.or_eq_true, beq_iff_eq] at hp
      rcases hp.2 with hr | hr
      · exact r2 e hm hr
      · rw [hr.2, r1]
    · simp only [keyMatch, Bool.and_eq_true, beq_iff_eq] at hp
      exact hp.1.1
  · simp at hf

/-- **C20 (transparent, one call)**: whatever the cache contains, a call returns the value an
uncached recomputation on the same object returns. -/
theorem call_transparent (s s' : MState) (oid args v : Nat) (hit : Bool) (hok : CacheOK f holds s)
    (h : call f holds s oid args = some (s', v, hit)) : v = f oid args := by
  cases hit
  · obtain ⟨addr, _, hc⟩ := call_spec f holds s s' oid args v false h
    rcases hc with ⟨e, _, _, _, hf⟩ | ⟨_, _, hv, _⟩
    · simp at hf
    · exact hv
  · obtain ⟨e, hm, ho, ha, hv⟩ := hit_same_object f holds s s' oid args v hok h
    rw [hv, (hok.1 e hm).1, ho, ha]

theorem call_ok (s s' : MState) (oid args v : Nat) (hit : Bool) (hok : CacheOK f holds s)
    (h : call f holds s oid args = some (s', v, hit)) : CacheOK f holds s' := by
  obtain ⟨addr, _, hc⟩ := call_spec f holds s s' oid args v hit h
  obtain ⟨h1, h2, h3⟩ := hok
  obtain ⟨r1, r2, r3, r4⟩ := refFor_spec s oid addr h2 h3
  rcases hc with ⟨e, he, hs, _, _⟩ | ⟨_, hs, _, _⟩
  · have hm := List.mem_of_find?_eq_some he
    have hsub : ∀ x ∈ s'.cache, x ∈ s.cache := by
      intro x hx
      rw [hs] at hx
      simp only [List.mem_cons, List.mem_filter] at hx
      rcases hx with rfl | hx
      · exact hm
      · exact hx.1
    refine ⟨fun x hx => h1 x (hsub x hx),
      fun x hx y hy => h2 x (hsub x hx) y (hsub y hy), ?_⟩
    intro x hx
    have := r3 x (hsub x hx)
    rw [hs]
    exact this
  · have hsub : ∀ x ∈ s'.cache,
        x = (⟨(refFor s oid addr).1, args, f oid args, holds oid args⟩ : Entry) ∨ x ∈ s.cache := by
      intro x hx
      rw [hs] at hx
      have := List.mem_of_mem_take hx
      simpa using this
    refine ⟨?_, ?_, ?_⟩
    · intro x hx
      rcases hsub x hx with rfl | hx
      · simp [r1]
      · exact h1 x hx
    · intro x hx y hy hr
      rcases hsub x hx with rfl | hx <;> rcases hsub y hy with rfl | hy
      · rfl
      · simp only at hr ⊢
        rw [r1]
        exact (r2 y hy hr.symm).symm
      · simp only at hr ⊢
        rw [r1]
        exact r2 x hx hr
      · exact h2 x hx y hy hr
    · intro x hx
      rw [hs]
      rcases hsub x hx with rfl | hx
      · exact r4
      · exact r3 x hx

theorem step_ok (s : MState) (op : Op) (hok : CacheOK f holds s) :
    CacheOK f holds (step f holds s op).1 := by
  cases op with
  | new oid addr => exact hok
  | drop oid => exact hok
  | call oid args =>
    simp only [step]
    split
    · rename_i s' v h hc
      exact call_ok f holds s s' oid args v h hok hc
    · exact hok

/-- what a correct answer to an operation is -/
def okOut (op : Op) (o : Option (Nat × Bool)) : Prop :=
  match op, o with
  | .call oid args, some (v, _) => v = f oid args
  | _, _ => True

theorem step_okOut (s : MState) (op : Op) (hok : CacheOK f holds s) :
    okOut f op (step f holds s op).2 := by
  cases op with
  | new oid addr => simp [okOut]
  | drop oid => simp [okOut]
  | call oid args =>
    simp only [step]
    split
    · rename_i s' v h hc
      exact call_transparent f holds s s' oid args v h hok hc
    · simp [okOut]

theorem runOps_cons (s : MState) (op : Op) (ops : List Op) :
    runOps f holds s (op :: ops) =
      ((runOps f holds (step f holds s op).1 ops).1,
       (step f holds s op).2 :: (runOps f holds (step f holds s op).1 ops).2) := by
  simp [runOps]

theorem memo_transparent_gen (ops : List Op) : ∀ (s : MState), CacheOK f holds s →
    (runOps f holds s ops).2.length = ops.length ∧
    ∀ p ∈ List.zip ops (runOps f holds s ops).2, okOut f p.1 p.2 := by
  induction ops with
  | nil => intro s _; simp [runOps]
  | cons op ops ih =>
    intro s hok
    rw [runOps_cons]
    obtain ⟨l, z⟩ := ih _ (step_ok f holds s op hok)
    refine ⟨by simp [l], ?_⟩
    intro p hp
    simp only [List.zip_cons_cons, List.mem_cons] at hp
    rcases hp with rfl | hp
    · exact step_okOut f holds s op hok
    · exact z p hp

/-- **C20 (transparent, every history)**: for every interleaving of creations, calls with any
arguments and drops — including more live objects than the cache size and objects created at
the address of a destroyed one — every call returns the uncached value of the object called. -/
theorem memo_transparent (cap : Nat) (ops : List Op) :
    (runOps f holds (MState.init cap) ops).2.length = ops.length ∧
    ∀ p ∈ List.zip ops (runOps f holds (MState.init cap) ops).2, okOut f p.1 p.2 :=
  memo_transparent_gen f holds ops _ (init_ok f holds cap)

omit f holds in
theorem filter_ne_length {α} [BEq α] [LawfulBEq α] (e : α) (l : List α) (h : e ∈ l) :
    (l.filter (fun x => !(x == e))).length + 1 ≤ l.length := by
  induction l with
  | nil => simp at h
  | cons a l ih =>
    by_cases hae : a = e
    · subst hae
      simp only [List.filter_cons, beq_self_eq_true, Bool.not_true, List.length_cons]
      have := List.length_filter_le (fun x => !(x == a)) l
      simp
      omega
    · have h' : e ∈ l := by
        rcases List.mem_cons.1 h with h | h
        · exact absurd h.symm hae
        · exact h
      have := ih h'
      simp only [List.filter_cons, List.length_cons]
      split <;> simp <;> omega

theorem step_bounded (s : MState) (op : Op) (hb : s.cache.length ≤ s.cap) :
    (step f holds s op).1.cache.length ≤ (step f holds s op).1.cap ∧
    (step f holds s op).1.cap = s.cap := by
  cases op with
  | new oid addr => exact ⟨hb, rfl⟩
  | drop oid => exact ⟨hb, rfl⟩
  | call oid args =>
    simp only [step]
    split
    · rename_i s' v h hc
      obtain ⟨addr, _, hc⟩ := call_spec f holds s s' oid args v h hc
      rcases hc with ⟨e, he, hs, _, _⟩ | ⟨_, hs, _, _⟩
      · have hm := List.mem_of_find?_eq_some he
        have := filter_ne_length e s.cache hm
        subst hs
        simp only [List.length_cons]
        exact ⟨by omega, trivial⟩
      · subst hs
        simp only [List.length_take]
        exact ⟨by omega, trivial⟩
    · exact ⟨hb, rfl⟩

theorem cache_bounded_gen (ops : List Op) : ∀ (s : MState), s.cache.length ≤ s.cap →
    (runOps f holds s ops).1.cache.length ≤ s.cap := by
  induction ops with
  | nil => intro s h; simpa [runOps] using h
  | cons op ops ih =>
    intro s hb
    rw [runOps_cons]
    obtain ⟨b, c⟩ := step_bounded f holds s op hb
    have := ih _ b
    rw [c] at this
    exact this

/-- the cache never exceeds its capacity -/
theorem cache_bounded (cap : Nat) (ops : List Op) :
    (runOps f holds (MState.init cap) ops).1.cache.length ≤ cap :=
  cache_bounded_gen f holds ops (MState.init cap) (by simp [MState.init])

theorem runOps_ok (ops : List Op) : ∀ (s : MState), CacheOK f holds s →
    CacheOK f holds (runOps f holds s ops).1 := by
  induction ops with
  | nil => intro s h; simpa [runOps] using h
  | cons op ops ih =>
    intro s hok
    rw [runOps_cons]
    exact ih _ (step_ok f holds s op hok)

/-- **C20 (no leak)**: if cached values hold no reference to their object, an object the user
no longer holds is dead after any history — cache entries do not keep it alive. -/
theorem no_leak (hh : ∀ o a, holds o a = []) (cap : Nat) (ops : List Op) (oid : Nat)
    (hd : ((runOps f holds (MState.init cap) ops).1.held.any (fun p => p.1 == oid)) = false) :
    alive (runOps f holds (MState.init cap) ops).1 oid = false := by
  have hok := runOps_ok f holds ops _ (init_ok f holds cap)
  unfold alive
  rw [hd]
  simp only [Bool.false_or, List.any_eq_false]
  intro e he
  rw [(hok.1 e he).2, hh]
  simp

/-- defect D14 (known finding): a cached value that stores its creator keeps it alive -/
theorem leak_witness :
    alive (runOps (fun o a => o + a) (fun o _ => [o]) (MState.init 128)
      [.new 0 100, .call 0 1, .drop 0]).1 0 = true := by
  decide

/-- non-vacuity: an object created at the address of a destroyed one gets a miss and its own value -/
example :
    (runOps (fun o a => 10 * o + a) (fun _ _ => []) (MState.init 2)
      [.new 0 100, .call 0 1, .call 0 1, .drop 0, .new 1 100, .call 1 1]).2
      = [none, some (1, false), some (1, true), none, none, some (11, false)] := by
  decide

end G.C20
