import GModel.Pipeline
import GProofs.C02
import GProofs.C03
import GProofs.C07
/-!
# C07 (end to end) — the per-atom analysis chain depends only on geometry

`Pipeline.run` composes the models of C02 (assignment), C03 (events) and C04 (jumps).  About the
composed function:

* `run_rot`         rotating the lattice vectors (`M ↦ M·R`, `R` orthogonal) leaves the whole result unchanged
* `run_translate`   translating atoms and sites together leaves the whole result unchanged
* `jumpsOfHistory_relabel`, `eventsAlgo_relabel`   renaming site indices by an injective map that keeps "no site"
                    renames events and jumps and changes nothing else — for EVERY `minimal_residence`
* `run_perm_sites`  listing the sites in another order (site `k` at position `σ k`) renames states, inner
                    states, events and jumps by `σ` and changes nothing else, when the spheres do not overlap on
                    the trajectory (which the automatic radius guarantees, C02 `auto_radius_disjoint`)
* `matrix_perm_sites`, `n_jumps_perm_sites`   … so the jump-count matrix is permuted with the sites and the number of jumps is unchanged
* `atoms_perm`      analysing the atoms in another order permutes the per-atom results
-/
namespace G.C07Pipe
open G G.Geometry G.Sites G.Events G.Jumps G.Pipeline
set_option linter.unusedSimpArgs false

/-! ### orientation and origin -/

theorem run_rot (m : M3) (R : C07.Rot) (hR : C07.Orthogonal R) (frac : ℚ) (mr : Int)
    (sites : List (V3 × ℚ)) (xs : List V3) :
    Pipeline.run (C07.M3.mulRot m R).metric frac mr sites xs = Pipeline.run m.metric frac mr sites xs := by
  rw [C07.metric_rot m R hR]

def translateSites (t : V3) (sites : List (V3 × ℚ)) : List (V3 × ℚ) := sites.map (fun p => (p.1 + t, p.2))

theorem assignFrom_translate (G : Sym3) (frac : ℚ) (t x : V3) :
    ∀ (sites : List (V3 × ℚ)) (k : Nat),
      assignFrom G frac k (translateSites t sites) (x + t) = assignFrom G frac k sites x := by
  intro sites
  induction sites with
  | nil => intro k; rfl
  | cons p rest ih =>
    intro k
    obtain ⟨s, r⟩ := p
    simp only [translateSites, List.map_cons, assignFrom, C07.within_translate]
    rw [show List.map (fun p : V3 × ℚ => (p.1 + t, p.2)) rest = translateSites t rest from rfl, ih (k + 1)]

theorem statesOf_translate (G : Sym3) (frac : ℚ) (t : V3) (sites : List (V3 × ℚ)) (xs : List V3) :
    statesOf G frac (translateSites t sites) (xs.map (· + t)) = statesOf G frac sites xs := by
  simp only [statesOf, List.map_map]
  apply List.map_congr_left
  intro x _
  exact assignFrom_translate G frac t x sites 0

/-- **C07 (origin, end to end)** -/
theorem run_translate (G : Sym3) (frac : ℚ) (mr : Int) (t : V3) (sites : List (V3 × ℚ)) (xs : List V3) :
    Pipeline.run G frac mr (translateSites t sites) (xs.map (· + t)) = Pipeline.run G frac mr sites xs := by
  simp only [Pipeline.run, statesOf_translate]

/-! ### whole-cell shifts of the atom (wrapped or unwrapped input) -/

/-- no component of `x − s` sits exactly half a cell away (NoTie) for any listed site -/
def NoTieTo (sites : List (V3 × ℚ)) (x : V3) : Prop :=
  ∀ p ∈ sites, ∀ k : ℤ, (x - p.1).x ≠ k + 1/2 ∧ (x - p.1).y ≠ k + 1/2 ∧ (x - p.1).z ≠ k + 1/2

theorem within_shift_atom (G : Sym3) (r : ℚ) (s x : V3) (n1 n2 n3 : ℤ)
    (hn : ∀ k : ℤ, (x - s).x ≠ k + 1/2 ∧ (x - s).y ≠ k + 1/2 ∧ (x - s).z ≠ k + 1/2) :
    within G r s (shiftBy x n1 n2 n3) = within G r s x := by
  unfold within pbcDistSq minImageSq
  have h : shiftBy x n1 n2 n3 - s = shiftBy (x - s) n1 n2 n3 := by
    simp only [C07.v3_sub_def, shiftBy, V3.mk.injEq]
    refine ⟨?_, ?_, ?_⟩ <;> ring
  rw [h, minImageSqCert_shift G (x - s) n1 n2 n3 hn]

theorem assignFrom_shift_atom (G : Sym3) (frac : ℚ) (x : V3) (n1 n2 n3 : ℤ) :
    ∀ (sites : List (V3 × ℚ)) (k : Nat), NoTieTo sites x →
      assignFrom G frac k sites (shiftBy x n1 n2 n3) = assignFrom G frac k sites x := by
  intro sites
  induction sites with
  | nil => intro k _; rfl
  | cons p rest ih =>
    intro k hn
    obtain ⟨s, r⟩ := p
    have h1 := within_shift_atom G (r * frac) s x n1 n2 n3 (hn (s, r) (by simp))
    simp only [assignFrom, h1]
    rw [ih (k + 1) (fun q hq => hn q (by simp [hq]))]

/-- **C07 / C01 (whole-cell shifts, end to end)**: shifting every position of the atom by its own whole lattice vector — feeding
wrapped or unwrapped coordinates — leaves states, inner states, events and jumps unchanged (away from exact half-cell ties). -/
theorem run_shift_atoms (G : Sym3) (frac : ℚ) (mr : Int) (sites : List (V3 × ℚ)) (xs : List V3) (ns : List (ℤ × ℤ × ℤ))
    (hlen : ns.length = xs.length) (hn : ∀ x ∈ xs, NoTieTo sites x) :
    Pipeline.run G frac mr sites (List.zipWith (fun x n => shiftBy x n.1 n.2.1 n.2.2) xs ns) = Pipeline.run G frac mr sites xs := by
  have hs : ∀ f : ℚ, statesOf G f sites (List.zipWith (fun x n => shiftBy x n.1 n.2.1 n.2.2) xs ns) = statesOf G f sites xs := by
    intro f
    unfold statesOf
    induction xs generalizing ns with
    | nil => simp
    | cons x xs ih =>
      cases ns with
      | nil => simp at hlen
      | cons n ns =>
        simp only [List.zipWith_cons_cons, List.map_cons]
        rw [ih ns (by simpa using hlen) (fun y hy => hn y (by simp [hy]))]
        congr 1
        exact assignFrom_shift_atom G f x n.1 n.2.1 n.2.2 sites 0 (hn x (by simp))
  simp only [Pipeline.run, hs]

/-- non-vacuity of `NoTieTo`: a quarter of a cell from the site -/
example : NoTieTo [((⟨0, 0, 0⟩ : V3), (1 : ℚ))] ⟨1/4, 0, 0⟩ := by
  intro p hp k
  simp only [List.mem_singleton] at hp
  subst hp
  simp only [C07.v3_sub_def]
  refine ⟨?_, ?_, ?_⟩
  · intro h
    have h4 : (4 : ℚ) * k = -1 := by linarith
    have : (4 * k : ℤ) = -1 := by exact_mod_cast h4
    omega
  · intro h
    have h2 : (2 : ℚ) * k = -1 := by linarith
    have : (2 * k : ℤ) = -1 := by exact_mod_cast h2
    omega
  · intro h
    have h2 : (2 : ℚ) * k = -1 := by linarith
    have : (2 * k : ℤ) = -1 := by exact_mod_cast h2
    omega

/-- every frame is assigned on its own: the history of a run that continues another is the concatenation of the two
histories (what the long-run check of C02 relies on) -/
theorem statesOf_append (G : Sym3) (frac : ℚ) (sites : List (V3 × ℚ)) (xs ys : List V3) :
    statesOf G frac sites (xs ++ ys) = statesOf G frac sites xs ++ statesOf G frac sites ys := by
  simp [statesOf]

theorem statesOf_length (G : Sym3) (frac : ℚ) (sites : List (V3 × ℚ)) (xs : List V3) :
    (statesOf G frac sites xs).length = xs.length := by simp [statesOf]

/-! ### renaming of site indices through events and jumps -/

theorem eventsSpec_relabel (f : Int → Int) (hf : Function.Injective f) :
    ∀ (s i : List Int) (t : Nat),
      eventsSpec t (s.map f) (i.map f) = (eventsSpec t s i).map (Event.relabel f) := by
  intro s
  induction s with
  | nil => intro i t; simp [eventsSpec]
  | cons a s ih =>
    intro i t
    cases s with
    | nil => cases i <;> simp [eventsSpec]
    | cons b s =>
      cases i with
      | nil => simp [eventsSpec]
      | cons x i =>
        cases i with
        | nil => simp [eventsSpec]
        | cons y i =>
          have h := ih (y :: i) (t + 1)
          simp only [List.map_cons] at h ⊢
          simp only [eventsSpec, h, List.map_append, hf.ne_iff]
          congr 1
          split <;> simp [Event.relabel]

theorem eventsAlgo_relabel (f : Int → Int) (hf : Function.Injective f) (s i : List Int) (h : s.length = i.length) :
    eventsAlgo (s.map f) (i.map f) = (eventsAlgo s i).map (Event.relabel f) := by
  rw [C03.eventsAlgo_eq_spec _ _ (by simpa using h), C03.eventsAlgo_eq_spec s i h]
  exact eventsSpec_relabel f hf s i 0

def St.relabel (f : Int → Int) (st : St) : St :=
  ⟨st.frm.map (Event.relabel f), st.cand.map (Jump.relabel f), st.out.map (Jump.relabel f)⟩

theorem step_relabel (f : Int → Int) (hf : Function.Injective f) (h1 : f (-1) = -1) (mr : Int) (st : St) (e : Event) :
    step mr (St.relabel f st) (Event.relabel f e) = St.relabel f (step mr st e) := by
  have hm1 : ∀ x, f x = -1 ↔ x = -1 := fun x => by
    constructor
    · intro h; exact hf (h.trans h1.symm)
    · intro h; rw [h, h1]
  obtain ⟨frm, cand, out⟩ := st
  obtain ⟨t, s0, s1, i0, i1⟩ := e
  cases cand with
  | none =>
    cases frm with
    | none =>
      simp only [step, blk1, blk23, St.relabel, Event.relabel, Option.map_none, hf.ne_iff, ne_eq, hm1]
      by_cases c1 : ¬s0 = -1 ∧ ¬s0 = s1
      · simp only [c1, not_false_eq_true, and_self, if_true, hf.eq_iff, hm1]
        split_ifs <;> simp [Jump.relabel, Event.relabel]
      · simp only [c1, if_false, Option.map_none, List.map]
    | some g =>
      obtain ⟨gt, g0, g1, gi0, gi1⟩ := g
      simp only [step, blk1, blk23, St.relabel, Event.relabel, Option.map_none, Option.map_some, hf.ne_iff, ne_eq, hm1]
      by_cases c1 : ¬s0 = -1 ∧ ¬s0 = s1
      · simp only [c1, not_false_eq_true, and_self, if_true, hf.eq_iff, hm1]
        split_ifs <;> simp [Jump.relabel, Event.relabel]
      · simp only [c1, if_false, hf.eq_iff, hm1]
        split_ifs <;> simp [Jump.relabel, Event.relabel]
  | some c =>
    obtain ⟨co, cd, ct0, ct1⟩ := c
    cases frm with
    | none =>
      simp only [step, blk1, blk23, St.relabel, Event.relabel, Jump.relabel, Option.map_none, Option.map_some, hf.ne_iff, ne_eq, hm1]
      by_cases c1 : ¬s0 = -1 ∧ ¬s0 = s1
      · simp only [c1, not_false_eq_true, and_self, if_true, hf.eq_iff, hm1]
        split_ifs <;> simp [Jump.relabel, Event.relabel]
      · simp only [c1, if_false]
        split_ifs <;> simp [Jump.relabel, Event.relabel]
    | some g =>
      obtain ⟨gt, g0, g1, gi0, gi1⟩ := g
      simp only [step, blk1, blk23, St.relabel, Event.relabel, Jump.relabel, Option.map_none, Option.map_some, hf.ne_iff, ne_eq, hm1]
      by_cases c1 : ¬s0 = -1 ∧ ¬s0 = s1
      · simp only [c1, not_false_eq_true, and_self, if_true, hf.eq_iff, hm1]
        split_ifs <;> simp [Jump.relabel, Event.relabel]
      · simp only [c1, if_false, hf.eq_iff, hm1]
        split_ifs <;> simp [Jump.relabel, Event.relabel]

theorem run_relabel (f : Int → Int) (hf : Function.Injective f) (h1 : f (-1) = -1) (mr : Int) :
    ∀ (es : List Event) (st : St),
      Jumps.run mr (St.relabel f st) (es.map (Event.relabel f)) = St.relabel f (Jumps.run mr st es) := by
  intro es
  induction es with
  | nil => intro st; rfl
  | cons e es ih =>
    intro st
    simp only [Jumps.run, List.map_cons, List.foldl_cons] at ih ⊢
    rw [step_relabel f hf h1, ih]

theorem jumpsOfEvents_relabel (f : Int → Int) (hf : Function.Injective f) (h1 : f (-1) = -1) (mr : Int) (es : List Event) :
    jumpsOfEvents mr (es.map (Event.relabel f)) = (jumpsOfEvents mr es).map (Jump.relabel f) := by
  unfold jumpsOfEvents
  have h := run_relabel f hf h1 mr es St.init
  have h0 : St.relabel f St.init = St.init := rfl
  rw [h0] at h
  rw [h]
  simp only [St.relabel, List.filter_map]
  congr 1
  apply List.filter_congr
  intro j _
  simp [Jump.relabel, hf.eq_iff]

/-- **C07 (labelling)**: renaming the site indices renames the jumps and changes nothing else, whatever the
`minimal_residence`. -/
theorem jumpsOfHistory_relabel (f : Int → Int) (hf : Function.Injective f) (h1 : f (-1) = -1) (mr : Int)
    (s i : List Int) (h : s.length = i.length) :
    jumpsOfHistory mr (s.map f) (i.map f) = (jumpsOfHistory mr s i).map (Jump.relabel f) := by
  unfold jumpsOfHistory
  rw [eventsAlgo_relabel f hf s i h, jumpsOfEvents_relabel f hf h1]

/-! ### another order of the site list -/

theorem siteMap_neg_one (σ : Nat → Nat) : siteMap σ (-1) = -1 := by simp [siteMap]

theorem siteMap_injective (σ : Nat → Nat) (hσ : Function.Injective σ) : Function.Injective (siteMap σ) := by
  intro a b h
  unfold siteMap at h
  split_ifs at h with ha hb hb
  · exact h
  · omega
  · omega
  · have := hσ (Int.ofNat.inj h)
    omega

/-- `sites'` lists the same spheres as `sites`, the one at position `k` now at position `σ k` -/
structure Reorder (σ : Nat → Nat) (sites sites' : List (V3 × ℚ)) : Prop where
  fwd : ∀ k p, sites[k]? = some p → sites'[σ k]? = some p
  bwd : ∀ k' p, sites'[k']? = some p → ∃ k, σ k = k' ∧ sites[k]? = some p

/-- at most one sphere (scaled by `frac`) contains `x` -/
def AtMostOne (G : Sym3) (frac : ℚ) (sites : List (V3 × ℚ)) (x : V3) : Prop :=
  ∀ (j k : Nat) (p q : V3 × ℚ), sites[j]? = some p → sites[k]? = some q →
    within G (p.2 * frac) p.1 x = true → within G (q.2 * frac) q.1 x = true → j = k

theorem assign_reorder (G : Sym3) (frac : ℚ) (σ : Nat → Nat) (_hσ : Function.Injective σ)
    (sites sites' : List (V3 × ℚ)) (hr : Reorder σ sites sites') (x : V3) (h1 : AtMostOne G frac sites x) :
    assign G frac sites' x = siteMap σ (assign G frac sites x) := by
  rcases C02.assignFrom_range G frac sites 0 x with hnone | ⟨hlo, _⟩
  · -- no site contains x: the same in any order
    have hnone' : assign G frac sites x = -1 := hnone
    rw [hnone', siteMap_neg_one]
    rw [C02.assign_none_iff] at hnone' ⊢
    intro p hp
    obtain ⟨k', hk'⟩ := List.getElem?_of_mem hp
    obtain ⟨k, _, hk⟩ := hr.bwd k' p hk'
    exact hnone' p (List.mem_of_getElem? hk)
  · obtain ⟨k, hk⟩ : ∃ k : Nat, assign G frac sites x = (k : Int) := by
      refine ⟨(assign G frac sites x).toNat, ?_⟩
      have : (0 : Int) ≤ assign G frac sites x := by
        have h0 : (0 : Int) ≤ assignFrom G frac 0 sites x := by simpa using hlo
        exact h0
      omega
    obtain ⟨s, r, hget, hin, _⟩ := C02.assign_sound G frac sites x k hk
    rw [hk]
    have hsm : siteMap σ (k : Int) = (σ k : Int) := by simp [siteMap]
    rw [hsm]
    apply C07.assign_perm_sites G frac sites' x (σ k) (s, r) (hr.fwd k (s, r) hget) hin
    intro j' q hj' hq
    obtain ⟨j, hjσ, hj⟩ := hr.bwd j' q hj'
    have := h1 j k q (s, r) hj hget hq hin
    rw [← hjσ, this]

theorem statesOf_reorder (G : Sym3) (frac : ℚ) (σ : Nat → Nat) (hσ : Function.Injective σ)
    (sites sites' : List (V3 × ℚ)) (hr : Reorder σ sites sites') (xs : List V3)
    (h1 : ∀ x ∈ xs, AtMostOne G frac sites x) :
    statesOf G frac sites' xs = (statesOf G frac sites xs).map (siteMap σ) := by
  simp only [statesOf, List.map_map]
  apply List.map_congr_left
  intro x hx
  exact assign_reorder G frac σ hσ sites sites' hr x (h1 x hx)

/-- **C07 (site order, end to end)**: with non-overlapping spheres on the trajectory, listing the sites in
another order renames states, inner states, events and jumps accordingly and changes nothing else. -/
theorem run_perm_sites (G : Sym3) (frac : ℚ) (mr : Int) (σ : Nat → Nat) (hσ : Function.Injective σ)
    (sites sites' : List (V3 × ℚ)) (hr : Reorder σ sites sites') (xs : List V3)
    (ho : ∀ x ∈ xs, AtMostOne G 1 sites x) (hi : ∀ x ∈ xs, AtMostOne G frac sites x) :
    Pipeline.run G frac mr sites' xs = Result.relabel (siteMap σ) (Pipeline.run G frac mr sites xs) := by
  have hinj := siteMap_injective σ hσ
  have hlen : (statesOf G 1 sites xs).length = (statesOf G frac sites xs).length := by simp [statesOf]
  simp only [Pipeline.run, Result.relabel, statesOf_reorder G 1 σ hσ sites sites' hr xs ho,
    statesOf_reorder G frac σ hσ sites sites' hr xs hi,
    eventsAlgo_relabel _ hinj _ _ hlen, jumpsOfHistory_relabel _ hinj (siteMap_neg_one σ) mr _ _ hlen]

/-- origin / destination pairs of an atom's jumps: the rows the jump-count matrix is built from -/
def jumpPairs (r : Result) : List Counts.Pair := r.jumps.map (fun j => (j.o, j.d))

/-- **C07 (site order, count matrix)**: entry `(σ i, σ j)` of the jump-count matrix after reordering the sites is entry `(i, j)`
before — the matrix is permuted with the sites (rows and columns), nothing else changes. -/
theorem matrix_perm_sites (G : Sym3) (frac : ℚ) (mr : Int) (σ : Nat → Nat) (hσ : Function.Injective σ)
    (sites sites' : List (V3 × ℚ)) (hr : Reorder σ sites sites') (xs : List V3)
    (ho : ∀ x ∈ xs, AtMostOne G 1 sites x) (hi : ∀ x ∈ xs, AtMostOne G frac sites x) (i j : Int) :
    Counts.countPair (jumpPairs (Pipeline.run G frac mr sites' xs)) (siteMap σ i, siteMap σ j)
      = Counts.countPair (jumpPairs (Pipeline.run G frac mr sites xs)) (i, j) := by
  rw [run_perm_sites G frac mr σ hσ sites sites' hr xs ho hi]
  have h : jumpPairs (Result.relabel (siteMap σ) (Pipeline.run G frac mr sites xs))
      = (jumpPairs (Pipeline.run G frac mr sites xs)).map (fun p => (siteMap σ p.1, siteMap σ p.2)) := by
    simp [jumpPairs, Result.relabel, Jump.relabel, List.map_map, Function.comp_def]
  rw [h]
  exact C07.countPair_relabel _ (siteMap σ) (siteMap_injective σ hσ) i j

/-- … and the number of jumps does not change at all (orientation, origin, site order) -/
theorem n_jumps_perm_sites (G : Sym3) (frac : ℚ) (mr : Int) (σ : Nat → Nat) (hσ : Function.Injective σ)
    (sites sites' : List (V3 × ℚ)) (hr : Reorder σ sites sites') (xs : List V3)
    (ho : ∀ x ∈ xs, AtMostOne G 1 sites x) (hi : ∀ x ∈ xs, AtMostOne G frac sites x) :
    (Pipeline.run G frac mr sites' xs).jumps.length = (Pipeline.run G frac mr sites xs).jumps.length := by
  rw [run_perm_sites G frac mr σ hσ sites sites' hr xs ho hi]
  simp [Result.relabel]

/-- **C07 (atom order)**: the atoms are analysed independently -/
theorem atoms_perm (G : Sym3) (frac : ℚ) (mr : Int) (sites : List (V3 × ℚ)) (atoms atoms' : List (List V3))
    (h : atoms'.Perm atoms) : (atoms'.map (Pipeline.run G frac mr sites)).Perm (atoms.map (Pipeline.run G frac mr sites)) :=
  h.map _

/-- non-vacuity: two sites swapped in a cubic cell of edge 4; the atom hops 0 → (void) → 1 -/
example :
    let G : Sym3 := (⟨⟨4, 0, 0⟩, ⟨0, 4, 0⟩, ⟨0, 0, 4⟩⟩ : M3).metric
    let a : V3 × ℚ := (⟨0, 0, 0⟩, 1)
    let b : V3 × ℚ := (⟨1/2, 0, 0⟩, 1)
    let xs : List V3 := [⟨0, 0, 0⟩, ⟨1/4, 0, 0⟩, ⟨1/2, 0, 0⟩]
    (Pipeline.run G (1/2) 0 [a, b] xs).jumps = [⟨0, 1, 0, 2⟩] ∧ (Pipeline.run G (1/2) 0 [b, a] xs).jumps = [⟨1, 0, 0, 2⟩] := by
  decide +kernel

end G.C07Pipe
