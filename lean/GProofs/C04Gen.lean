import GGen.JumpStep
import GModel.Jumps
/-!
# C04 — the jump state machine REGENERATED from the source refines the hand-written model

`lean/GGen/JumpStep.lean` is rewritten on every check run by `harness/translate.py` from the body
of the `for _, event in events.iterrows()` loop of `_generic_transitions_to_jumps`
(src/gemdat/jumps.py), statement by statement (`G.Gen.jumpStep`).  The theorems below show that
this generated step function and the hand-written `G.Jumps.step` (about which `GProofs/C04.lean`,
`C04Strict.lean` and `C19.lean` prove the property clauses) compute the same thing — so those
theorems are about what the code says NOW; a change of the loop body that alters its behaviour
breaks `jumpStep_refines`.
-/
namespace G.C04Gen
open G.Gen G.Events G.Jumps

/-- the Series the loop sees for a model event (after `events['stop time'] = events['time'] + 1`) -/
def rowOf (atom : Int) (e : Event) : Row := ⟨atom, e.s0, e.s1, e.i0, e.i1, (e.t : Int), (e.t : Int) + 1⟩

/-- the jump a (possibly rewritten) row denotes in the output table -/
def toJump (r : Row) : Jump := ⟨r.start_site, r.destination_site, r.start_time.toNat, r.stop_time.toNat⟩

def NonNeg (r : Row) : Prop := 0 ≤ r.start_time ∧ 0 ≤ r.stop_time

/-- **C04 (generated = model), one iteration**: started in related states, the generated loop body
and the model step end in related states. -/
theorem jumpStep_refines (mr : Int) (atom : Int) (frm : Option Event) (candR : Option Row) (outR : List Row) (e : Event)
    (hc : ∀ r, candR = some r → NonNeg r) :
    let g := jumpStep mr (frm.map (rowOf atom)) candR outR (rowOf atom e)
    let m := step mr ⟨frm, candR.map toJump, outR.map toJump⟩ e
    g.1 = m.frm.map (rowOf atom) ∧ g.2.1.map toJump = m.cand ∧ g.2.2.map toJump = m.out ∧
    (∀ r, g.2.1 = some r → NonNeg r) := by
  intro g m
  rcases e with ⟨t, s0, s1, i0, i1⟩
  have hsym : (s1 = s0) ↔ (s0 = s1) := eq_comm
  rcases frm with _ | ⟨ft, fs0, fs1, fi0, fi1⟩ <;> rcases candR with _ | c
  -- unfold both step functions (the `do` block of the generated one reduces to nested `if`/`match`)
  all_goals
    try (have hn : NonNeg c := hc c rfl
         have h0 : ((c.start_time.toNat : Nat) : Int) = c.start_time := Int.toNat_of_nonneg hn.1)
    simp only [g, m, jumpStep, step, blk1, blk23, Id.run, pure, rowOf, toJump, Option.map_some,
      Option.map_none, ne_eq, *]
  -- the decidable conditions of blocks 2 and 3 that only mention the event …
  all_goals
    by_cases h1 : s0 = -1 <;> by_cases h2 : s0 = s1 <;> by_cases h3 : i1 = -1
  -- … those that mention `fromevent` …
  all_goals
    try (by_cases h4 : s1 = fs0 <;> by_cases h5 : s1 = fs1)
  -- … those of block 1 (they mention `candidate_jump`)
  all_goals
    try (by_cases h6 : (t : Int) - c.start_time ≥ mr <;> by_cases h7 : c.destination_site = s1)
  all_goals
    simp only [*, not_true_eq_false, not_false_eq_true, if_true, if_false,
      and_true, true_and, and_false, false_and]
  all_goals
    simp_all [NonNeg, toJump, rowOf]
  all_goals
    omega

/-- the generated loop over the rows of one atom -/
def runGen (mr : Int) (atom : Int) : Option Row × Option Row × List Row → List Event → Option Row × Option Row × List Row
  | s, [] => s
  | s, e :: es => runGen mr atom (jumpStep mr s.1 s.2.1 s.2.2 (rowOf atom e)) es

/-- the whole-run refinement, generalised over related start states -/
theorem runGen_refines_aux (mr : Int) (atom : Int) (es : List Event) :
    ∀ (frm : Option Event) (candR : Option Row) (outR : List Row),
      (∀ r, candR = some r → NonNeg r) →
      (runGen mr atom (frm.map (rowOf atom), candR, outR) es).2.2.map toJump
        = (run mr ⟨frm, candR.map toJump, outR.map toJump⟩ es).out := by
  induction es with
  | nil => intro frm candR outR _; rfl
  | cons e es ih =>
    intro frm candR outR hc
    obtain ⟨h1, h2, h3, h4⟩ := jumpStep_refines mr atom frm candR outR e hc
    have hrun : run mr ⟨frm, candR.map toJump, outR.map toJump⟩ (e :: es)
        = run mr (step mr ⟨frm, candR.map toJump, outR.map toJump⟩ e) es := rfl
    have hgen : runGen mr atom (frm.map (rowOf atom), candR, outR) (e :: es)
        = runGen mr atom (jumpStep mr (frm.map (rowOf atom)) candR outR (rowOf atom e)) es := rfl
    rw [hrun, hgen]
    generalize jumpStep mr (frm.map (rowOf atom)) candR outR (rowOf atom e) = g at h1 h2 h3 h4 ⊢
    generalize step mr ⟨frm, candR.map toJump, outR.map toJump⟩ e = m at h1 h2 h3 h4 ⊢
    obtain ⟨g1, g2, g3⟩ := g
    obtain ⟨mf, mc, mo⟩ := m
    simp only at h1 h2 h3 h4
    subst h1 h2 h3
    exact ih mf g2 g3 h4

/-- **C04 (generated = model), whole run**: the jump table the generated code builds for an atom is
the model's jump table. -/
theorem runGen_refines (mr : Int) (atom : Int) (es : List Event) :
    (runGen mr atom (none, none, []) es).2.2.map toJump = (run mr St.init es).out := by
  simpa [St.init] using runGen_refines_aux mr atom es none none [] (by intro r h; cases h)

/-- non-vacuity: the generated code on a concrete event list -/
example :
    (runGen 0 7 (none, none, []) (eventsAlgo [0, -1, 1, 1, -1, 2] [0, -1, 1, 1, -1, 2])).2.2.map toJump
      = [⟨0, 1, 0, 2⟩, ⟨1, 2, 3, 5⟩] := by
  decide

end G.C04Gen
