import GModel.Labels
import Mathlib.Tactic.Linarith
import Mathlib.Data.List.Induction
/-!
# C10 (continued) — the scan over the supplied peaks returns the cheapest percolating path over ALL peaks
-/
namespace G.C10Peak
open G G.Labels

/-! ## helper lemmas: the scan, one peak at a time -/

theorem bestPeak_nil : bestPeak [] = none := rfl

/-- scanning one more peak at the end = one more `bestStep` -/
theorem bestPeak_concat (costs : List (Option ℚ)) (x : Option ℚ) :
    bestPeak (costs ++ [x]) = bestStep (bestPeak costs) (costs.length, x) := by
  unfold bestPeak bestPeakFrom
  rw [List.length_append, List.length_singleton, List.range_succ,
    List.zip_append (by simp), List.foldl_append]
  rfl

/-- everything the four theorems below state, as one invariant of the scan -/
def Inv (costs : List (Option ℚ)) (r : Option (Nat × ℚ)) : Prop :=
  match r with
  | none => ∀ c ∈ costs, c = none
  | some (k, c) =>
    k < costs.length ∧ costs[k]? = some (some c) ∧
      (∀ (j : Nat) (d : ℚ), costs[j]? = some (some d) → c ≤ d) ∧
      (∀ j : Nat, costs[j]? = some (some c) → k ≤ j)

theorem inv_none (costs : List (Option ℚ)) : Inv costs none ↔ ∀ c ∈ costs, c = none := Iff.rfl

theorem inv_some (costs : List (Option ℚ)) (k : Nat) (c : ℚ) : Inv costs (some (k, c)) ↔
    (k < costs.length ∧ costs[k]? = some (some c) ∧
      (∀ (j : Nat) (d : ℚ), costs[j]? = some (some d) → c ≤ d) ∧
      (∀ j : Nat, costs[j]? = some (some c) → k ≤ j)) := Iff.rfl

theorem getElem?_concat_cases (costs : List (Option ℚ)) (x y : Option ℚ) (j : Nat)
    (h : (costs ++ [x])[j]? = some y) : costs[j]? = some y ∨ (j = costs.length ∧ x = y) := by
  by_cases hj : j < costs.length
  · left
    rwa [List.getElem?_append_left hj] at h
  · right
    have hj' : costs.length ≤ j := by omega
    rw [List.getElem?_append_right hj'] at h
    have h0 : j - costs.length = 0 := by
      by_cases h0 : j - costs.length = 0
      · exact h0
      · obtain ⟨m, hm⟩ := Nat.exists_eq_succ_of_ne_zero h0
        rw [hm] at h
        simp at h
    rw [h0] at h
    simp only [List.getElem?_cons_zero, Option.some.injEq] at h
    exact ⟨by omega, h⟩

theorem inv_step (costs : List (Option ℚ)) (x : Option ℚ) (r : Option (Nat × ℚ)) (h : Inv costs r) :
    Inv (costs ++ [x]) (bestStep r (costs.length, x)) := by
  cases x with
  | none =>
    -- nothing changes
    have hs : bestStep r (costs.length, none) = r := rfl
    rw [hs]
    cases r with
    | none =>
      rw [inv_none] at h ⊢
      intro c hc
      rcases List.mem_append.1 hc with hc | hc
      · exact h c hc
      · simpa using hc
    | some kc =>
      obtain ⟨k, c⟩ := kc
      rw [inv_some] at h ⊢
      obtain ⟨h1, h2, h3, h4⟩ := h
      refine ⟨by simp; omega, ?_, ?_, ?_⟩
      · rw [List.getElem?_append_left h1]; exact h2
      · intro j d hj
        rcases getElem?_concat_cases costs none (some d) j hj with hj | ⟨_, hj⟩
        · exact h3 j d hj
        · cases hj
      · intro j hj
        rcases getElem?_concat_cases costs none (some c) j hj with hj | ⟨_, hj⟩
        · exact h4 j hj
        · cases hj
  | some x =>
    cases r with
    | none =>
      have hs : bestStep none (costs.length, some x) = some (costs.length, x) := rfl
      rw [hs, inv_some]
      rw [inv_none] at h
      have hnone : ∀ (j : Nat) (d : ℚ), costs[j]? = some (some d) → False := by
        intro j d hj
        have := h (some d) (List.mem_of_getElem? hj)
        cases this
      refine ⟨by simp, by simp, ?_, ?_⟩
      · intro j d hj
        rcases getElem?_concat_cases costs (some x) (some d) j hj with hj | ⟨_, hj⟩
        · exact (hnone j d hj).elim
        · cases hj; exact le_refl _
      · intro j hj
        rcases getElem?_concat_cases costs (some x) (some x) j hj with hj | ⟨hj, _⟩
        · exact (hnone j x hj).elim
        · omega
    | some kc =>
      obtain ⟨k, b⟩ := kc
      rw [inv_some] at h
      obtain ⟨h1, h2, h3, h4⟩ := h
      by_cases hlt : x < b
      · have hs : bestStep (some (k, b)) (costs.length, some x) = some (costs.length, x) := by
          simp [bestStep, hlt]
        rw [hs, inv_some]
        refine ⟨by simp, by simp, ?_, ?_⟩
        · intro j d hj
          rcases getElem?_concat_cases costs (some x) (some d) j hj with hj | ⟨_, hj⟩
          · exact le_trans (le_of_lt hlt) (h3 j d hj)
          · cases hj; exact le_refl _
        · intro j hj
          rcases getElem?_concat_cases costs (some x) (some x) j hj with hj | ⟨hj, _⟩
          · exact absurd (h3 j x hj) (not_le.2 hlt)
          · omega
      · have hs : bestStep (some (k, b)) (costs.length, some x) = some (k, b) := by
          simp [bestStep, hlt]
        rw [hs, inv_some]
        refine ⟨by simp; omega, ?_, ?_, ?_⟩
        · rw [List.getElem?_append_left h1]; exact h2
        · intro j d hj
          rcases getElem?_concat_cases costs (some x) (some d) j hj with hj | ⟨_, hj⟩
          · exact h3 j d hj
          · cases hj; exact not_lt.1 hlt
        · intro j hj
          rcases getElem?_concat_cases costs (some x) (some b) j hj with hj | ⟨hj, _⟩
          · exact h4 j hj
          · omega

theorem bestPeak_inv (costs : List (Option ℚ)) : Inv costs (bestPeak costs) := by
  induction costs using List.reverseRecOn with
  | nil => rw [bestPeak_nil, inv_none]; intro c hc; simp at hc
  | append_singleton xs x ih =>
    rw [bestPeak_concat]
    exact inv_step xs x _ ih

/-- nothing is returned exactly when no peak percolates -/
theorem bestPeak_none_iff (costs : List (Option ℚ)) :
    bestPeak costs = none ↔ ∀ c ∈ costs, c = none := by
  have h := bestPeak_inv costs
  constructor
  · intro e
    rw [e, inv_none] at h
    exact h
  · intro hall
    cases hb : bestPeak costs with
    | none => rfl
    | some kc =>
      obtain ⟨k, c⟩ := kc
      rw [hb, inv_some] at h
      have := hall (some c) (List.mem_of_getElem? h.2.1)
      cases this

/-- the returned entry is one of the supplied peaks with its own cost -/
theorem bestPeak_mem (costs : List (Option ℚ)) (k : Nat) (c : ℚ) (h : bestPeak costs = some (k, c)) :
    k < costs.length ∧ costs[k]? = some (some c) := by
  have hi := bestPeak_inv costs
  rw [h, inv_some] at hi
  exact ⟨hi.1, hi.2.1⟩

/-- … and no supplied peak is cheaper, wherever it stands in the list -/
theorem bestPeak_min (costs : List (Option ℚ)) (k : Nat) (c : ℚ) (h : bestPeak costs = some (k, c))
    (j : Nat) (d : ℚ) (hj : costs[j]? = some (some d)) : c ≤ d := by
  have hi := bestPeak_inv costs
  rw [h, inv_some] at hi
  exact hi.2.2.1 j d hj

/-- ties: the first peak of minimal cost is kept -/
theorem bestPeak_first (costs : List (Option ℚ)) (k : Nat) (c : ℚ) (h : bestPeak costs = some (k, c))
    (j : Nat) (hj : costs[j]? = some (some c)) : k ≤ j := by
  have hi := bestPeak_inv costs
  rw [h, inv_some] at hi
  exact hi.2.2.2 j hj

/-- a peak without a percolating path anywhere in the list does not end the scan -/
example : bestPeak [some 5, none, some 3, none, some 4] = some (2, 3) := by decide +kernel
example : bestPeak [none, some 2] = some (1, 2) := by decide +kernel

end G.C10Peak
