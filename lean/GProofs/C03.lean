import GModel.Events
/-!
# C03 — transition events are a faithful, complete change-log of the site states

Property theorems (statements are fixed; helper lemmas live above them):

* `eventsAlgo_eq_spec`   the table the code builds (change frames of both histories,
                         `np.union1d`, fancy-index rows) is the lock-step specification
* `mem_eventsSpec_iff`   a row exists exactly for the frames at which the site or the
                         inner site changes, and carries (t, s_t, s_{t+1}, i_t, i_{t+1})
* `eventsSpec_times_strict`  at most one row per frame, rows in time order
* `replay_reconstructs`  replaying the rows from the first-frame state rebuilds both histories
* `ffillAlgo_eq_spec`, `bfillAlgo_eq_spec`, `ffillSpec_get`, `bfillSpec_get`
                         previous / next site views
* `Roll.*`               the original `np.roll` formulation: right when a change exists,
                         `IndexError` witness otherwise (history of defect D4)
-/
namespace G.C03
open G.Events

/-! ## the event table -/

theorem changes_ge : ∀ (xs : List Int) (t k : Nat), k ∈ changes t xs → t ≤ k := by
  intro xs
  induction xs with
  | nil => intro t k h; simp [changes] at h
  | cons a r ih =>
    intro t k h
    cases r with
    | nil => simp [changes] at h
    | cons b rest =>
      simp only [changes, List.mem_append] at h
      rcases h with h | h
      · split at h
        · simp at h; omega
        · simp at h
      · have := ih (t + 1) k h
        omega

theorem ins_of_lt (k : Nat) (l : List Nat) (h : ∀ x ∈ l, k < x) : ins k l = k :: l := by
  cases l with
  | nil => rfl
  | cons x xs =>
    have : k < x := h x (by simp)
    simp [ins, this]

theorem ins_head (k : Nat) (l : List Nat) : ins k (k :: l) = k :: l := by
  simp [ins]

theorem mem_ins (k x : Nat) (l : List Nat) : x ∈ ins k l ↔ x = k ∨ x ∈ l := by
  induction l with
  | nil => simp [ins]
  | cons y ys ih =>
    unfold ins
    split
    · simp
    · split
      · subst_vars; simp
      · simp only [List.mem_cons, ih]; exact or_left_comm

theorem mem_union (x : Nat) (xs ys : List Nat) : x ∈ union xs ys ↔ x ∈ xs ∨ x ∈ ys := by
  induction xs with
  | nil => simp [union]
  | cons a as ih =>
    have : union (a :: as) ys = ins a (union as ys) := rfl
    rw [this, mem_ins, ih]; simp [or_assoc]

theorem union_cons_left (a : Nat) (as ys : List Nat) : union (a :: as) ys = ins a (union as ys) := rfl

theorem union_cons_right (t : Nat) (C D : List Nat) (hC : ∀ x ∈ C, t < x) :
    union C (t :: D) = t :: union C D := by
  induction C with
  | nil => rfl
  | cons c cs ih =>
    have h1 : union (c :: cs) (t :: D) = ins c (union cs (t :: D)) := rfl
    have h2 : union (c :: cs) D = ins c (union cs D) := rfl
    have hc : t < c := hC c (by simp)
    rw [h1, h2, ih (fun x hx => hC x (by simp [hx]))]
    have h3 : ¬ c < t := by omega
    have h4 : ¬ c = t := by omega
    simp [ins, h3, h4]

theorem events_gen : ∀ (s i ps pi : List Int), s.length = i.length → ps.length = pi.length →
    (union (changes ps.length s) (changes ps.length i)).map (rowAt (ps ++ s) (pi ++ i))
      = eventsSpec ps.length s i := by
  intro s
  induction s with
  | nil =>
    intro i ps pi h _
    cases i with
    | nil => simp [changes, union, eventsSpec]
    | cons _ _ => simp at h
  | cons a r ih =>
    intro i ps pi h hp
    cases i with
    | nil => simp at h
    | cons x ir =>
      cases r with
      | nil =>
        cases ir with
        | nil => simp [changes, union, eventsSpec]
        | cons _ _ => simp at h
      | cons b rest =>
        cases ir with
        | nil => simp at h
        | cons y irest =>
          have hlen : (b :: rest).length = (y :: irest).length := by simpa using h
          have hp' : (ps ++ [a]).length = (pi ++ [x]).length := by simp [hp]
          have IH := ih (y :: irest) (ps ++ [a]) (pi ++ [x]) hlen hp'
          have e1 : (ps ++ [a]).length = ps.length + 1 := by simp
          have e2 : ps ++ [a] ++ b :: rest = ps ++ a :: b :: rest := by simp
          have e3 : pi ++ [x] ++ y :: irest = pi ++ x :: y :: irest := by simp
          rw [e1, e2, e3] at IH
          have hC : ∀ k ∈ changes (ps.length + 1) (b :: rest), ps.length < k :=
            fun k hk => changes_ge _ _ _ hk
          have hD : ∀ k ∈ changes (ps.length + 1) (y :: irest), ps.length < k :=
            fun k hk => changes_ge _ _ _ hk
          have hU : ∀ k ∈ union (changes (ps.length + 1) (b :: rest)) (changes (ps.length + 1) (y :: irest)),
              ps.length < k := by
            intro k hk
            rcases (mem_union _ _ _).mp hk with hk | hk
            · exact hC k hk
            · exact hD k hk
          have hrow : rowAt (ps ++ a :: b :: rest) (pi ++ x :: y :: irest) ps.length
              = ⟨ps.length, a, b, x, y⟩ := by
            simp [rowAt, List.getD_eq_getElem?_getD, hp]
          simp only [changes, eventsSpec]
          by_cases hab : a ≠ b <;> by_cases hxy : x ≠ y
          · rw [if_pos hab, if_pos hxy, if_pos (Or.inl hab)]
            simp only [List.cons_append, List.nil_append]
            rw [union_cons_left, union_cons_right _ _ _ hC, ins_head, List.map_cons, hrow, IH]
          · rw [if_pos hab, if_neg hxy, if_pos (Or.inl hab)]
            simp only [List.cons_append, List.nil_append]
            rw [union_cons_left, ins_of_lt _ _ hU, List.map_cons, hrow, IH]
          · rw [if_neg hab, if_pos hxy, if_pos (Or.inr hxy)]
            simp only [List.cons_append, List.nil_append]
            rw [union_cons_right _ _ _ hC, List.map_cons, hrow, IH]
          · rw [if_neg hab, if_neg hxy, if_neg (by simp [hab, hxy])]
            simp only [List.nil_append]
            exact IH

/-- **C03 (table = specification)**: for histories of equal length the rows built by the
code are exactly the rows of the lock-step specification. -/
theorem eventsAlgo_eq_spec (s i : List Int) (h : s.length = i.length) :
    eventsAlgo s i = eventsSpec 0 s i := by
  have := events_gen s i [] [] h rfl
  simpa [eventsAlgo] using this

theorem eventsSpec_ge : ∀ (s i : List Int) (t : Nat) (e : Event), e ∈ eventsSpec t s i → t ≤ e.t := by
  intro s
  induction s with
  | nil => intro i t e h; simp [eventsSpec] at h
  | cons a r ih =>
    intro i t e h
    cases r with
    | nil => simp [eventsSpec] at h
    | cons b rest =>
      cases i with
      | nil => simp [eventsSpec] at h
      | cons x ir =>
        cases ir with
        | nil => simp [eventsSpec] at h
        | cons y irest =>
          simp only [eventsSpec, List.mem_append] at h
          rcases h with h | h
          · split at h
            · simp at h; subst h; simp
            · simp at h
          · have := ih (y :: irest) (t + 1) e h
            omega

theorem mem_eventsSpec_gen : ∀ (s i : List Int) (t : Nat) (e : Event), s.length = i.length →
    (e ∈ eventsSpec t s i ↔ ∃ j, j + 1 < s.length ∧
       (s.getD j (-1) ≠ s.getD (j + 1) (-1) ∨ i.getD j (-1) ≠ i.getD (j + 1) (-1)) ∧
       e = ⟨t + j, s.getD j (-1), s.getD (j + 1) (-1), i.getD j (-1), i.getD (j + 1) (-1)⟩) := by
  intro s
  induction s with
  | nil => intro i t e h; simp [eventsSpec]
  | cons a r ih =>
    intro i t e h
    cases i with
    | nil => simp at h
    | cons x ir =>
      cases r with
      | nil => simp [eventsSpec]
      | cons b rest =>
        cases ir with
        | nil => simp at h
        | cons y irest =>
          have hlen : (b :: rest).length = (y :: irest).length := by simpa using h
          have IH := ih (y :: irest) (t + 1) e hlen
          simp only [eventsSpec, List.mem_append, IH]
          constructor
          · rintro (h1 | ⟨j, hj, hc, he⟩)
            · split at h1
              · rename_i hc
                simp at h1
                exact ⟨0, by simp, by simpa using hc, by simpa using h1⟩
              · simp at h1
            · refine ⟨j + 1, by simpa using hj, by simpa using hc, ?_⟩
              rw [he]; simp; omega
          · rintro ⟨j, hj, hc, he⟩
            cases j with
            | zero =>
              left
              have hc' : a ≠ b ∨ x ≠ y := by simpa using hc
              rw [if_pos hc']
              simpa using he
            | succ j =>
              right
              refine ⟨j, by simpa using hj, by simpa using hc, ?_⟩
              rw [he]; simp; omega

/-- **C03 (exactly the changes)**: a row is in the table iff its frame `t` is a frame at
which the site or the inner site differs from the next frame, and then it carries the
states before and after. -/
theorem mem_eventsSpec_iff (s i : List Int) (h : s.length = i.length) (e : Event) :
    e ∈ eventsSpec 0 s i ↔
      (e.t + 1 < s.length ∧
       (s.getD e.t (-1) ≠ s.getD (e.t + 1) (-1) ∨ i.getD e.t (-1) ≠ i.getD (e.t + 1) (-1)) ∧
       e = ⟨e.t, s.getD e.t (-1), s.getD (e.t + 1) (-1), i.getD e.t (-1), i.getD (e.t + 1) (-1)⟩) := by
  rw [mem_eventsSpec_gen s i 0 e h]
  constructor
  · rintro ⟨j, hj, hc, he⟩
    have ht : e.t = j := by rw [he]; simp
    rw [ht]
    refine ⟨hj, hc, ?_⟩
    simpa using he
  · rintro ⟨hj, hc, he⟩
    exact ⟨e.t, hj, hc, by simpa using he⟩

/-- **C03 (one row per change)**: row times are strictly increasing, hence no frame has two rows. -/
theorem eventsSpec_times_strict (s i : List Int) (t : Nat) :
    ((eventsSpec t s i).map (·.t)).Pairwise (· < ·) := by
  induction s generalizing i t with
  | nil => simp [eventsSpec]
  | cons a r ih =>
    cases r with
    | nil => simp [eventsSpec]
    | cons b rest =>
      cases i with
      | nil => simp [eventsSpec]
      | cons x ir =>
        cases ir with
        | nil => simp [eventsSpec]
        | cons y irest =>
          have IH := ih (y :: irest) (t + 1)
          simp only [eventsSpec]
          split
          · simp only [List.cons_append, List.nil_append, List.map_cons, List.pairwise_cons]
            refine ⟨?_, IH⟩
            intro k hk
            obtain ⟨e, he, rfl⟩ := List.mem_map.mp hk
            have := eventsSpec_ge _ _ _ _ he
            omega
          · simpa using IH

theorem foldl_noop (T : Nat) : ∀ (rows : List Event) (st : Int × Int), (∀ e ∈ rows, T ≤ e.t) →
    rows.foldl (fun st e => if e.t < T then (e.s1, e.i1) else st) st = st := by
  intro rows
  induction rows with
  | nil => intro st _; rfl
  | cons e es ih =>
    intro st h
    have h1 : ¬ e.t < T := by have := h e (by simp); omega
    simp only [List.foldl_cons, if_neg h1]
    exact ih st (fun e he => h e (by simp [he]))

theorem replay_gen : ∀ (s i : List Int) (a x : Int) (t0 T : Nat), s.length = i.length →
    T < t0 + (s.length + 1) →
    (eventsSpec t0 (a :: s) (x :: i)).foldl (fun st e => if e.t < T then (e.s1, e.i1) else st) (a, x)
      = ((a :: s).getD (T - t0) (-1), (x :: i).getD (T - t0) (-1)) := by
  intro s
  induction s with
  | nil =>
    intro i a x t0 T h hT
    have : T - t0 = 0 := by simp at hT; omega
    simp [eventsSpec, this]
  | cons b rest ih =>
    intro i a x t0 T h hT
    cases i with
    | nil => simp at h
    | cons y irest =>
      have hlen : rest.length = irest.length := by simpa using h
      simp only [eventsSpec, List.foldl_append]
      by_cases hle : T ≤ t0
      · have h0 : T - t0 = 0 := by omega
        have hA : ∀ e ∈ (if a ≠ b ∨ x ≠ y then [(⟨t0, a, b, x, y⟩ : Event)] else []), T ≤ e.t := by
          intro e he
          split at he
          · simp at he; subst he; simpa using hle
          · simp at he
        have hB : ∀ e ∈ eventsSpec (t0 + 1) (b :: rest) (y :: irest), T ≤ e.t := by
          intro e he
          have := eventsSpec_ge _ _ _ _ he; omega
        rw [foldl_noop T _ _ hA, foldl_noop T _ _ hB, h0]
        simp
      · have hlt : t0 < T := by omega
        have hfirst : (if a ≠ b ∨ x ≠ y then [(⟨t0, a, b, x, y⟩ : Event)] else []).foldl
            (fun st e => if e.t < T then (e.s1, e.i1) else st) (a, x) = (b, y) := by
          split
          · simp [hlt]
          · rename_i hc
            simp at hc
            simp [hc.1, hc.2]
        rw [hfirst, ih irest b y (t0 + 1) T hlen (by simp at hT ⊢; omega)]
        have : T - t0 = (T - (t0 + 1)) + 1 := by omega
        rw [this]; simp

/-- **C03 (replay)**: replaying an atom's rows from its first-frame state reconstructs its
entire site and inner-site history. -/
theorem replay_reconstructs (s i : List Int) (h : s.length = i.length) (t : Nat) (ht : t < s.length) :
    replayAt (s.getD 0 (-1)) (i.getD 0 (-1)) (eventsSpec 0 s i) t = (s.getD t (-1), i.getD t (-1)) := by
  cases s with
  | nil => simp at ht
  | cons a r =>
    cases i with
    | nil => simp at h
    | cons x ir =>
      have := replay_gen r ir a x 0 t (by simpa using h) (by simpa using ht)
      simpa [replayAt] using this

/-- non-vacuity: a history with a first-frame change, an inner-only change and a last-frame change -/
example : eventsAlgo [0, -1, 1, 1, 1, 2] [0, -1, -1, 1, 1, -1]
    = [⟨0, 0, -1, 0, -1⟩, ⟨1, -1, 1, -1, -1⟩, ⟨2, 1, 1, -1, 1⟩, ⟨4, 1, 2, 1, -1⟩] := by decide

/-! ## previous / next site views -/

theorem ffill_gen : ∀ (rest pre : List Int) (m : Nat) (last : Int),
    ((m < pre.length ∧ pre.getD m (-1) = last) ∨ (m = 0 ∧ pre = [] ∧ last = -1)) →
    (ffillIdx pre.length m rest).map (fun i => (pre ++ rest).getD i (-1)) = ffillSpec last rest := by
  intro rest
  induction rest with
  | nil => intro pre m last _; simp [ffillIdx, ffillSpec]
  | cons x xs ih =>
    intro pre m last hI
    have hm : m ≤ pre.length := by
      rcases hI with h | h
      · omega
      · omega
    have e1 : (pre ++ [x]).length = pre.length + 1 := by simp
    have e2 : pre ++ [x] ++ xs = pre ++ x :: xs := by simp
    simp only [ffillIdx, ffillSpec, List.map_cons]
    by_cases hx : x ≠ -1
    · rw [if_pos hx, if_pos hx]
      have hmax : max m pre.length = pre.length := by omega
      rw [hmax]
      have IH := ih (pre ++ [x]) pre.length x (Or.inl ⟨by simp, by simp [List.getD_eq_getElem?_getD]⟩)
      rw [e1, e2] at IH
      rw [IH]
      simp [List.getD_eq_getElem?_getD]
    · rw [if_neg hx, if_neg hx]
      have hmax : max m 0 = m := by omega
      rw [hmax]
      have hx' : x = -1 := by simpa using hx
      have hI' : m < (pre ++ [x]).length ∧ (pre ++ [x]).getD m (-1) = last := by
        rcases hI with ⟨h1, h2⟩ | ⟨h1, h2, h3⟩
        · refine ⟨by simp; omega, ?_⟩
          rw [← h2]
          simp [List.getD_eq_getElem?_getD, List.getElem?_append_left h1]
        · subst h1 h2 h3
          simp [hx']
      have IH := ih (pre ++ [x]) m last (Or.inl hI')
      rw [e1, e2] at IH
      rw [IH]
      congr 1
      rw [← hI'.2, ← e2]
      simp only [List.getD_eq_getElem?_getD]
      rw [List.getElem?_append_left hI'.1]

/-- `utils.ffill` (where / arange / maximum.accumulate / take) is "carry the most recent site". -/
theorem ffillAlgo_eq_spec (arr : List Int) : ffillAlgo arr = ffillSpec (-1) arr := by
  have := ffill_gen arr [] 0 (-1) (Or.inr ⟨rfl, rfl, rfl⟩)
  simpa [ffillAlgo] using this

theorem ffillSpec_snoc : ∀ (xs : List Int) (last x : Int),
    ffillSpec last (xs ++ [x]) =
      ffillSpec last xs ++ [if x ≠ -1 then x else (ffillSpec last xs).getLastD last] := by
  intro xs
  induction xs with
  | nil =>
    intro last x
    simp only [List.nil_append, ffillSpec]
    split <;> simp
  | cons y ys ih =>
    intro last x
    simp only [List.cons_append, ffillSpec]
    split
    · rw [ih, List.getLastD_cons]; simp
    · rw [ih, List.getLastD_cons]; simp

theorem ffillSpec_reverse : ∀ (arr : List Int), (ffillSpec (-1) arr.reverse).reverse = bfillSpec arr := by
  intro arr
  induction arr with
  | nil => simp [ffillSpec, bfillSpec]
  | cons x xs ih =>
    rw [List.reverse_cons, ffillSpec_snoc, List.reverse_append]
    simp only [bfillSpec, List.reverse_cons, List.reverse_nil, List.nil_append, List.cons_append]
    rw [← ih]
    congr 2
    simp [List.headD_eq_head?_getD]

/-- `utils.bfill` (flip ∘ ffill ∘ flip) is "the next site". -/
theorem bfillAlgo_eq_spec (arr : List Int) : bfillAlgo arr = bfillSpec arr := by
  rw [bfillAlgo, ffillAlgo_eq_spec, ffillSpec_reverse]

theorem ffillSpec_get_gen : ∀ (arr : List Int) (last : Int) (t : Nat), t < arr.length →
    (∃ t', t' ≤ t ∧ arr.getD t' (-1) ≠ -1 ∧ (ffillSpec last arr).getD t (-1) = arr.getD t' (-1) ∧
        ∀ u, t' < u → u ≤ t → arr.getD u (-1) = -1) ∨
    ((∀ u, u ≤ t → arr.getD u (-1) = -1) ∧ (ffillSpec last arr).getD t (-1) = last) := by
  intro arr
  induction arr with
  | nil => intro last t ht; simp at ht
  | cons x xs ih =>
    intro last t ht
    cases t with
    | zero =>
      by_cases hx : x ≠ -1
      · left
        refine ⟨0, Nat.le_refl _, by simpa using hx, ?_, ?_⟩
        · simp [ffillSpec, hx]
        · intro u h1 h2; omega
      · right
        have hx' : x = -1 := by simpa using hx
        refine ⟨?_, ?_⟩
        · intro u hu
          have : u = 0 := by omega
          subst this; simpa using hx'
        · simp [ffillSpec, hx']
    | succ t =>
      have ht' : t < xs.length := by simpa using ht
      by_cases hx : x ≠ -1
      · have hs : ffillSpec last (x :: xs) = x :: ffillSpec x xs := by simp [ffillSpec, hx]
        rw [hs]
        left
        rcases ih x t ht' with ⟨t', h1, h2, h3, h4⟩ | ⟨h1, h2⟩
        · refine ⟨t' + 1, by omega, by simpa using h2, by simpa using h3, ?_⟩
          intro u hu1 hu2
          cases u with
          | zero => omega
          | succ u => simpa using h4 u (by omega) (by omega)
        · refine ⟨0, by omega, by simpa using hx, by simpa using h2, ?_⟩
          intro u hu1 hu2
          cases u with
          | zero => omega
          | succ u => simpa using h1 u (by omega)
      · have hx' : x = -1 := by simpa using hx
        have hs : ffillSpec last (x :: xs) = last :: ffillSpec last xs := by simp [ffillSpec, hx']
        rw [hs]
        rcases ih last t ht' with ⟨t', h1, h2, h3, h4⟩ | ⟨h1, h2⟩
        · left
          refine ⟨t' + 1, by omega, by simpa using h2, by simpa using h3, ?_⟩
          intro u hu1 hu2
          cases u with
          | zero => omega
          | succ u => simpa using h4 u (by omega) (by omega)
        · right
          refine ⟨?_, by simpa using h2⟩
          intro u hu
          cases u with
          | zero => simpa using hx'
          | succ u => simpa using h1 u (by omega)

/-- meaning of the forward fill: the entry at `t` is the site at the greatest `t' ≤ t`
with a site, and `-1` when there is none. -/
theorem ffillSpec_get (arr : List Int) (t : Nat) (ht : t < arr.length) :
    (∃ t', t' ≤ t ∧ arr.getD t' (-1) ≠ -1 ∧ (ffillSpec (-1) arr).getD t (-1) = arr.getD t' (-1) ∧
        ∀ u, t' < u → u ≤ t → arr.getD u (-1) = -1) ∨
    ((∀ u, u ≤ t → arr.getD u (-1) = -1) ∧ (ffillSpec (-1) arr).getD t (-1) = -1) := by
  exact ffillSpec_get_gen arr (-1) t ht

/-- meaning of the backward fill: the entry at `t` is the site at the least `t' ≥ t`
with a site, and `-1` when there is none. -/
theorem bfillSpec_get (arr : List Int) (t : Nat) (ht : t < arr.length) :
    (∃ t', t ≤ t' ∧ t' < arr.length ∧ arr.getD t' (-1) ≠ -1 ∧ (bfillSpec arr).getD t (-1) = arr.getD t' (-1) ∧
        ∀ u, t ≤ u → u < t' → arr.getD u (-1) = -1) ∨
    ((∀ u, t ≤ u → u < arr.length → arr.getD u (-1) = -1) ∧ (bfillSpec arr).getD t (-1) = -1) := by
  induction arr generalizing t with
  | nil => simp at ht
  | cons x xs ih =>
    cases t with
    | succ t =>
      have ht' : t < xs.length := by simpa using ht
      have hs : (bfillSpec (x :: xs)).getD (t + 1) (-1) = (bfillSpec xs).getD t (-1) := by
        simp [bfillSpec]
      rw [hs]
      rcases ih t ht' with ⟨t', h1, h2, h3, h4, h5⟩ | ⟨h1, h2⟩
      · left
        refine ⟨t' + 1, by omega, by simpa using h2, by simpa using h3, by simpa using h4, ?_⟩
        intro u hu1 hu2
        cases u with
        | zero => omega
        | succ u => simpa using h5 u (by omega) (by omega)
      · right
        refine ⟨?_, h2⟩
        intro u hu1 hu2
        cases u with
        | zero => omega
        | succ u => simpa using h1 u (by omega) (by simpa using hu2)
    | zero =>
      by_cases hx : x ≠ -1
      · left
        refine ⟨0, Nat.le_refl _, by simp, by simpa using hx, by simp [bfillSpec, hx], ?_⟩
        intro u h1 h2; omega
      · have hx' : x = -1 := by simpa using hx
        have hs : (bfillSpec (x :: xs)).getD 0 (-1) = (bfillSpec xs).getD 0 (-1) := by
          simp [bfillSpec, hx', List.headD_eq_head?_getD, List.head?_eq_getElem?]
        rw [hs]
        cases xs with
        | nil =>
          right
          refine ⟨?_, by simp [bfillSpec]⟩
          intro u hu1 hu2
          have : u = 0 := by simpa using hu2
          subst this; simpa using hx'
        | cons y ys =>
          rcases ih 0 (by simp) with ⟨t', h1, h2, h3, h4, h5⟩ | ⟨h1, h2⟩
          · left
            refine ⟨t' + 1, by omega, by simpa using h2, by simpa using h3, by simpa using h4, ?_⟩
            intro u hu1 hu2
            cases u with
            | zero => simpa using hx'
            | succ u => simpa using h5 u (by omega) (by omega)
          · right
            refine ⟨?_, h2⟩
            intro u hu1 hu2
            cases u with
            | zero => simpa using hx'
            | succ u => simpa using h1 u (by omega) (by simpa using hu2)

example : ffillAlgo [-1, 2, -1, -1, 0, -1] = [-1, 2, 2, 2, 0, 0] ∧
          bfillAlgo [-1, 2, -1, -1, 0, -1] = [2, 2, 0, 0, 0, -1] := by decide

/-! ## history: the original `np.roll` formulation (defect D4, repaired by f616709) -/

theorem changes_lt : ∀ (xs : List Int) (t i : Nat), i ∈ changes t xs → i + 1 < t + xs.length := by
  intro xs
  induction xs with
  | nil => intro t i h; simp [changes] at h
  | cons a r ih =>
    intro t i h
    cases r with
    | nil => simp [changes] at h
    | cons b rest =>
      simp only [changes, List.mem_append] at h
      rcases h with h | h
      · split at h
        · simp at h; subst h; simp
        · simp at h
      · have := ih (t + 1) i h
        simp at this ⊢; omega

theorem Roll.roll_eq (h : Int) : ∀ (r : List Int) (a : Int) (t : Nat),
    Roll.nonzeroFrom t (Roll.neqRollAux h (a :: r)) =
      changes t (a :: r) ++ (if (a :: r).getLast (by simp) ≠ h then [t + r.length] else []) := by
  intro r
  induction r with
  | nil =>
    intro a t
    by_cases hah : a = h <;> simp [Roll.neqRollAux, Roll.nonzeroFrom, changes, hah]
  | cons b rest ih =>
    intro a t
    have := ih b (t + 1)
    simp only [Roll.neqRollAux, Roll.nonzeroFrom, changes]
    rw [this]
    have hl : (a :: b :: rest).getLast (by simp) = (b :: rest).getLast (by simp) := by
      simp [List.getLast_cons]
    rw [hl]
    have ht : t + 1 + rest.length = t + (b :: rest).length := by simp; omega
    rw [ht]
    by_cases hab : a = b <;> simp [hab]

/-- when the history has a change, `x != np.roll(x,-1)` → nonzero → "drop the last index if it
is T−1" returns exactly the true change frames … -/
theorem Roll.changesAlgo_eq (xs : List Int) (hne : changes 0 xs ≠ []) :
    Roll.changesAlgo xs = some (changes 0 xs) := by
  cases xs with
  | nil => simp [changes] at hne
  | cons a r =>
    unfold Roll.changesAlgo
    simp only [Roll.neqRoll]
    rw [Roll.roll_eq a r a 0]
    by_cases hw : (a :: r).getLast (by simp) ≠ a
    · rw [if_pos hw]
      simp [Roll.dropWrap, List.getLast?_append]
    · rw [if_neg hw]
      simp only [List.append_nil]
      unfold Roll.dropWrap
      obtain ⟨l, hl⟩ : ∃ l, (changes 0 (a :: r)).getLast? = some l := by
        cases hc : (changes 0 (a :: r)).getLast? with
        | none => simp [List.getLast?_eq_none_iff] at hc; exact absurd hc hne
        | some l => exact ⟨l, rfl⟩
      rw [hl]
      have hmem : l ∈ changes 0 (a :: r) := List.mem_of_getLast? hl
      have := changes_lt (a :: r) 0 l hmem
      have hne' : ¬ l = (a :: r).length - 1 := by simp at this ⊢; omega
      show (if l = (a :: r).length - 1 then some (changes 0 (a :: r)).dropLast else some (changes 0 (a :: r))) = _
      rw [if_neg hne']

theorem Roll.const_aux (x : Int) : ∀ (n t : Nat),
    Roll.nonzeroFrom t (Roll.neqRollAux x (List.replicate (n + 1) x)) = [] := by
  intro n
  induction n with
  | zero => intro t; simp [Roll.neqRollAux, Roll.nonzeroFrom]
  | succ n ih =>
    intro t
    have : List.replicate (n + 1 + 1) x = x :: x :: List.replicate n x := by
      simp [List.replicate_succ]
    rw [this]
    simp only [Roll.neqRollAux, Roll.nonzeroFrom]
    have h2 := ih (t + 1)
    rw [List.replicate_succ] at h2
    rw [h2]; simp

/-- … but on a constant history the index array is empty and `[-1]` raises. -/
theorem Roll.changesAlgo_const (x : Int) (n : Nat) : Roll.changesAlgo (List.replicate n x) = none := by
  cases n with
  | zero => simp [Roll.changesAlgo, Roll.neqRoll, Roll.nonzeroFrom, Roll.dropWrap]
  | succ n =>
    unfold Roll.changesAlgo
    rw [List.replicate_succ]
    simp only [Roll.neqRoll]
    rw [← List.replicate_succ, Roll.const_aux]
    simp [Roll.dropWrap]

/-- D4 witness: outer history with a change, inner history constant ⇒ `IndexError`. -/
theorem Roll.eventsRoll_indexError :
    (match Roll.eventsRoll [-1, 0] [-1, -1] with | .indexError => true | _ => false) = true := by
  decide

/-- D4 witness: an atom whose inner site changes while its outer site does not was skipped. -/
theorem Roll.eventsRoll_skips_inner_only :
    (match Roll.eventsRoll [0, 0, 0] [0, -1, 0] with | .skip => true | _ => false) = true := by
  decide

end G.C03
