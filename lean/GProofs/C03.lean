import GModel.Events
/-! # C03 — transition events are a faithful, complete change-log (theorems below) -/
namespace G.C03
open G.Events

theorem changes_nil (t : Nat) : changes t [] = [] := by simp [changes]

end G.C03
