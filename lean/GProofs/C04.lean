import GModel.Jumps
import GProofs.C03
import Mathlib.Data.Multiset.Basic
import Mathlib.Order.Basic
import Mathlib.Algebra.Order.Monoid.Unbundled.Basic
import Mathlib.Algebra.Order.Group.Multiset
/-!
# C04 — jumps are exactly the changes of visited site; stricter settings only remove

* `default_eq_spec` : on the default-mode events of any history (inner = outer)
  the machine's output equals the visited-site specification, for every
  `minimal_residence`.
* `minres_monotone` : for *arbitrary* event lists (inner-site mode included)
  the jumps under a larger `minimal_residence` are a sub-multiset of those
  under a smaller one.
-/
namespace G.C04
open G.Events G.Jumps

/-- default-mode events of one atom (inner = outer) -/
def evs : Nat → List Int → List Event
  | t, a :: b :: rest =>
      (if a ≠ b then [⟨t, a, b, a, b⟩] else []) ++ evs (t + 1) (b :: rest)
  | _, _ => []

theorem evs_eq_eventsSpec : ∀ (s : List Int) (t : Nat), evs t s = eventsSpec t s s := by
  intro s
  induction s with
  | nil => intro t; simp [evs, eventsSpec]
  | cons a r ih =>
    intro t
    cases r with
    | nil => simp [evs, eventsSpec]
    | cons b rest =>
      simp only [evs, eventsSpec, or_self]
      rw [ih (t + 1)]

/-- invariant after processing frame `t` whose value is `a` -/
def JInv (a : Int) (t : Nat) (st : St) (last : Option (Int × Nat)) : Prop :=
  st.cand = none ∧
  ((a ≠ -1 ∧ st.frm = none ∧ last = some (a, t)) ∨
   (a = -1 ∧ st.frm = none ∧ last = none) ∨
   (a = -1 ∧ ∃ l tl, l ≠ -1 ∧ st.frm = some ⟨tl, l, -1, l, -1⟩ ∧ last = some (l, tl)))

theorem step_none (mr : Int) (frm : Option Event) (out : List Jump) (e : Event) :
    step mr ⟨frm, none, out⟩ e = blk23 frm none out e := by
  simp [step, blk1]

theorem run_eq_spec_aux (mr : Int) :
    ∀ (rest : List Int) (a : Int) (t : Nat) (st : St) (last : Option (Int × Nat)),
      JInv a t st last →
      (run mr st (evs t (a :: rest))).out = st.out ++ spec last (t + 1) rest := by
  intro rest
  induction rest with
  | nil => intro a t st last _; simp [evs, run, spec]
  | cons b rest ih =>
    intro a t st last hinv
    obtain ⟨hc, hcase⟩ := hinv
    by_cases hab : a = b
    · subst hab
      have hev : evs t (a :: a :: rest) = evs (t + 1) (a :: rest) := by simp [evs]
      rw [hev]
      rcases hcase with ⟨ha, hf, hl⟩ | ⟨ha, hf, hl⟩ | ⟨ha, l, tl, hl1, hf, hl⟩
      · rw [ih a (t+1) st (some (a, t+1)) ⟨hc, Or.inl ⟨ha, hf, rfl⟩⟩]
        subst hl; simp [spec, ha]
      · rw [ih a (t+1) st none ⟨hc, Or.inr (Or.inl ⟨ha, hf, rfl⟩)⟩]
        subst hl; simp [spec, ha]
      · rw [ih a (t+1) st (some (l, tl)) ⟨hc, Or.inr (Or.inr ⟨ha, l, tl, hl1, hf, rfl⟩)⟩]
        subst hl; simp [spec, ha]
    · have hev : evs t (a :: b :: rest) = ⟨t, a, b, a, b⟩ :: evs (t + 1) (b :: rest) := by
        simp [evs, hab]
      rw [hev]
      show (run mr (step mr st ⟨t, a, b, a, b⟩) (evs (t + 1) (b :: rest))).out = _
      obtain ⟨frm, cand, out⟩ := st
      simp only at hc; subst hc
      rw [step_none]
      rcases hcase with ⟨ha, hf, hl⟩ | ⟨ha, hf, hl⟩ | ⟨ha, l, tl, hl1, hf, hl⟩
      · simp only at hf; subst hf; subst hl
        by_cases hb : b = -1
        · subst hb
          have hs : blk23 none none out ⟨t, a, -1, a, -1⟩ = ⟨some ⟨t, a, -1, a, -1⟩, none, out⟩ := by
            have : ¬ (-1 : Int) = a := fun h => ha h.symm
            simp [blk23, ha, this]
          rw [hs, ih (-1) (t+1) _ (some (a, t)) ⟨rfl, Or.inr (Or.inr ⟨rfl, a, t, ha, rfl, rfl⟩)⟩]
          simp [spec]
        · have hs : blk23 none none out ⟨t, a, b, a, b⟩ = ⟨none, none, out ++ [⟨a, b, t, t + 1⟩]⟩ := by
            have : ¬ b = a := fun h => hab h.symm
            simp [blk23, ha, hab, hb, this]
          rw [hs, ih b (t+1) _ (some (b, t+1)) ⟨rfl, Or.inl ⟨hb, rfl, rfl⟩⟩]
          simp [spec, hb, hab]
      · simp only at hf; subst hf; subst hl; subst ha
        have hb : b ≠ -1 := fun h => hab h.symm
        have hs : blk23 none none out ⟨t, -1, b, -1, b⟩ = ⟨none, none, out⟩ := by
          simp [blk23]
        rw [hs, ih b (t+1) _ (some (b, t+1)) ⟨rfl, Or.inl ⟨hb, rfl, rfl⟩⟩]
        simp [spec, hb]
      · simp only at hf; subst hf; subst hl; subst ha
        have hb : b ≠ -1 := fun h => hab h.symm
        by_cases hbl : b = l
        · subst hbl
          have hs : blk23 (some ⟨tl, b, -1, b, -1⟩) none out ⟨t, -1, b, -1, b⟩ = ⟨none, none, out⟩ := by
            simp [blk23]
          rw [hs, ih b (t+1) _ (some (b, t+1)) ⟨rfl, Or.inl ⟨hb, rfl, rfl⟩⟩]
          simp [spec, hb]
        · have hs : blk23 (some ⟨tl, l, -1, l, -1⟩) none out ⟨t, -1, b, -1, b⟩
              = ⟨none, none, out ++ [⟨l, b, tl, t + 1⟩]⟩ := by
            simp [blk23, hbl, hb]
          rw [hs, ih b (t+1) _ (some (b, t+1)) ⟨rfl, Or.inl ⟨hb, rfl, rfl⟩⟩]
          have : l ≠ b := fun h => hbl h.symm
          simp [spec, hb, this]

/-- **C04, default mode**: machine on the events of a history = visited-site spec,
for every history and every `minimal_residence`. -/
theorem default_eq_spec (mr : Int) (s : List Int) :
    (run mr St.init (evs 0 s)).out = defaultJumps s := by
  unfold defaultJumps
  cases s with
  | nil => simp [evs, run, spec, St.init]
  | cons x xs =>
    by_cases hx : x = -1
    · subst hx
      rw [run_eq_spec_aux mr xs (-1) 0 St.init none ⟨rfl, Or.inr (Or.inl ⟨rfl, rfl, rfl⟩)⟩]
      simp [St.init, spec]
    · rw [run_eq_spec_aux mr xs x 0 St.init (some (x, 0)) ⟨rfl, Or.inl ⟨hx, rfl, rfl⟩⟩]
      simp [St.init, spec, hx]

/-- every specification jump joins two different real sites -/
theorem spec_endpoints : ∀ (s : List Int) (last : Option (Int × Nat)) (t : Nat) (j : Jump),
    (∀ l tl, last = some (l, tl) → l ≠ -1) →
    j ∈ spec last t s → j.o ≠ -1 ∧ j.d ≠ -1 ∧ j.o ≠ j.d := by
  intro s
  induction s with
  | nil => intro last t j _ h; simp [spec] at h
  | cons x xs ih =>
    intro last t j hl h
    unfold spec at h
    by_cases hx : x = -1
    · rw [if_pos hx] at h; exact ih last (t+1) j hl h
    · rw [if_neg hx] at h
      have hl' : ∀ l tl, some (x, t) = some (l, tl) → l ≠ -1 := by
        intro l tl e; simp at e; rw [← e.1]; exact hx
      cases last with
      | none => exact ih _ (t+1) j hl' h
      | some p =>
        obtain ⟨l, tl⟩ := p
        simp only at h
        by_cases hlx : l ≠ x
        · rw [if_pos hlx] at h
          rcases List.mem_cons.mp h with h | h
          · subst h; exact ⟨hl l tl rfl, hx, hlx⟩
          · exact ih _ (t+1) j hl' h
        · rw [if_neg hlx] at h; exact ih _ (t+1) j hl' h

/-- the final `start != destination` filter removes nothing in default mode,
so `Jumps.data` of an atom in default mode *is* the specification. -/
theorem default_jumps_eq_spec (mr : Int) (s : List Int) :
    jumpsOfEvents mr (evs 0 s) = defaultJumps s := by
  unfold jumpsOfEvents
  rw [default_eq_spec]
  apply List.filter_eq_self.mpr
  intro j hj
  have := spec_endpoints s none 0 j (by intro l tl h; cases h) hj
  simpa using this.2.2

/-- **C04 (default mode, end to end)**: from the site history through the event table the code
builds (C03) and the state machine to `Jumps.data`: exactly the specification. -/
theorem jumpsOfHistory_default (mr : Int) (s : List Int) :
    jumpsOfHistory mr s s = defaultJumps s := by
  unfold jumpsOfHistory
  rw [G.C03.eventsAlgo_eq_spec s s rfl, ← evs_eq_eventsSpec]
  exact default_jumps_eq_spec mr s

/-- leaving a site and returning to it is not a jump; time at no site is ignored -/
example : defaultJumps [0, 0, -1, 0, -1, 1, 1, -1, 1, 2] = [⟨0, 1, 3, 5⟩, ⟨1, 2, 8, 9⟩] := by decide

/-! ## raising the minimal residence never adds jumps -/

/-- simulation relation between the run with the smaller (`a`) and the larger (`b`) residence -/
def SimRel (a b : St) : Prop :=
  a.frm = b.frm ∧
  ((a.cand = b.cand ∧ (b.out : Multiset Jump) ≤ a.out) ∨
   (a.cand = none ∧ ∃ c, b.cand = some c ∧ (c ::ₘ (b.out : Multiset Jump)) ≤ a.out))

theorem blk23_rel (frm : Option Event) (e : Event)
    (ca cb : Option Jump) (oa ob : List Jump)
    (h : (ca = cb ∧ (ob : Multiset Jump) ≤ oa) ∨
         (ca = none ∧ ∃ c, cb = some c ∧ (c ::ₘ (ob : Multiset Jump)) ≤ oa)) :
    SimRel (blk23 frm ca oa e) (blk23 frm cb ob e) := by
  have hle : (ob : Multiset Jump) ≤ oa := by
    rcases h with ⟨_, h⟩ | ⟨_, c, _, h⟩
    · exact h
    · exact le_trans (Multiset.le_cons_self _ c) h
  have happ : ∀ j : Jump, ((ob ++ [j] : List Jump) : Multiset Jump) ≤ ((oa ++ [j] : List Jump) : Multiset Jump) := by
    intro j
    rw [← Multiset.coe_add, ← Multiset.coe_add]
    exact add_le_add_left hle _
  unfold blk23
  simp only
  split
  · exact ⟨rfl, h⟩
  · rename_i f _
    by_cases h1 : e.s1 = f.s0
    · rw [if_pos h1, if_pos h1]; exact ⟨rfl, Or.inl ⟨rfl, hle⟩⟩
    · rw [if_neg h1, if_neg h1]
      by_cases h2 : e.i1 ≠ -1
      · rw [if_pos h2, if_pos h2]; exact ⟨rfl, Or.inl ⟨rfl, happ _⟩⟩
      · rw [if_neg h2, if_neg h2]
        by_cases h3 : e.s1 ≠ f.s1
        · rw [if_pos h3, if_pos h3]; exact ⟨rfl, Or.inl ⟨rfl, hle⟩⟩
        · rw [if_neg h3, if_neg h3]; exact ⟨rfl, h⟩

theorem blk1_none (mr : Int) (out : List Jump) (e : Event) : blk1 mr none out e = (none, out) := rfl
theorem blk1_commit (mr : Int) (c : Jump) (out : List Jump) (e : Event)
    (h : (e.t : Int) - (c.t0 : Int) ≥ mr) : blk1 mr (some c) out e = (none, out ++ [c]) := by
  simp only [blk1]; rw [if_pos h]
theorem blk1_drop (mr : Int) (c : Jump) (out : List Jump) (e : Event)
    (h : ¬ (e.t : Int) - (c.t0 : Int) ≥ mr) (hd : c.d ≠ e.s1) : blk1 mr (some c) out e = (none, out) := by
  simp only [blk1]; rw [if_neg h, if_pos hd]
theorem blk1_keep (mr : Int) (c : Jump) (out : List Jump) (e : Event)
    (h : ¬ (e.t : Int) - (c.t0 : Int) ≥ mr) (hd : ¬ c.d ≠ e.s1) : blk1 mr (some c) out e = (some c, out) := by
  simp only [blk1]; rw [if_neg h, if_neg hd]

theorem app_le (ob oa : List Jump) (c : Jump) (h : (ob : Multiset Jump) ≤ oa) :
    ((ob ++ [c] : List Jump) : Multiset Jump) ≤ ((oa ++ [c] : List Jump) : Multiset Jump) := by
  rw [← Multiset.coe_add, ← Multiset.coe_add]; exact add_le_add_left h _
theorem le_app (ob oa : List Jump) (c : Jump) (h : (ob : Multiset Jump) ≤ oa) :
    (ob : Multiset Jump) ≤ ((oa ++ [c] : List Jump) : Multiset Jump) := by
  rw [← Multiset.coe_add]; exact le_trans h (Multiset.le_add_right _ _)
theorem cons_le_app (ob oa : List Jump) (c : Jump) (h : (ob : Multiset Jump) ≤ oa) :
    (c ::ₘ (ob : Multiset Jump)) ≤ ((oa ++ [c] : List Jump) : Multiset Jump) := by
  rw [← Multiset.coe_add, Multiset.coe_singleton, add_comm, Multiset.singleton_add]
  exact Multiset.cons_le_cons c h
theorem app_le_of_cons (ob oa : List Jump) (c : Jump) (h : (c ::ₘ (ob : Multiset Jump)) ≤ oa) :
    ((ob ++ [c] : List Jump) : Multiset Jump) ≤ oa := by
  rw [← Multiset.coe_add, Multiset.coe_singleton, add_comm, Multiset.singleton_add]; exact h

theorem step_rel (mra mrb : Int) (hmr : mra ≤ mrb) (a b : St) (e : Event) (h : SimRel a b) :
    SimRel (step mra a e) (step mrb b e) := by
  obtain ⟨hf, hc⟩ := h
  unfold step
  rw [hf]
  apply blk23_rel
  rcases hc with ⟨hcc, hle⟩ | ⟨hca, c, hcb, hle⟩
  · rw [hcc]
    cases hb : b.cand with
    | none => rw [blk1_none, blk1_none]; exact Or.inl ⟨rfl, hle⟩
    | some c =>
      by_cases hB : (e.t : Int) - (c.t0 : Int) ≥ mrb
      · have hA : (e.t : Int) - (c.t0 : Int) ≥ mra := le_trans hmr hB
        rw [blk1_commit _ _ _ _ hA, blk1_commit _ _ _ _ hB]
        exact Or.inl ⟨rfl, app_le _ _ _ hle⟩
      · by_cases hA : (e.t : Int) - (c.t0 : Int) ≥ mra
        · rw [blk1_commit _ _ _ _ hA]
          by_cases hd : c.d ≠ e.s1
          · rw [blk1_drop _ _ _ _ hB hd]; exact Or.inl ⟨rfl, le_app _ _ _ hle⟩
          · rw [blk1_keep _ _ _ _ hB hd]; exact Or.inr ⟨rfl, c, rfl, cons_le_app _ _ _ hle⟩
        · by_cases hd : c.d ≠ e.s1
          · rw [blk1_drop _ _ _ _ hA hd, blk1_drop _ _ _ _ hB hd]; exact Or.inl ⟨rfl, hle⟩
          · rw [blk1_keep _ _ _ _ hA hd, blk1_keep _ _ _ _ hB hd]; exact Or.inl ⟨rfl, hle⟩
  · rw [hca, hcb, blk1_none]
    by_cases hB : (e.t : Int) - (c.t0 : Int) ≥ mrb
    · rw [blk1_commit _ _ _ _ hB]; exact Or.inl ⟨rfl, app_le_of_cons _ _ _ hle⟩
    · by_cases hd : c.d ≠ e.s1
      · rw [blk1_drop _ _ _ _ hB hd]; exact Or.inl ⟨rfl, le_trans (Multiset.le_cons_self _ c) hle⟩
      · rw [blk1_keep _ _ _ _ hB hd]; exact Or.inr ⟨rfl, c, rfl, hle⟩

theorem run_rel (mra mrb : Int) (hmr : mra ≤ mrb) (es : List Event) :
    ∀ a b, SimRel a b → SimRel (run mra a es) (run mrb b es) := by
  induction es with
  | nil => intro a b h; exact h
  | cons e es ih => intro a b h; exact ih _ _ (step_rel mra mrb hmr a b e h)

/-- **C04, monotonicity**: raising the minimal residence never adds jumps
(as multisets), for every event list. -/
theorem minres_monotone (mra mrb : Int) (hmr : mra ≤ mrb) (es : List Event) :
    ((run mrb St.init es).out : Multiset Jump) ≤ (run mra St.init es).out := by
  have h := run_rel mra mrb hmr es St.init St.init ⟨rfl, Or.inl ⟨rfl, le_refl _⟩⟩
  rcases h.2 with ⟨_, h⟩ | ⟨_, c, _, h⟩
  · exact h
  · exact le_trans (Multiset.le_cons_self _ c) h

/-- … and the same for the reported table (after the final filter). -/
theorem minres_monotone_reported (mra mrb : Int) (hmr : mra ≤ mrb) (es : List Event) :
    ((jumpsOfEvents mrb es : List Jump) : Multiset Jump) ≤ (jumpsOfEvents mra es : List Jump) := by
  unfold jumpsOfEvents
  rw [← Multiset.filter_coe, ← Multiset.filter_coe]
  exact Multiset.filter_le_filter _ (minres_monotone mra mrb hmr es)

/-- non-vacuity: an inner-site history on which a larger residence really removes a jump -/
example :
    (jumpsOfHistory 0 [0, -1, 1, 1, -1, 2, 2] [0, -1, -1, -1, -1, 2, 2]).length = 2 ∧
    (jumpsOfHistory 5 [0, -1, 1, 1, -1, 2, 2] [0, -1, -1, -1, -1, 2, 2]).length = 1 := by decide

end G.C04
