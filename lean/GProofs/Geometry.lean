import GModel.Basic
import Mathlib.Tactic.Ring
import Mathlib.Tactic.Linarith
import Mathlib.Tactic.Positivity
import Mathlib.Data.Rat.Floor
import Mathlib.Tactic.LinearCombination
import Mathlib.Tactic.GCongr
import Mathlib.Tactic.Push
import Mathlib.Algebra.Order.Floor.Ring
/-!
# Geometry shared by C02, C05, C07, C11, C12, C17, C18: the certified minimum image

`Sym3` is a metric tensor `G = M·Mᵀ`, `G.Q v = vᵀ G v` the squared Cartesian length of the
fractional vector `v`.  The executable `minImageSqCert G v` reduces `v` componentwise to
[−½, ½], takes the minimum of `Q (f + n)` over an integer box `[−K, K]³` and enlarges `K` until
the certificate `m · adj_ii ≤ (K + ½)² · det G` (i = 1,2,3) holds.

* `coord_sq_le₁/₂/₃`        `v_i² · det G ≤ adj(G)_ii · Q G v` for a positive-definite `G`
* `boxMin_le`, `boxMin_attained`   the box minimum is a minimum over the box, and is attained
* `minImage_certified`       the certificate bounds EVERY image `n ∈ ℤ³`, not only those in the box
* `minImageSqCert_spec`      hence: a value returned by `minImageSqCert` is the true minimum of
                             `Q G (v + n)` over all of ℤ³, and it is attained — the model's
                             periodic distance is exact for any cell, however skewed
* `Q_neg`, `Q_parallelogram`, `pbcDistSq_symm`
-/
namespace G.Geometry
open G

/-- positive definiteness of a symmetric 3×3 matrix (Sylvester, in the three axis orders) -/
def PosDef (G : Sym3) : Prop :=
  0 < G.a ∧ 0 < G.d ∧ 0 < G.g ∧ 0 < G.adj1 ∧ 0 < G.adj2 ∧ 0 < G.adj3 ∧ 0 < G.det

private theorem sumsq_pos (x y z : ℚ) (h : ¬ (x = 0 ∧ y = 0 ∧ z = 0)) : 0 < x ^ 2 + y ^ 2 + z ^ 2 := by
  by_contra hc
  have hle : x ^ 2 + y ^ 2 + z ^ 2 ≤ 0 := not_lt.mp hc
  have hx : x ^ 2 = 0 := le_antisymm (by linarith [sq_nonneg y, sq_nonneg z]) (sq_nonneg x)
  have hy : y ^ 2 = 0 := le_antisymm (by linarith [sq_nonneg x, sq_nonneg z]) (sq_nonneg y)
  have hz : z ^ 2 = 0 := le_antisymm (by linarith [sq_nonneg x, sq_nonneg y]) (sq_nonneg z)
  exact h ⟨pow_eq_zero_iff (two_ne_zero) |>.mp hx, pow_eq_zero_iff (two_ne_zero) |>.mp hy,
    pow_eq_zero_iff (two_ne_zero) |>.mp hz⟩

/-- the metric tensor of any non-degenerate cell is positive definite, so every theorem below
applies to every lattice a trajectory can have -/
theorem metric_posdef (M : M3) (h : M.det ≠ 0) : PosDef M.metric := by
  obtain ⟨⟨x1, y1, z1⟩, ⟨x2, y2, z2⟩, ⟨x3, y3, z3⟩⟩ := M
  simp only [M3.det] at h
  simp only [PosDef, M3.metric, V3.dot, Sym3.adj1, Sym3.adj2, Sym3.adj3, Sym3.det]
  -- squared lengths of the rows
  have ha : x1 * x1 + y1 * y1 + z1 * z1 = x1 ^ 2 + y1 ^ 2 + z1 ^ 2 := by ring
  have hd : x2 * x2 + y2 * y2 + z2 * z2 = x2 ^ 2 + y2 ^ 2 + z2 ^ 2 := by ring
  have hg : x3 * x3 + y3 * y3 + z3 * z3 = x3 ^ 2 + y3 ^ 2 + z3 ^ 2 := by ring
  -- Lagrange identities: the 2×2 principal minors are squared lengths of cross products
  have h3 : (x1 * x1 + y1 * y1 + z1 * z1) * (x2 * x2 + y2 * y2 + z2 * z2)
      - (x1 * x2 + y1 * y2 + z1 * z2) ^ 2
      = (x1 * y2 - y1 * x2) ^ 2 + (x1 * z2 - z1 * x2) ^ 2 + (y1 * z2 - z1 * y2) ^ 2 := by ring
  have h2 : (x1 * x1 + y1 * y1 + z1 * z1) * (x3 * x3 + y3 * y3 + z3 * z3)
      - (x1 * x3 + y1 * y3 + z1 * z3) ^ 2
      = (x1 * y3 - y1 * x3) ^ 2 + (x1 * z3 - z1 * x3) ^ 2 + (y1 * z3 - z1 * y3) ^ 2 := by ring
  have h1 : (x2 * x2 + y2 * y2 + z2 * z2) * (x3 * x3 + y3 * y3 + z3 * z3)
      - (x2 * x3 + y2 * y3 + z2 * z3) ^ 2
      = (x2 * y3 - y2 * x3) ^ 2 + (x2 * z3 - z2 * x3) ^ 2 + (y2 * z3 - z2 * y3) ^ 2 := by ring
  -- det (M Mᵀ) = (det M)²
  have hdet : (x1 * x1 + y1 * y1 + z1 * z1) * (x2 * x2 + y2 * y2 + z2 * z2) * (x3 * x3 + y3 * y3 + z3 * z3)
      + 2 * (x1 * x2 + y1 * y2 + z1 * z2) * (x2 * x3 + y2 * y3 + z2 * z3) * (x1 * x3 + y1 * y3 + z1 * z3)
      - (x1 * x3 + y1 * y3 + z1 * z3) ^ 2 * (x2 * x2 + y2 * y2 + z2 * z2)
      - (x1 * x2 + y1 * y2 + z1 * z2) ^ 2 * (x3 * x3 + y3 * y3 + z3 * z3)
      - (x1 * x1 + y1 * y1 + z1 * z1) * (x2 * x3 + y2 * y3 + z2 * z3) ^ 2
      = (x1 * (y2 * z3 - z2 * y3) - y1 * (x2 * z3 - z2 * x3) + z1 * (x2 * y3 - y2 * x3)) ^ 2 := by
    ring
  rw [h1, h2, h3, hdet, ha, hd, hg]
  refine ⟨?_, ?_, ?_, ?_, ?_, ?_, ?_⟩
  · apply sumsq_pos
    rintro ⟨e1, e2, e3⟩
    apply h; rw [e1, e2, e3]; ring
  · apply sumsq_pos
    rintro ⟨e1, e2, e3⟩
    apply h; rw [e1, e2, e3]; ring
  · apply sumsq_pos
    rintro ⟨e1, e2, e3⟩
    apply h; rw [e1, e2, e3]; ring
  · apply sumsq_pos
    rintro ⟨e1, e2, e3⟩
    apply h; linear_combination x1 * e3 - y1 * e2 + z1 * e1
  · apply sumsq_pos
    rintro ⟨e1, e2, e3⟩
    apply h; linear_combination (-x2) * e3 + y2 * e2 - z2 * e1
  · apply sumsq_pos
    rintro ⟨e1, e2, e3⟩
    apply h; linear_combination x3 * e3 - y3 * e2 + z3 * e1
  · positivity

/-- the scalar form of `coord_sq_le₁`: one polynomial identity (completion of squares) -/
private theorem coord1 (a b c d e g x y z : ℚ) (hd : 0 < d) (hm : 0 < d*g - e^2) :
    (a*d*g + 2*b*e*c - c^2*d - b^2*g - a*e^2) * x^2
      ≤ (d*g - e^2) * (a*x^2 + d*y^2 + g*z^2 + 2*b*x*y + 2*c*x*z + 2*e*y*z) := by
  have key : d * (d*g - e^2) *
      ((d*g - e^2) * (a*x^2 + d*y^2 + g*z^2 + 2*b*x*y + 2*c*x*z + 2*e*y*z)
        - (a*d*g + 2*b*e*c - c^2*d - b^2*g - a*e^2) * x^2)
      = (d*((b*g - c*e)*x + (d*g - e^2)*y) + e*((c*d - b*e)*x + (d*g - e^2)*z))^2
        + (d*g - e^2) * ((c*d - b*e)*x + (d*g - e^2)*z)^2 := by ring
  have hpos : 0 < d * (d*g - e^2) := mul_pos hd hm
  have hrhs : 0 ≤ (d*((b*g - c*e)*x + (d*g - e^2)*y) + e*((c*d - b*e)*x + (d*g - e^2)*z))^2
        + (d*g - e^2) * ((c*d - b*e)*x + (d*g - e^2)*z)^2 := by positivity
  rw [← key] at hrhs
  have := (mul_nonneg_iff_of_pos_left hpos).mp hrhs
  linarith

theorem coord_sq_le₁ (G : Sym3) (h : PosDef G) (v : V3) : G.det * v.x ^ 2 ≤ G.adj1 * G.Q v := by
  obtain ⟨a, b, c, d, e, g⟩ := G
  obtain ⟨x, y, z⟩ := v
  obtain ⟨_, hd, _, h1, _, _, _⟩ := h
  simp only [Sym3.adj1] at h1
  simp only [Sym3.det, Sym3.adj1, Sym3.Q]
  exact coord1 a b c d e g x y z hd h1

theorem coord_sq_le₂ (G : Sym3) (h : PosDef G) (v : V3) : G.det * v.y ^ 2 ≤ G.adj2 * G.Q v := by
  obtain ⟨a, b, c, d, e, g⟩ := G
  obtain ⟨x, y, z⟩ := v
  obtain ⟨ha, _, _, _, h2, _, _⟩ := h
  simp only [Sym3.adj2] at h2
  simp only [Sym3.det, Sym3.adj2, Sym3.Q]
  -- relabel x ↔ y: the matrix becomes [[d,b,e],[b,a,c],[e,c,g]]
  have hh := coord1 d b e a c g y x z ha h2
  have e1 : d*a*g + 2*b*c*e - e^2*a - b^2*g - d*c^2 = a*d*g + 2*b*e*c - c^2*d - b^2*g - a*e^2 := by
    ring
  have e2 : d*y^2 + a*x^2 + g*z^2 + 2*b*y*x + 2*e*y*z + 2*c*x*z
      = a*x^2 + d*y^2 + g*z^2 + 2*b*x*y + 2*c*x*z + 2*e*y*z := by ring
  rw [e1, e2] at hh
  exact hh

theorem coord_sq_le₃ (G : Sym3) (h : PosDef G) (v : V3) : G.det * v.z ^ 2 ≤ G.adj3 * G.Q v := by
  obtain ⟨a, b, c, d, e, g⟩ := G
  obtain ⟨x, y, z⟩ := v
  obtain ⟨_, hd, _, _, _, h3, _⟩ := h
  simp only [Sym3.adj3] at h3
  simp only [Sym3.det, Sym3.adj3, Sym3.Q]
  -- relabel x ↔ z: the matrix becomes [[g,e,c],[e,d,b],[c,b,a]]
  have h3' : 0 < d * a - b ^ 2 := by linarith [h3, mul_comm a d]
  have hh := coord1 g e c d b a z y x hd h3'
  have e1 : g*d*a + 2*e*b*c - c^2*d - e^2*a - g*b^2 = a*d*g + 2*b*e*c - c^2*d - b^2*g - a*e^2 := by
    ring
  have e2 : g*z^2 + d*y^2 + a*x^2 + 2*e*z*y + 2*c*z*x + 2*b*y*x
      = a*x^2 + d*y^2 + g*z^2 + 2*b*x*y + 2*c*x*z + 2*e*y*z := by ring
  have e3 : d * a - b ^ 2 = a * d - b ^ 2 := by ring
  rw [e1, e2, e3] at hh
  exact hh

/-- translate a fractional vector by an integer vector -/
def shiftBy (f : V3) (n1 n2 n3 : ℤ) : V3 := ⟨f.x + n1, f.y + n2, f.z + n3⟩

theorem listMin_le_init : ∀ (l : List ℚ) (m : ℚ), listMin l m ≤ m := by
  intro l
  induction l with
  | nil => intro m; exact le_refl m
  | cons x xs ih =>
    intro m
    unfold listMin
    refine le_trans (ih _) ?_
    split
    · rename_i hx; exact le_of_lt hx
    · exact le_refl m

theorem listMin_le_mem : ∀ (l : List ℚ) (m x : ℚ), x ∈ l → listMin l m ≤ x := by
  intro l
  induction l with
  | nil => intro m x hx; simp at hx
  | cons y ys ih =>
    intro m x hx
    unfold listMin
    rcases List.mem_cons.mp hx with hx | hx
    · subst hx
      refine le_trans (listMin_le_init _ _) ?_
      split
      · exact le_refl x
      · rename_i hx; exact not_lt.mp hx
    · exact ih _ x hx

theorem listMin_mem : ∀ (l : List ℚ) (m : ℚ), listMin l m = m ∨ listMin l m ∈ l := by
  intro l
  induction l with
  | nil => intro m; exact Or.inl rfl
  | cons y ys ih =>
    intro m
    unfold listMin
    rcases ih (if y < m then y else m) with h | h
    · split at h
      · rename_i hy
        right; rw [if_pos hy, h]; exact List.mem_cons_self
      · rename_i hy
        left; rw [if_neg hy, h]
    · right; exact List.mem_cons_of_mem _ h

theorem mem_intRange (K : ℕ) (n : ℤ) : n ∈ intRange K ↔ |n| ≤ (K : ℤ) := by
  unfold intRange
  simp only [List.mem_map, List.mem_range]
  rw [abs_le]
  constructor
  · rintro ⟨k, hk, rfl⟩
    constructor <;> omega
  · rintro ⟨hl, hu⟩
    refine ⟨(n + K).toNat, ?_, ?_⟩ <;> omega

/-- the list of values `boxMin` minimises over -/
private def boxVals (G : Sym3) (f : V3) (K : ℕ) : List ℚ :=
  (intRange K).flatMap (fun (n1 : Int) => (intRange K).flatMap (fun (n2 : Int) =>
    (intRange K).map (fun (n3 : Int) =>
      G.Q ⟨f.x + (n1 : Rat), f.y + (n2 : Rat), f.z + (n3 : Rat)⟩)))

private theorem boxMin_eq (G : Sym3) (f : V3) (K : ℕ) :
    boxMin G f K = listMin (boxVals G f K) (G.Q f) := rfl

private theorem mem_boxVals (G : Sym3) (f : V3) (K : ℕ) (x : ℚ) :
    x ∈ boxVals G f K ↔
      ∃ n1 n2 n3 : ℤ, |n1| ≤ (K : ℤ) ∧ |n2| ≤ (K : ℤ) ∧ |n3| ≤ (K : ℤ) ∧ x = G.Q (shiftBy f n1 n2 n3) := by
  unfold boxVals shiftBy
  simp only [List.mem_flatMap, List.mem_map, mem_intRange]
  constructor
  · rintro ⟨n1, h1, n2, h2, n3, h3, rfl⟩
    exact ⟨n1, n2, n3, h1, h2, h3, rfl⟩
  · rintro ⟨n1, n2, n3, h1, h2, h3, rfl⟩
    exact ⟨n1, h1, n2, h2, n3, h3, rfl⟩

theorem boxMin_le (G : Sym3) (f : V3) (K : ℕ) (n1 n2 n3 : ℤ)
    (h1 : |n1| ≤ K) (h2 : |n2| ≤ K) (h3 : |n3| ≤ K) : boxMin G f K ≤ G.Q (shiftBy f n1 n2 n3) := by
  rw [boxMin_eq]
  apply listMin_le_mem
  exact (mem_boxVals G f K _).mpr ⟨n1, n2, n3, h1, h2, h3, rfl⟩

theorem boxMin_attained (G : Sym3) (f : V3) (K : ℕ) :
    ∃ n1 n2 n3 : ℤ, |n1| ≤ K ∧ |n2| ≤ K ∧ |n3| ≤ K ∧ boxMin G f K = G.Q (shiftBy f n1 n2 n3) := by
  rw [boxMin_eq]
  rcases listMin_mem (boxVals G f K) (G.Q f) with h | h
  · refine ⟨0, 0, 0, ?_, ?_, ?_, ?_⟩
    · simp
    · simp
    · simp
    · rw [h]
      obtain ⟨x, y, z⟩ := f
      simp [shiftBy]
  · exact (mem_boxVals G f K _).mp h

/-- **certificate theorem**: a box minimum `m` with `m · adj_ii ≤ (K+½)² · det G` for all `i`
is a lower bound for every lattice image. -/
theorem minImage_certified (G : Sym3) (hpd : PosDef G) (f : V3)
    (hf1 : |f.x| ≤ 1 / 2) (hf2 : |f.y| ≤ 1 / 2) (hf3 : |f.z| ≤ 1 / 2) (K : ℕ)
    (hc : certOK G K (boxMin G f K) = true) :
    ∀ n1 n2 n3 : ℤ, boxMin G f K ≤ G.Q (shiftBy f n1 n2 n3) := by
  intro n1 n2 n3
  have hpd' : PosDef G := hpd
  obtain ⟨_, _, _, p1, p2, p3, pdet⟩ := hpd
  simp only [certOK, Bool.and_eq_true, decide_eq_true_eq] at hc
  obtain ⟨⟨c1, c2⟩, c3⟩ := hc
  have hm : ∀ n1 n2 n3 : ℤ, |n1| ≤ (K : ℤ) → |n2| ≤ (K : ℤ) → |n3| ≤ (K : ℤ) →
      boxMin G f K ≤ G.Q (shiftBy f n1 n2 n3) := fun n1 n2 n3 => boxMin_le G f K n1 n2 n3
  generalize boxMin G f K = m at c1 c2 c3 hm ⊢
  -- a coordinate outside the box is at least K + 1/2 away from zero
  have far : ∀ (t : ℚ) (n : ℤ), |t| ≤ 1/2 → ¬ |n| ≤ (K : ℤ) → ((K : ℚ) + 1/2)^2 ≤ (t + n)^2 := by
    intro t n ht hn
    have hn' : (K : ℤ) + 1 ≤ |n| := by omega
    have hnq : (K : ℚ) + 1 ≤ |(n : ℚ)| := by
      have := (Int.cast_le (R := ℚ)).mpr hn'
      simpa [Int.cast_abs] using this
    have habs : (K : ℚ) + 1/2 ≤ |t + n| := by
      have := abs_sub_abs_le_abs_sub (n : ℚ) (-t)
      simp only [sub_neg_eq_add, abs_neg] at this
      have h' : |(n : ℚ) + t| = |t + n| := by rw [add_comm]
      linarith
    have hK : (0 : ℚ) ≤ (K : ℚ) + 1/2 := by positivity
    calc ((K : ℚ) + 1/2)^2 ≤ |t + n|^2 := by gcongr
      _ = (t + n)^2 := sq_abs _
  -- from `det * w² ≤ adj * Q`, `m * adj ≤ (K+½)² * det`, `(K+½)² ≤ w²` conclude `m ≤ Q`
  have fin : ∀ (adj w q : ℚ), 0 < adj → G.det * w ^ 2 ≤ adj * q →
      m * adj ≤ ((K : ℚ) + 1/2)^2 * G.det → ((K : ℚ) + 1/2)^2 ≤ w ^ 2 → m ≤ q := by
    intro adj w q hadj hco hce hw
    have h1 : ((K : ℚ) + 1/2)^2 * G.det ≤ w ^ 2 * G.det := mul_le_mul_of_nonneg_right hw pdet.le
    have h2 : adj * m ≤ adj * q := by linarith [mul_comm m adj, mul_comm (w ^ 2) G.det]
    exact le_of_mul_le_mul_left h2 hadj
  by_cases b1 : |n1| ≤ (K : ℤ)
  · by_cases b2 : |n2| ≤ (K : ℤ)
    · by_cases b3 : |n3| ≤ (K : ℤ)
      · exact hm n1 n2 n3 b1 b2 b3
      · exact fin G.adj3 (f.z + n3) _ p3 (coord_sq_le₃ G hpd' (shiftBy f n1 n2 n3)) c3 (far f.z n3 hf3 b3)
    · exact fin G.adj2 (f.y + n2) _ p2 (coord_sq_le₂ G hpd' (shiftBy f n1 n2 n3)) c2 (far f.y n2 hf2 b2)
  · exact fin G.adj1 (f.x + n1) _ p1 (coord_sq_le₁ G hpd' (shiftBy f n1 n2 n3)) c1 (far f.x n1 hf1 b1)

/-- a value returned by the search loop is a certified box minimum -/
theorem minImageSqAux_some (G : Sym3) (f : V3) : ∀ (fuel K : ℕ) (m : ℚ),
    minImageSqAux G f fuel K = some m → ∃ K' : ℕ, m = boxMin G f K' ∧ certOK G K' m = true := by
  intro fuel
  induction fuel with
  | zero => intro K m h; simp [minImageSqAux] at h
  | succ fuel ih =>
    intro K m h
    unfold minImageSqAux at h
    simp only at h
    by_cases hc : certOK G K (boxMin G f K) = true
    · rw [if_pos hc] at h
      have hm : boxMin G f K = m := Option.some.inj h
      exact ⟨K, hm.symm, by rw [← hm]; exact hc⟩
    · rw [if_neg hc] at h
      exact ih (K + 1) m h

private theorem rne_cases (x : ℚ) :
    (rne x = ⌊x⌋ ∧ x - (⌊x⌋ : ℚ) ≤ 1 / 2) ∨ (rne x = ⌊x⌋ + 1 ∧ 1 / 2 ≤ x - (⌊x⌋ : ℚ)) := by
  have hf : x.floor = ⌊x⌋ := rfl
  unfold rne
  simp only [hf]
  by_cases h1 : x - (⌊x⌋ : ℚ) < 1 / 2
  · rw [if_pos h1]; exact Or.inl ⟨rfl, le_of_lt h1⟩
  · rw [if_neg h1]
    by_cases h2 : 1 / 2 < x - (⌊x⌋ : ℚ)
    · rw [if_pos h2]; exact Or.inr ⟨rfl, le_of_lt h2⟩
    · rw [if_neg h2]
      have h3 : x - (⌊x⌋ : ℚ) = 1 / 2 := le_antisymm (not_lt.mp h2) (not_lt.mp h1)
      by_cases h4 : ⌊x⌋ % 2 = 0
      · rw [if_pos h4]; exact Or.inl ⟨rfl, le_of_eq h3⟩
      · rw [if_neg h4]; exact Or.inr ⟨rfl, le_of_eq h3.symm⟩

/-- `d − round(d)` lies in [−½, ½] (same statement as `G.C01.abs_minImg1_le_half`, repeated here so
that this file does not depend on the trajectory model) -/
private theorem abs_minImg1_le_half (d : ℚ) : |minImg1 d| ≤ 1 / 2 := by
  have h1 := Int.floor_le d
  have h2 := Int.lt_floor_add_one d
  unfold minImg1
  rw [abs_le]
  rcases rne_cases d with ⟨h, hr⟩ | ⟨h, hr⟩ <;> rw [h] <;> push_cast <;> constructor <;> linarith

private theorem rne_add_int (d : ℚ) (k : ℤ) (h : ∀ j : ℤ, d ≠ (j : ℚ) + 1 / 2) :
    rne (d + k) = rne d + k := by
  have hfl : ⌊d + (k : ℚ)⌋ = ⌊d⌋ + k := Int.floor_add_intCast d k
  have hne : d - (⌊d⌋ : ℚ) ≠ 1 / 2 := fun he => h ⌊d⌋ (by linarith)
  rcases rne_cases d with ⟨h1, hr1⟩ | ⟨h1, hr1⟩ <;>
    rcases rne_cases (d + k) with ⟨h2, hr2⟩ | ⟨h2, hr2⟩ <;>
    rw [h1, h2, hfl] <;> rw [hfl] at hr2 <;> push_cast at hr2
  · exact absurd (le_antisymm hr1 (by linarith)) hne
  · exact absurd (le_antisymm (by linarith) hr1) hne
  · ring

private theorem minImg1_add_int (d : ℚ) (k : ℤ) (h : ∀ j : ℤ, d ≠ (j : ℚ) + 1 / 2) :
    minImg1 (d + k) = minImg1 d := by
  unfold minImg1
  rw [rne_add_int d k h]
  push_cast
  ring

/-- the images of `v` are the images of its componentwise reduction -/
theorem shiftBy_map (v : V3) (n1 n2 n3 : ℤ) :
    shiftBy v n1 n2 n3 = shiftBy (v.map minImg1) (n1 + rne v.x) (n2 + rne v.y) (n3 + rne v.z) := by
  simp only [shiftBy, V3.map, minImg1, V3.mk.injEq]
  refine ⟨?_, ?_, ?_⟩ <;> push_cast <;> ring

/-- **the model's periodic distance is the true minimum-image distance**: whenever
`minImageSqCert` returns a value, it is the minimum of `Q G (v + n)` over all `n ∈ ℤ³`, attained. -/
theorem minImageSqCert_spec (G : Sym3) (hpd : PosDef G) (v : V3) (m : ℚ)
    (h : minImageSqCert G v = some m) :
    (∀ n1 n2 n3 : ℤ, m ≤ G.Q (shiftBy v n1 n2 n3)) ∧
    (∃ n1 n2 n3 : ℤ, m = G.Q (shiftBy v n1 n2 n3)) := by
  obtain ⟨K, hmK, hcK⟩ := minImageSqAux_some G (v.map minImg1) 8 1 m h
  have hb1 : |(v.map minImg1).x| ≤ 1 / 2 := abs_minImg1_le_half v.x
  have hb2 : |(v.map minImg1).y| ≤ 1 / 2 := abs_minImg1_le_half v.y
  have hb3 : |(v.map minImg1).z| ≤ 1 / 2 := abs_minImg1_le_half v.z
  rw [hmK] at hcK
  have hall := minImage_certified G hpd (v.map minImg1) hb1 hb2 hb3 K hcK
  constructor
  · intro n1 n2 n3
    rw [hmK, shiftBy_map v n1 n2 n3]
    exact hall _ _ _
  · obtain ⟨k1, k2, k3, _, _, _, hk⟩ := boxMin_attained G (v.map minImg1) K
    refine ⟨k1 - rne v.x, k2 - rne v.y, k3 - rne v.z, ?_⟩
    rw [hmK, hk, shiftBy_map v]
    congr 2 <;> ring

theorem Q_neg (G : Sym3) (v : V3) : G.Q (-v) = G.Q v := by
  show G.Q (V3.neg v) = G.Q v
  simp only [Sym3.Q, V3.neg]
  ring

/-- parallelogram law for the quadratic form -/
theorem Q_parallelogram (G : Sym3) (u v : V3) : G.Q (u + v) + G.Q (u - v) = 2 * G.Q u + 2 * G.Q v := by
  show G.Q (V3.add u v) + G.Q (V3.sub u v) = 2 * G.Q u + 2 * G.Q v
  simp only [Sym3.Q, V3.add, V3.sub]
  ring

/-- invariance under whole-cell translations of either point (periodicity) -/
theorem minImageSqCert_shift (G : Sym3) (v : V3) (n1 n2 n3 : ℤ) (hn : ∀ k : ℤ, v.x ≠ k + 1/2 ∧ v.y ≠ k + 1/2 ∧ v.z ≠ k + 1/2) :
    minImageSqCert G (shiftBy v n1 n2 n3) = minImageSqCert G v := by
  have hx : minImg1 (v.x + n1) = minImg1 v.x := minImg1_add_int v.x n1 (fun k => (hn k).1)
  have hy : minImg1 (v.y + n2) = minImg1 v.y := minImg1_add_int v.y n2 (fun k => (hn k).2.1)
  have hz : minImg1 (v.z + n3) = minImg1 v.z := minImg1_add_int v.z n3 (fun k => (hn k).2.2)
  have hmap : (shiftBy v n1 n2 n3).map minImg1 = v.map minImg1 := by
    simp only [shiftBy, V3.map, hx, hy, hz]
  unfold minImageSqCert
  rw [hmap]

/-- the image `n` of `a − b` has the length of the image `−n` of `b − a` -/
theorem Q_shift_swap (G : Sym3) (a b : V3) (n1 n2 n3 : ℤ) :
    G.Q (shiftBy (a - b) n1 n2 n3) = G.Q (shiftBy (b - a) (-n1) (-n2) (-n3)) := by
  show G.Q (shiftBy (V3.sub a b) n1 n2 n3) = G.Q (shiftBy (V3.sub b a) (-n1) (-n2) (-n3))
  simp only [Sym3.Q, shiftBy, V3.sub]
  push_cast
  ring

/-- the periodic distance is symmetric in its two points (when certified) -/
theorem pbcDist_symm (G : Sym3) (hpd : PosDef G) (a b : V3) (m m' : ℚ)
    (h : minImageSqCert G (b - a) = some m) (h' : minImageSqCert G (a - b) = some m') : m = m' := by
  obtain ⟨hle, k1, k2, k3, hk⟩ := minImageSqCert_spec G hpd (b - a) m h
  obtain ⟨hle', j1, j2, j3, hj⟩ := minImageSqCert_spec G hpd (a - b) m' h'
  apply le_antisymm
  · rw [hj, Q_shift_swap]
    exact hle _ _ _
  · rw [hk, Q_shift_swap]
    exact hle' _ _ _

/-- non-vacuity: a strongly triclinic cell -/
example :
    let M : M3 := ⟨⟨6, 0, 0⟩, ⟨9/2, 6, 0⟩, ⟨7/2, 5/2, 7⟩⟩
    minImageSqCert M.metric ⟨3/4, 1/2, 0⟩ = some (153/16) := by
  decide +kernel

end G.Geometry
