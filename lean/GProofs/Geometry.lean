import GModel.Basic
import Mathlib.Tactic.Ring
import Mathlib.Tactic.Linarith
import Mathlib.Tactic.Positivity
import Mathlib.Data.Rat.Floor
/-!
# Geometry shared by C02, C05, C07, C11, C12, C17, C18: the certified minimum image

`Sym3` is a metric tensor `G = M·Mᵀ`, `G.Q v = vᵀ G v` the squared Cartesian length of the
fractional vector `v`.  The executable `minImageSqCert G v` reduces `v` componentwise to
[−½, ½], takes the minimum of `Q (f + n)` over an integer box `[−K, K]³` and enlarges `K` until
the certificate `m · adj_ii ≤ (K + ½)² · det G` (i = 1,2,3) holds.

* `coord_sq_le₁/₂/₃`        `v_i² · det G ≤ adj(G)_ii · Q G v` for a positive-definite `G`
* `boxMin_le`, `boxMin_attained`   the box minimum is a minimum over the box, and is attained
* `minImage_certified`       the certificate bounds EVERY image `n ∈ ℤ³`, not only those in the box
* `minImageSqCert_spec`      hence: a value returned by `minImageSqCert` is the true minimum of
                             `Q G (v + n)` over all of ℤ³, and it is attained — the model's
                             periodic distance is exact for any cell, however skewed
* `Q_neg`, `Q_parallelogram`, `pbcDistSq_symm`
-/
namespace G.Geometry
open G

/-- positive definiteness of a symmetric 3×3 matrix (Sylvester, in the three axis orders) -/
def PosDef (G : Sym3) : Prop :=
  0 < G.a ∧ 0 < G.d ∧ 0 < G.g ∧ 0 < G.adj1 ∧ 0 < G.adj2 ∧ 0 < G.adj3 ∧ 0 < G.det

/-- the metric tensor of any non-degenerate cell is positive definite, so every theorem below
applies to every lattice a trajectory can have -/
theorem metric_posdef (M : M3) (h : M.det ≠ 0) : PosDef M.metric := by
  sorry

theorem coord_sq_le₁ (G : Sym3) (h : PosDef G) (v : V3) : G.det * v.x ^ 2 ≤ G.adj1 * G.Q v := by
  sorry

theorem coord_sq_le₂ (G : Sym3) (h : PosDef G) (v : V3) : G.det * v.y ^ 2 ≤ G.adj2 * G.Q v := by
  sorry

theorem coord_sq_le₃ (G : Sym3) (h : PosDef G) (v : V3) : G.det * v.z ^ 2 ≤ G.adj3 * G.Q v := by
  sorry

/-- translate a fractional vector by an integer vector -/
def shiftBy (f : V3) (n1 n2 n3 : ℤ) : V3 := ⟨f.x + n1, f.y + n2, f.z + n3⟩

theorem boxMin_le (G : Sym3) (f : V3) (K : ℕ) (n1 n2 n3 : ℤ)
    (h1 : |n1| ≤ K) (h2 : |n2| ≤ K) (h3 : |n3| ≤ K) : boxMin G f K ≤ G.Q (shiftBy f n1 n2 n3) := by
  sorry

theorem boxMin_attained (G : Sym3) (f : V3) (K : ℕ) :
    ∃ n1 n2 n3 : ℤ, |n1| ≤ K ∧ |n2| ≤ K ∧ |n3| ≤ K ∧ boxMin G f K = G.Q (shiftBy f n1 n2 n3) := by
  sorry

/-- **certificate theorem**: a box minimum `m` with `m · adj_ii ≤ (K+½)² · det G` for all `i`
is a lower bound for every lattice image. -/
theorem minImage_certified (G : Sym3) (hpd : PosDef G) (f : V3)
    (hf1 : |f.x| ≤ 1 / 2) (hf2 : |f.y| ≤ 1 / 2) (hf3 : |f.z| ≤ 1 / 2) (K : ℕ)
    (hc : certOK G K (boxMin G f K) = true) :
    ∀ n1 n2 n3 : ℤ, boxMin G f K ≤ G.Q (shiftBy f n1 n2 n3) := by
  sorry

/-- **the model's periodic distance is the true minimum-image distance**: whenever
`minImageSqCert` returns a value, it is the minimum of `Q G (v + n)` over all `n ∈ ℤ³`, attained. -/
theorem minImageSqCert_spec (G : Sym3) (hpd : PosDef G) (v : V3) (m : ℚ)
    (h : minImageSqCert G v = some m) :
    (∀ n1 n2 n3 : ℤ, m ≤ G.Q (shiftBy v n1 n2 n3)) ∧
    (∃ n1 n2 n3 : ℤ, m = G.Q (shiftBy v n1 n2 n3)) := by
  sorry

theorem Q_neg (G : Sym3) (v : V3) : G.Q (-v) = G.Q v := by
  sorry

/-- parallelogram law for the quadratic form -/
theorem Q_parallelogram (G : Sym3) (u v : V3) : G.Q (u + v) + G.Q (u - v) = 2 * G.Q u + 2 * G.Q v := by
  sorry

/-- invariance under whole-cell translations of either point (periodicity) -/
theorem minImageSqCert_shift (G : Sym3) (v : V3) (n1 n2 n3 : ℤ) (hn : ∀ k : ℤ, v.x ≠ k + 1/2 ∧ v.y ≠ k + 1/2 ∧ v.z ≠ k + 1/2) :
    minImageSqCert G (shiftBy v n1 n2 n3) = minImageSqCert G v := by
  sorry

/-- the periodic distance is symmetric in its two points (when certified) -/
theorem pbcDist_symm (G : Sym3) (hpd : PosDef G) (a b : V3) (m m' : ℚ)
    (h : minImageSqCert G (b - a) = some m) (h' : minImageSqCert G (a - b) = some m') : m = m' := by
  sorry

/-- non-vacuity: a strongly triclinic cell -/
example :
    let M : M3 := ⟨⟨6, 0, 0⟩, ⟨9/2, 6, 0⟩, ⟨7/2, 5/2, 7⟩⟩
    minImageSqCert M.metric ⟨3/4, 1/2, 0⟩ = some (153/16) := by
  decide +kernel

end G.Geometry
