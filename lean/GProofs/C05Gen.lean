import GGen.FormulasC05
import Mathlib.Tactic.Ring
import Mathlib.Tactic.FieldSimp
import Mathlib.Tactic.Linarith
/-!
# C05 — obligations on the formula slice regenerated from /repo's source (GGen/FormulasC05.lean): `Jumps.jump_diffusivity`

Every theorem here is ABOUT THE GENERATED DEFINITIONS: when the source formula changes, the definition changes with it
and the theorem either still holds (a harmless rewrite) or stops checking (then the check searches for a failing input).
-/
namespace G.C05Gen
open G

theorem jumpDiffusivity_eq (s a dims n t : ℚ) :
    Gen.jumpDiffusivity s a dims n t = s * a ^ 2 / (2 * dims * n * t) := by
  unfold Gen.jumpDiffusivity
  ring

/-- additive over jumps: the diffusivity of a union of jump sets is the sum -/
theorem jumpDiffusivity_add (s₁ s₂ a dims n t : ℚ) :
    Gen.jumpDiffusivity (s₁ + s₂) a dims n t = Gen.jumpDiffusivity s₁ a dims n t + Gen.jumpDiffusivity s₂ a dims n t := by
  unfold Gen.jumpDiffusivity
  ring

/-! ### rates -/

theorem rateMean_eq (m sd nF T P : ℚ) : Gen.rateMean m sd nF T P = m / (nF * (T / P)) := by
  unfold Gen.rateMean
  ring

theorem rateStd_eq (m sd nF T P : ℚ) : Gen.rateStd m sd nF T P = sd / (nF * (T / P)) := by
  unfold Gen.rateStd
  ring

/-- rate × number of diffusing atoms × total time = sum of the per-part counts (`m` = their mean over `P` parts):
the rates are a consistent aggregation of the parts' counters -/
theorem rateMean_times_time (total nF T P sd : ℚ) (hn : nF ≠ 0) (hT : T ≠ 0) (hP : P ≠ 0) :
    Gen.rateMean (total / P) sd nF T P * (nF * T) = total := by
  unfold Gen.rateMean
  field_simp

/-- the time parts are analysed with the same conversion method and minimal residence as the whole -/
theorem split_forwards_settings : Gen.splitForwardsSettings = true := by
  rfl

theorem jump_distances_in_simulation_cell : Gen.jumpDistancesInSimulationCell = true := by
  rfl

/-! ### jump graph: activation energy of an edge and the energy limits -/

theorem effRate_eq (n o t l k q lo hi : ℚ) : Gen.effRate n o t l k q lo hi = n / (o * t) := by
  unfold Gen.effRate; ring

/-- the stored edge attribute is −ln(rate / ν) · k_B T / e, i.e. in electron-volt -/
theorem edgeEnergy_eq (n o t l k q lo hi : ℚ) : Gen.edgeEnergy n o t l k q lo hi = -(l * k) / q := by
  unfold Gen.edgeEnergy; ring

/-- an edge is kept exactly when the STORED energy (the value in eV) lies within the limits -/
theorem edgeKept_iff (n o t l k q lo hi : ℚ) :
    Gen.edgeKept n o t l k q lo hi = true ↔
      lo ≤ Gen.edgeEnergy n o t l k q lo hi ∧ Gen.edgeEnergy n o t l k q lo hi ≤ hi := by
  unfold Gen.edgeKept
  rw [decide_eq_true_eq, edgeEnergy_eq]
  constructor
  · rintro ⟨h1, h2⟩
    exact ⟨by have : ((-l * k) / q) = -(l * k) / q := by ring
              linarith [h1, this.le, this.ge], by have : ((-l * k) / q) = -(l * k) / q := by ring
                                                  linarith [h2, this.le, this.ge]⟩
  · rintro ⟨h1, h2⟩
    exact ⟨by have : ((-l * k) / q) = -(l * k) / q := by ring
              linarith [h1, this.le, this.ge], by have : ((-l * k) / q) = -(l * k) / q := by ring
                                                  linarith [h2, this.le, this.ge]⟩

end G.C05Gen
