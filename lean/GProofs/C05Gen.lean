import GGen.FormulasC05
import Mathlib.Tactic.Ring
import Mathlib.Tactic.FieldSimp
import Mathlib.Tactic.Linarith
/-!
# C05 — obligations on the formula slice regenerated from /repo's source (GGen/FormulasC05.lean): `Jumps.jump_diffusivity`

Every theorem here is ABOUT THE GENERATED DEFINITIONS: when the source formula changes, the definition changes with it
and the theorem either still holds (a harmless rewrite) or stops checking (then the check searches for a failing input).
-/
namespace G.C05Gen
open G

theorem jumpDiffusivity_eq (s a dims n t : ℚ) :
    Gen.jumpDiffusivity s a dims n t = s * a ^ 2 / (2 * dims * n * t) := by
  unfold Gen.jumpDiffusivity
  ring

/-- additive over jumps: the diffusivity of a union of jump sets is the sum -/
theorem jumpDiffusivity_add (s₁ s₂ a dims n t : ℚ) :
    Gen.jumpDiffusivity (s₁ + s₂) a dims n t = Gen.jumpDiffusivity s₁ a dims n t + Gen.jumpDiffusivity s₂ a dims n t := by
  unfold Gen.jumpDiffusivity
  ring

end G.C05Gen
