import GGen.FormulasC05
import Mathlib.Tactic.Ring
import Mathlib.Tactic.FieldSimp
import Mathlib.Tactic.Linarith
/-!
# C05 — obligations on the formula slice regenerated from /repo's source (GGen/FormulasC05.lean): `Jumps.jump_diffusivity`

Every theorem here is ABOUT THE GENERATED DEFINITIONS: when the source formula changes, the definition changes with it
and the theorem either still holds (a harmless rewrite) or stops checking (then the check searches for a failing input).
-/
namespace G.C05Gen
open G

theorem jumpDiffusivity_eq (s a dims n t : ℚ) :
    Gen.jumpDiffusivity s a dims n t = s * a ^ 2 / (2 * dims * n * t) := by
  unfold Gen.jumpDiffusivity
  ring

/-- additive over jumps: the diffusivity of a union of jump sets is the sum -/
theorem jumpDiffusivity_add (s₁ s₂ a dims n t : ℚ) :
    Gen.jumpDiffusivity (s₁ + s₂) a dims n t = Gen.jumpDiffusivity s₁ a dims n t + Gen.jumpDiffusivity s₂ a dims n t := by
  unfold Gen.jumpDiffusivity
  ring


/-! ### rates -/

theorem rateMean_eq (m sd nF T P : ℚ) : Gen.rateMean m sd nF T P = m / (nF * (T / P)) := by
  unfold Gen.rateMean
  ring

theorem rateStd_eq (m sd nF T P : ℚ) : Gen.rateStd m sd nF T P = sd / (nF * (T / P)) := by
  unfold Gen.rateStd
  ring

/-- rate × number of diffusing atoms × total time = sum of the per-part counts (`m` = their mean over `P` parts):
the rates are a consistent aggregation of the parts' counters -/
theorem rateMean_times_time (total nF T P sd : ℚ) (hn : nF ≠ 0) (hT : T ≠ 0) (hP : P ≠ 0) :
    Gen.rateMean (total / P) sd nF T P * (nF * T) = total := by
  unfold Gen.rateMean
  field_simp

theorem rates_count_per_part : Gen.ratesCountPerPart = true := by
  rfl

/-- the time parts are analysed with the same conversion method and minimal residence as the whole -/
theorem split_forwards_settings : Gen.splitForwardsSettings = true := by
  rfl

theorem jump_distances_in_simulation_cell : Gen.jumpDistancesInSimulationCell = true := by
  rfl

end G.C05Gen
