import GModel.OccLabels
import GProofs.C05
import GProofs.C05Lab
import Mathlib.Tactic.Ring
import Mathlib.Tactic.Linarith
import Mathlib.Tactic.FieldSimp
import Mathlib.Data.Rat.Defs
/-!
# C05 (occupancy by label) — `atom_locations` and `occupancy_by_site_type` conserve the occupancies

* `sum_over_labels`            every site carries exactly one label: summing per label and then over the labels is summing over the sites
* `atomLocations_total`        Σ_labels atom_locations = (Σ_sites occupancy) / (number of diffusing atoms)
* `atomLocations_fraction`     … = 1 − (fraction of (frame, atom) entries at no site): the fractions of time at the site types and at
                               no site add up to one
* `occByType_weighted`         Σ_labels (number of sites with the label) × occupancy_by_site_type = Σ_sites occupancy
-/
namespace G.C05Occ
open G G.Counts G.OccLabels

theorem sum_group_weights_rat {α β : Type} [DecidableEq β] (f : α → β) (w : α → ℚ) (ks : List β) (hnd : ks.Nodup)
    (l : List α) (hall : ∀ x ∈ l, f x ∈ ks) :
    (ks.map (fun k => ((l.filter (fun x => f x = k)).map w).sum)).sum = (l.map w).sum := by
  induction l with
  | nil => simp
  | cons x xs ih =>
    have hstep : ∀ k, (((x :: xs).filter (fun x => f x = k)).map w).sum
        = ((xs.filter (fun x => f x = k)).map w).sum + (if f x = k then w x else 0) := by
      intro k
      by_cases h : f x = k <;> simp [h, add_comm]
    simp only [hstep]
    have hsplit : (ks.map (fun k => ((xs.filter (fun x => f x = k)).map w).sum + (if f x = k then w x else 0))).sum
        = (ks.map (fun k => ((xs.filter (fun x => f x = k)).map w).sum)).sum + (ks.map (fun k => if f x = k then w x else 0)).sum := by
      clear ih hall hnd hstep
      induction ks with
      | nil => simp
      | cons k ks ihk => simp only [List.map_cons, List.sum_cons, ihk]; ring
    rw [hsplit, ih (fun y hy => hall y (by simp [hy]))]
    have hone : (ks.map (fun k => if f x = k then w x else 0)).sum = w x := by
      have hx := hall x (by simp)
      clear ih hall hstep hsplit
      induction ks with
      | nil => simp at hx
      | cons k ks ihk =>
        rw [List.nodup_cons] at hnd
        simp only [List.map_cons, List.sum_cons]
        by_cases h : f x = k
        · have hz : (ks.map (fun k => if f x = k then w x else 0)).sum = 0 := by
            apply List.sum_eq_zero
            intro y hy
            simp only [List.mem_map] at hy
            obtain ⟨k', hk', rfl⟩ := hy
            have : f x ≠ k' := fun e => hnd.1 (h ▸ e ▸ hk')
            simp [this]
          rw [if_pos h, hz, add_zero]
        · rw [if_neg h, zero_add]
          exact ihk hnd.2 (by simpa [h] using hx)
    rw [hone]
    simp [add_comm]

/-- every site has exactly one label -/
theorem sum_over_labels (labels : List String) (g : Nat → ℚ) :
    ((labelKeys labels).map (fun a => ((sitesOf labels a).map g).sum)).sum = ((List.range labels.length).map g).sum := by
  unfold labelKeys sitesOf
  apply sum_group_weights_rat (fun k => labels.getD k "") g labels.eraseDups (C05Lab.nodup_eraseDups labels)
  intro k hk
  rw [List.mem_eraseDups]
  have hk' : k < labels.length := List.mem_range.mp hk
  rw [List.getD_eq_getElem?_getD, List.getElem?_eq_getElem hk']
  exact List.getElem_mem hk'

/-- **C05 (atom locations)** -/
theorem atomLocations_total (labels : List String) (states : List Int) (nFrames nFloat : Nat) :
    ((labelKeys labels).map (atomLocation labels states nFrames nFloat)).sum
      = ((List.range labels.length).map (siteOcc states nFrames)).sum / (nFloat : ℚ) := by
  unfold atomLocation
  rw [← sum_over_labels labels (siteOcc states nFrames)]
  generalize labelKeys labels = ks
  induction ks with
  | nil => simp
  | cons k ks ih => simp only [List.map_cons, List.sum_cons, ih]; ring

theorem sum_siteOcc (states : List Int) (nFrames n : Nat) :
    ((List.range n).map (siteOcc states nFrames)).sum
      = (((List.range n).map (fun (k : Nat) => occCount states (k : Int))).sum : ℚ) / (nFrames : ℚ) := by
  unfold siteOcc
  induction (List.range n) with
  | nil => simp
  | cons k ks ih => simp only [List.map_cons, List.sum_cons, ih]; push_cast; ring

/-- **C05 (atom locations add up)**: the fractions of time at the site types plus the fraction at no site are one. -/
theorem atomLocations_fraction (labels : List String) (states : List Int) (nFrames nFloat : Nat)
    (hs : ∀ x ∈ states, -1 ≤ x ∧ x < (labels.length : Int)) (hlen : states.length = nFrames * nFloat)
    (hF : 0 < nFrames) (hA : 0 < nFloat) :
    ((labelKeys labels).map (atomLocation labels states nFrames nFloat)).sum
      + (occCount states (-1) : ℚ) / ((nFrames : ℚ) * (nFloat : ℚ)) = 1 := by
  rw [atomLocations_total, sum_siteOcc]
  have h := C05.occ_sum states labels.length hs
  have hq : ((((List.range labels.length).map (fun (k : Nat) => occCount states (k : Int))).sum : Nat) : ℚ) + (occCount states (-1) : ℚ)
      = (nFrames : ℚ) * (nFloat : ℚ) := by
    have := congrArg (fun (m : Nat) => (m : ℚ)) h
    simp only [Nat.cast_add] at this
    rw [this, hlen]; push_cast; ring
  have hF' : (nFrames : ℚ) ≠ 0 := by positivity
  have hA' : (nFloat : ℚ) ≠ 0 := by positivity
  field_simp
  linarith

/-- **C05 (occupancy by site type)**: weighting each type's mean by its number of sites gives back the total occupancy. -/
theorem occByType_weighted (labels : List String) (states : List Int) (nFrames : Nat) :
    ((labelKeys labels).map (fun a => ((sitesOf labels a).length : ℚ) * occByType labels states nFrames a)).sum
      = ((List.range labels.length).map (siteOcc states nFrames)).sum := by
  rw [← sum_over_labels labels (siteOcc states nFrames)]
  congr 1
  apply List.map_congr_left
  intro a ha
  unfold occByType
  by_cases h0 : ((sitesOf labels a).length : ℚ) = 0
  · have : (sitesOf labels a) = [] := by
      have : (sitesOf labels a).length = 0 := by exact_mod_cast h0
      exact List.length_eq_zero_iff.mp this
    simp [this]
  · field_simp

/-- non-vacuity: sites labelled A, B, A; two atoms, two frames: states [0, 2, -1, 1] -/
example : atomLocation ["A", "B", "A"] [0, 2, -1, 1] 2 2 "A" = 1 / 2 ∧ atomLocation ["A", "B", "A"] [0, 2, -1, 1] 2 2 "B" = 1 / 4 ∧
    occByType ["A", "B", "A"] [0, 2, -1, 1] 2 "A" = 1 / 2 := by decide +kernel

end G.C05Occ
