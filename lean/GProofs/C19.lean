import GModel.Split
import GModel.Jumps
/-!
# C19 — time partitioning conserves states and events

* `arraySplitSizes_sum`, `arraySplit_length`, `arraySplit_flatten`
      `np.array_split` of the state array: n parts whose concatenation is the original
* `binEvents_length`, `binEvents_count`, `binEvents_range`
      `_split_transitions_events` for *any* non-decreasing bin vector: one part per bin, every
      event whose time lies in `[first bin, last bin)` lands in exactly one part, re-based
      to a non-negative offset inside the part
* `trajParts_contiguous`, `trajParts_ordered`, `trajPartsEqual_*`
      `Trajectory.split`: contiguous, non-overlapping, ordered frame ranges; equal length on request
* `run_append_ge`, `jumps_split_subadditive`
      restarting the event → jump machine on a later chunk of an atom's events never produces
      a jump the whole run does not produce: jump counts of parts never add up to more than
      the total of the whole (for every minimal residence, inner-site mode included)
-/
namespace G.C19
open G.Split G.Events G.Jumps

/-! ## state chunks -/

theorem arraySplitSizes_length (n k : Nat) : (arraySplitSizes n k).length = k := by
  simp [arraySplitSizes]

theorem sum_range_aux (c r : Nat) : ∀ k : Nat,
    ((List.range k).map (fun (j : Nat) => c + (if j < r then 1 else 0))).sum = k * c + min r k := by
  intro k
  induction k with
  | zero => simp
  | succ k ih =>
    rw [List.range_succ, List.map_append, List.sum_append, ih, Nat.succ_mul]
    simp only [List.map_cons, List.map_nil, List.sum_cons, List.sum_nil]
    split <;> omega

/-- the part sizes add up to the number of frames -/
theorem arraySplitSizes_sum (n k : Nat) (hk : 0 < k) : (arraySplitSizes n k).sum = n := by
  unfold arraySplitSizes
  rw [sum_range_aux, Nat.min_eq_left (Nat.le_of_lt (Nat.mod_lt n hk))]
  exact Nat.div_add_mod n k

/-- part sizes differ by at most one and come in non-increasing order -/
theorem arraySplitSizes_bounds (n k : Nat) (s : Nat) (hs : s ∈ arraySplitSizes n k) :
    n / k ≤ s ∧ s ≤ n / k + 1 := by
  unfold arraySplitSizes at hs
  rw [List.mem_map] at hs
  obtain ⟨j, _, rfl⟩ := hs
  split <;> omega

theorem chunks_length {α : Type} : ∀ (ss : List Nat) (l : List α), (chunks ss l).length = ss.length := by
  intro ss
  induction ss with
  | nil => intro l; simp [chunks]
  | cons s ss ih => intro l; simp [chunks, ih]

theorem chunks_flatten {α : Type} : ∀ (ss : List Nat) (l : List α),
    (chunks ss l).flatten = l.take ss.sum := by
  intro ss
  induction ss with
  | nil => intro l; simp [chunks]
  | cons s ss ih =>
    intro l
    simp only [chunks, List.flatten_cons, List.sum_cons, ih]
    rw [List.take_add]

theorem arraySplit_length {α : Type} (k : Nat) (l : List α) : (arraySplit k l).length = k := by
  simp [arraySplit, chunks_length, arraySplitSizes_length]

/-- **C19 (states)**: the parts concatenate to the original. -/
theorem arraySplit_flatten {α : Type} (k : Nat) (hk : 0 < k) (l : List α) :
    (arraySplit k l).flatten = l := by
  unfold arraySplit
  rw [chunks_flatten, arraySplitSizes_sum _ _ hk, List.take_length]

/-! ## event bins -/

/-- non-decreasing boundary vector -/
def Mono : List Int → Prop
  | a :: b :: r => a ≤ b ∧ Mono (b :: r)
  | _ => True

theorem pairwise_length : ∀ l : List Int, (pairwise l).length = l.length - 1 := by
  intro l
  induction l with
  | nil => simp [pairwise]
  | cons a r ih =>
    cases r with
    | nil => simp [pairwise]
    | cons b rest =>
      simp only [pairwise, List.length_cons] at ih ⊢
      omega

theorem mono_le_getLast : ∀ (r : List Int) (b : Int), Mono (b :: r) → b ≤ (b :: r).getLast (by simp) := by
  intro r
  induction r with
  | nil => intro b _; simp
  | cons c rest ih =>
    intro b hm
    obtain ⟨h1, h2⟩ := hm
    rw [List.getLast_cons (by simp)]
    exact Int.le_trans h1 (ih c h2)

theorem filter_split {α : Type} (p q r : α → Bool) (hr : ∀ x, r x = (p x || q x))
    (hd : ∀ x, ¬ (p x = true ∧ q x = true)) :
    ∀ l : List α, (l.filter p).length + (l.filter q).length = (l.filter r).length := by
  intro l
  induction l with
  | nil => simp
  | cons x xs ih =>
    have h1 := hr x
    have h2 := hd x
    simp only [List.filter_cons]
    cases hp : p x <;> cases hq : q x <;> simp [hp, hq] at h1 h2 <;> simp [h1] <;> omega

theorem binEvents_length (bins times : List Int) :
    (binEvents bins times).length = bins.length - 1 := by
  simp [binEvents, pairwise_length]

/-- **C19 (events, exactly once)**: for a non-decreasing bin vector the part sizes add up to the
number of events whose time lies in `[first, last)` — no event is duplicated or dropped. -/
theorem binEvents_count (b0 : Int) (bins : List Int) (hm : Mono (b0 :: bins)) (times : List Int) :
    ((binEvents (b0 :: bins) times).map List.length).sum
      = (times.filter (fun t => decide (b0 ≤ t) && decide (t < (b0 :: bins).getLast (by simp)))).length := by
  induction bins generalizing b0 with
  | nil =>
    simp only [binEvents, pairwise, List.map_nil, List.sum_nil, List.getLast_singleton]
    symm
    rw [List.length_eq_zero_iff, List.filter_eq_nil_iff]
    intro t _ h
    rw [Bool.and_eq_true] at h
    have h1 := of_decide_eq_true h.1
    have h2 := of_decide_eq_true h.2
    omega
  | cons b1 rest ih =>
    obtain ⟨h01, hm'⟩ := hm
    have hlast := mono_le_getLast rest b1 hm'
    have ih' := ih b1 hm'
    have hb : binEvents (b0 :: b1 :: rest) times
        = ((times.filter (fun t => decide (b0 ≤ t) && decide (t < b1))).map (fun t => t - b0))
          :: binEvents (b1 :: rest) times := by
      simp [binEvents, pairwise]
    rw [hb, List.map_cons, List.sum_cons, ih', List.length_map]
    rw [List.getLast_cons_cons]
    apply filter_split
    · intro t
      rw [Bool.eq_iff_iff]
      simp
      omega
    · intro t h
      simp at h
      omega

theorem pairwise_fst_ge : ∀ (r : List Int) (b : Int), Mono (b :: r) →
    ∀ p ∈ pairwise (b :: r), b ≤ p.1 := by
  intro r
  induction r with
  | nil => intro b _ p hp; simp [pairwise] at hp
  | cons c rest ih =>
    intro b hm p hp
    obtain ⟨h1, h2⟩ := hm
    simp only [pairwise, List.mem_cons] at hp
    rcases hp with rfl | hp
    · exact Int.le_refl _
    · exact Int.le_trans h1 (ih c h2 p hp)

/-- … and an event time can be in at most one part: the bins are disjoint. -/
theorem pairwise_disjoint (bins : List Int) (hm : Mono bins) (t : Int) :
    ((pairwise bins).filter (fun p => decide (p.1 ≤ t) && decide (t < p.2))).length ≤ 1 := by
  induction bins with
  | nil => simp [pairwise]
  | cons a r ih =>
    cases r with
    | nil => simp [pairwise]
    | cons b rest =>
      obtain ⟨hab, hm'⟩ := hm
      have ih' := ih hm'
      simp only [pairwise, List.filter_cons]
      split
      · rename_i hc
        simp only [Bool.and_eq_true, decide_eq_true_eq] at hc
        have : (pairwise (b :: rest)).filter (fun p => decide (p.1 ≤ t) && decide (t < p.2)) = [] := by
          rw [List.filter_eq_nil_iff]
          intro p hp
          have := pairwise_fst_ge rest b hm' p hp
          simp only [Bool.and_eq_true, decide_eq_true_eq]
          omega
        rw [this]; simp
      · exact ih'

/-- **C19 (re-basing)**: every re-based time is a non-negative offset inside its part. -/
theorem binEvents_range (bins times : List Int) (j : Nat) (p : Int × Int) (part : List Int)
    (hp : (pairwise bins)[j]? = some p) (hpart : (binEvents bins times)[j]? = some part) :
    ∀ x ∈ part, 0 ≤ x ∧ x < p.2 - p.1 := by
  unfold binEvents at hpart
  rw [List.getElem?_map, hp] at hpart
  simp only [Option.map_some, Option.some.injEq] at hpart
  subst hpart
  intro x hx
  simp only [List.mem_map, List.mem_filter, Bool.and_eq_true, decide_eq_true_eq] at hx
  obtain ⟨t, ⟨_, h1, h2⟩, rfl⟩ := hx
  omega

/-! ## trajectory parts -/

theorem pairwise_contiguous : ∀ (iv : List Int) (j : Nat) (p q : Int × Int),
    (pairwise iv)[j]? = some p → (pairwise iv)[j + 1]? = some q → p.2 = q.1 := by
  intro iv
  induction iv with
  | nil => intro j p q hp; simp [pairwise] at hp
  | cons a r ih =>
    cases r with
    | nil => intro j p q hp; simp [pairwise] at hp
    | cons b rest =>
      intro j p q hp hq
      cases j with
      | zero =>
        cases rest with
        | nil => simp [pairwise] at hq
        | cons c rest' =>
          simp [pairwise] at hp hq
          subst hp; subst hq; rfl
      | succ j =>
        simp only [pairwise, List.getElem?_cons_succ] at hp hq
        exact ih j p q hp hq

theorem pairwise_fst_le_snd : ∀ (iv : List Int), Mono iv → ∀ p ∈ pairwise iv, p.1 ≤ p.2 := by
  intro iv
  induction iv with
  | nil => intro _ p hp; simp [pairwise] at hp
  | cons a r ih =>
    cases r with
    | nil => intro _ p hp; simp [pairwise] at hp
    | cons b rest =>
      intro hm p hp
      obtain ⟨h1, h2⟩ := hm
      simp only [pairwise, List.mem_cons] at hp
      rcases hp with rfl | hp
      · exact h1
      · exact ih h2 p hp

/-- **C19 (trajectory parts)**: consecutive parts share their boundary — contiguous, non-overlapping. -/
theorem trajParts_contiguous (iv : List Int) (j : Nat) (p q : Int × Int)
    (hp : (trajParts iv)[j]? = some p) (hq : (trajParts iv)[j + 1]? = some q) : p.2 = q.1 := by
  exact pairwise_contiguous iv j p q hp hq

/-- for a non-decreasing boundary vector every part is a (possibly empty) forward range and the
parts are in chronological order -/
theorem trajParts_ordered (iv : List Int) (hm : Mono iv) :
    (∀ p ∈ trajParts iv, p.1 ≤ p.2) ∧
    (∀ j p q, (trajParts iv)[j]? = some p → (trajParts iv)[j + 1]? = some q → p.1 ≤ q.1) := by
  refine ⟨pairwise_fst_le_snd iv hm, ?_⟩
  intro j p q hp hq
  have h1 := pairwise_contiguous iv j p q hp hq
  have h2 := pairwise_fst_le_snd iv hm p (List.mem_of_getElem? hp)
  omega

theorem trajParts_length (iv : List Int) : (trajParts iv).length = iv.length - 1 := by
  exact pairwise_length iv

/-- `equal_parts=True`: all parts have the same length … -/
theorem trajPartsEqual_same_length (iv : List Int) (len : Int) (p q : Int × Int)
    (hp : p ∈ trajPartsEqual iv len) (hq : q ∈ trajPartsEqual iv len) : p.2 - p.1 = q.2 - q.1 := by
  simp only [trajPartsEqual, List.mem_map] at hp hq
  obtain ⟨a, _, rfl⟩ := hp
  obtain ⟨b, _, rfl⟩ := hq
  simp only
  omega

theorem foldl_min_le : ∀ (ps : List (Int × Int)) (acc : Int),
    ps.foldl (fun acc p => min acc (p.2 - p.1)) acc ≤ acc ∧
    ∀ p ∈ ps, ps.foldl (fun acc p => min acc (p.2 - p.1)) acc ≤ p.2 - p.1 := by
  intro ps
  induction ps with
  | nil => intro acc; simp
  | cons x xs ih =>
    intro acc
    have h := ih (min acc (x.2 - x.1))
    simp only [List.foldl_cons, List.mem_cons]
    refine ⟨by omega, ?_⟩
    intro p hp
    rcases hp with rfl | hp
    · omega
    · exact h.2 p hp

/-- … start where the untrimmed parts start and stay inside them. -/
theorem trajPartsEqual_inside (iv : List Int) (len : Int) (j : Nat) (p q : Int × Int)
    (hp : (trajParts iv)[j]? = some p) (hq : (trajPartsEqual iv len)[j]? = some q) :
    q.1 = p.1 ∧ q.2 ≤ p.2 := by
  unfold trajParts at hp
  simp only [trajPartsEqual, List.getElem?_map, hp, Option.map_some, Option.some.injEq] at hq
  subst hq
  have := (foldl_min_le (pairwise iv) len).2 p (List.mem_of_getElem? hp)
  exact ⟨rfl, Int.add_le_of_le_sub_left this⟩

/-! ## jumps of the parts vs jumps of the whole -/

/-- `a` contains `base ++ b` as a multiset -/
def Ext (base a b : List Jump) : Prop := ∃ extra : List Jump, a.Perm (base ++ b ++ extra)

theorem ext_snoc_left {base a b : List Jump} (c : Jump) (h : Ext base a b) : Ext base (a ++ [c]) b := by
  obtain ⟨ex, h⟩ := h
  exact ⟨ex ++ [c], by rw [← List.append_assoc]; exact h.append_right [c]⟩

theorem ext_snoc_both {base a b : List Jump} (j : Jump) (h : Ext base a b) :
    Ext base (a ++ [j]) (b ++ [j]) := by
  obtain ⟨ex, h⟩ := h
  refine ⟨ex, ?_⟩
  have h1 : (a ++ [j]).Perm (base ++ b ++ ex ++ [j]) := h.append_right [j]
  have h2 : (base ++ b ++ ex ++ [j]).Perm (base ++ (b ++ [j]) ++ ex) := by
    simp only [List.append_assoc]
    exact List.Perm.append_left base (List.Perm.append_left b List.perm_append_comm)
  exact h1.trans h2

/-- blocks 2 + 3 after the `fromevent` update -/
def blk23b (frm : Option Event) (cand : Option Jump) (out : List Jump) (e : Event) : St :=
  match frm with
  | none => ⟨none, cand, out⟩
  | some f =>
    if e.s1 = f.s0 then ⟨none, none, out⟩
    else if e.i1 ≠ -1 then ⟨none, none, out ++ [⟨f.s0, e.s1, f.t, e.t + 1⟩]⟩
    else if e.s1 ≠ f.s1 then ⟨none, some ⟨f.s0, e.s1, f.t, e.t + 1⟩, out⟩
    else ⟨some f, cand, out⟩

theorem blk23_eq (frm0 : Option Event) (cand : Option Jump) (out : List Jump) (e : Event) :
    blk23 frm0 cand out e
      = blk23b (if e.s0 ≠ -1 ∧ e.s0 ≠ e.s1 then some e else frm0) cand out e := rfl

/-- simulation: `A` started from some state with output `base`, `B` started fresh -/
def Sim (base : List Jump) (A B : St) : Prop :=
  ((B.frm = none ∧ B.cand = none ∧ B.out = []) ∨ A.frm = B.frm) ∧
  (B.cand = none ∨ A.cand = B.cand) ∧ Ext base A.out B.out

theorem blk23b_sim (base : List Jump) (frm : Option Event) (e : Event)
    (ca cb : Option Jump) (oa ob : List Jump)
    (hc : cb = none ∨ ca = cb) (ho : Ext base oa ob) :
    Sim base (blk23b frm ca oa e) (blk23b frm cb ob e) := by
  unfold blk23b
  split
  · exact ⟨Or.inr rfl, hc, ho⟩
  · rename_i f
    by_cases h1 : e.s1 = f.s0
    · rw [if_pos h1, if_pos h1]; exact ⟨Or.inr rfl, Or.inl rfl, ho⟩
    · rw [if_neg h1, if_neg h1]
      by_cases h2 : e.i1 ≠ -1
      · rw [if_pos h2, if_pos h2]; exact ⟨Or.inr rfl, Or.inl rfl, ext_snoc_both _ ho⟩
      · rw [if_neg h2, if_neg h2]
        by_cases h3 : e.s1 ≠ f.s1
        · rw [if_pos h3, if_pos h3]; exact ⟨Or.inr rfl, Or.inr rfl, ho⟩
        · rw [if_neg h3, if_neg h3]; exact ⟨Or.inr rfl, hc, ho⟩

theorem blk23b_out_ext (base : List Jump) (frm : Option Event) (e : Event)
    (c : Option Jump) (oa b : List Jump) (ho : Ext base oa b) :
    Ext base (blk23b frm c oa e).out b := by
  unfold blk23b
  split
  · exact ho
  · rename_i f
    by_cases h1 : e.s1 = f.s0
    · rw [if_pos h1]; exact ho
    · rw [if_neg h1]
      by_cases h2 : e.i1 ≠ -1
      · rw [if_pos h2]; exact ext_snoc_left _ ho
      · rw [if_neg h2]
        by_cases h3 : e.s1 ≠ f.s1
        · rw [if_pos h3]; exact ho
        · rw [if_neg h3]; exact ho

theorem blk1_sim (base : List Jump) (mr : Int) (e : Event) (ca cb : Option Jump) (oa ob : List Jump)
    (hc : cb = none ∨ ca = cb) (ho : Ext base oa ob) :
    ((blk1 mr cb ob e).1 = none ∨ (blk1 mr ca oa e).1 = (blk1 mr cb ob e).1) ∧
    Ext base (blk1 mr ca oa e).2 (blk1 mr cb ob e).2 := by
  have key : ∀ c : Option Jump, ((blk1 mr none ob e).1 = none) ∧ Ext base (blk1 mr c oa e).2 (blk1 mr none ob e).2 := by
    intro c
    refine ⟨rfl, ?_⟩
    cases c with
    | none => exact ho
    | some c =>
      simp only [blk1]
      by_cases h1 : (e.t : Int) - (c.t0 : Int) ≥ mr
      · rw [if_pos h1]; exact ext_snoc_left _ ho
      · rw [if_neg h1]
        by_cases h2 : c.d ≠ e.s1
        · rw [if_pos h2]; exact ho
        · rw [if_neg h2]; exact ho
  rcases hc with rfl | rfl
  · exact ⟨Or.inl (key ca).1, (key ca).2⟩
  · cases ca with
    | none => exact ⟨Or.inl rfl, ho⟩
    | some c =>
      simp only [blk1]
      by_cases h1 : (e.t : Int) - (c.t0 : Int) ≥ mr
      · rw [if_pos h1, if_pos h1]; exact ⟨Or.inl rfl, ext_snoc_both _ ho⟩
      · rw [if_neg h1, if_neg h1]
        by_cases h2 : c.d ≠ e.s1
        · rw [if_pos h2, if_pos h2]; exact ⟨Or.inl rfl, ho⟩
        · rw [if_neg h2, if_neg h2]; exact ⟨Or.inr rfl, ho⟩

theorem step_sim (base : List Jump) (mr : Int) (A B : St) (e : Event) (h : Sim base A B) :
    Sim base (step mr A e) (step mr B e) := by
  obtain ⟨hf, hc, ho⟩ := h
  have hb := blk1_sim base mr e A.cand B.cand A.out B.out hc ho
  unfold step
  simp only [blk23_eq]
  rcases hf with ⟨hBf, hBc, hBo⟩ | hf
  · by_cases hl : e.s0 ≠ -1 ∧ e.s0 ≠ e.s1
    · rw [if_pos hl, if_pos hl]
      exact blk23b_sim base _ e _ _ _ _ hb.1 hb.2
    · rw [if_neg hl, if_neg hl, hBf]
      rw [hBc, hBo] at hb ⊢
      refine ⟨Or.inl ⟨rfl, rfl, rfl⟩, Or.inl rfl, ?_⟩
      exact blk23b_out_ext base _ e _ _ _ hb.2
  · rw [hf]
    exact blk23b_sim base _ e _ _ _ _ hb.1 hb.2

theorem run_sim (base : List Jump) (mr : Int) (es : List Event) :
    ∀ A B, Sim base A B → Sim base (run mr A es) (run mr B es) := by
  induction es with
  | nil => intro A B h; exact h
  | cons e es ih => intro A B h; exact ih _ _ (step_sim base mr A B e h)

/-- running the machine on `es` from *any* state emits at least what that state had already
emitted plus what a freshly started machine emits on `es` (as multisets; stated with `List.Perm`
and sublists to stay in core Lean): there is a list `extra` with
`(run mr st es).out ~ st.out ++ (run mr St.init es).out ++ extra`. -/
theorem run_append_ge (mr : Int) (es : List Event) (st : St) :
    ∃ extra : List Jump, ((run mr st es).out).Perm (st.out ++ (run mr St.init es).out ++ extra) := by
  have h := run_sim st.out mr es st St.init
    ⟨Or.inl ⟨rfl, rfl, rfl⟩, Or.inl rfl, ⟨[], by simp [St.init]⟩⟩
  exact h.2.2

/-- **C19 (jump counts)**: cutting one atom's events into two consecutive chunks and restarting
the machine on the second never yields more jumps than the uncut run, for every residence. -/
theorem jumps_split_subadditive (mr : Int) (es1 es2 : List Event) :
    (run mr St.init es1).out.length + (run mr St.init es2).out.length
      ≤ (run mr St.init (es1 ++ es2)).out.length := by
  have hrun : run mr St.init (es1 ++ es2) = run mr (run mr St.init es1) es2 := by
    simp [run, List.foldl_append]
  obtain ⟨extra, h⟩ := run_append_ge mr es2 (run mr St.init es1)
  rw [hrun, h.length_eq]
  simp only [List.length_append]
  omega

/-- the machine does not care about the time origin: shifting every event time by `k` shifts the
jump times by `k` (so re-basing the times of a part does not change its jump count) -/
def shiftE (k : Nat) (e : Event) : Event := { e with t := e.t + k }
def shiftJ (k : Nat) (j : Jump) : Jump := { j with t0 := j.t0 + k, t1 := j.t1 + k }

def shiftSt (k : Nat) (st : St) : St :=
  ⟨st.frm.map (shiftE k), st.cand.map (shiftJ k), st.out.map (shiftJ k)⟩

theorem blk1_shift (mr : Int) (k : Nat) (cand : Option Jump) (out : List Jump) (e : Event) :
    blk1 mr (cand.map (shiftJ k)) (out.map (shiftJ k)) (shiftE k e)
      = ((blk1 mr cand out e).1.map (shiftJ k), (blk1 mr cand out e).2.map (shiftJ k)) := by
  cases cand with
  | none => rfl
  | some c =>
    simp only [blk1, Option.map_some]
    have hg : (((shiftE k e).t : Int) - ((shiftJ k c).t0 : Int) ≥ mr) ↔ ((e.t : Int) - (c.t0 : Int) ≥ mr) := by
      simp only [shiftE, shiftJ]
      omega
    have hd : (shiftJ k c).d = c.d := rfl
    have hs : (shiftE k e).s1 = e.s1 := rfl
    rw [hd, hs]
    by_cases h1 : (e.t : Int) - (c.t0 : Int) ≥ mr
    · rw [if_pos (hg.mpr h1), if_pos h1]; simp
    · rw [if_neg (fun h => h1 (hg.mp h)), if_neg h1]
      by_cases h2 : c.d ≠ e.s1
      · rw [if_pos h2, if_pos h2]; rfl
      · rw [if_neg h2, if_neg h2]; rfl

theorem blk23b_shift (k : Nat) (frm : Option Event) (cand : Option Jump) (out : List Jump) (e : Event) :
    blk23b (frm.map (shiftE k)) (cand.map (shiftJ k)) (out.map (shiftJ k)) (shiftE k e)
      = shiftSt k (blk23b frm cand out e) := by
  cases frm with
  | none => rfl
  | some f =>
    simp only [blk23b, Option.map_some]
    have e1 : (shiftE k e).s1 = e.s1 := rfl
    have e2 : (shiftE k e).i1 = e.i1 := rfl
    have f0 : (shiftE k f).s0 = f.s0 := rfl
    have f1 : (shiftE k f).s1 = f.s1 := rfl
    have hj : (⟨f.s0, e.s1, (shiftE k f).t, (shiftE k e).t + 1⟩ : Jump)
        = shiftJ k ⟨f.s0, e.s1, f.t, e.t + 1⟩ := by
      simp only [shiftE, shiftJ, Jump.mk.injEq, true_and]
      omega
    rw [e1, e2, f0, f1, hj]
    by_cases h1 : e.s1 = f.s0
    · rw [if_pos h1, if_pos h1]; rfl
    · rw [if_neg h1, if_neg h1]
      by_cases h2 : e.i1 ≠ -1
      · rw [if_pos h2, if_pos h2]; simp [shiftSt]
      · rw [if_neg h2, if_neg h2]
        by_cases h3 : e.s1 ≠ f.s1
        · rw [if_pos h3, if_pos h3]; rfl
        · rw [if_neg h3, if_neg h3]; rfl

theorem step_shift (mr : Int) (k : Nat) (st : St) (e : Event) :
    step mr (shiftSt k st) (shiftE k e) = shiftSt k (step mr st e) := by
  unfold step
  simp only [blk23_eq]
  have hif : (if (shiftE k e).s0 ≠ -1 ∧ (shiftE k e).s0 ≠ (shiftE k e).s1 then some (shiftE k e)
        else (shiftSt k st).frm)
      = (if e.s0 ≠ -1 ∧ e.s0 ≠ e.s1 then some e else st.frm).map (shiftE k) := by
    have e0 : (shiftE k e).s0 = e.s0 := rfl
    have e1 : (shiftE k e).s1 = e.s1 := rfl
    rw [e0, e1]
    split <;> rfl
  rw [hif]
  have hb : blk1 mr (shiftSt k st).cand (shiftSt k st).out (shiftE k e)
      = ((blk1 mr st.cand st.out e).1.map (shiftJ k), (blk1 mr st.cand st.out e).2.map (shiftJ k)) :=
    blk1_shift mr k st.cand st.out e
  rw [hb]
  exact blk23b_shift k _ _ _ e

theorem run_shiftSt (mr : Int) (k : Nat) (es : List Event) :
    ∀ st, run mr (shiftSt k st) (es.map (shiftE k)) = shiftSt k (run mr st es) := by
  induction es with
  | nil => intro st; rfl
  | cons e es ih =>
    intro st
    show run mr (step mr (shiftSt k st) (shiftE k e)) (es.map (shiftE k)) = _
    rw [step_shift, ih]
    rfl

theorem run_shift (mr : Int) (k : Nat) (es : List Event) :
    (run mr St.init (es.map (shiftE k))).out = ((run mr St.init es).out).map (shiftJ k) := by
  have h := run_shiftSt mr k es St.init
  have hi : shiftSt k St.init = St.init := rfl
  rw [hi] at h
  rw [h]
  rfl

/-- non-vacuity: a split that really loses the jump spanning the cut -/
example :
    let es := eventsAlgo [0, -1, 1, 1, -1, 2] [0, -1, 1, 1, -1, 2]
    (run 0 St.init es).out.length = 2 ∧
    (run 0 St.init (es.take 1)).out.length + (run 0 St.init (es.drop 1)).out.length = 1 := by decide

example : arraySplitSizes 10 3 = [4, 3, 3] ∧ binEvents [0, 5, 11] [0, 4, 5, 10] = [[0, 4], [0, 5]] := by decide

end G.C19
