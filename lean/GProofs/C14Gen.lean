import GGen.FormulasC14
import GProofs.C14
import Mathlib.Tactic.Linarith
import Mathlib.Tactic.Ring
/-!
# C14 — obligations on the formula slice regenerated from /repo's source (GGen/FormulasC14.lean): derived metrics: formulas and scaling laws

Every theorem here is ABOUT THE GENERATED DEFINITIONS: when the source formula changes, the definition changes with it
and the theorem either still holds (a harmless rewrite) or stops checking (then the check searches for a failing input).
-/
namespace G.C14Gen
open G

theorem tracerDiffusivity_eq (msd a dims t : ℚ) : Gen.tracerDiffusivity msd a dims t = msd * a ^ 2 / (2 * dims * t) := by
  unfold Gen.tracerDiffusivity
  ring

/-- cell scaled by k: squared distances scale with k², so does the diffusivity -/
theorem tracerDiffusivity_scale_cell (k msd a dims t : ℚ) :
    Gen.tracerDiffusivity (k ^ 2 * msd) a dims t = k ^ 2 * Gen.tracerDiffusivity msd a dims t := by
  unfold Gen.tracerDiffusivity
  ring

-- (no `s ≠ 0` needed: over ℚ `x / 0 = 0`, so for `s = 0` both sides are `0`; `ring` proves it for all values)
/-- time step scaled by s: diffusivity divided by s -/
theorem tracerDiffusivity_scale_time (s msd a dims t : ℚ) :
    Gen.tracerDiffusivity msd a dims (s * t) = Gen.tracerDiffusivity msd a dims t / s := by
  unfold Gen.tracerDiffusivity
  ring

-- (no `k ≠ 0` needed, same reason: for `k = 0` both sides are `0`)
/-- cell scaled by k: volume × k³, density / k³ -/
theorem particleDensity_scale_cell (k n vol a : ℚ) :
    Gen.particleDensity n (k ^ 3 * vol) a = Gen.particleDensity n vol a / k ^ 3 := by
  unfold Gen.particleDensity
  ring

theorem particleDensity_pos (n vol a : ℚ) (hn : 0 < n) (hv : 0 < vol) (ha : 0 < a) : 0 < Gen.particleDensity n vol a := by
  unfold Gen.particleDensity
  positivity

theorem molPerLiter_eq (rho NA : ℚ) : Gen.molPerLiter rho NA = rho / 1000 / NA := by
  unfold Gen.molPerLiter
  ring

/-- quadratic in the ion charge, linear in diffusivity and density -/
theorem tracerConductivity_scale_charge (e z D rho kB T c : ℚ) :
    Gen.tracerConductivity e (c * z) D rho kB T = c ^ 2 * Gen.tracerConductivity e z D rho kB T := by
  unfold Gen.tracerConductivity
  ring

theorem tracerConductivity_eq (e z D rho kB T : ℚ) :
    Gen.tracerConductivity e z D rho kB T = e ^ 2 * z ^ 2 * D * rho / (kB * T) := by
  unfold Gen.tracerConductivity
  ring

/-- atoms that all move identically: tracer and centre-of-mass diffusivity coincide, Haven ratio one -/
theorem havenRatio_one (D : ℚ) (hD : D ≠ 0) : Gen.havenRatio D D = 1 := by
  unfold Gen.havenRatio
  exact div_self hD

/-- the Haven ratio does not depend on `dimensions` (both diffusivities carry the same 1/(2 d)) and not on the cell scale -/
theorem havenRatio_scale (c D Dcom : ℚ) (hc : c ≠ 0) : Gen.havenRatio (c * D) (c * Dcom) = Gen.havenRatio D Dcom := by
  unfold Gen.havenRatio
  exact mul_div_mul_left D Dcom hc

theorem com_forwards_dimensions : Gen.comForwardsDimensions = true := by
  rfl

end G.C14Gen
