import GModel.Traj
import Mathlib.Data.Rat.Floor
import Mathlib.Tactic.Linarith
import Mathlib.Tactic.Ring
/-!
# C01 — periodic positions / displacements are exact, wrapped, lattice-shift invariant

Scalar facts (`wrap x = x − ⌊x⌋`, `rne` = round half to even, `minImg1 d = d − rne d`):
`wrap_range`, `wrap_congr`, `wrap_add_int`, `abs_minImg1_le_half`, `minImg1_congr`,
`rne_add_int`, `minImg1_add_int` (under `NoTie`), `tie_counterexample`.

Trajectory level (`GModel.Traj`, frames are flat coordinate lists):
* `positions_in_unit`, `positions_fresh`    reported positions lie in [0,1) and are the input mod 1
* `displacements_fresh_spec`                displacements are minimum-image steps congruent to the
                                            consecutive differences
* `running_sum_reproduces`                  first frame + running sum of the displacements reproduces
                                            every frame modulo 1
* `shift_invariance`                        whole-lattice shifts of any coordinate in any frame change
                                            neither displacements nor anything derived from them (NoTie)
* `wrap_fl_range`, `float_wrap_hits_one`    rounding at the cell face: any monotone rounding keeps
                                            `fl(r+1) ∈ [0,1]`, and binary64 really hits 1.0 at −1e-17
-/
namespace G.C01
open G G.Traj

/-! ## scalars -/

theorem wrap_eq (x : ℚ) : wrap x = x - (⌊x⌋ : ℚ) := rfl

theorem wrap_range (x : ℚ) : 0 ≤ wrap x ∧ wrap x < 1 := by
  have h1 := Int.floor_le x
  have h2 := Int.lt_floor_add_one x
  rw [wrap_eq]
  constructor <;> linarith

theorem wrap_congr (x : ℚ) : ∃ k : ℤ, wrap x = x + k :=
  ⟨-⌊x⌋, by rw [wrap_eq]; push_cast; ring⟩

theorem wrap_add_int (x : ℚ) (k : ℤ) : wrap (x + k) = wrap x := by
  rw [wrap_eq, wrap_eq, Int.floor_add_intCast]
  push_cast
  ring

theorem wrap_wrap (x : ℚ) : wrap (wrap x) = wrap x := by
  obtain ⟨h0, h1⟩ := wrap_range x
  have hf : ⌊wrap x⌋ = 0 := Int.floor_eq_iff.mpr ⟨by simpa using h0, by simpa using h1⟩
  rw [wrap_eq (wrap x), hf]
  simp

/-- the two possible values of `rne x`, with the side of the fractional part -/
theorem rne_cases (x : ℚ) :
    (rne x = ⌊x⌋ ∧ x - (⌊x⌋ : ℚ) ≤ 1 / 2) ∨ (rne x = ⌊x⌋ + 1 ∧ 1 / 2 ≤ x - (⌊x⌋ : ℚ)) := by
  have hf : x.floor = ⌊x⌋ := rfl
  unfold rne
  simp only [hf]
  by_cases h1 : x - (⌊x⌋ : ℚ) < 1 / 2
  · rw [if_pos h1]; exact Or.inl ⟨rfl, le_of_lt h1⟩
  · rw [if_neg h1]
    by_cases h2 : 1 / 2 < x - (⌊x⌋ : ℚ)
    · rw [if_pos h2]; exact Or.inr ⟨rfl, le_of_lt h2⟩
    · rw [if_neg h2]
      have h3 : x - (⌊x⌋ : ℚ) = 1 / 2 := le_antisymm (not_lt.mp h2) (not_lt.mp h1)
      by_cases h4 : ⌊x⌋ % 2 = 0
      · rw [if_pos h4]; exact Or.inl ⟨rfl, le_of_eq h3⟩
      · rw [if_neg h4]; exact Or.inr ⟨rfl, le_of_eq h3.symm⟩

/-- `np.around` rounds to a nearest integer -/
theorem abs_sub_rne_le_half (x : ℚ) : |x - (rne x : ℚ)| ≤ 1 / 2 := by
  have h1 := Int.floor_le x
  have h2 := Int.lt_floor_add_one x
  rw [abs_le]
  rcases rne_cases x with ⟨h, hr⟩ | ⟨h, hr⟩ <;> rw [h] <;> push_cast <;> constructor <;> linarith

/-- a reported displacement component is a minimum-image value … -/
theorem abs_minImg1_le_half (d : ℚ) : |minImg1 d| ≤ 1 / 2 := abs_sub_rne_le_half d

/-- … congruent to the raw difference modulo whole cells -/
theorem minImg1_congr (d : ℚ) : ∃ k : ℤ, minImg1 d = d + k :=
  ⟨-rne d, by unfold minImg1; push_cast; ring⟩

/-- the raw difference is not exactly half a cell away from an integer -/
def NoTie (d : ℚ) : Prop := ∀ k : ℤ, d ≠ (k : ℚ) + 1 / 2

theorem rne_add_int (d : ℚ) (k : ℤ) (h : NoTie d) : rne (d + k) = rne d + k := by
  have hfl : ⌊d + (k : ℚ)⌋ = ⌊d⌋ + k := Int.floor_add_intCast d k
  have hne : d - (⌊d⌋ : ℚ) ≠ 1 / 2 := fun he => h ⌊d⌋ (by linarith)
  rcases rne_cases d with ⟨h1, hr1⟩ | ⟨h1, hr1⟩ <;>
    rcases rne_cases (d + k) with ⟨h2, hr2⟩ | ⟨h2, hr2⟩ <;>
    rw [h1, h2, hfl] <;> rw [hfl] at hr2 <;> push_cast at hr2
  · exact absurd (le_antisymm hr1 (by linarith)) hne
  · exact absurd (le_antisymm (by linarith) hr1) hne
  · ring

theorem minImg1_add_int (d : ℚ) (k : ℤ) (h : NoTie d) : minImg1 (d + k) = minImg1 d := by
  unfold minImg1
  rw [rne_add_int d k h]
  push_cast
  ring

/-- at a tie the minimum image is not unique and round-half-even picks different signs:
0.25 → 0.75 versus 0.25 → 1.75 (`NoTie` is necessary) -/
theorem tie_counterexample : minImg1 ((3 : ℚ) / 4 - 1 / 4) = 1 / 2 ∧ minImg1 ((7 : ℚ) / 4 - 1 / 4) = -1 / 2 := by
  decide +kernel

/-! ## trajectories -/

/-- all frames have `n` coordinates -/
def Rect (c : List Frame) (n : Nat) : Prop := ∀ f ∈ c, f.length = n

/-! ### list helpers -/

theorem length_vadd (a b : Frame) : (vadd a b).length = min a.length b.length := by
  simp [vadd]

theorem length_vsub (a b : Frame) : (vsub a b).length = min a.length b.length := by
  simp [vsub]

theorem getD_vadd (a b : Frame) (j : Nat) (ha : j < a.length) (hb : j < b.length) :
    (vadd a b).getD j 0 = a.getD j 0 + b.getD j 0 := by
  simp [vadd, List.getD_eq_getElem?_getD, List.getElem?_zipWith, List.getElem?_eq_getElem ha,
    List.getElem?_eq_getElem hb]

theorem getD_vsub (a b : Frame) (j : Nat) (ha : j < a.length) (hb : j < b.length) :
    (vsub a b).getD j 0 = a.getD j 0 - b.getD j 0 := by
  simp [vsub, List.getD_eq_getElem?_getD, List.getElem?_zipWith, List.getElem?_eq_getElem ha,
    List.getElem?_eq_getElem hb]

theorem getD_map (g : ℚ → ℚ) (a : Frame) (j : Nat) (ha : j < a.length) :
    (a.map g).getD j 0 = g (a.getD j 0) := by
  simp [List.getD_eq_getElem?_getD, List.getElem?_map, List.getElem?_eq_getElem ha]

theorem getD_eq {α : Type} (l : List α) (d : α) (j : Nat) (h : j < l.length) : l.getD j d = l[j] := by
  simp [List.getD_eq_getElem?_getD, List.getElem?_eq_getElem h]

theorem ext_getD (a b : Frame) (n : Nat) (ha : a.length = n) (hb : b.length = n)
    (h : ∀ j < n, a.getD j 0 = b.getD j 0) : a = b := by
  apply List.ext_getElem (by rw [ha, hb])
  intro j h1 h2
  have := h j (ha ▸ h1)
  rwa [getD_eq _ _ _ h1, getD_eq _ _ _ h2] at this

theorem getD_mem (c : List Frame) (t : Nat) (ht : t < c.length) : c.getD t [] ∈ c := by
  rw [getD_eq _ _ _ ht]
  exact List.getElem_mem ht

theorem length_zerosLike (f : Frame) : (zerosLike f).length = f.length := by
  simp [zerosLike]

theorem getD_zerosLike (f : Frame) (j : Nat) : (zerosLike f).getD j 0 = 0 := by
  simp only [zerosLike, List.getD_eq_getElem?_getD, List.getElem?_map]
  cases f[j]? <;> rfl

theorem zerosLike_congr (f g : Frame) (h : f.length = g.length) : zerosLike f = zerosLike g := by
  apply ext_getD _ _ f.length (length_zerosLike f) (by rw [length_zerosLike, h])
  intro j _
  rw [getD_zerosLike, getD_zerosLike]

theorem diffs_getD : ∀ (rest : List Frame) (p : Frame) (t : Nat), t < rest.length →
    (diffs p rest).getD t [] = (vsub (rest.getD t []) ((p :: rest).getD t [])).map minImg1 := by
  intro rest
  induction rest with
  | nil => intro p t h; simp at h
  | cons g rest ih =>
    intro p t h
    cases t with
    | zero => simp [diffs]
    | succ t =>
      have := ih g t (by simpa using h)
      simpa [diffs] using this

/-- **C01 (unit cell)**: every reported position lies in [0, 1), in whatever state the trajectory is. -/
theorem positions_in_unit (s : TState) : ∀ f ∈ (positions s).2, ∀ v ∈ f, 0 ≤ v ∧ v < 1 := by
  intro f hf v hv
  simp only [positions, toPositions, List.mem_map] at hf
  obtain ⟨g, _, rfl⟩ := hf
  obtain ⟨u, _, rfl⟩ := List.mem_map.mp hv
  exact wrap_range u

/-- **C01 (exact)**: the positions of a freshly built trajectory are its input coordinates modulo 1. -/
theorem positions_fresh (c : List Frame) : (positions (fresh c)).2 = c.map (·.map wrap) := by
  simp [positions, toPositions, fresh]

theorem displacements_fresh (c : List Frame) : (displacements (fresh c)).2 = toDispCoords c := by
  simp [displacements, toDisplacements, fresh]

/-- **C01 (minimum-image steps)**: frame `t+1` of the displacements of a fresh trajectory holds, per
coordinate `j`, a value of absolute size ≤ ½ that differs from `c[t+1][j] − c[t][j]` by an integer;
frame 0 is zero. -/
theorem displacements_fresh_spec (c : List Frame) (n : Nat) (hr : Rect c n) (t j : Nat)
    (ht : t + 1 < c.length) (hj : j < n) :
    let d := ((displacements (fresh c)).2.getD (t + 1) []).getD j 0
    |d| ≤ 1 / 2 ∧ ∃ k : ℤ, d = (c.getD (t + 1) []).getD j 0 - (c.getD t []).getD j 0 + k := by
  intro d
  have h1 : (c.getD (t + 1) []).length = n := hr _ (getD_mem c _ ht)
  have h0 : (c.getD t []).length = n := hr _ (getD_mem c _ (by omega))
  have hd : d = minImg1 ((c.getD (t + 1) []).getD j 0 - (c.getD t []).getD j 0) := by
    show ((displacements (fresh c)).2.getD (t + 1) []).getD j 0 = _
    rw [displacements_fresh]
    cases c with
    | nil => simp at ht
    | cons f rest =>
      have ht' : t < rest.length := by simpa using ht
      simp only [toDispCoords, List.getD_cons_succ] at h1 ⊢
      rw [diffs_getD rest f t ht', getD_map _ _ _ (by rw [length_vsub, h1, h0]; simpa using hj),
        getD_vsub _ _ _ (by rw [h1]; exact hj) (by rw [h0]; exact hj)]
  rw [hd]
  exact ⟨abs_minImg1_le_half _, minImg1_congr _⟩

theorem displacements_fresh_zero (c : List Frame) (f : Frame) (rest : List Frame) (hc : c = f :: rest) :
    (displacements (fresh c)).2.head? = some (f.map (fun _ => (0 : ℚ))) := by
  subst hc
  rw [displacements_fresh]
  rfl

/-- coordinatewise congruence modulo whole cells of two frames of length `n` -/
def Cong (a b : Frame) (n : Nat) : Prop :=
  a.length = n ∧ b.length = n ∧ ∀ j < n, ∃ k : ℤ, a.getD j 0 = b.getD j 0 + k

theorem Cong.map_wrap {a b : Frame} {n : Nat} (h : Cong a b n) : a.map wrap = b.map wrap := by
  obtain ⟨ha, hb, hk⟩ := h
  apply ext_getD _ _ n (by simpa using ha) (by simpa using hb)
  intro j hj
  obtain ⟨k, hk⟩ := hk j hj
  rw [getD_map _ _ _ (ha ▸ hj), getD_map _ _ _ (hb ▸ hj), hk, wrap_add_int]

theorem cong_step {base acc p g : Frame} {n : Nat} (hg : g.length = n) (hbase : base.length = n)
    (hacc : acc.length = n) (h : Cong (vadd base acc) p n) :
    Cong (vadd base (vadd acc ((vsub g p).map minImg1))) g n := by
  obtain ⟨_, hp, hk⟩ := h
  have hd : ((vsub g p).map minImg1).length = n := by simp [length_vsub, hg, hp]
  have ha' : (vadd acc ((vsub g p).map minImg1)).length = n := by rw [length_vadd, hacc, hd]; simp
  refine ⟨by rw [length_vadd, hbase, ha']; simp, hg, ?_⟩
  intro j hj
  obtain ⟨k, hk⟩ := hk j hj
  obtain ⟨m, hm⟩ := minImg1_congr (g.getD j 0 - p.getD j 0)
  rw [getD_vadd _ _ _ (hbase ▸ hj) (by rw [ha']; exact hj),
    getD_vadd _ _ _ (hacc ▸ hj) (by rw [hd]; exact hj), getD_map _ _ _ (by rw [length_vsub, hg, hp]; simpa using hj),
    getD_vsub _ _ _ (hg ▸ hj) (hp ▸ hj), hm]
  rw [getD_vadd _ _ _ (hbase ▸ hj) (hacc ▸ hj)] at hk
  refine ⟨k + m, ?_⟩
  push_cast
  linarith

theorem cumsum_diffs_wrap (base : Frame) (n : Nat) (hbase : base.length = n) :
    ∀ (rest : List Frame) (p acc : Frame), Rect rest n → acc.length = n → Cong (vadd base acc) p n →
      ((cumsumFrom acc (diffs p rest)).map (vadd base)).map (·.map wrap) = rest.map (·.map wrap) := by
  intro rest
  induction rest with
  | nil => intro p acc _ _ _; rfl
  | cons g rest ih =>
    intro p acc hr hacc hc
    have hg : g.length = n := hr g (by simp)
    have hstep := cong_step hg hbase hacc hc
    have hlen : (vadd acc ((vsub g p).map minImg1)).length = n := by
      rw [length_vadd, hacc]; simp [length_vsub, hg, hc.2.1]
    simp only [diffs, cumsumFrom, List.map_cons]
    rw [hstep.map_wrap, ih g _ (fun f hf => hr f (List.mem_cons_of_mem _ hf)) hlen hstep]

theorem vadd_zerosLike (f : Frame) : vadd f (zerosLike f) = f := by
  apply ext_getD _ _ f.length (by simp [length_vadd, length_zerosLike]) rfl
  intro j hj
  rw [getD_vadd _ _ _ hj (by rw [length_zerosLike]; exact hj), getD_zerosLike, add_zero]

theorem vadd_zerosLike_left (f : Frame) : vadd (zerosLike f) f = f := by
  apply ext_getD _ _ f.length (by simp [length_vadd, length_zerosLike]) rfl
  intro j hj
  rw [getD_vadd _ _ _ (by rw [length_zerosLike]; exact hj) hj, getD_zerosLike, zero_add]

/-- **C01 (running sum)**: switching a fresh trajectory to displacements and back — first frame plus
the running sum of the minimum-image steps, wrapped — reproduces every frame modulo 1. -/
theorem running_sum_reproduces (c : List Frame) (n : Nat) (hr : Rect c n) :
    (positions (displacements (fresh c)).1).2 = c.map (·.map wrap) := by
  cases c with
  | nil => rfl
  | cons f rest =>
    have hf : f.length = n := hr f (by simp)
    have hz : (zerosLike f).length = n := by rw [length_zerosLike, hf]
    have h0 : Cong (vadd f (zerosLike f)) f n := by
      rw [vadd_zerosLike]
      exact ⟨hf, hf, fun j _ => ⟨0, by simp⟩⟩
    have key := cumsum_diffs_wrap f n hf rest f (zerosLike f)
      (fun g hg => hr g (List.mem_cons_of_mem _ hg)) hz h0
    show ((cumsum (toDispCoords (f :: rest))).map (vadd f)).map (·.map wrap) = _
    simp only [toDispCoords, cumsum, cumsumFrom, List.map_cons, vadd_zerosLike_left, vadd_zerosLike]
    rw [key]

/-- `c'` is `c` with every coordinate of every frame shifted by a whole number of cells -/
def ShiftOf (c c' : List Frame) : Prop :=
  c.length = c'.length ∧ ∀ t, (c.getD t []).length = (c'.getD t []).length ∧
    ∀ j, ∃ k : ℤ, (c'.getD t []).getD j 0 = (c.getD t []).getD j 0 + k

/-- no consecutive raw difference of `c` is a half-integer -/
def NoTieTraj (c : List Frame) : Prop :=
  ∀ t j, NoTie ((c.getD (t + 1) []).getD j 0 - (c.getD t []).getD j 0)

theorem ShiftOf.cons_inv {f f' : Frame} {r r' : List Frame} (h : ShiftOf (f :: r) (f' :: r')) :
    (f.length = f'.length ∧ ∀ j, ∃ k : ℤ, f'.getD j 0 = f.getD j 0 + k) ∧ ShiftOf r r' :=
  ⟨h.2 0, by simpa using h.1, fun t => h.2 (t + 1)⟩

theorem NoTieTraj.cons_inv {p g : Frame} {r : List Frame} (h : NoTieTraj (p :: g :: r)) :
    (∀ j, NoTie (g.getD j 0 - p.getD j 0)) ∧ NoTieTraj (g :: r) :=
  ⟨fun j => h 0 j, fun t j => h (t + 1) j⟩

theorem diffs_shift (n : Nat) : ∀ (rest rest' : List Frame) (p p' : Frame),
    Rect (p :: rest) n → ShiftOf (p :: rest) (p' :: rest') → NoTieTraj (p :: rest) →
    diffs p' rest' = diffs p rest := by
  intro rest
  induction rest with
  | nil =>
    intro rest' p p' _ hs _
    have hl := hs.1
    cases rest' with
    | nil => rfl
    | cons _ _ => simp at hl
  | cons g rest ih =>
    intro rest' p p' hr hs hn
    cases rest' with
    | nil => have hl := hs.1; simp at hl
    | cons g' rest' =>
      obtain ⟨⟨hpl, hpk⟩, hs'⟩ := hs.cons_inv
      obtain ⟨⟨hgl, hgk⟩, _⟩ := hs'.cons_inv
      obtain ⟨hn0, hn'⟩ := hn.cons_inv
      have hp : p.length = n := hr p (by simp)
      have hg : g.length = n := hr g (by simp)
      have hp' : p'.length = n := by rw [← hpl, hp]
      have hg' : g'.length = n := by rw [← hgl, hg]
      simp only [diffs]
      rw [ih rest' g g' (fun f hf => hr f (List.mem_cons_of_mem _ hf)) hs' hn']
      congr 1
      have hl : (vsub g p).length = n := by rw [length_vsub, hg, hp]; simp
      have hl' : (vsub g' p').length = n := by rw [length_vsub, hg', hp']; simp
      apply ext_getD _ _ n (by simpa using hl') (by simpa using hl)
      intro j hj
      obtain ⟨k1, hk1⟩ := hgk j
      obtain ⟨k2, hk2⟩ := hpk j
      rw [getD_map _ _ _ (by rw [hl']; exact hj), getD_map _ _ _ (by rw [hl]; exact hj),
        getD_vsub _ _ _ (by rw [hg']; exact hj) (by rw [hp']; exact hj),
        getD_vsub _ _ _ (by rw [hg]; exact hj) (by rw [hp]; exact hj), hk1, hk2]
      have he : g.getD j 0 + (k1 : ℚ) - (p.getD j 0 + (k2 : ℚ))
          = (g.getD j 0 - p.getD j 0) + ((k1 - k2 : ℤ) : ℚ) := by push_cast; ring
      rw [he, minImg1_add_int _ _ (hn0 j)]

theorem map_wrap_shift : ∀ (c c' : List Frame), ShiftOf c c' →
    c'.map (·.map wrap) = c.map (·.map wrap) := by
  intro c
  induction c with
  | nil =>
    intro c' hs
    have hl := hs.1
    cases c' with
    | nil => rfl
    | cons _ _ => simp at hl
  | cons f r ih =>
    intro c' hs
    cases c' with
    | nil => have hl := hs.1; simp at hl
    | cons f' r' =>
      obtain ⟨⟨hfl, hfk⟩, hs'⟩ := hs.cons_inv
      have hc : Cong f' f f.length := ⟨hfl.symm, rfl, fun j _ => hfk j⟩
      simp only [List.map_cons]
      rw [hc.map_wrap, ih r' hs']

theorem cumDisp_fresh (c : List Frame) : (cumDisp (fresh c)).2 = cumsum (toDispCoords c) := by
  simp [cumDisp, toDisplacements, fresh]

theorem distSq_fresh (G : Sym3) (c : List Frame) :
    (distSq G (fresh c)).2 = (cumsum (toDispCoords c)).map (fun f => (toV3s f).map G.Q) := by
  simp [distSq, cumDisp, toDisplacements, fresh]

/-- **C01 (shift invariance)**: shifting any coordinate in any frame by whole lattice vectors leaves
the displacements — hence cumulative displacements, distances and everything derived from them —
unchanged. -/
theorem shift_invariance (c c' : List Frame) (n : Nat) (hr : Rect c n) (hs : ShiftOf c c') (hn : NoTieTraj c) :
    (displacements (fresh c')).2 = (displacements (fresh c)).2 ∧
    (cumDisp (fresh c')).2 = (cumDisp (fresh c)).2 ∧
    (∀ G : Sym3, (distSq G (fresh c')).2 = (distSq G (fresh c)).2) ∧
    (positions (fresh c')).2 = (positions (fresh c)).2 := by
  have hd : toDispCoords c' = toDispCoords c := by
    have hl := hs.1
    cases c with
    | nil =>
      cases c' with
      | nil => rfl
      | cons _ _ => simp at hl
    | cons f rest =>
      cases c' with
      | nil => simp at hl
      | cons f' rest' =>
        simp only [toDispCoords]
        rw [diffs_shift n rest rest' f f' hr hs hn, zerosLike_congr f' f hs.cons_inv.1.1.symm]
  refine ⟨?_, ?_, ?_, ?_⟩
  · rw [displacements_fresh, displacements_fresh, hd]
  · rw [cumDisp_fresh, cumDisp_fresh, hd]
  · intro G
    rw [distSq_fresh, distSq_fresh, hd]
  · rw [positions_fresh, positions_fresh]
    exact map_wrap_shift c c' hs

/-! ## rounding at the cell face -/

/-- for ANY rounding operator that is monotone and exact on 0 and 1 (IEEE round-to-nearest is
one), the computed `r + 1` of a coordinate in (−1, 0) stays inside [0, 1]; after mapping 1 to 0
(the repair of defect D1) it lies in [0, 1). -/
theorem wrap_fl_range (fl : ℚ → ℚ) (hmono : ∀ a b, a ≤ b → fl a ≤ fl b) (h0 : fl 0 = 0) (h1 : fl 1 = 1)
    (r : ℚ) (hr0 : -1 < r) (hr1 : r < 0) :
    0 ≤ fl (r + 1) ∧ fl (r + 1) ≤ 1 ∧
    (let p := fl (r + 1); let q := if p ≥ 1 then 0 else p; 0 ≤ q ∧ q < 1) := by
  have hlo : 0 ≤ fl (r + 1) := by
    have := hmono 0 (r + 1) (by linarith)
    rwa [h0] at this
  have hhi : fl (r + 1) ≤ 1 := by
    have := hmono (r + 1) 1 (by linarith)
    rwa [h1] at this
  refine ⟨hlo, hhi, ?_⟩
  show 0 ≤ (if fl (r + 1) ≥ 1 then 0 else fl (r + 1)) ∧ (if fl (r + 1) ≥ 1 then 0 else fl (r + 1)) < 1
  by_cases hp : fl (r + 1) ≥ 1
  · rw [if_pos hp]; exact ⟨le_refl 0, by norm_num⟩
  · rw [if_neg hp]; exact ⟨hlo, not_le.mp hp⟩

/-- binary64 witness (kernel evaluation of `Float`): −1e-17 + 1 rounds to exactly 1.0 -/
theorem float_wrap_hits_one : ((-1e-17 : Float) + 1.0 == 1.0) = true := by
  decide +kernel

/-- non-vacuity: a two-frame trajectory that crosses a face, with a shifted copy -/
example :
    (displacements (fresh [[7/8, 1/4], [1/8, 1/2]])).2 = [[0, 0], [1/4, 1/4]] ∧
    (displacements (fresh [[7/8 + 2, 1/4 - 1], [1/8 - 3, 1/2]])).2 = [[0, 0], [1/4, 1/4]] ∧
    (positions (displacements (fresh [[7/8 + 2, 1/4 - 1], [1/8 - 3, 1/2]])).1).2 = [[7/8, 1/4], [1/8, 1/2]] := by
  decide +kernel

end G.C01
