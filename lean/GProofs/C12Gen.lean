import GGen.PairGuard
import GModel.Collective
/-!
# C12 — the guard chain of the pair scan REGENERATED from the source agrees with the model

`lean/GGen/PairGuard.lean` is rewritten on every run from the `if …: continue / break` statements at
the top of the inner loop of `Collective._compute`.  `inner_cons_gen` shows that the hand-written
`G.Coll.inner` (about which `GProofs/C12.lean` proves soundness and completeness) treats each pair
exactly as the generated guard chain says; in particular no guard may `break` out of the loop.
-/
namespace G.C12Gen
open G.Gen G.Coll

def rowOf (j : J) : PRow := ⟨j.atom, j.o, j.d, j.t0, j.t1⟩

/-- the generated guards never leave the loop early … -/
theorem pairGuard_no_break (ms : Int) (ei ej : PRow) : pairGuard ms ei ej ≠ .brk := by
  unfold pairGuard
  split <;> (try split) <;> (try split) <;> simp

/-- … and the model's inner loop is the generated guard chain followed by the distance test. -/
theorem inner_cons_gen (close : J → J → Bool) (ms : Int) (ei ej : J) (rest : List J) :
    inner close ms ei (ej :: rest) =
      match pairGuard ms (rowOf ei) (rowOf ej) with
      | .cont => inner close ms ei rest
      | .brk => []
      | .test => if close ei ej then (ei, ej) :: inner close ms ei rest else inner close ms ei rest := by
  unfold pairGuard rowOf
  simp only [inner]
  split <;> (try split) <;> (try split) <;> simp_all

end G.C12Gen
