import GModel.Labels
/-!
# C13 (continued) — naming the floating species is equivalent to naming all other species as fixed
-/
namespace G.C13Sel
open G G.Labels

/-- for a symbol that occurs in `species`: it is one of the "other" symbols iff it is not named -/
theorem others_contains (names species : List String) (s : String) (hs : s ∈ species) :
    (others names species).contains s = !names.contains s := by
  unfold others
  cases h : names.contains s with
  | true =>
    simp only [Bool.not_true, List.contains_eq_mem, decide_eq_false_iff_not, List.mem_filter, not_and]
    intro _
    simpa using h
  | false =>
    simp only [Bool.not_false, List.contains_eq_mem, decide_eq_true_eq, List.mem_filter]
    exact ⟨hs, by simpa using h⟩

/-- the two selection forms give the same set of reference atoms -/
theorem floating_eq_fixed_others (names species : List String) :
    floatingMask names species = fixedMask (others names species) species := by
  unfold floatingMask fixedMask
  apply List.map_congr_left
  intro s hs
  rw [others_contains names species s hs]

/-- and conversely: fixing `names` = floating everything else -/
theorem fixed_eq_floating_others (names species : List String) :
    fixedMask names species = floatingMask (others names species) species := by
  unfold floatingMask fixedMask
  apply List.map_congr_left
  intro s hs
  rw [others_contains names species s hs, Bool.not_not]

/-- selection is by whole symbol: with species S, Si the name "Si" does not select S -/
example : fixedMask ["Si"] ["S", "Si", "Li"] = [false, true, false] := by decide
example : floatingMask ["Na"] ["N", "O", "Na"] = [true, true, false] := by decide

theorem mask_length (names species : List String) :
    (fixedMask names species).length = species.length ∧ (floatingMask names species).length = species.length := by
  simp [fixedMask, floatingMask]

end G.C13Sel
