import GModel.Jumps
import GProofs.C03
import GProofs.C04
/-!
# C04, second clause — every strict-mode jump is a default jump and matches the states

With an inner-site fraction below one the inner history satisfies `i_t ∈ {−1, s_t}` (C02).
For every such pair of histories and every minimal residence, each jump the machine reports is
one of the default jumps of the site history (same origin, destination and start time), its
origin is the state at its start time and its destination the state at its stop time.
-/
namespace G.C04
open G.Events G.Jumps

/-- the inner history is pointwise either "none" or the outer site -/
def InnerSub (s i : List Int) : Prop :=
  s.length = i.length ∧ ∀ t, i.getD t (-1) = -1 ∨ i.getD t (-1) = s.getD t (-1)

/-! ### helper notions -/

/-- some default jump of `s` has origin `o`, destination `d` and start frame `t0` -/
def DJ (s : List Int) (o d : Int) (t0 : Nat) : Prop :=
  ∃ j' ∈ defaultJumps s, j'.o = o ∧ j'.d = d ∧ j'.t0 = t0

/-- what the property says about one reported jump -/
def Good (s : List Int) (j : Jump) : Prop :=
  DJ s j.o j.d j.t0 ∧ s.getD j.t0 (-1) = j.o ∧ s.getD j.t1 (-1) = j.d ∧
  j.o ≠ -1 ∧ j.d ≠ -1 ∧ j.o ≠ j.d ∧ j.t0 < j.t1 ∧ j.t1 < s.length

/-- the `last` that `spec` carries after reading value `x` at frame `t` -/
def nl (last : Option (Int × Nat)) (t : Nat) (x : Int) : Option (Int × Nat) :=
  if x = -1 then last else some (x, t)

theorem nl_neg (last : Option (Int × Nat)) (t : Nat) : nl last t (-1) = last := by
  simp [nl]

theorem nl_pos (last : Option (Int × Nat)) (t : Nat) (x : Int) (h : x ≠ -1) :
    nl last t x = some (x, t) := by
  simp [nl, h]

theorem spec_cons_sub (last : Option (Int × Nat)) (t : Nat) (x : Int) (xs : List Int) (j : Jump)
    (h : j ∈ spec (nl last t x) (t + 1) xs) : j ∈ spec last t (x :: xs) := by
  unfold nl at h
  unfold spec
  by_cases hx : x = -1
  · rw [if_pos hx] at h ⊢; exact h
  · rw [if_neg hx] at h ⊢
    cases last with
    | none => exact h
    | some p =>
      obtain ⟨l, tl⟩ := p
      simp only
      by_cases hlx : l ≠ x
      · rw [if_pos hlx]; exact List.mem_cons_of_mem _ h
      · rw [if_neg hlx]; exact h

theorem spec_cons_emit (l : Int) (tl t : Nat) (x : Int) (xs : List Int) (hx : x ≠ -1) (hlx : l ≠ x) :
    (⟨l, x, tl, t⟩ : Jump) ∈ spec (some (l, tl)) t (x :: xs) := by
  unfold spec
  rw [if_neg hx]
  simp only
  rw [if_pos hlx]
  exact List.mem_cons_self

theorem InnerSub.head {a x : Int} {rest irest : List Int} (h : InnerSub (a :: rest) (x :: irest)) :
    x = -1 ∨ x = a := by
  simpa using h.2 0

theorem InnerSub.tail {a x : Int} {rest irest : List Int} (h : InnerSub (a :: rest) (x :: irest)) :
    InnerSub rest irest := by
  refine ⟨by simpa using h.1, ?_⟩
  intro t
  simpa using h.2 (t + 1)

theorem drop_facts (s : List Int) (t : Nat) (a : Int) (rest : List Int) (h : s.drop t = a :: rest) :
    s.getD t (-1) = a ∧ t < s.length ∧ s.drop (t + 1) = rest := by
  have hlt : t < s.length := by
    by_cases hl : t < s.length
    · exact hl
    · have : s.drop t = [] := List.drop_eq_nil_of_le (by omega)
      rw [this] at h; cases h
  refine ⟨?_, hlt, ?_⟩
  · have h0 : (s.drop t)[0]? = some a := by rw [h]; rfl
    rw [List.getElem?_drop] at h0
    simp at h0
    simp [List.getD_eq_getElem?_getD, h0]
  · have : (s.drop t).tail = s.drop (t + 1) := List.tail_drop
    rw [← this, h]; rfl

/-- invariant of the pending leave event `f` at frame `t` (state `a`) -/
def FInv (s : List Int) (a : Int) (t : Nat) (f : Event) (last : Option (Int × Nat)) : Prop :=
  f.s0 ≠ -1 ∧ f.s0 ≠ f.s1 ∧ a = f.s1 ∧ s.getD f.t (-1) = f.s0 ∧ f.t < t ∧
  (f.s1 = -1 → last = some (f.s0, f.t)) ∧ (f.s1 ≠ -1 → DJ s f.s0 f.s1 f.t)

/-- invariant of the machine state after frame `t` (state `a`), `last` being what `spec` carries -/
structure SInv (s : List Int) (a : Int) (t : Nat) (st : St) (last : Option (Int × Nat)) : Prop where
  out : ∀ j ∈ st.out, Good s j
  cand : ∀ c, st.cand = some c → Good s c
  frm : ∀ f, st.frm = some f → FInv s a t f last
  last : a ≠ -1 → last = some (a, t)

theorem blk1_pres (P : Jump → Prop) (mr : Int) (cand : Option Jump) (out : List Jump) (e : Event)
    (ho : ∀ j ∈ out, P j) (hc : ∀ c, cand = some c → P c) :
    (∀ j ∈ (blk1 mr cand out e).2, P j) ∧ (∀ c, (blk1 mr cand out e).1 = some c → P c) := by
  cases cand with
  | none => rw [blk1_none]; exact ⟨ho, (by intro c h; cases h)⟩
  | some c =>
    have hPc : P c := hc c rfl
    by_cases h1 : (e.t : Int) - (c.t0 : Int) ≥ mr
    · rw [blk1_commit _ _ _ _ h1]
      refine ⟨?_, (by intro c h; cases h)⟩
      intro j hj
      rcases List.mem_append.mp hj with hj | hj
      · exact ho j hj
      · simp at hj; rw [hj]; exact hPc
    · by_cases hd : c.d ≠ e.s1
      · rw [blk1_drop _ _ _ _ h1 hd]; exact ⟨ho, (by intro c h; cases h)⟩
      · rw [blk1_keep _ _ _ _ h1 hd]; exact ⟨ho, hc⟩

/-- blocks 2–3 once the effective `fromevent` is known -/
def core (f : Event) (cand : Option Jump) (out : List Jump) (e : Event) : St :=
  if e.s1 = f.s0 then ⟨none, none, out⟩
  else if e.i1 ≠ -1 then ⟨none, none, out ++ [⟨f.s0, e.s1, f.t, e.t + 1⟩]⟩
  else if e.s1 ≠ f.s1 then ⟨none, some ⟨f.s0, e.s1, f.t, e.t + 1⟩, out⟩
  else ⟨some f, cand, out⟩

theorem blk23_new (frm0 : Option Event) (cand : Option Jump) (out : List Jump) (e : Event)
    (h : e.s0 ≠ -1 ∧ e.s0 ≠ e.s1) : blk23 frm0 cand out e = core e cand out e := by
  unfold blk23 core
  simp only
  rw [if_pos h]

theorem blk23_old_some (f : Event) (cand : Option Jump) (out : List Jump) (e : Event)
    (h : ¬ (e.s0 ≠ -1 ∧ e.s0 ≠ e.s1)) : blk23 (some f) cand out e = core f cand out e := by
  unfold blk23 core
  simp only
  rw [if_neg h]

theorem blk23_old_none (cand : Option Jump) (out : List Jump) (e : Event)
    (h : ¬ (e.s0 ≠ -1 ∧ e.s0 ≠ e.s1)) : blk23 none cand out e = ⟨none, cand, out⟩ := by
  unfold blk23
  simp only
  rw [if_neg h]

theorem core_inv (s : List Int) (t : Nat) (a b x y : Int) (f : Event) (cand : Option Jump)
    (out : List Jump) (last : Option (Int × Nat))
    (hsb : s.getD (t + 1) (-1) = b) (hlen : t + 1 < s.length) (hy : y = -1 ∨ y = b)
    (ho : ∀ j ∈ out, Good s j) (hc : ∀ c, cand = some c → Good s c)
    (f0 : f.s0 ≠ -1) (f01 : f.s0 ≠ f.s1) (fget : s.getD f.t (-1) = f.s0) (ft : f.t < t + 1)
    (P1 : b ≠ -1 → b ≠ f.s0 → DJ s f.s0 b f.t)
    (P2 : b ≠ f.s1 → y = -1 → b ≠ -1)
    (P3 : b = f.s1 → f.s1 = -1 → nl last (t + 1) b = some (f.s0, f.t)) :
    SInv s b (t + 1) (core f cand out ⟨t, a, b, x, y⟩) (nl last (t + 1) b) := by
  have hlast : b ≠ -1 → nl last (t + 1) b = some (b, t + 1) := nl_pos _ _ _
  have mk : b ≠ -1 → b ≠ f.s0 → Good s ⟨f.s0, b, f.t, t + 1⟩ := by
    intro hb hbf
    exact ⟨P1 hb hbf, fget, hsb, f0, hb, fun h => hbf h.symm, ft, hlen⟩
  unfold core
  simp only
  by_cases h1 : b = f.s0
  · rw [if_pos h1]
    exact ⟨ho, (by intro c h; cases h), (by intro f h; cases h), hlast⟩
  · rw [if_neg h1]
    by_cases h2 : y ≠ -1
    · rw [if_pos h2]
      have hyb : y = b := by rcases hy with h | h; exact absurd h h2; exact h
      have hb : b ≠ -1 := by rw [← hyb]; exact h2
      refine ⟨?_, (by intro c h; cases h), (by intro f h; cases h), hlast⟩
      intro j hj
      rcases List.mem_append.mp hj with hj | hj
      · exact ho j hj
      · simp at hj; rw [hj]; exact mk hb h1
    · rw [if_neg h2]
      have hy1 : y = -1 := by simpa using h2
      by_cases h3 : b ≠ f.s1
      · rw [if_pos h3]
        have hb : b ≠ -1 := P2 h3 hy1
        refine ⟨ho, ?_, (by intro f h; cases h), hlast⟩
        intro c hc'
        simp at hc'; rw [← hc']; exact mk hb h1
      · rw [if_neg h3]
        have hbf : b = f.s1 := by simpa using h3
        refine ⟨ho, hc, ?_, hlast⟩
        intro f' hf'
        simp at hf'; subst hf'
        refine ⟨f0, f01, hbf, fget, ft, P3 hbf, ?_⟩
        intro hne
        rw [← hbf]
        exact P1 (by rw [hbf]; exact hne) h1

theorem step_inv (mr : Int) (s : List Int) (t : Nat) (a b x y : Int) (st : St)
    (last : Option (Int × Nat))
    (hsa : s.getD t (-1) = a) (hsb : s.getD (t + 1) (-1) = b) (hlen : t + 1 < s.length)
    (hy : y = -1 ∨ y = b)
    (hE : ∀ l tl, b ≠ -1 → last = some (l, tl) → l ≠ b → DJ s l b tl)
    (inv : SInv s a t st last) :
    SInv s b (t + 1) (step mr st ⟨t, a, b, x, y⟩) (nl last (t + 1) b) := by
  obtain ⟨frm, cand, out⟩ := st
  obtain ⟨io, ic, ifr, il⟩ := inv
  simp only at io ic ifr il
  unfold step
  simp only
  obtain ⟨ho, hc⟩ := blk1_pres (Good s) mr cand out ⟨t, a, b, x, y⟩ io ic
  generalize (blk1 mr cand out ⟨t, a, b, x, y⟩).1 = cand' at ho hc ⊢
  generalize (blk1 mr cand out ⟨t, a, b, x, y⟩).2 = out' at ho ⊢
  by_cases hnew : a ≠ -1 ∧ a ≠ b
  · rw [blk23_new _ _ _ _ hnew]
    have hl : last = some (a, t) := il hnew.1
    apply core_inv s t a b x y ⟨t, a, b, x, y⟩ cand' out' last hsb hlen hy ho hc
    · exact hnew.1
    · exact hnew.2
    · exact hsa
    · exact Nat.lt_succ_self t
    · intro hb hba; exact hE a t hb hl (fun h => hba h.symm)
    · intro h; exact absurd rfl h
    · intro _ hb1
      have : b = -1 := hb1
      rw [this, nl_neg]; exact hl
  · cases frm with
    | none =>
      rw [blk23_old_none _ _ _ hnew]
      exact ⟨ho, hc, (by intro f h; cases h), nl_pos _ _ _⟩
    | some f =>
      rw [blk23_old_some _ _ _ _ hnew]
      obtain ⟨f0, f01, haf, fget, ft, fl, fd⟩ := ifr f rfl
      have hab : a = -1 ∨ a = b := by
        by_cases h : a = -1
        · exact Or.inl h
        · by_cases h' : a = b
          · exact Or.inr h'
          · exact absurd ⟨h, h'⟩ hnew
      apply core_inv s t a b x y f cand' out' last hsb hlen hy ho hc f0 f01 fget (by omega)
      · intro hb hbf
        by_cases hf1 : f.s1 = -1
        · exact hE f.s0 f.t hb (fl hf1) (fun h => hbf h.symm)
        · have : a = b := by
            rcases hab with h | h
            · rw [haf] at h; exact absurd h hf1
            · exact h
          rw [← this, haf]; exact fd hf1
      · intro hbf1 _ hb
        rcases hab with h | h
        · rw [haf] at h; rw [hb] at hbf1; exact hbf1 h.symm
        · rw [← haf] at hbf1; exact hbf1 h.symm
      · intro hbf hf1
        rw [hbf, hf1, nl_neg]; exact fl hf1

theorem noev_inv (s : List Int) (t : Nat) (a : Int) (st : St) (last : Option (Int × Nat))
    (inv : SInv s a t st last) : SInv s a (t + 1) st (nl last (t + 1) a) := by
  obtain ⟨io, ic, ifr, il⟩ := inv
  refine ⟨io, ic, ?_, nl_pos _ _ _⟩
  intro f hf
  obtain ⟨f0, f01, haf, fget, ft, fl, fd⟩ := ifr f hf
  refine ⟨f0, f01, haf, fget, by omega, ?_, fd⟩
  intro hf1
  rw [haf, hf1, nl_neg]; exact fl hf1

theorem run_good (mr : Int) (s : List Int) :
    ∀ (rest irest : List Int) (a x : Int) (t : Nat) (st : St) (last : Option (Int × Nat)),
      s.drop t = a :: rest → InnerSub (a :: rest) (x :: irest) →
      (∀ j' ∈ spec last (t + 1) rest, j' ∈ defaultJumps s) →
      SInv s a t st last →
      ∀ j ∈ (run mr st (eventsSpec t (a :: rest) (x :: irest))).out, Good s j := by
  intro rest
  induction rest with
  | nil =>
    intro irest a x t st last _ _ _ inv
    simp only [eventsSpec, run, List.foldl_nil]
    exact inv.out
  | cons b rest ih =>
    intro irest a x t st last hdrop hsub hfut inv
    cases irest with
    | nil => have := hsub.1; simp at this
    | cons y irest =>
      obtain ⟨hsa, _, hdrop'⟩ := drop_facts s t a (b :: rest) hdrop
      obtain ⟨hsb, hlen, _⟩ := drop_facts s (t + 1) b rest hdrop'
      have hsub' := hsub.tail
      have hy := hsub'.head
      have hfut' : ∀ j' ∈ spec (nl last (t + 1) b) (t + 1 + 1) rest, j' ∈ defaultJumps s :=
        fun j' h => hfut j' (spec_cons_sub _ _ _ _ _ h)
      by_cases hev : a ≠ b ∨ x ≠ y
      · have hes : eventsSpec t (a :: b :: rest) (x :: y :: irest)
            = ⟨t, a, b, x, y⟩ :: eventsSpec (t + 1) (b :: rest) (y :: irest) := by
          simp only [eventsSpec]; rw [if_pos hev]; rfl
        rw [hes]
        show ∀ j ∈ (run mr (step mr st ⟨t, a, b, x, y⟩) (eventsSpec (t + 1) (b :: rest) (y :: irest))).out, Good s j
        apply ih irest b y (t + 1) _ (nl last (t + 1) b) hdrop' hsub' hfut'
        apply step_inv mr s t a b x y st last hsa hsb hlen hy _ inv
        intro l tl hb hl hlb
        subst hl
        exact ⟨_, hfut _ (spec_cons_emit l tl (t + 1) b rest hb hlb), rfl, rfl, rfl⟩
      · have hes : eventsSpec t (a :: b :: rest) (x :: y :: irest)
            = eventsSpec (t + 1) (b :: rest) (y :: irest) := by
          simp only [eventsSpec]; rw [if_neg hev]; rfl
        rw [hes]
        have hab : a = b := by
          by_cases h : a = b
          · exact h
          · exact absurd (Or.inl h) hev
        subst hab
        exact ih irest a y (t + 1) st (nl last (t + 1) a) hdrop' hsub' hfut' (noev_inv s t a st last inv)

/-- **C04 (strict modes)** -/
theorem strict_subset_default (mr : Int) (s i : List Int) (h : InnerSub s i) (j : Jump)
    (hj : j ∈ jumpsOfHistory mr s i) :
    (∃ j' ∈ defaultJumps s, j'.o = j.o ∧ j'.d = j.d ∧ j'.t0 = j.t0) ∧
    s.getD j.t0 (-1) = j.o ∧ s.getD j.t1 (-1) = j.d ∧
    j.o ≠ -1 ∧ j.d ≠ -1 ∧ j.o ≠ j.d ∧ j.t0 < j.t1 ∧ j.t1 < s.length := by
  unfold jumpsOfHistory jumpsOfEvents at hj
  rw [G.C03.eventsAlgo_eq_spec s i h.1] at hj
  have hj' := (List.mem_filter.mp hj).1
  show Good s j
  cases s with
  | nil => simp [eventsSpec, run, St.init] at hj'
  | cons a rest =>
    cases i with
    | nil => have := h.1; simp at this
    | cons x irest =>
      refine run_good mr (a :: rest) rest irest a x 0 St.init (nl none 0 a) rfl h ?_ ?_ j hj'
      · intro j' hj'
        exact spec_cons_sub none 0 a rest j' hj'
      · exact ⟨(by intro j h; cases h), (by intro c h; cases h), (by intro f h; cases h), nl_pos _ _ _⟩

/-- non-vacuity: an inner-mode history on which the machine reports a jump later than the default one -/
example : InnerSub [0, 1, 1, 1] [0, -1, -1, 1] ∧
    jumpsOfHistory 0 [0, 1, 1, 1] [0, -1, -1, 1] = [⟨0, 1, 0, 3⟩] ∧
    defaultJumps [0, 1, 1, 1] = [⟨0, 1, 0, 1⟩] := by
  refine ⟨⟨rfl, ?_⟩, by decide, by decide⟩
  intro t
  match t with
  | 0 => right; rfl
  | 1 => left; rfl
  | 2 => left; rfl
  | 3 => right; rfl
  | (n + 4) => left; rfl

end G.C04
