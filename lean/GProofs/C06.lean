import GModel.Traj
import Mathlib.Tactic.Ring
import Mathlib.Tactic.Linarith
import Mathlib.Tactic.Positivity
import Mathlib.Algebra.BigOperators.Group.Finset.Basic
import Mathlib.Algebra.BigOperators.Ring.Finset
/-!
# C06 — mean squared displacement and tracer diffusivity equal their definitions

* `msdAlgo_eq_def`   the quantity the code computes — `S1 − 2·S2`, with `S1` from the
                     `insert / flip / cumsum` recursion over the squared positions and `S2` the
                     autocorrelation sum — equals the definition: the average over all time origins
                     `k` of `|r(k+m) − r(k)|²`, for every track and every lag `m < N`
* `msdDef_zero`      … hence zero at lag 0
* `msdDef_nonneg`
* `metric_Q_eq_cart` the metric-tensor length of a fractional vector is the squared Cartesian
                     length of `v·M` (distance from the start = Cartesian length of the unwrapped
                     displacement, for every cell)
* `det_metric`       det(M·Mᵀ) = det(M)²
-/
namespace G.C06
open G G.Traj

theorem list_range_sum (f : Nat → Rat) (n : Nat) :
    ((List.range n).map f).sum = ∑ i ∈ Finset.range n, f i := by
  induction n with
  | zero => simp
  | succ n ih =>
    rw [List.range_succ, List.map_append, List.sum_append, ih, Finset.sum_range_succ]
    simp

theorem sqLen_sub (a b : V3) : sqLen (a - b) = sqLen a + sqLen b - 2 * b.dot a := by
  have h : a - b = V3.sub a b := rfl
  rw [h]
  simp only [sqLen, V3.dot, V3.sub]
  ring

theorem sqLen_nonneg (a : V3) : 0 ≤ sqLen a := by
  simp only [sqLen, V3.dot]
  nlinarith [mul_self_nonneg a.x, mul_self_nonneg a.y, mul_self_nonneg a.z]

/-- the cumulative-sum recursion for S1 -/
theorem S1_recursion (D : Nat → Rat) (N : Nat) : ∀ m, m ≤ N →
    2 * ∑ k ∈ Finset.range N, D k - ∑ j ∈ Finset.range m, (D j + D (N - 1 - j))
      = ∑ k ∈ Finset.range (N - m), (D k + D (k + m)) := by
  intro m
  induction m with
  | zero =>
    intro _
    simp [two_mul, Finset.sum_add_distrib]
  | succ m ih =>
    intro hm
    have ihm := ih (by omega)
    have hN : N - m = (N - (m + 1)) + 1 := by omega
    have step2 : ∑ k ∈ Finset.range (N - m), (D k + D (k + m))
        = ∑ k ∈ Finset.range (N - (m + 1)), (D k + D (k + (m + 1))) + (D m + D (N - 1 - m)) := by
      rw [hN, Finset.sum_range_succ]
      simp only [Finset.sum_add_distrib]
      have shift : ∑ k ∈ Finset.range (N - (m + 1) + 1), D (k + m)
          = D m + ∑ k ∈ Finset.range (N - (m + 1)), D (k + (m + 1)) := by
        rw [Finset.sum_range_succ']
        simp only [zero_add]
        rw [add_comm]
        congr 1
        apply Finset.sum_congr rfl
        intro k _; congr 1; omega
      have e1 : ∑ k ∈ Finset.range (N - (m + 1)), D (k + m) + D (N - (m + 1) + m)
          = ∑ k ∈ Finset.range (N - (m + 1) + 1), D (k + m) := by
        rw [Finset.sum_range_succ]
      have hlast : N - (m + 1) + m = N - 1 - m + m := by omega
      have hidx : N - 1 - m = N - (m + 1) := by omega
      rw [hidx]
      linarith [shift, e1]
    rw [Finset.sum_range_succ]
    linarith [ihm, step2]

theorem algo_general (n m : Nat) (D : Nat → Rat) (x : Nat → V3) (hm : m < n) (hDn : D n = 0)
    (hD : ∀ k, k < n → D k = sqLen (x k)) :
    (2 * ((List.range n).map D).sum
        - ((List.range (m + 1)).map
            (fun (j : Nat) => (if j = 0 then 0 else D (j - 1)) + D (n - j))).sum) / ((n - m : Nat) : Rat)
      - 2 * (((List.range (n - m)).map (fun (k : Nat) => (x k).dot (x (k + m)))).sum
          / ((n - m : Nat) : Rat))
    = ((List.range (n - m)).map (fun (k : Nat) => sqLen (x (k + m) - x k))).sum
        / ((n - m : Nat) : Rat) := by
  simp only [list_range_sum]
  have hcs : ∑ j ∈ Finset.range (m + 1), ((if j = 0 then 0 else D (j - 1)) + D (n - j))
      = ∑ j ∈ Finset.range m, (D j + D (n - 1 - j)) := by
    rw [Finset.sum_range_succ']
    simp only [Nat.add_eq_zero_iff, one_ne_zero, and_false, if_false, if_true, Nat.add_sub_cancel,
      Nat.sub_zero, hDn, add_zero]
    apply Finset.sum_congr rfl
    intro j _
    have : n - (j + 1) = n - 1 - j := by omega
    rw [this]
  have hrec := S1_recursion D n m (by omega)
  have hterms : ∑ k ∈ Finset.range (n - m), sqLen (x (k + m) - x k)
      = ∑ k ∈ Finset.range (n - m), (D k + D (k + m))
        - 2 * ∑ k ∈ Finset.range (n - m), (x k).dot (x (k + m)) := by
    rw [Finset.mul_sum, ← Finset.sum_sub_distrib]
    apply Finset.sum_congr rfl
    intro k hk
    have hk' : k < n - m := Finset.mem_range.mp hk
    rw [sqLen_sub, hD k (by omega), hD (k + m) (by omega)]
    ring
  rw [hcs, hrec, hterms]
  ring

/-- **C06 (MSD)**: algorithm = definition, for every Cartesian track and every lag. -/
theorem msdAlgo_eq_def (r : List V3) (m : Nat) (hm : m < r.length) : msdAlgo r m = msdDef r m :=
  algo_general r.length m (fun k => if k < r.length then sqLen (r.getD k V3.zero) else 0)
    (fun k => r.getD k V3.zero) hm (by simp) (by intro k hk; simp [hk])

/-- **C06 (lag 0)** -/
theorem msdDef_zero (r : List V3) : msdDef r 0 = 0 := by
  unfold msdDef
  have h : ∀ a : V3, sqLen (a - a) = 0 := by
    intro a; rw [sqLen_sub]; simp only [sqLen]; ring
  simp [h]

theorem msdDef_nonneg (r : List V3) (m : Nat) : 0 ≤ msdDef r m := by
  unfold msdDef
  simp only [list_range_sum]
  apply div_nonneg
  · exact Finset.sum_nonneg (fun k _ => sqLen_nonneg _)
  · exact Nat.cast_nonneg _

/-- **C06 (distance)**: `vᵀ (M Mᵀ) v = |v M|²`. -/
theorem metric_Q_eq_cart (M : M3) (v : V3) : M.metric.Q v = sqLen (M.cart v) := by
  simp only [M3.metric, M3.cart, Sym3.Q, V3.dot, sqLen]
  ring

theorem det_metric (M : M3) : M.metric.det = M.det ^ 2 := by
  simp only [M3.metric, Sym3.det, M3.det, V3.dot]
  ring

/-- the quadratic form of a metric tensor is non-negative -/
theorem metric_Q_nonneg (M : M3) (v : V3) : 0 ≤ M.metric.Q v := by
  rw [metric_Q_eq_cart]
  exact sqLen_nonneg _

/-- non-vacuity: a three-frame track in a skewed cell -/
example :
    let M : M3 := ⟨⟨2, 0, 0⟩, ⟨1, 2, 0⟩, ⟨0, 0, 3⟩⟩
    let r := [M.cart ⟨0, 0, 0⟩, M.cart ⟨1/2, 1/4, 0⟩, M.cart ⟨3/2, 1/2, 1/3⟩]
    msdAlgo r 1 = msdDef r 1 ∧ msdDef r 1 = 65/16 ∧ msdDef r 2 = 57/4 := by
  decide +kernel

end G.C06
