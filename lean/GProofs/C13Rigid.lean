import GModel.Traj
import GProofs.C01
import GProofs.C15
import GProofs.C13
/-!
# C13, rigid drift: adding a rigid, time-dependent translation before correcting changes nothing

`addDelta c Δ` adds the translation `Δ_t` to every atom of frame `t` (`Δ_0 = 0`).  If the raw
per-frame steps of the translated trajectory stay below half a cell (`SmallRaw`: positions modulo 1
cannot represent more), the corrected trajectory — stored displacements and base positions — is
the same as for the untranslated one.
-/
namespace G.C13
open G G.Traj G.C01

/-- add the same vector to every atom of a frame -/
def shiftFrame (f : Frame) (d : V3) : Frame := (toV3s f).flatMap (fun v => (v + d).toList)

def addDelta (c : List Frame) (delta : List V3) : List Frame := List.zipWith shiftFrame c delta

/-- per-frame increments of the injected translation: δ_0 = Δ_0, δ_t = Δ_t − Δ_{t−1} -/
def increments : V3 → List V3 → List V3
  | _, [] => []
  | prev, d :: ds => (d - prev) :: increments d ds

/-- every raw step of the source plus the injected increment stays strictly inside half a cell -/
def SmallRaw (c : List Frame) (delta : List V3) : Prop :=
  ∀ p ∈ List.zip (displacements (fresh c)).2 (increments V3.zero delta), ∀ v ∈ shiftFrame p.1 p.2, |v| < 1 / 2


/-! ### helper lemmas -/

theorem shiftFrame_eq (f : Frame) (d : V3) :
    shiftFrame f d = flat ((toV3s f).map (fun v => v + d)) := by
  simp [shiftFrame, flat, List.flatMap_map]

theorem shiftFrame_flat (A : List V3) (d : V3) :
    shiftFrame (flat A) d = flat (A.map (fun v => v + d)) := by
  rw [shiftFrame_eq, toV3s_flat]

theorem length_shiftFrame (f : Frame) (d : V3) (h : 3 ∣ f.length) :
    (shiftFrame f d).length = f.length := by
  obtain ⟨A, rfl⟩ := exists_flat f h
  rw [shiftFrame_flat, flat_length, flat_length, List.length_map]

theorem v3_add_x (a b : V3) : (a + b).x = a.x + b.x := rfl
theorem v3_add_y (a b : V3) : (a + b).y = a.y + b.y := rfl
theorem v3_add_z (a b : V3) : (a + b).z = a.z + b.z := rfl

theorem v3_add_zero (v : V3) : v + V3.zero = v := by
  cases v
  show V3.mk _ _ _ = _
  simp [V3.zero]

theorem shiftFrame_zero (f : Frame) (h : 3 ∣ f.length) : shiftFrame f V3.zero = f := by
  rw [shiftFrame_eq]
  have : (toV3s f).map (fun v => v + V3.zero) = toV3s f := by
    conv_rhs => rw [← List.map_id (toV3s f)]
    apply List.map_congr_left
    intro v _
    exact v3_add_zero v
  rw [this, flat_toV3s f h]

theorem zipWith_shiftFrame_zero : ∀ (rest : List Frame), (∀ f ∈ rest, 3 ∣ f.length) →
    List.zipWith shiftFrame rest (List.replicate rest.length V3.zero) = rest := by
  intro rest
  induction rest with
  | nil => intro _; rfl
  | cons g rest ih =>
    intro h
    rw [List.length_cons, List.replicate_succ, List.zipWith_cons_cons, shiftFrame_zero g (h g (by simp)),
      ih (fun f hf => h f (List.mem_cons_of_mem _ hf))]

theorem rect_zipWith_shiftFrame (n : Nat) (h3 : 3 ∣ n) : ∀ (rest : List Frame) (ds : List V3),
    Rect rest n → Rect (List.zipWith shiftFrame rest ds) n := by
  intro rest
  induction rest with
  | nil => intro ds _ f hf; simp at hf
  | cons g rest ih =>
    intro ds hr f hf
    cases ds with
    | nil => simp at hf
    | cons d ds =>
      rw [List.zipWith_cons_cons, List.mem_cons] at hf
      rcases hf with hf | hf
      · rw [hf, length_shiftFrame g d (by rw [hr g (by simp)]; exact h3)]
        exact hr g (by simp)
      · exact ih ds (fun f hf => hr f (List.mem_cons_of_mem _ hf)) f hf

theorem length_increments : ∀ (l : List V3) (p : V3), (increments p l).length = l.length := by
  intro l
  induction l with
  | nil => intro p; rfl
  | cons d ds ih => intro p; simp [increments, ih]

/-- all three components below half a cell -/
def Small3 (v : V3) : Prop := |v.x| < 1 / 2 ∧ |v.y| < 1 / 2 ∧ |v.z| < 1 / 2

theorem small3_of_flat (S : List V3) (h : ∀ v ∈ flat S, |v| < 1 / 2) : ∀ w ∈ S, Small3 w := by
  intro w hw
  have hm : ∀ v ∈ w.toList, v ∈ flat S := by
    intro v hv
    unfold flat
    rw [List.mem_flatMap]
    exact ⟨w, hw, hv⟩
  exact ⟨h _ (hm _ (by simp [V3.toList])), h _ (hm _ (by simp [V3.toList])), h _ (hm _ (by simp [V3.toList]))⟩

/-- one coordinate: the step re-derived from the wrapped translated positions is the raw
minimum-image step plus the increment of the translation -/
theorem scalar_step (a b dg dp : ℚ) (h : |minImg1 (a - b) + (dg - dp)| < 1 / 2) :
    minImg1 (wrap (a + dg) - wrap (b + dp)) = minImg1 (a - b) + (dg - dp) := by
  obtain ⟨k1, h1⟩ := wrap_congr (a + dg)
  obtain ⟨k2, h2⟩ := wrap_congr (b + dp)
  obtain ⟨k3, h3⟩ := minImg1_congr (a - b)
  have e : wrap (a + dg) - wrap (b + dp) = (minImg1 (a - b) + (dg - dp)) + ((k1 - k2 - k3 : ℤ) : ℚ) := by
    rw [h1, h2, h3]
    push_cast
    ring
  rw [e, minImg1_small_shift _ _ h]

theorem v3_step (a b dg dp : V3)
    (h : Small3 (V3.map minImg1 (v3zip (fun x y => x - y) a b) + (dg - dp))) :
    V3.map minImg1 (v3zip (fun x y => x - y) (V3.map wrap (a + dg)) (V3.map wrap (b + dp)))
      = V3.map minImg1 (v3zip (fun x y => x - y) a b) + (dg - dp) := by
  obtain ⟨hx, hy, hz⟩ := h
  show V3.mk _ _ _ = V3.mk _ _ _
  congr 1
  · exact scalar_step _ _ _ _ hx
  · exact scalar_step _ _ _ _ hy
  · exact scalar_step _ _ _ _ hz

theorem list_step (dg dp : V3) : ∀ (A B : List V3),
    (∀ w ∈ ((List.zipWith (v3zip (fun x y => x - y)) A B).map (V3.map minImg1)).map (fun v => v + (dg - dp)),
      Small3 w) →
    (List.zipWith (v3zip (fun x y => x - y)) ((A.map (fun v => v + dg)).map (V3.map wrap))
        ((B.map (fun v => v + dp)).map (V3.map wrap))).map (V3.map minImg1)
      = ((List.zipWith (v3zip (fun x y => x - y)) A B).map (V3.map minImg1)).map (fun v => v + (dg - dp)) := by
  intro A
  induction A with
  | nil => intro B _; simp
  | cons a A ih =>
    intro B h
    cases B with
    | nil => simp
    | cons b B =>
      simp only [List.map_cons, List.zipWith_cons_cons] at h ⊢
      rw [v3_step a b dg dp (h _ (by simp)), ih B (fun w hw => h w (List.mem_cons_of_mem _ hw))]

/-- one frame: the displacement frame re-derived from the wrapped translated positions is the raw
displacement frame shifted by the increment of the translation -/
theorem frame_step (n : Nat) (h3 : 3 ∣ n) (g p : Frame) (hg : g.length = n) (hp : p.length = n)
    (dg dp : V3) (h : ∀ v ∈ shiftFrame ((vsub g p).map minImg1) (dg - dp), |v| < 1 / 2) :
    (vsub ((shiftFrame g dg).map wrap) ((shiftFrame p dp).map wrap)).map minImg1
      = shiftFrame ((vsub g p).map minImg1) (dg - dp) := by
  obtain ⟨A, rfl⟩ := exists_flat g (by rw [hg]; exact h3)
  obtain ⟨B, rfl⟩ := exists_flat p (by rw [hp]; exact h3)
  simp only [vsub, zipWith_flat, map_flat, shiftFrame_flat] at h ⊢
  rw [list_step dg dp A B (small3_of_flat _ h)]

/-- step (a): all displacement frames after the first -/
theorem diffs_rigid (n : Nat) (h3 : 3 ∣ n) : ∀ (rest : List Frame) (ds : List V3) (p : Frame) (dp : V3),
    p.length = n → Rect rest n →
    (∀ q ∈ List.zip (diffs p rest) (increments dp ds), ∀ v ∈ shiftFrame q.1 q.2, |v| < 1 / 2) →
    diffs ((shiftFrame p dp).map wrap) ((List.zipWith shiftFrame rest ds).map (·.map wrap))
      = List.zipWith shiftFrame (diffs p rest) (increments dp ds) := by
  intro rest
  induction rest with
  | nil => intro ds p dp _ _ _; rfl
  | cons g rest ih =>
    intro ds p dp hp hr h
    cases ds with
    | nil => rfl
    | cons d ds =>
      have hg : g.length = n := hr g (by simp)
      simp only [List.zipWith_cons_cons, List.map_cons, diffs, increments, List.zip_cons_cons] at h ⊢
      rw [frame_step n h3 g p hg hp d dp (h _ List.mem_cons_self),
        ih ds g d hg (fun f hf => hr f (List.mem_cons_of_mem _ hf))
          (fun q hq => h q (List.mem_cons_of_mem _ hq))]

/-! ### steps (b) and (c) -/

theorem sum_map_add (l : List ℚ) (c : ℚ) : (l.map (· + c)).sum = l.sum + l.length * c := by
  induction l with
  | nil => simp
  | cons a l ih =>
    simp only [List.map_cons, List.sum_cons, List.length_cons, ih]
    push_cast
    ring

theorem mean_map_add (l : List ℚ) (hne : l ≠ []) (c : ℚ) : mean (l.map (· + c)) = mean l + c := by
  have hl : (l.length : ℚ) ≠ 0 := by
    have : l.length ≠ 0 := fun h => hne (List.eq_nil_of_length_eq_zero h)
    exact_mod_cast this
  unfold mean
  rw [sum_map_add, List.length_map, add_div, mul_div_cancel_left₀ _ hl]

/-- step (b): the mean of a non-empty selection moves with a rigid shift -/
theorem meanV_shift (S : List V3) (hS : S ≠ []) (d : V3) :
    meanV (S.map (fun v => v + d)) = meanV S + d := by
  have hx : (S.map (fun v => v + d)).map (·.x) = (S.map (·.x)).map (· + d.x) := by
    rw [List.map_map, List.map_map]; apply List.map_congr_left; intro v _; rfl
  have hy : (S.map (fun v => v + d)).map (·.y) = (S.map (·.y)).map (· + d.y) := by
    rw [List.map_map, List.map_map]; apply List.map_congr_left; intro v _; rfl
  have hz : (S.map (fun v => v + d)).map (·.z) = (S.map (·.z)).map (· + d.z) := by
    rw [List.map_map, List.map_map]; apply List.map_congr_left; intro v _; rfl
  have hne : ∀ g : V3 → ℚ, S.map g ≠ [] := by intro g; simpa using hS
  show V3.mk _ _ _ = V3.mk _ _ _
  rw [hx, hy, hz, mean_map_add _ (hne _), mean_map_add _ (hne _), mean_map_add _ (hne _)]
  rfl

/-- steps (b)+(c): the corrected frame does not see a rigid shift -/
theorem corrected_frame_shift (m : List Bool) (f : Frame) (d : V3) (h3 : 3 ∣ f.length)
    (hs : sel m (toV3s f) ≠ []) :
    subDrift (shiftFrame f d) (meanAll (maskFrame m (shiftFrame f d)))
      = subDrift f (meanAll (maskFrame m f)) := by
  obtain ⟨A, rfl⟩ := exists_flat f h3
  rw [toV3s_flat] at hs
  rw [shiftFrame_flat, subDrift_eq, subDrift_eq, maskFrame_eq, maskFrame_eq, meanAll_eq, meanAll_eq]
  simp only [toV3s_flat]
  rw [sel_map, meanV_shift _ hs, List.map_map]
  congr 1
  apply List.map_congr_left
  intro v _
  show V3.mk _ _ _ = V3.mk _ _ _
  simp only [v3_add_x, v3_add_y, v3_add_z]
  congr 1 <;> ring

theorem map_zipWith_shift (n : Nat) (h3 : 3 ∣ n) (m : List Bool) (hsel : NonEmptySel m n) :
    ∀ (T : List Frame) (ds : List V3), Rect T n → ds.length = T.length →
    (List.zipWith shiftFrame T ds).map (fun f => subDrift f (meanAll (maskFrame m f)))
      = T.map (fun f => subDrift f (meanAll (maskFrame m f))) := by
  intro T
  induction T with
  | nil => intro ds _ _; simp
  | cons f T ih =>
    intro ds hr hl
    cases ds with
    | nil => simp at hl
    | cons d ds =>
      have hf : f.length = n := hr f (by simp)
      have hs : sel m (toV3s f) ≠ [] := by
        obtain ⟨a, ha, hm⟩ := hsel
        obtain ⟨A, rfl⟩ := exists_flat f (by rw [hf]; exact h3)
        rw [toV3s_flat]
        rw [flat_length] at hf
        exact sel_ne_nil m A a (by omega) hm
      simp only [List.zipWith_cons_cons, List.map_cons]
      rw [corrected_frame_shift m f d (by rw [hf]; exact h3) hs,
        ih ds (fun f hf => hr f (List.mem_cons_of_mem _ hf)) (by simpa using hl)]

/-- **C13 (rigid drift invariance)** -/
theorem rigid_drift_invariant (n : Nat) (mask : List Bool) (c : List Frame) (delta : List V3)
    (hr : Rect c n) (h3 : 3 ∣ n) (hne : c ≠ []) (hlen : delta.length = c.length) (h0 : delta.head? = some V3.zero)
    (hsel : NonEmptySel mask n) (hsmall : SmallRaw c delta)
    (hsmall0 : SmallRaw c (List.replicate c.length V3.zero)) :
    (applyDrift (some mask) (fresh (addDelta c delta))).2.coords = (applyDrift (some mask) (fresh c)).2.coords ∧
    (applyDrift (some mask) (fresh (addDelta c delta))).2.base = (applyDrift (some mask) (fresh c)).2.base := by
  cases c with
  | nil => exact absurd rfl hne
  | cons f0 rest =>
    cases delta with
    | nil => simp at hlen
    | cons d0 ds =>
      have hd0 : d0 = V3.zero := by simpa using h0
      subst hd0
      have hf0 : f0.length = n := hr f0 (by simp)
      have hf03 : 3 ∣ f0.length := by rw [hf0]; exact h3
      have hrest : Rect rest n := fun f hf => hr f (List.mem_cons_of_mem _ hf)
      have hrest3 : ∀ f ∈ rest, 3 ∣ f.length := fun f hf => by rw [hrest f hf]; exact h3
      have hds : ds.length = rest.length := by simpa using hlen
      have hadd : addDelta (f0 :: rest) (V3.zero :: ds) = f0 :: List.zipWith shiftFrame rest ds := by
        show shiftFrame f0 V3.zero :: _ = _
        rw [shiftFrame_zero f0 hf03]
      have hrect' : Rect (addDelta (f0 :: rest) (V3.zero :: ds)) n := by
        rw [hadd]
        intro f hf
        rw [List.mem_cons] at hf
        rcases hf with hf | hf
        · rw [hf]; exact hf0
        · exact rect_zipWith_shiftFrame n h3 rest ds hrest f hf
      -- the raw displacement frames
      have hraw : (displacements (fresh (f0 :: rest))).2 = zerosLike f0 :: diffs f0 rest := rfl
      -- unpack the smallness hypotheses
      have hs1 : ∀ q ∈ List.zip (diffs f0 rest) (increments V3.zero ds),
          ∀ v ∈ shiftFrame q.1 q.2, |v| < 1 / 2 := by
        intro q hq
        apply hsmall q
        rw [hraw]
        simp only [increments, List.zip_cons_cons]
        exact List.mem_cons_of_mem _ hq
      have hs0 : ∀ q ∈ List.zip (diffs f0 rest) (increments V3.zero (List.replicate rest.length V3.zero)),
          ∀ v ∈ shiftFrame q.1 q.2, |v| < 1 / 2 := by
        intro q hq
        apply hsmall0 q
        rw [hraw, List.length_cons, List.replicate_succ]
        simp only [increments, List.zip_cons_cons]
        exact List.mem_cons_of_mem _ hq
      -- step (a) for the translated and for the untranslated trajectory
      have ha1 := diffs_rigid n h3 rest ds f0 V3.zero hf0 hrest hs1
      have ha0 := diffs_rigid n h3 rest (List.replicate rest.length V3.zero) f0 V3.zero hf0 hrest hs0
      rw [shiftFrame_zero f0 hf03] at ha1 ha0
      rw [zipWith_shiftFrame_zero rest hrest3] at ha0
      have hD1 : toDispCoords (absPos (fresh (addDelta (f0 :: rest) (V3.zero :: ds))))
          = zerosLike (f0.map wrap) :: List.zipWith shiftFrame (diffs f0 rest) (increments V3.zero ds) := by
        rw [G.C15.absPos_fresh, hadd]
        simp only [List.map_cons, toDispCoords]
        rw [ha1]
      have hD0 : toDispCoords (absPos (fresh (f0 :: rest)))
          = zerosLike (f0.map wrap) :: List.zipWith shiftFrame (diffs f0 rest)
              (increments V3.zero (List.replicate rest.length V3.zero)) := by
        rw [G.C15.absPos_fresh]
        simp only [List.map_cons, toDispCoords]
        rw [ha0]
      have hrd : Rect (diffs f0 rest) n := G.C15.rect_diffs n rest f0 hf0 hrest
      constructor
      · rw [applyDrift_some_eq n mask _ (G.C15.fresh_wf _ n hrect' (by rw [hadd]; simp)) h3,
          applyDrift_some_eq n mask _ (G.C15.fresh_wf _ n hr hne) h3]
        simp only
        rw [hD1, hD0, List.map_cons, List.map_cons,
          map_zipWith_shift n h3 mask hsel _ _ hrd (by rw [length_increments, length_diffs, hds]),
          map_zipWith_shift n h3 mask hsel _ _ hrd
            (by rw [length_increments, length_diffs, List.length_replicate])]
      · rw [corrected_base, corrected_base, hadd]
        rfl

/-- non-vacuity: two reference atoms and one floating atom, a translation of 1/16 along x in frame 1 -/
example :
    let c : List Frame := [[1/8, 0, 0, 1/2, 0, 0, 7/8, 0, 0], [1/4, 0, 0, 1/2, 0, 0, 1/8, 0, 0]]
    let d : List V3 := [V3.zero, ⟨1/16, 0, 0⟩]
    (applyDrift (some [true, true, false]) (fresh (addDelta c d))).2.coords
      = (applyDrift (some [true, true, false]) (fresh c)).2.coords := by
  decide +kernel

end G.C13
