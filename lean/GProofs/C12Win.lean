import GGen.FormulasC12
import Mathlib.Data.Rat.Floor
import Mathlib.Tactic.Linarith
import Mathlib.Tactic.Ring
import Mathlib.Tactic.Positivity
/-!
# C12 — obligations on the formula slice regenerated from /repo's source (GGen/FormulasC12.lean):
the correlation window of `Jumps.collective` and what is handed to `Collective`
-/
namespace G.C12Win
open G

theorem ceilZ_spec (x : ℚ) : x ≤ (ceilZ x : ℚ) ∧ (ceilZ x : ℚ) < x + 1 := by
  have hf : (-x).floor = ⌊-x⌋ := rfl
  have h1 := Int.floor_le (-x)
  have h2 := Int.lt_floor_add_one (-x)
  unfold ceilZ
  rw [hf]
  push_cast
  constructor <;> linarith

/-- the window is the smallest whole number of time steps covering one attempt period 1/ν -/
theorem maxSteps_spec (f dt : ℚ) (hf : 0 < f) (hdt : 0 < dt) :
    1 / f ≤ (Gen.maxSteps f dt : ℚ) * dt ∧ ((Gen.maxSteps f dt : ℚ) - 1) * dt < 1 / f := by
  have hfd : 0 < f * dt := mul_pos hf hdt
  have hx : ∀ y : ℚ, y = 1 / (f * dt) → y * dt = 1 / f := by
    intro y hy
    rw [hy]
    field_simp
  have key : ∀ y : ℚ, y = 1 / (f * dt) →
      1 / f ≤ (ceilZ y : ℚ) * dt ∧ ((ceilZ y : ℚ) - 1) * dt < 1 / f := by
    intro y hy
    obtain ⟨h1, h2⟩ := ceilZ_spec y
    rw [← hx y hy]
    constructor
    · exact mul_le_mul_of_nonneg_right h1 hdt.le
    · exact mul_lt_mul_of_pos_right (by linarith) hdt
  unfold Gen.maxSteps
  exact key _ (by ring)

theorem maxSteps_pos (f dt : ℚ) (hf : 0 < f) (hdt : 0 < dt) : 1 ≤ Gen.maxSteps f dt := by
  obtain ⟨_, h2⟩ := maxSteps_spec f dt hf hdt
  have hpos : 0 < 1 / f := by positivity
  have h3 : (0 : ℚ) < (Gen.maxSteps f dt : ℚ) := by
    by_contra hc
    have hc' : (Gen.maxSteps f dt : ℚ) ≤ 0 := not_lt.mp hc
    nlinarith
  have h4 : (0 : Int) < Gen.maxSteps f dt := by exact_mod_cast h3
  omega

example : Gen.maxSteps (1 / 10) 2 = 5 := by decide +kernel
example : Gen.maxSteps (1 / 11) 2 = 6 := by decide +kernel

/-- site distances of the collective analysis are minimum-image distances of the SIMULATION cell -/
theorem collective_uses_simulation_cell : Gen.collectiveUsesSimulationCell = true := by
  rfl

theorem collective_forwards_arguments : Gen.collectiveForwardsArguments = true := by
  rfl

end G.C12Win
