import GGen.FormulasC17
import GModel.Shape
import GProofs.C17
import Mathlib.Data.Rat.Floor
import Mathlib.Tactic.Linarith
import Mathlib.Tactic.Ring
/-!
# C17 — obligations on the formula slice regenerated from /repo's source (GGen/FormulasC17.lean):
selection and re-imaging in `ShapeAnalyzer.find_equivalent_positions`
-/
namespace G.C17Gen
open G

/-- the generated re-imaging in closed form, whatever the parenthesisation -/
theorem reimage_eq (c s : ℚ) : Gen.reimage c s = c - (rne (c - s) : ℚ) := by
  unfold Gen.reimage
  ring

/-- per coordinate the generated re-imaging is the model's (`Shape.reimage`), so `C17.reimage_is_short_image` applies -/
theorem reimage_eq_model (sym p : V3) :
    (⟨Gen.reimage p.x sym.x, Gen.reimage p.y sym.y, Gen.reimage p.z sym.z⟩ : V3) = Shape.reimage sym p := by
  unfold Shape.reimage
  rw [reimage_eq, reimage_eq, reimage_eq]

/-- the re-imaged coordinate differs from the original by a whole number of cells … -/
theorem reimage_congr (c s : ℚ) : ∃ k : ℤ, Gen.reimage c s = c + k :=
  ⟨-rne (c - s), by rw [reimage_eq]; push_cast; ring⟩

/-- … and lies within half a cell of the symmetry image of the site -/
theorem reimage_near (c s : ℚ) : |Gen.reimage c s - s| ≤ 1 / 2 := by
  have h := C01.abs_sub_rne_le_half (c - s)
  have e : Gen.reimage c s - s = c - s - (rne (c - s) : ℚ) := by rw [reimage_eq]; ring
  rw [e]
  exact h

/-- a position already within less than half a cell of the image is not moved -/
theorem reimage_fixed (c s : ℚ) (h : |c - s| < 1 / 2) : Gen.reimage c s = c := by
  have hr : rne (c - s) = -(0 : ℤ) :=
    C17.rne_eq_neg_of_abs_lt (c - s) 0 (by rw [Int.cast_zero, add_zero]; exact h)
  rw [reimage_eq, hr, neg_zero, Int.cast_zero, sub_zero]

/-- strictly inside the radius -/
theorem selected_iff (d r : ℚ) : Gen.selected d r = true ↔ d < r := by
  unfold Gen.selected
  exact decide_eq_true_iff

end G.C17Gen
