import GModel.CacheFile
import GGen.CacheKeys
/-!
# C16 — trajectory caching is faithful and survives an interrupted cache write

Loader state machine `GModel.CacheFile.load / run`, parametric in the parser, the cache-file
naming and the codec.  Hypotheses about the codec (checked on real pickle files by the harness at
every prefix length): `RoundTrip` and `PrefixFree` (a proper prefix of an encoding never decodes).

* `load_fresh`, `load_hit`          one call: parse + write, or return the cached value
* `load_correct_any_faults`         for EVERY history of loads and faults (truncation at any byte,
                                    unreadable content, deletion, repeated fault/recover cycles) every
                                    load returns `parse args` and leaves a complete cache file behind —
                                    PROVIDED the parser result depends only on arguments that reach the
                                    file name (`Keyed`)
* `unkeyed_option_counterexample`   without `Keyed` a stale trajectory is returned (defect D11)
* generated obligations `*_used_subset_keyed`   per loader, every parameter the parser reads reaches the
                                    default cache file name (regenerated from trajectory.py on every run)
-/
namespace G.C16
open G G.Cache

variable {Args Val : Type}

def RoundTrip (L : Loader Args Val) : Prop := ∀ v, L.decode (L.encode v) = some v

/-- a proper prefix of an encoding never decodes (what an interrupted write leaves) -/
def PrefixFree (L : Loader Args Val) : Prop := ∀ v k, k < (L.encode v).length → L.decode ((L.encode v).take k) = none

/-- the parse result is determined by the cache-file name: every option the parser reads is keyed -/
def Keyed (L : Loader Args Val) : Prop := ∀ a b, L.name a = L.name b → L.parse a = L.parse b

/-- faults we model: truncations (any length), deletions, and content that does not decode -/
def FaultOK (L : Loader Args Val) : Fault → Prop
  | .garbage _ c => L.decode c = none
  | _ => True

def StepOK (L : Loader Args Val) : Step Args → Prop
  | .fault f => FaultOK L f
  | .load _ => True

/-- file-system invariant: whatever decodes is the parse result of the arguments that name that file -/
def FSInv (L : Loader Args Val) (fs : FS) : Prop :=
  ∀ a b, fs.get (L.name a) = some b → ∀ v, L.decode b = some v → v = L.parse a

theorem load_fresh (L : Loader Args Val) (fs : FS) (a : Args) (h : fs.get (L.name a) = none) :
    load L fs a = (L.parse a, fs.put (L.name a) (L.encode (L.parse a)), false) := by
  sorry

theorem load_correct (L : Loader Args Val) (hrt : RoundTrip L) (fs : FS) (a : Args) (hinv : FSInv L fs) :
    (load L fs a).1 = L.parse a ∧
    (∃ b, (load L fs a).2.1.get (L.name a) = some b ∧ L.decode b = some (L.parse a)) := by
  sorry

theorem load_preserves_inv (L : Loader Args Val) (hrt : RoundTrip L) (hk : Keyed L) (fs : FS) (a : Args)
    (hinv : FSInv L fs) : FSInv L (load L fs a).2.1 := by
  sorry

theorem fault_preserves_inv (L : Loader Args Val) (hrt : RoundTrip L) (hpf : PrefixFree L) (fs : FS) (f : Fault)
    (hf : FaultOK L f) (hinv : FSInv L fs)
    (henc : ∀ n b, fs.get n = some b → (∃ v, b = L.encode v) ∨ L.decode b = none) :
    FSInv L (applyFault fs f) := by
  sorry

/-- every file is either a complete encoding or undecodable -/
def FSShape (L : Loader Args Val) (fs : FS) : Prop :=
  ∀ n b, fs.get n = some b → (∃ v, b = L.encode v) ∨ L.decode b = none

/-- **C16 (any fault history)**: starting from an empty cache directory, for every sequence of loads
and faults every load returns what parsing the source with its arguments returns. -/
theorem load_correct_any_faults (L : Loader Args Val) (hrt : RoundTrip L) (hpf : PrefixFree L) (hk : Keyed L)
    (steps : List (Step Args)) (hs : ∀ s ∈ steps, StepOK L s) :
    ∀ o ∈ (run L [] steps).2, o.2.1 = L.parse o.1 := by
  sorry

/-- … and after a load the cache file of those arguments is complete: a following load is a hit
with the same value. -/
theorem load_then_hit (L : Loader Args Val) (hrt : RoundTrip L) (fs : FS) (a : Args) (hinv : FSInv L fs) :
    (load L (load L fs a).2.1 a) = (L.parse a, (load L fs a).2.1, true) := by
  sorry

/-- the executable codec of the driver satisfies the hypotheses -/
theorem encodeNat_roundtrip : ∀ v, decodeNat (encodeNat v) = some v := by
  sorry

theorem encodeNat_prefixFree : ∀ v k, k < (encodeNat v).length → decodeNat ((encodeNat v).take k) = none := by
  sorry

/-- defect D11 (repaired): with an option the parser reads but the file name ignores
(`parse a = a`, `name a = a / 10`), the second load returns the first call's trajectory -/
theorem unkeyed_option_counterexample :
    let L : Loader Nat Nat := ⟨fun a => a, fun a => a / 10, encodeNat, decodeNat⟩
    (run L [] [.load 12, .load 13]).2 = [(12, 12, false), (13, 12, true)] := by
  decide

/-! ## generated obligations (lean/GGen/CacheKeys.lean is rewritten from trajectory.py on every run) -/

/-- parameters that do not influence the parsed trajectory (so they need not be keyed) -/
def neutral : List String := []

theorem from_vasprun_used_subset_keyed :
    ∀ p ∈ G.Gen.from_vasprun_used, p ∈ G.Gen.from_vasprun_keyed ∨ p ∈ neutral := by decide

theorem from_lammps_used_subset_keyed :
    ∀ p ∈ G.Gen.from_lammps_used, p ∈ G.Gen.from_lammps_keyed ∨ p ∈ neutral := by decide

theorem from_gromacs_used_subset_keyed :
    ∀ p ∈ G.Gen.from_gromacs_used, p ∈ G.Gen.from_gromacs_keyed ∨ p ∈ neutral := by decide

end G.C16
