import GModel.CacheFile
import GGen.CacheKeys
/-!
# C16 — trajectory caching is faithful and survives an interrupted cache write

Loader state machine `GModel.CacheFile.load / run`, parametric in the parser, the cache-file
naming and the codec.  Hypotheses about the codec (checked on real pickle files by the harness at
every prefix length): `RoundTrip` and `PrefixFree` (a proper prefix of an encoding never decodes).

* `load_fresh`, `load_hit`          one call: parse + write, or return the cached value
* `load_correct_any_faults_partial` for EVERY history of loads and faults (truncation at any byte,
                                    unreadable content WITHOUT DECODABLE PREFIX (`FaultOK'`), deletion,
                                    repeated fault/recover cycles) every load returns `parse args` and
                                    leaves a complete cache file behind — PROVIDED the parser result depends
                                    only on arguments that reach the file name (`Keyed`)
* `load_correct_any_faults_counterexample`, `fault_preserves_inv_counterexample`
                                    the original statements (garbage only required to be undecodable
                                    itself, `FaultOK`) are FALSE: a truncation of undecodable garbage may
                                    decode to a wrong value
* `unkeyed_option_counterexample`   without `Keyed` a stale trajectory is returned (defect D11)
* generated obligations `*_used_subset_keyed`   per loader, every parameter the parser reads reaches the
                                    default cache file name (regenerated from trajectory.py on every run)
-/
namespace G.C16
open G G.Cache

variable {Args Val : Type}

def RoundTrip (L : Loader Args Val) : Prop := ∀ v, L.decode (L.encode v) = some v

/-- a proper prefix of an encoding never decodes (what an interrupted write leaves) -/
def PrefixFree (L : Loader Args Val) : Prop := ∀ v k, k < (L.encode v).length → L.decode ((L.encode v).take k) = none

/-- the parse result is determined by the cache-file name: every option the parser reads is keyed -/
def Keyed (L : Loader Args Val) : Prop := ∀ a b, L.name a = L.name b → L.parse a = L.parse b

/-- faults we model: truncations (any length), deletions, and content that does not decode -/
def FaultOK (L : Loader Args Val) : Fault → Prop
  | .garbage _ c => L.decode c = none
  | _ => True

def StepOK (L : Loader Args Val) : Step Args → Prop
  | .fault f => FaultOK L f
  | .load _ => True

/-- file-system invariant: whatever decodes is the parse result of the arguments that name that file -/
def FSInv (L : Loader Args Val) (fs : FS) : Prop :=
  ∀ a b, fs.get (L.name a) = some b → ∀ v, L.decode b = some v → v = L.parse a

/-! ### file-system lemmas (`FS.get` after `FS.put` / `FS.del`) -/

theorem get_put_same (fs : FS) (n : Nat) (b : Bytes) : (fs.put n b).get n = some b := by
  simp [FS.get, FS.put]

theorem get_filter_other (fs : FS) {m n : Nat} (h : m ≠ n) :
    FS.get (fs.filter (fun p => p.1 != n)) m = FS.get fs m := by
  unfold FS.get
  rw [List.find?_filter]
  congr 2
  funext p
  by_cases hpm : p.1 = m
  · simp [hpm, h]
  · simp [hpm]

theorem get_cons_ne (fs : FS) {m n : Nat} (b : Bytes) (h : m ≠ n) :
    FS.get ((n, b) :: fs) m = FS.get fs m := by
  have h' : (n == m) = false := by simpa using fun e : n = m => h e.symm
  unfold FS.get
  rw [List.find?_cons]
  simp only [h']

theorem get_filter_same (fs : FS) (n : Nat) :
    FS.get (fs.filter (fun p => p.1 != n)) n = none := by
  simp [FS.get, List.find?_eq_none]

theorem get_put_other (fs : FS) {m n : Nat} (b : Bytes) (h : m ≠ n) : (fs.put n b).get m = fs.get m := by
  unfold FS.put
  rw [get_cons_ne _ b h, get_filter_other fs h]

theorem get_del_same (fs : FS) (n : Nat) : (fs.del n).get n = none := get_filter_same fs n

theorem get_del_other (fs : FS) {m n : Nat} (h : m ≠ n) : (fs.del n).get m = fs.get m :=
  get_filter_other fs h

/-! ### one call -/

theorem load_fresh (L : Loader Args Val) (fs : FS) (a : Args) (h : fs.get (L.name a) = none) :
    load L fs a = (L.parse a, fs.put (L.name a) (L.encode (L.parse a)), false) := by
  simp [load, h]

theorem load_undecodable (L : Loader Args Val) (fs : FS) (a : Args) (b : Bytes)
    (h : fs.get (L.name a) = some b) (hd : L.decode b = none) :
    load L fs a = (L.parse a, fs.put (L.name a) (L.encode (L.parse a)), false) := by
  simp [load, h, hd]

theorem load_hit (L : Loader Args Val) (fs : FS) (a : Args) (b : Bytes) (v : Val)
    (h : fs.get (L.name a) = some b) (hd : L.decode b = some v) :
    load L fs a = (v, fs, true) := by
  simp [load, h, hd]

/-- case analysis of one call: a hit (file decodes, file system untouched) or parse + rewrite -/
theorem load_cases (L : Loader Args Val) (fs : FS) (a : Args) :
    (∃ b v, fs.get (L.name a) = some b ∧ L.decode b = some v ∧ load L fs a = (v, fs, true)) ∨
    load L fs a = (L.parse a, fs.put (L.name a) (L.encode (L.parse a)), false) := by
  cases h : fs.get (L.name a) with
  | none => exact Or.inr (load_fresh L fs a h)
  | some b =>
    cases hd : L.decode b with
    | none => exact Or.inr (load_undecodable L fs a b h hd)
    | some v => exact Or.inl ⟨b, v, rfl, hd, load_hit L fs a b v h hd⟩

theorem load_correct (L : Loader Args Val) (hrt : RoundTrip L) (fs : FS) (a : Args) (hinv : FSInv L fs) :
    (load L fs a).1 = L.parse a ∧
    (∃ b, (load L fs a).2.1.get (L.name a) = some b ∧ L.decode b = some (L.parse a)) := by
  rcases load_cases L fs a with ⟨b, v, hg, hd, hl⟩ | hl
  · have hv : v = L.parse a := hinv a b hg v hd
    rw [hl]
    exact ⟨hv, b, hg, hv ▸ hd⟩
  · rw [hl]
    exact ⟨rfl, L.encode (L.parse a), get_put_same _ _ _, hrt _⟩

theorem load_preserves_inv (L : Loader Args Val) (hrt : RoundTrip L) (hk : Keyed L) (fs : FS) (a : Args)
    (hinv : FSInv L fs) : FSInv L (load L fs a).2.1 := by
  rcases load_cases L fs a with ⟨b, v, _, _, hl⟩ | hl
  · rw [hl]; exact hinv
  · rw [hl]
    intro a' b' hg v' hd
    by_cases hn : L.name a' = L.name a
    · rw [hn, get_put_same] at hg
      cases hg
      rw [hrt] at hd
      cases hd
      exact (hk a' a hn).symm
    · rw [get_put_other fs _ hn] at hg
      exact hinv a' b' hg v' hd

/-! ### faults

`fault_preserves_inv` and `load_correct_any_faults` are FALSE as originally stated: the shape
hypothesis "every file is a complete encoding or undecodable" is not stable under truncation —
truncating an ALREADY undecodable file (garbage) leaves a prefix of garbage, and nothing prevents
that prefix from decoding to an arbitrary value.  Machine-checked counterexamples with the driver's
codec are `fault_preserves_inv_counterexample` and `load_correct_any_faults_counterexample` below.

The original statements (kept for reference):

```
theorem fault_preserves_inv (L : Loader Args Val) (hrt : RoundTrip L) (hpf : PrefixFree L) (fs : FS) (f : Fault)
    (hf : FaultOK L f) (hinv : FSInv L fs)
    (henc : ∀ n b, fs.get n = some b → (∃ v, b = L.encode v) ∨ L.decode b = none) :
    FSInv L (applyFault fs f)

theorem load_correct_any_faults (L : Loader Args Val) (hrt : RoundTrip L) (hpf : PrefixFree L) (hk : Keyed L)
    (steps : List (Step Args)) (hs : ∀ s ∈ steps, StepOK L s) :
    ∀ o ∈ (run L [] steps).2, o.2.1 = L.parse o.1
```

The true variants `fault_preserves_inv_partial` / `load_correct_any_faults_partial` ask that
unreadable content has NO decodable prefix (`FaultOK'`, `FSShape'`); this property is stable under
every fault and under loads.
-/

/-- strengthened fault model: unreadable content has no decodable prefix -/
def FaultOK' (L : Loader Args Val) : Fault → Prop
  | .garbage _ c => ∀ k, L.decode (c.take k) = none
  | _ => True

def StepOK' (L : Loader Args Val) : Step Args → Prop
  | .fault f => FaultOK' L f
  | .load _ => True

/-- every file is either a complete encoding or has no decodable prefix (in particular does not
decode itself) -/
def FSShape' (L : Loader Args Val) (fs : FS) : Prop :=
  ∀ n b, fs.get n = some b → (∃ v, b = L.encode v) ∨ ∀ k, L.decode (b.take k) = none

theorem FaultOK'.faultOK {L : Loader Args Val} {f : Fault} (h : FaultOK' L f) : FaultOK L f := by
  cases f with
  | garbage n c =>
    have := h c.length
    rwa [List.take_length] at this
  | truncate n k => trivial
  | delete n => trivial

/-- truncating a file that is a complete encoding or has no decodable prefix gives the file itself
or something with no decodable prefix -/
theorem take_shape (L : Loader Args Val) (hpf : PrefixFree L) (b : Bytes) (k : Nat)
    (hb : (∃ v, b = L.encode v) ∨ ∀ j, L.decode (b.take j) = none) :
    b.take k = b ∨ ∀ j, L.decode ((b.take k).take j) = none := by
  rcases hb with ⟨v, rfl⟩ | hn
  · by_cases hk : k < (L.encode v).length
    · right
      intro j
      rw [List.take_take]
      exact hpf v _ (Nat.lt_of_le_of_lt (Nat.min_le_right _ _) hk)
    · left
      exact List.take_of_length_le (Nat.le_of_not_lt hk)
  · right
    intro j
    rw [List.take_take]
    exact hn _

/-- closest true variant of `fault_preserves_inv`: the shape hypothesis speaks about all prefixes of
an undecodable file, and so does the fault hypothesis. -/
theorem fault_preserves_inv_partial (L : Loader Args Val) (hpf : PrefixFree L) (fs : FS) (f : Fault)
    (hf : FaultOK' L f) (hinv : FSInv L fs) (henc : FSShape' L fs) :
    FSInv L (applyFault fs f) := by
  cases f with
  | truncate n k =>
    simp only [applyFault]
    cases hgn : fs.get n with
    | none => exact hinv
    | some b0 =>
      intro a b hg v hd
      by_cases hn : L.name a = n
      · rw [hn, get_put_same] at hg
        cases hg
        rcases take_shape L hpf b0 k (henc n b0 hgn) with he | hnone
        · rw [he] at hd
          exact hinv a b0 (hn ▸ hgn) v hd
        · have := hnone (b0.take k).length
          rw [List.take_length, hd] at this
          cases this
      · rw [get_put_other fs _ hn] at hg
        exact hinv a b hg v hd
  | garbage n c =>
    intro a b hg v hd
    simp only [applyFault] at hg
    by_cases hn : L.name a = n
    · rw [hn, get_put_same] at hg
      cases hg
      have := hf c.length
      rw [List.take_length, hd] at this
      cases this
    · rw [get_put_other fs _ hn] at hg
      exact hinv a b hg v hd
  | delete n =>
    intro a b hg v hd
    simp only [applyFault] at hg
    by_cases hn : L.name a = n
    · rw [hn, get_del_same] at hg
      cases hg
    · rw [get_del_other fs hn] at hg
      exact hinv a b hg v hd

theorem fault_preserves_shape (L : Loader Args Val) (hpf : PrefixFree L) (fs : FS) (f : Fault)
    (hf : FaultOK' L f) (henc : FSShape' L fs) : FSShape' L (applyFault fs f) := by
  cases f with
  | truncate n k =>
    simp only [applyFault]
    cases hgn : fs.get n with
    | none => exact henc
    | some b0 =>
      intro m b hg
      by_cases hm : m = n
      · rw [hm, get_put_same] at hg
        cases hg
        rcases take_shape L hpf b0 k (henc n b0 hgn) with he | hnone
        · rw [he]; exact henc n b0 hgn
        · exact Or.inr hnone
      · rw [get_put_other fs _ hm] at hg
        exact henc m b hg
  | garbage n c =>
    intro m b hg
    simp only [applyFault] at hg
    by_cases hm : m = n
    · rw [hm, get_put_same] at hg
      cases hg
      exact Or.inr hf
    · rw [get_put_other fs _ hm] at hg
      exact henc m b hg
  | delete n =>
    intro m b hg
    simp only [applyFault] at hg
    by_cases hm : m = n
    · rw [hm, get_del_same] at hg
      cases hg
    · rw [get_del_other fs hm] at hg
      exact henc m b hg

theorem load_preserves_shape (L : Loader Args Val) (fs : FS) (a : Args) (henc : FSShape' L fs) :
    FSShape' L (load L fs a).2.1 := by
  rcases load_cases L fs a with ⟨b, v, _, _, hl⟩ | hl
  · rw [hl]; exact henc
  · rw [hl]
    intro m b hg
    by_cases hm : m = L.name a
    · rw [hm, get_put_same] at hg
      cases hg
      exact Or.inl ⟨_, rfl⟩
    · rw [get_put_other fs _ hm] at hg
      exact henc m b hg

/-- every file is either a complete encoding or undecodable -/
def FSShape (L : Loader Args Val) (fs : FS) : Prop :=
  ∀ n b, fs.get n = some b → (∃ v, b = L.encode v) ∨ L.decode b = none

theorem FSShape'.shape {L : Loader Args Val} {fs : FS} (h : FSShape' L fs) : FSShape L fs := by
  intro n b hg
  rcases h n b hg with he | hn
  · exact Or.inl he
  · have := hn b.length
    rw [List.take_length] at this
    exact Or.inr this

theorem run_correct_of_inv (L : Loader Args Val) (hrt : RoundTrip L) (hpf : PrefixFree L) (hk : Keyed L)
    (steps : List (Step Args)) :
    ∀ (fs : FS), FSInv L fs → FSShape' L fs → (∀ s ∈ steps, StepOK' L s) →
      (∀ o ∈ (run L fs steps).2, o.2.1 = L.parse o.1) ∧
      FSInv L (run L fs steps).1 ∧ FSShape' L (run L fs steps).1 := by
  induction steps with
  | nil =>
    intro fs hinv hsh _
    exact ⟨fun o ho => absurd ho List.not_mem_nil, hinv, hsh⟩
  | cons s rest ih =>
    intro fs hinv hsh hs
    have hrest : ∀ s ∈ rest, StepOK' L s := fun s h => hs s (List.mem_cons_of_mem _ h)
    cases s with
    | load a =>
      have hstep : run L fs (.load a :: rest) =
          ((run L (load L fs a).2.1 rest).1,
            (a, (load L fs a).1, (load L fs a).2.2) :: (run L (load L fs a).2.1 rest).2) := rfl
      rw [hstep]
      have ⟨h1, h2, h3⟩ := ih (load L fs a).2.1 (load_preserves_inv L hrt hk fs a hinv)
        (load_preserves_shape L fs a hsh) hrest
      refine ⟨?_, h2, h3⟩
      intro o ho
      rcases List.mem_cons.mp ho with rfl | ho
      · exact (load_correct L hrt fs a hinv).1
      · exact h1 o ho
    | fault f =>
      have hf : FaultOK' L f := hs (.fault f) List.mem_cons_self
      have hstep : run L fs (.fault f :: rest) = run L (applyFault fs f) rest := rfl
      rw [hstep]
      exact ih (applyFault fs f) (fault_preserves_inv_partial L hpf fs f hf hinv hsh)
        (fault_preserves_shape L hpf fs f hf hsh) hrest

/-- **C16 (any fault history)**, closest true variant of `load_correct_any_faults`: starting from an
empty cache directory, for every sequence of loads and faults (truncation at any byte of whatever is
on disk, deletion, content without decodable prefix, repeated fault/recover cycles) every load
returns what parsing the source with its arguments returns. -/
theorem load_correct_any_faults_partial (L : Loader Args Val) (hrt : RoundTrip L) (hpf : PrefixFree L)
    (hk : Keyed L) (steps : List (Step Args)) (hs : ∀ s ∈ steps, StepOK' L s) :
    ∀ o ∈ (run L [] steps).2, o.2.1 = L.parse o.1 :=
  (run_correct_of_inv L hrt hpf hk steps [] (fun _ _ h => absurd h (by simp [FS.get]))
    (fun _ _ h => absurd h (by simp [FS.get])) hs).1

/-- … and after a load the cache file of those arguments is complete: a following load is a hit
with the same value. -/
theorem load_then_hit (L : Loader Args Val) (hrt : RoundTrip L) (fs : FS) (a : Args) (hinv : FSInv L fs) :
    (load L (load L fs a).2.1 a) = (L.parse a, (load L fs a).2.1, true) := by
  obtain ⟨_, b, hg, hd⟩ := load_correct L hrt fs a hinv
  exact load_hit L _ a b _ hg hd

/-- the executable codec of the driver satisfies the hypotheses -/
theorem encodeNat_roundtrip : ∀ v, decodeNat (encodeNat v) = some v := by
  intro v
  simp [encodeNat, decodeNat]

theorem encodeNat_prefixFree : ∀ v k, k < (encodeNat v).length → decodeNat ((encodeNat v).take k) = none := by
  intro v k hk
  match k, hk with
  | 0, _ => rfl
  | 1, _ => rfl
  | 2, _ => rfl
  | 3, _ => rfl
  | k + 4, hk => exact absurd hk (by simp [encodeNat])

/-! ### machine-checked counterexamples to the original `fault_preserves_inv` / `load_correct_any_faults` -/

/-- the driver's loader with `parse a = a`, `name a = a` (so `Keyed` holds trivially) -/
def cexLoader : Loader Nat Nat := ⟨fun a => a, fun a => a, encodeNat, decodeNat⟩

theorem cexLoader_keyed : Keyed cexLoader := fun _ _ h => h

/-- counterexample to the original `fault_preserves_inv`: the file `[3,5,6,7,9]` does not decode,
so `FSInv` and the shape hypothesis hold, but its truncation to 4 bytes decodes to `5 ≠ parse 0`. -/
theorem fault_preserves_inv_counterexample :
    let L := cexLoader
    let fs : FS := [(0, [3, 5, 6, 7, 9])]
    let f : Fault := .truncate 0 4
    RoundTrip L ∧ PrefixFree L ∧ FaultOK L f ∧ FSInv L fs ∧
    (∀ n b, fs.get n = some b → (∃ v, b = L.encode v) ∨ L.decode b = none) ∧
    ¬ FSInv L (applyFault fs f) := by
  intro L fs f
  have hget : ∀ n b, fs.get n = some b → b = [3, 5, 6, 7, 9] := by
    intro n b h
    cases n with
    | zero => exact (Option.some.inj h).symm
    | succ n => exact absurd h (by simp [fs, FS.get])
  refine ⟨encodeNat_roundtrip, encodeNat_prefixFree, trivial, ?_, ?_, ?_⟩
  · intro a b hg v hd
    rw [hget _ _ hg] at hd
    have hd' : decodeNat [3, 5, 6, 7, 9] = some v := hd
    have hnone : decodeNat [3, 5, 6, 7, 9] = none := by decide
    rw [hnone] at hd'
    cases hd'
  · intro n b hg
    rw [hget _ _ hg]
    exact Or.inr (by decide)
  · intro h
    exact absurd (h 0 [3, 5, 6, 7] (by decide) 5 (by decide)) (by decide)

/-- counterexample to the original `load_correct_any_faults`: unreadable content, then a truncation
of it, then a load — every step satisfies `StepOK`, yet the load returns `5` instead of `parse 0 = 0`. -/
theorem load_correct_any_faults_counterexample :
    let L := cexLoader
    let steps : List (Step Nat) := [.fault (.garbage 0 [3, 5, 6, 7, 9]), .fault (.truncate 0 4), .load 0]
    RoundTrip L ∧ PrefixFree L ∧ Keyed L ∧ (∀ s ∈ steps, StepOK L s) ∧
    ¬ (∀ o ∈ (run L [] steps).2, o.2.1 = L.parse o.1) := by
  intro L steps
  refine ⟨encodeNat_roundtrip, encodeNat_prefixFree, cexLoader_keyed, ?_, ?_⟩
  · intro s hs
    simp only [steps, List.mem_cons, List.not_mem_nil, or_false] at hs
    rcases hs with rfl | rfl | rfl
    · show decodeNat [3, 5, 6, 7, 9] = none
      decide
    · trivial
    · trivial
  · intro h
    have hrun : (run L [] steps).2 = [(0, 5, true)] := by decide
    rw [hrun] at h
    exact absurd (h (0, 5, true) (List.mem_singleton.mpr rfl)) (by decide)

/-- defect D11 (repaired): with an option the parser reads but the file name ignores
(`parse a = a`, `name a = a / 10`), the second load returns the first call's trajectory -/
theorem unkeyed_option_counterexample :
    let L : Loader Nat Nat := ⟨fun a => a, fun a => a / 10, encodeNat, decodeNat⟩
    (run L [] [.load 12, .load 13]).2 = [(12, 12, false), (13, 12, true)] := by
  decide

/-! ## generated obligations (lean/GGen/CacheKeys.lean is rewritten from trajectory.py on every run) -/

/-- parameters that do not influence the parsed trajectory (so they need not be keyed) -/
def neutral : List String := []

theorem from_vasprun_used_subset_keyed :
    ∀ p ∈ G.Gen.from_vasprun_used, p ∈ G.Gen.from_vasprun_keyed ∨ p ∈ neutral := by decide

theorem from_lammps_used_subset_keyed :
    ∀ p ∈ G.Gen.from_lammps_used, p ∈ G.Gen.from_lammps_keyed ∨ p ∈ neutral := by decide

theorem from_gromacs_used_subset_keyed :
    ∀ p ∈ G.Gen.from_gromacs_used, p ∈ G.Gen.from_gromacs_keyed ∨ p ∈ neutral := by decide

end G.C16
