import GModel.Fft
import GProofs.C06
import GProofs.C05
import Mathlib.Tactic.Ring
import Mathlib.Tactic.Linarith
/-!
# C06 (FFT step) — zero padding makes the cyclic autocorrelation the linear one

* `cyclic_eq_linear`   for a signal of length `n` padded to `pad`, the cyclic autocorrelation at lag `k` equals the
                       linear sum `Σ_{t<n−k} x[t]·x[t+k]` whenever `n + k ≤ pad`
* `pad_two_n_ok`       the code's `n = 2·n_times` satisfies that for every lag `k < n_times` (so does `2n − 1`, not less)
* `cyclic_ne_linear_short`  with a shorter transform (`pad = 2n − 2`) it fails already for two frames
* `s2Cyclic_eq_s2`, `msdCode_eq_def`   hence the code's MSD (FFT step read as cyclic autocorrelation) equals the
                       definition for every track and every lag
-/
namespace G.C06Fft
open G G.Traj G.Fft

theorem sum_range_congr (n : Nat) (f g : Nat → ℚ) (h : ∀ t, t < n → f t = g t) :
    ((List.range n).map f).sum = ((List.range n).map g).sum := by
  congr 1
  apply List.map_congr_left
  intro t ht
  exact h t (List.mem_range.mp ht)

/-- terms beyond `a` vanish: the sum may stop at `a` -/
theorem sum_range_trunc (f : Nat → ℚ) (a : Nat) :
    ∀ m, a ≤ m → (∀ t, a ≤ t → t < m → f t = 0) →
      ((List.range m).map f).sum = ((List.range a).map f).sum := by
  intro m
  induction m with
  | zero => intro ha _; have : a = 0 := by omega
            subst this; rfl
  | succ m ih =>
    intro ha hz
    by_cases hEq : a = m + 1
    · subst hEq; rfl
    · have ha' : a ≤ m := by omega
      rw [List.range_succ, List.map_append, List.sum_append, ih ha' (fun t h1 h2 => hz t h1 (by omega))]
      simp [hz m ha' (by omega)]

/-- **C06 (padding)** -/
theorem cyclic_eq_linear (x : List ℚ) (pad k : Nat) (h : x.length + k ≤ pad) :
    cyclicAcorr x pad k = linAcorr x k := by
  unfold cyclicAcorr linAcorr
  have hn : x.length - k ≤ pad := by omega
  rw [sum_range_trunc _ (x.length - k) pad hn]
  · apply sum_range_congr
    intro t ht
    have h1 : t < x.length ∧ t < pad := by omega
    have h2 : (t + k) % pad = t + k := Nat.mod_eq_of_lt (by omega)
    have h3 : t + k < x.length ∧ t + k < pad := by omega
    simp only [padded, h1, h2, h3, and_self, if_true]
  · intro t ht1 ht2
    by_cases htn : t < x.length
    · -- the partner index falls into the padding
      have h2 : (t + k) % pad = t + k := Nat.mod_eq_of_lt (by omega)
      have h3 : ¬ (t + k < x.length ∧ t + k < pad) := by omega
      simp only [padded, h2, h3, if_false, mul_zero]
    · have h1 : ¬ (t < x.length ∧ t < pad) := by omega
      simp only [padded, h1, if_false, zero_mul]

/-- the transform length the code uses is long enough for every lag it keeps … -/
theorem pad_two_n_ok (n k : Nat) (hk : k < n) : n + k ≤ 2 * n := by omega
/-- … `2n − 1` is the shortest that is -/
theorem pad_min (n pad : Nat) (hn : 0 < n) : (∀ k, k < n → n + k ≤ pad) ↔ 2 * n - 1 ≤ pad := by
  constructor
  · intro h; have := h (n - 1) (by omega); omega
  · intro h k hk; omega

/-- with a shorter transform the wrapped-around terms are counted: two frames, `pad = 2·2 − 2` -/
theorem cyclic_ne_linear_short : cyclicAcorr [1, 1] 2 1 ≠ linAcorr [1, 1] 1 := by decide +kernel

theorem getD_map_x (r : List V3) (t : Nat) : (r.map (·.x)).getD t 0 = (r.getD t V3.zero).x := by
  simp only [List.getD_eq_getElem?_getD, List.getElem?_map]
  cases r[t]? <;> rfl
theorem getD_map_y (r : List V3) (t : Nat) : (r.map (·.y)).getD t 0 = (r.getD t V3.zero).y := by
  simp only [List.getD_eq_getElem?_getD, List.getElem?_map]
  cases r[t]? <;> rfl
theorem getD_map_z (r : List V3) (t : Nat) : (r.map (·.z)).getD t 0 = (r.getD t V3.zero).z := by
  simp only [List.getD_eq_getElem?_getD, List.getElem?_map]
  cases r[t]? <;> rfl

theorem s2Cyclic_eq_s2 (r : List V3) (pad m : Nat) (h : r.length + m ≤ pad) :
    s2Cyclic r pad m = s2 r m := by
  unfold s2Cyclic s2
  rw [cyclic_eq_linear _ pad m (by simpa using h), cyclic_eq_linear _ pad m (by simpa using h),
    cyclic_eq_linear _ pad m (by simpa using h)]
  unfold linAcorr
  simp only [List.length_map, getD_map_x, getD_map_y, getD_map_z]
  congr 1
  rw [← G.C05.sum_map_add, ← G.C05.sum_map_add]
  apply sum_range_congr
  intro t _
  simp only [V3.dot]

/-- **C06 (MSD, FFT step included)**: the code with its transform length `2·n_times` computes the definition. -/
theorem msdCode_eq_def (r : List V3) (m : Nat) (hm : m < r.length) :
    msdCode r (2 * r.length) m = msdDef r m := by
  unfold msdCode
  rw [s2Cyclic_eq_s2 r _ m (by omega)]
  exact C06.msdAlgo_eq_def r m hm

/-- non-vacuity: a 3-frame track, lag 1 -/
example : msdCode [⟨0, 0, 0⟩, ⟨1, 0, 0⟩, ⟨3, 0, 0⟩] 6 1 = 5 / 2 := by decide +kernel

end G.C06Fft
