import GModel.RdfNames
import GProofs.C11
import GProofs.C05
import GProofs.C05Lab
/-!
# C11 (names) — under which key the per-state counts are filed

* `stateName_on_site`   on a site (`i ≠ −1`) the key is `@` + that site's label, whatever came before / comes next
* `stateName_transit`   off-site with both neighbours known the key is `P->N`
* `stateName_unknown`   off-site with an unknown neighbour the key starts with `~>`
* `lookup_table`        the dictionary `_get_states` builds answers every code that can occur with `stateName`
                        (fewer than 999 labels; uses `stateCode_injective`: no two entries collide)
* `pooled_total`        filing by NAME instead of by code loses and duplicates nothing: the counts over all names
                        add up to the counts over all codes — the per-state partition survives the pooling
-/
namespace G.C11Names
open G G.Rdf G.RdfNames

theorem stateName_on_site (u : List String) (i j k : Int) (h : i ≠ -1) :
    stateName u i j k = "@" ++ pyGet u i := by
  unfold stateName; rw [if_pos h]

theorem stateName_transit (u : List String) (j k : Int) (hj : j ≠ -1) (hk : k ≠ -1) :
    stateName u (-1) j k = pyGet u j ++ "->" ++ pyGet u k := by
  unfold stateName
  rw [if_neg (by simp), if_neg (by simp [hj, hk])]

theorem stateName_unknown (u : List String) (j k : Int) (h : j = -1 ∨ k = -1) :
    stateName u (-1) j k = "~>" ++ pyGet u j := by
  unfold stateName
  rw [if_neg (by simp), if_pos h]

/-- label index in range: a known label is named by itself -/
theorem pyGet_nonneg (u : List String) (n : Nat) (h : n < u.length) : pyGet u (n : Int) = u[n] := by
  unfold pyGet
  simp [h]

/-- Python's `u[-1]` is the last label -/
theorem pyGet_neg_one (u : List String) (h : u ≠ []) : pyGet u (-1) = u.getLast h := by
  unfold pyGet
  have hl : 0 < u.length := List.length_pos_iff.mpr h
  simp only [show ¬ (0 : Int) ≤ -1 by omega, if_false]
  have : (-(-1 : Int)).toNat = 1 := by decide
  rw [this, List.getD_eq_getElem?_getD, List.getLast_eq_getElem, List.getElem?_eq_getElem (by omega)]
  rfl

/-! ### the dictionary -/

theorem lookup_foldl (code : Int) (v : String) :
    ∀ (tbl : List (Int × String)) (acc : Option String), (acc = none ∨ acc = some v) →
      (∀ e ∈ tbl, e.1 = code → e.2 = v) →
      (tbl.foldl (fun acc e => if e.1 = code then some e.2 else acc) acc = some v ↔
        (acc = some v ∨ ∃ e ∈ tbl, e.1 = code)) := by
  intro tbl
  induction tbl with
  | nil => intro acc _ _; simp
  | cons e tbl ih =>
    intro acc hacc hall
    simp only [List.foldl_cons]
    by_cases he : e.1 = code
    · rw [if_pos he]
      have hv : e.2 = v := hall e (by simp) he
      rw [ih (some e.2) (Or.inr (by rw [hv])) (fun e' h' => hall e' (by simp [h']))]
      constructor
      · intro _; right; exact ⟨e, by simp, he⟩
      · intro _; left; rw [hv]
    · rw [if_neg he]
      rw [ih acc hacc (fun e' h' => hall e' (by simp [h']))]
      constructor
      · rintro (h | ⟨e', h', hc⟩)
        · left; exact h
        · right; exact ⟨e', by simp [h'], hc⟩
      · rintro (h | ⟨e', h', hc⟩)
        · left; exact h
        · simp only [List.mem_cons] at h'
          rcases h' with rfl | h'
          · exact absurd hc he
          · right; exact ⟨e', h', hc⟩

theorem mem_range_list (n : Nat) (i : Int) :
    i ∈ ((-1 : Int) :: (List.range n).map (fun (m : Nat) => (m : Int))) ↔ (-1 ≤ i ∧ i < n) := by
  simp only [List.mem_cons, List.mem_map, List.mem_range]
  constructor
  · rintro (h | ⟨m, hm, rfl⟩) <;> omega
  · intro ⟨h1, h2⟩
    by_cases h : i = -1
    · left; exact h
    · right; exact ⟨i.toNat, by omega, by omega⟩

theorem mem_table (u : List String) (e : Int × String) :
    e ∈ table u ↔ ∃ i j k : Int, (-1 ≤ i ∧ i < u.length) ∧ (-1 ≤ j ∧ j < u.length) ∧ (-1 ≤ k ∧ k < u.length) ∧
      e = (stateCode i j k, stateName u i j k) := by
  unfold table
  simp only [List.mem_flatMap, List.mem_map, mem_range_list]
  constructor
  · rintro ⟨i, hi, j, hj, k, hk, rfl⟩; exact ⟨i, j, k, hi, hj, hk, rfl⟩
  · rintro ⟨i, j, k, hi, hj, hk, rfl⟩; exact ⟨i, hi, j, hj, k, hk, rfl⟩

/-- **C11 (names)**: with fewer than 999 distinct labels, the dictionary maps the code of every triple that can
occur to `stateName` of that triple — no entry is overwritten by another triple. -/
theorem lookup_table (u : List String) (hu : u.length < 999) (i j k : Int)
    (hi : -1 ≤ i ∧ i < u.length) (hj : -1 ≤ j ∧ j < u.length) (hk : -1 ≤ k ∧ k < u.length) :
    lookup (table u) (stateCode i j k) = some (stateName u i j k) := by
  unfold lookup
  rw [lookup_foldl (stateCode i j k) (stateName u i j k) (table u) none (Or.inl rfl)]
  · right
    exact ⟨_, (mem_table u _).2 ⟨i, j, k, hi, hj, hk, rfl⟩, rfl⟩
  · intro e he hc
    obtain ⟨i', j', k', hi', hj', hk', rfl⟩ := (mem_table u e).1 he
    have hb : ∀ x : Int, (-1 ≤ x ∧ x < u.length) → (-1 ≤ x ∧ x < 999) := fun x h => ⟨h.1, by omega⟩
    obtain ⟨rfl, rfl, rfl⟩ := C11.stateCode_injective i' j' k' i j k (hb _ hi') (hb _ hj') (hb _ hk') (hb _ hi) (hb _ hj) (hb _ hk) hc
    rfl

/-! ### pooling by name -/

theorem sum_group_weights {α β : Type} [DecidableEq β] (f : α → β) (w : α → Nat) (ks : List β) (hnd : ks.Nodup)
    (l : List α) (hall : ∀ x ∈ l, f x ∈ ks) :
    (ks.map (fun k => ((l.filter (fun x => f x = k)).map w).sum)).sum = (l.map w).sum := by
  induction l with
  | nil => simp
  | cons x xs ih =>
    have hstep : ∀ k, (((x :: xs).filter (fun x => f x = k)).map w).sum
        = ((xs.filter (fun x => f x = k)).map w).sum + w x * (if f x = k then 1 else 0) := by
      intro k
      by_cases h : f x = k <;> simp [h, Nat.add_comm]
    simp only [hstep]
    rw [C05.sum_map_add, ih (fun y hy => hall y (by simp [hy]))]
    have hm : (ks.map (fun k => w x * (if f x = k then 1 else 0))).sum = w x := by
      have h1 := C05Lab.sum_ite_eq_one ks (f x) hnd (hall x (by simp))
      have : (ks.map (fun k => w x * (if f x = k then 1 else 0))).sum
          = w x * (ks.map (fun k => if f x = k then 1 else 0)).sum := by
        clear h1 hall ih hstep hnd
        induction ks with
        | nil => simp
        | cons k ks ihk => simp only [List.map_cons, List.sum_cons, ihk, Nat.mul_add]
      rw [this, h1, Nat.mul_one]
    rw [hm]
    simp [Nat.add_comm]

/-- **C11 (partition survives the naming)**: the counts filed under all names add up to the counts of all codes;
each contribution is filed under exactly one name. -/
theorem pooled_total (name : Int → String) (contribs : List (Int × Nat)) (names : List String) (hnd : names.Nodup)
    (hall : ∀ c ∈ contribs, name c.1 ∈ names) :
    (names.map (pooled name contribs)).sum = (contribs.map (·.2)).sum := by
  have h := sum_group_weights (fun c : Int × Nat => name c.1) (·.2) names hnd contribs hall
  rw [← h]
  unfold pooled
  congr 1

/-- non-vacuity, and the quirk that stays in the model: with labels [A, B] the code of "left an A site, next
site unknown" is filed under `~>A`, the code of "nothing known" under `~>B` (Python's `u[-1]`) -/
example : lookup (table ["A", "B"]) (stateCode (-1) 0 (-1)) = some "~>A" ∧
    lookup (table ["A", "B"]) (stateCode (-1) (-1) (-1)) = some "~>B" ∧
    lookup (table ["A", "B"]) (stateCode 1 0 (-1)) = some "@B" ∧
    lookup (table ["A", "B"]) (stateCode (-1) 0 1) = some "A->B" := by decide

end G.C11Names
