import GModel.Labels
import GProofs.C05
import Mathlib.Tactic.Ring
import Mathlib.Tactic.FieldSimp
import Mathlib.Tactic.Linarith
/-!
# C05 (continued) — the per-label counter and the rates are consistent aggregations of the jump matrix

`Jumps.counter()` groups the jump rows by the labels of origin and destination site; `Jumps.rates()` averages the per-part
counters.  Statements are about `GModel.Labels` (driver ops `labelcounter`, `ratemean`).
-/
namespace G.C05Lab
open G G.Counts G.Labels G.C05

/-! ## helper lemmas -/

theorem gridSum_congr (n : Nat) (F H : Nat → Nat → Nat) (h : ∀ i j, i < n → j < n → F i j = H i j) :
    gridSum n F = gridSum n H := by
  unfold gridSum
  congr 1
  apply List.map_congr_left
  intro i hi
  congr 1
  apply List.map_congr_left
  intro j hj
  exact h i j (List.mem_range.1 hi) (List.mem_range.1 hj)

theorem gridSum_zero (n : Nat) : gridSum n (fun _ _ => (0 : Nat)) = 0 := by
  unfold gridSum
  apply sum_map_zero
  intro i _
  apply sum_map_zero
  intro j _
  rfl

theorem counterGet_cons (labels : List String) (p : Pair) (ps : List Pair) (a b : String) :
    counterGet labels (p :: ps) a b
      = counterGet labels ps a b + (if labelPair labels p = (a, b) then 1 else 0) := by
  unfold counterGet
  by_cases h : labelPair labels p = (a, b) <;> simp [h]

/-- for a valid row the `Int`-indexed label lookup is the `Nat`-indexed one -/
theorem labelPair_eq_iff (labels : List String) (p : Pair) (h1 : 0 ≤ p.1) (h2 : 0 ≤ p.2) (a b : String) :
    labelPair labels p = (a, b) ↔ (labels.getD p.1.toNat "" = a ∧ labels.getD p.2.toNat "" = b) := by
  simp only [labelPair, labelOf, h1, h2, if_true, Prod.mk.injEq]

/-- entry of the label counter = the sum of the matrix entries over all site pairs carrying these labels -/
theorem counterGet_eq_matrix (labels : List String) (rows : List Pair) (n : Nat) (hn : labels.length = n)
    (hv : Valid rows n) (a b : String) :
    counterGet labels rows a b =
      gridSum n (fun i j => if labels.getD i "" = a ∧ labels.getD j "" = b then (matrixSpec rows n).get i j else 0) := by
  have _ := hn  -- not needed: `getD` already answers "" outside the table
  induction rows with
  | nil =>
    rw [gridSum_congr n _ (fun _ _ => 0), gridSum_zero]
    · rfl
    · intro i j hi hj
      rw [matrixSpec_get [] n i j hi hj]
      simp [countPair]
  | cons p ps ih =>
    have hv' : Valid ps n := fun q hq => hv q (by simp [hq])
    obtain ⟨h0, h1, h2, h3⟩ := hv p (by simp)
    rw [counterGet_cons, ih hv']
    have hstep : gridSum n (fun i j => if labels.getD i "" = a ∧ labels.getD j "" = b
          then (matrixSpec (p :: ps) n).get i j else 0)
        = gridSum n (fun i j => (if labels.getD i "" = a ∧ labels.getD j "" = b
              then (matrixSpec ps n).get i j else 0)
            + (if p = ((i : Int), (j : Int)) then
                (fun i j => if labels.getD i "" = a ∧ labels.getD j "" = b then 1 else 0) i j else 0)) := by
      apply gridSum_congr
      intro i j hi hj
      rw [matrixSpec_get (p :: ps) n i j hi hj, matrixSpec_get ps n i j hi hj, countPair_cons]
      by_cases hc : labels.getD i "" = a ∧ labels.getD j "" = b
      · simp only [if_pos hc]
      · simp only [if_neg hc]
        simp
    rw [hstep, gridSum_add,
      gridSum_ind n p ⟨h0, h1, h2, h3⟩
        (fun i j => if labels.getD i "" = a ∧ labels.getD j "" = b then 1 else 0)]
    congr 1
    by_cases hc : labels.getD p.1.toNat "" = a ∧ labels.getD p.2.toNat "" = b
    · rw [if_pos ((labelPair_eq_iff labels p h0 h2 a b).2 hc), if_pos hc]
    · rw [if_neg (fun h => hc ((labelPair_eq_iff labels p h0 h2 a b).1 h)), if_neg hc]

theorem nodup_eraseDups {β : Type} [BEq β] [LawfulBEq β] (l : List β) : l.eraseDups.Nodup := by
  generalize hm : l.length = m
  induction m using Nat.strong_induction_on generalizing l with
  | _ m ih =>
    cases l with
    | nil => simp
    | cons a as =>
      rw [List.eraseDups_cons, List.nodup_cons]
      constructor
      · rw [List.mem_eraseDups, List.mem_filter]
        intro h
        simp at h
      · have hlen : (as.filter fun b => !b == a).length < m := by
          have := List.length_filter_le (fun b => !b == a) as
          simp only [List.length_cons] at hm
          omega
        exact ih _ hlen _ rfl

/-- the counter's keys are exactly the label pairs that occur, each once -/
theorem keys_nodup (labels : List String) (rows : List Pair) : (keys labels rows).Nodup := by
  unfold keys
  exact nodup_eraseDups _

theorem mem_keys (labels : List String) (rows : List Pair) (k : String × String) :
    k ∈ keys labels rows ↔ ∃ p ∈ rows, labelPair labels p = k := by
  unfold keys
  rw [List.mem_eraseDups, List.mem_map]

/-- a duplicate-free list containing `y` hits `y` exactly once -/
theorem sum_ite_eq_one {β : Type} [DecidableEq β] (ks : List β) (y : β) (hnd : ks.Nodup) (hy : y ∈ ks) :
    (ks.map (fun k => if y = k then 1 else 0)).sum = 1 := by
  induction ks with
  | nil => simp at hy
  | cons k ks ih =>
    rw [List.nodup_cons] at hnd
    simp only [List.map_cons, List.sum_cons]
    by_cases h : y = k
    · subst h
      have hz : (ks.map (fun k => if y = k then 1 else 0)).sum = 0 := by
        apply sum_map_zero
        intro k' hk'
        have : y ≠ k' := fun e => hnd.1 (e ▸ hk')
        simp [this]
      rw [if_pos rfl, hz]
    · rw [if_neg h, Nat.zero_add]
      apply ih hnd.2
      simpa [h] using hy

/-- grouping a list by a key function and counting each group conserves the length -/
theorem sum_group_counts {α β : Type} [DecidableEq β] (f : α → β) (ks : List β) (hnd : ks.Nodup)
    (l : List α) (hall : ∀ x ∈ l, f x ∈ ks) :
    (ks.map (fun k => (l.filter (fun x => f x = k)).length)).sum = l.length := by
  induction l with
  | nil => simp
  | cons x xs ih =>
    have hstep : ∀ k, ((x :: xs).filter (fun x => f x = k)).length
        = (xs.filter (fun x => f x = k)).length + (if f x = k then 1 else 0) := by
      intro k
      by_cases h : f x = k <;> simp [h]
    simp only [hstep]
    rw [sum_map_add, ih (fun y hy => hall y (by simp [hy])),
      sum_ite_eq_one ks (f x) hnd (hall x (by simp))]
    simp

/-- the label counter conserves the number of jumps -/
theorem counter_total (labels : List String) (rows : List Pair) :
    ((counter labels rows).map (·.2)).sum = rows.length := by
  have h := sum_group_counts (labelPair labels) (keys labels rows) (keys_nodup labels rows) rows
    (fun p hp => (mem_keys labels rows _).2 ⟨p, hp, rfl⟩)
  rw [← h]
  unfold counter counterGet
  rw [List.map_map]
  rfl

/-- no zero entries are listed -/
theorem counter_pos (labels : List String) (rows : List Pair) (e : (String × String) × Nat)
    (he : e ∈ counter labels rows) : 0 < e.2 := by
  unfold counter at he
  obtain ⟨k, hk, rfl⟩ := List.mem_map.1 he
  obtain ⟨p, hp, hpk⟩ := (mem_keys labels rows k).1 hk
  show 0 < counterGet labels rows k.1 k.2
  unfold counterGet
  apply List.length_pos_of_mem (a := p)
  rw [List.mem_filter]
  exact ⟨hp, by simp [hpk]⟩

theorem sum_map_div (counts : List Nat) (d : ℚ) :
    (counts.map (fun (c : Nat) => (c : ℚ) / d)).sum = ((counts.sum : Nat) : ℚ) / d := by
  induction counts with
  | nil => simp
  | cons c cs ih =>
    simp only [List.map_cons, List.sum_cons, ih, Nat.cast_add, add_div]

/-- rate × (number of floating atoms × total time) = total number of jumps in the parts -/
theorem rate_times_time (counts : List Nat) (nFloat : Nat) (partTime : ℚ) (hc : counts ≠ []) (hn : 0 < nFloat)
    (ht : 0 < partTime) :
    rateMean counts nFloat partTime * ((nFloat : ℚ) * (partTime * counts.length)) = (counts.sum : ℚ) := by
  have h1 : (nFloat : ℚ) ≠ 0 := by
    have : (0 : ℚ) < (nFloat : ℚ) := by exact_mod_cast hn
    exact ne_of_gt this
  have h2 : partTime ≠ 0 := ne_of_gt ht
  have h3 : (counts.length : ℚ) ≠ 0 := by
    have : 0 < counts.length := List.length_pos_iff.2 hc
    have : (0 : ℚ) < (counts.length : ℚ) := by exact_mod_cast this
    exact ne_of_gt this
  unfold rateMean
  rw [sum_map_div]
  field_simp

/-- non-vacuity / sanity on a concrete table: sites labelled A A B, five jumps -/
example : counter ["A", "A", "B"] [(0, 1), (1, 2), (0, 2), (2, 0), (1, 0)] =
    [(("A", "A"), 2), (("A", "B"), 2), (("B", "A"), 1)] := by decide

end G.C05Lab
