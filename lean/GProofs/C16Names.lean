import GModel.CacheName
import GGen.CacheKeys
import GGen.CacheNames
import GProofs.C16
/-!
# C16 (names) — the default cache file name separates what it must separate

* `with_suffix_forgets_last`  `with_suffix` cannot tell `md.xml` from `md.bak`: the carrier file name contributes everything BUT
                             its last component
* `asWas_collision` (D17)    hence, with a hash over the options only, two vasprun files with one stem share their cache name
* `name_determines_hash`     the name determines the hash component …
* `distinct_of_hashed`       … so when the hash covers the file name and the hash is injective on the keys in use, different
                             files or different hashed options give different names
* `name_determines_template` the template components written into the name literally (LAMMPS `coords_format`) are determined too
* generated obligations      per loader (lists rewritten from trajectory.py on every run): every parameter the parser reads is
                             hashed or written into the template; the file parameter that carries the name is hashed
-/
namespace G.C16Names
open G G.CacheName

theorem with_suffix_forgets_last (stem : List String) (a b : String) (suffix : List String) (h : stem ≠ []) :
    withSuffix (stem ++ [a]) suffix = withSuffix (stem ++ [b]) suffix := by
  unfold withSuffix
  have hl : ∀ x : String, ¬ (stem ++ [x]).length ≤ 1 := by
    intro x
    have : 0 < stem.length := List.length_pos_iff.mpr h
    simp only [List.length_append, List.length_singleton]
    omega
  simp only [hl, if_false, List.dropLast_concat]

/-- **D17 as it was**: hash over the options only (`h` the same for both files) -/
theorem asWas_collision (h : String) :
    cacheName ["md", "xml"] ["xml"] h = cacheName ["md", "bak"] ["xml"] h := by
  unfold cacheName
  exact with_suffix_forgets_last ["md"] "xml" "bak" _ (by simp)

theorem name_determines_hash (f f' t t' : List String) (h h' : String)
    (e : cacheName f t h = cacheName f' t' h') : h = h' := by
  unfold cacheName withSuffix at e
  have e' := congrArg List.reverse e
  simp only [List.reverse_append, List.reverse_cons, List.reverse_nil, List.nil_append, List.cons_append] at e'
  injection e' with _ e2
  injection e2 with e3 _

theorem name_determines_template (f f' t t' : List String) (h h' : String) (hl : t.length = t'.length)
    (e : cacheName f t h = cacheName f' t' h') : t = t' := by
  unfold cacheName withSuffix at e
  have e1 : (if f.length ≤ 1 then f else f.dropLast) ++ t ++ [h, "cache"]
      = (if f'.length ≤ 1 then f' else f'.dropLast) ++ t' ++ [h', "cache"] := by
    simpa [List.append_assoc] using e
  have e2 := List.append_inj_left' e1 rfl
  exact List.append_inj_right' e2 hl

/-- **C16 (names, repaired form)**: the hash covers the file name (`key = (file, options)`), `hashOf` injective on the keys in use:
different files or different hashed options never share a default cache name. -/
theorem distinct_of_hashed {K : Type} (hashOf : K → String) (hinj : Function.Injective hashOf)
    (f f' t t' : List String) (k k' : K) (hk : k ≠ k') :
    cacheName f t (hashOf k) ≠ cacheName f' t' (hashOf k') := by
  intro e
  exact hk (hinj (name_determines_hash f f' t t' _ _ e))

/-- non-vacuity: the two sibling files of the check, hash over (file, options) -/
example : cacheName ["md", "xml"] ["xml"] "037fbfaf" ≠ cacheName ["md", "bak"] ["xml"] "9a1c22d0" := by decide

/-! ## generated obligations (lean/GGen/CacheKeys.lean is rewritten from trajectory.py on every run) -/

theorem from_vasprun_used_hashed :
    ∀ p ∈ G.Gen.from_vasprun_used, p ∈ G.Gen.from_vasprun_hashed ∨ p ∈ G.Gen.from_vasprun_templated ∨ p ∈ C16.neutral := by decide
theorem from_lammps_used_hashed :
    ∀ p ∈ G.Gen.from_lammps_used, p ∈ G.Gen.from_lammps_hashed ∨ p ∈ G.Gen.from_lammps_templated ∨ p ∈ C16.neutral := by decide
theorem from_gromacs_used_hashed :
    ∀ p ∈ G.Gen.from_gromacs_used, p ∈ G.Gen.from_gromacs_hashed ∨ p ∈ G.Gen.from_gromacs_templated ∨ p ∈ C16.neutral := by decide

/-- the file whose name carries the template loses its last suffix in the name (`with_suffix_forgets_last`): it must be hashed -/
theorem carriers_hashed :
    G.Gen.from_vasprun_carrier ∈ G.Gen.from_vasprun_hashed ∧ G.Gen.from_lammps_carrier ∈ G.Gen.from_lammps_hashed ∧
      G.Gen.from_gromacs_carrier ∈ G.Gen.from_gromacs_hashed := by decide

end G.C16Names
