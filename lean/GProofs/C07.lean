import GModel.Basic
import GModel.Volume
import GModel.Counts
import GModel.Sites
import GProofs.Geometry
import GProofs.C01
import Mathlib.Tactic.Linarith
import Mathlib.Tactic.Ring
import Mathlib.Tactic.Positivity
import Mathlib.Data.Rat.Floor
import Mathlib.Tactic.LinearCombination
import Mathlib.Tactic.FieldSimp
/-!
# C07 — results depend only on geometry: orientation, origin, labelling invariance

Every analysis of the model takes the cell only through its METRIC TENSOR `G = M·Mᵀ` (site
assignment, events, jumps, matrices, diffusivities, collective pairs, RDFs) or through fractional
coordinates alone (density volumes, free energy, path graphs).  Hence:

* `metric_rot`          a rigid rotation of the lattice vectors, `M ↦ M·R` with `R·Rᵀ = 1`, leaves the
                        metric tensor — and therefore every such analysis — unchanged
* `diff_translate`, `pbcDistSq_translate`   translating two points together leaves their difference
                        and their periodic distance unchanged; `wrap_translate_int`
* `within_translate`    … hence site assignment is invariant under a common translation of atoms and sites
* `voxel_translate`     translating by k voxels rolls the voxel index by k (mod n): density and
                        free-energy grids are rolled by the same shift
* `countPair_relabel`   relabelling sites by an injective map permutes the count matrix accordingly
* `assign_perm_sites`   permuting the site list permutes the assigned index accordingly (unique assignment)
-/
namespace G.C07
open G G.Geometry

/-- 3×3 matrix by rows, acting on the right of row vectors: `(M·R)` has rows `r_i·R` -/
structure Rot where
  c1 : V3   -- columns of R
  c2 : V3
  c3 : V3

def rotRow (R : Rot) (v : V3) : V3 := ⟨v.dot R.c1, v.dot R.c2, v.dot R.c3⟩
def M3.mulRot (m : M3) (R : Rot) : M3 := ⟨rotRow R m.r1, rotRow R m.r2, rotRow R m.r3⟩

/-- `R·Rᵀ = 1`: the Euclidean inner product of rotated row vectors is unchanged -/
def Orthogonal (R : Rot) : Prop := ∀ u v : V3, (rotRow R u).dot (rotRow R v) = u.dot v

/-- **C07 (orientation)**: a rigid rotation of the lattice vectors leaves the metric tensor unchanged. -/
theorem metric_rot (m : M3) (R : Rot) (hR : Orthogonal R) : (M3.mulRot m R).metric = m.metric := by
  have h : ∀ u v : V3, (rotRow R u).dot (rotRow R v) = u.dot v := hR
  simp only [M3.metric, M3.mulRot, h]

/-- orthogonality in coordinates: orthonormal columns… (sufficient condition, as checked by the harness) -/
theorem orthogonal_of_rows (R : Rot)
    (h11 : R.c1.x^2 + R.c2.x^2 + R.c3.x^2 = 1) (h22 : R.c1.y^2 + R.c2.y^2 + R.c3.y^2 = 1) (h33 : R.c1.z^2 + R.c2.z^2 + R.c3.z^2 = 1)
    (h12 : R.c1.x*R.c1.y + R.c2.x*R.c2.y + R.c3.x*R.c3.y = 0) (h13 : R.c1.x*R.c1.z + R.c2.x*R.c2.z + R.c3.x*R.c3.z = 0)
    (h23 : R.c1.y*R.c1.z + R.c2.y*R.c2.z + R.c3.y*R.c3.z = 0) : Orthogonal R := by
  intro u v
  simp only [rotRow, V3.dot]
  linear_combination (u.x * v.x) * h11 + (u.y * v.y) * h22 + (u.z * v.z) * h33
    + (u.x * v.y + u.y * v.x) * h12 + (u.x * v.z + u.z * v.x) * h13 + (u.y * v.z + u.z * v.y) * h23

/-- componentwise form of the `V3` addition / subtraction -/
theorem v3_add_def (a b : V3) : a + b = ⟨a.x + b.x, a.y + b.y, a.z + b.z⟩ := rfl
theorem v3_sub_def (a b : V3) : a - b = ⟨a.x - b.x, a.y - b.y, a.z - b.z⟩ := rfl

/-- **C07 (origin)**: a common translation does not change the difference vector … -/
theorem diff_translate (a b t : V3) : (b + t) - (a + t) = b - a := by
  simp only [v3_sub_def, v3_add_def, V3.mk.injEq]
  refine ⟨?_, ?_, ?_⟩ <;> ring

/-- … nor the periodic distance … -/
theorem pbcDistSq_translate (G : Sym3) (a b t : V3) : pbcDistSq G (a + t) (b + t) = pbcDistSq G a b := by
  unfold pbcDistSq
  rw [diff_translate]

/-- … nor membership in a site sphere: site assignment is invariant when atoms and sites move together. -/
theorem within_translate (G : Sym3) (r : ℚ) (s x t : V3) :
    Sites.within G r (s + t) (x + t) = Sites.within G r s x := by
  unfold Sites.within
  rw [pbcDistSq_translate]

/-- re-wrapping a site after the translation (sites are stored in [0,1)) changes nothing either,
away from ties -/
theorem pbcDistSq_wrap_site (G : Sym3) (a b : V3) (n1 n2 n3 : ℤ)
    (hn : ∀ k : ℤ, (b - a).x ≠ k + 1/2 ∧ (b - a).y ≠ k + 1/2 ∧ (b - a).z ≠ k + 1/2) :
    minImageSqCert G (b - shiftBy a n1 n2 n3) = minImageSqCert G (b - a) := by
  have h : b - shiftBy a n1 n2 n3 = shiftBy (b - a) (-n1) (-n2) (-n3) := by
    simp only [v3_sub_def, shiftBy, V3.mk.injEq]
    refine ⟨?_, ?_, ?_⟩ <;> push_cast <;> ring
  rw [h]
  exact minImageSqCert_shift G (b - a) (-n1) (-n2) (-n3) hn

/-- **C07 (grids)**: translating a coordinate by `k` voxels rolls its voxel index by `k` modulo the grid size. -/
theorem voxel_translate (n : Nat) (hn : 0 < n) (x : ℚ) (k : ℤ) :
    ⌊wrap (x + (k : ℚ) / n) * n⌋ = (⌊wrap x * n⌋ + k) % (n : ℤ) := by
  have hN : (0 : ℚ) < (n : ℚ) := by exact_mod_cast hn
  have hN' : (n : ℚ) ≠ 0 := ne_of_gt hN
  obtain ⟨j, hj⟩ : ∃ j : ℤ, j = ⌊x⌋ - ⌊x + (k : ℚ) / n⌋ := ⟨_, rfl⟩
  have hW : wrap (x + (k : ℚ) / n) * n = wrap x * n + ((k + (n : ℤ) * j : ℤ) : ℚ) := by
    rw [G.C01.wrap_eq, G.C01.wrap_eq, hj]
    push_cast
    field_simp
    ring
  obtain ⟨h0, h1⟩ := G.C01.wrap_range (x + (k : ℚ) / n)
  have hfl : ⌊wrap (x + (k : ℚ) / n) * n⌋ = ⌊wrap x * n⌋ + (k + (n : ℤ) * j) := by
    rw [hW, Int.floor_add_intCast]
  have hlo : 0 ≤ ⌊wrap (x + (k : ℚ) / n) * n⌋ := Int.floor_nonneg.mpr (mul_nonneg h0 (le_of_lt hN))
  have hhi : ⌊wrap (x + (k : ℚ) / n) * n⌋ < (n : ℤ) := by
    rw [Int.floor_lt]
    push_cast
    nlinarith
  have hmod : (⌊wrap x * n⌋ + k) % (n : ℤ) = (⌊wrap x * n⌋ + (k + (n : ℤ) * j)) % (n : ℤ) := by
    rw [← add_assoc, Int.add_mul_emod_self_left]
  rw [hmod, ← hfl]
  exact (Int.emod_eq_of_lt hlo hhi).symm

/-- **C07 (site labelling)**: relabelling the sites by an injective map moves the counts with them. -/
theorem countPair_relabel (rows : List Counts.Pair) (f : Int → Int) (hf : Function.Injective f) (i j : Int) :
    Counts.countPair (rows.map (fun p => (f p.1, f p.2))) (f i, f j) = Counts.countPair rows (i, j) := by
  unfold Counts.countPair
  rw [List.filter_map, List.length_map]
  congr 1
  apply List.filter_congr
  intro p _
  simp only [Function.comp, Prod.mk.injEq, hf.eq_iff, decide_eq_decide]
  exact (Prod.ext_iff (x := p) (y := (i, j))).symm

/-- generalisation over the running offset of `assignFrom` -/
theorem assignFrom_unique (G : Sym3) (frac : ℚ) (x : V3) :
    ∀ (sites : List (V3 × ℚ)) (off k : Nat) (p : V3 × ℚ), sites[k]? = some p →
      Sites.within G (p.2 * frac) p.1 x = true →
      (∀ j q, sites[j]? = some q → Sites.within G (q.2 * frac) q.1 x = true → j = k) →
      Sites.assignFrom G frac off sites x = ((off + k : Nat) : Int) := by
  intro sites
  induction sites with
  | nil => intro off k p hk; simp at hk
  | cons hd rest ih =>
    intro off k p hk hin huniq
    obtain ⟨s, r⟩ := hd
    cases k with
    | zero =>
      simp only [List.getElem?_cons_zero, Option.some.injEq] at hk
      subst hk
      unfold Sites.assignFrom
      rw [if_pos hin]
      simp
    | succ k =>
      have hhd : ¬ Sites.within G (r * frac) s x = true := by
        intro hw
        have := huniq 0 (s, r) (by simp) hw
        omega
      unfold Sites.assignFrom
      rw [if_neg hhd]
      have hk' : rest[k]? = some p := by simpa using hk
      have hu' : ∀ j q, rest[j]? = some q → Sites.within G (q.2 * frac) q.1 x = true → j = k := by
        intro j q hj hq
        have := huniq (j + 1) q (by simpa using hj) hq
        omega
      rw [ih (off + 1) k p hk' hin hu']
      congr 1
      omega

/-- **C07 (site order)**: if exactly the site at position `k` contains the atom, then after any
reordering of the site list the assigned index is the new position of that site. -/
theorem assign_perm_sites (G : Sym3) (frac : ℚ) (sites : List (V3 × ℚ)) (x : V3) (k : Nat) (p : V3 × ℚ)
    (hk : sites[k]? = some p) (hin : Sites.within G (p.2 * frac) p.1 x = true)
    (huniq : ∀ j q, sites[j]? = some q → Sites.within G (q.2 * frac) q.1 x = true → j = k) :
    Sites.assign G frac sites x = k := by
  have h := assignFrom_unique G frac x sites 0 k p hk hin huniq
  unfold Sites.assign
  rw [h]
  simp

/-- non-vacuity: a (3,4,5) rotation about z of a triclinic cell -/
example :
    let R : Rot := ⟨⟨3/5, 4/5, 0⟩, ⟨-4/5, 3/5, 0⟩, ⟨0, 0, 1⟩⟩
    let M : M3 := ⟨⟨7, 0, 0⟩, ⟨3/2, 8, 0⟩, ⟨2, 1, 9⟩⟩
    (M3.mulRot M R).metric = M.metric ∧ (M3.mulRot M R).r1 = ⟨21/5, -28/5, 0⟩ := by
  decide +kernel

end G.C07
