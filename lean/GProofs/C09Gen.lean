import GGen.FormulasC09
import Mathlib.Tactic.Linarith
import Mathlib.Tactic.Ring
import Mathlib.Tactic.Positivity
/-!
# C09 — obligations on the formula slice regenerated from /repo's source (GGen/FormulasC09.lean): `Volume.get_free_energy`

Every theorem here is ABOUT THE GENERATED DEFINITIONS: when the source formula changes, the definition changes with it
and the theorem either still holds (a harmless rewrite) or stops checking (then the check searches for a failing input).
-/
namespace G.C09Gen
open G

theorem freeEnergy_eq (T kB lp : ℚ) : Gen.freeEnergy T kB lp = -(kB * T) * lp := by
  unfold Gen.freeEnergy
  ring

/-- a larger log-probability (denser voxel) never has a higher free energy -/
theorem freeEnergy_antitone (T kB lp₁ lp₂ : ℚ) (hT : 0 < T) (hk : 0 < kB) (h : lp₁ ≤ lp₂) :
    Gen.freeEnergy T kB lp₂ ≤ Gen.freeEnergy T kB lp₁ := by
  rw [freeEnergy_eq, freeEnergy_eq]
  have hkT : 0 < kB * T := mul_pos hk hT
  nlinarith [mul_le_mul_of_nonneg_left h hkT.le]

/-- probabilities are ≤ 1, so the free energy of a visited voxel is non-negative -/
theorem freeEnergy_nonneg (T kB lp : ℚ) (hT : 0 < T) (hk : 0 < kB) (h : lp ≤ 0) : 0 ≤ Gen.freeEnergy T kB lp := by
  rw [freeEnergy_eq]
  have hkT : 0 < kB * T := mul_pos hk hT
  nlinarith [mul_nonneg hkT.le (neg_nonneg.mpr h)]

/-- the replacement of the infinity of a never-visited voxel happens after the scaling by k_B T (so it cannot overflow) -/
theorem nanToNum_outermost : Gen.nanToNumOutermost = true := by
  rfl

end G.C09Gen
