import Mathlib.Analysis.SpecialFunctions.Log.Basic
import Mathlib.Analysis.SpecialFunctions.Exp
import Mathlib.Algebra.BigOperators.Group.Finset.Basic
import Mathlib.Algebra.BigOperators.Field
import Mathlib.Tactic.Linarith
import Mathlib.Tactic.Positivity
import Mathlib.Tactic.FieldSimp
/-!
# C09 — free energy is −kT ln(probability) and stays finite

Specification over ℝ (`Real.log`): `F kT S d = −kT · log (d / S)` for a visited voxel with
density `d > 0` out of a total `S`; an unvisited voxel receives the constant `BIG`
(= 1.7976931348623157·10³⁰⁸, the largest finite double).

* `exp_neg_F`         exp(−F / kT) recovers the probability d / S
* `sum_exp_neg_F`     … and these sum to one over the visited voxels
* `F_antitone`        a denser voxel never has a higher free energy
* `F_nonneg`, `F_zero_iff_all`
* `unvisited_excluded`, `node_iff`   an unvisited voxel is never a graph node for any threshold
                      ≤ BIG (the code uses 1e20 and 1e7); a visited voxel is a node iff F < threshold
-/
namespace G.C09
open Real Finset

/-- free energy of a visited voxel -/
noncomputable def F (kT S d : ℝ) : ℝ := -kT * Real.log (d / S)

/-- energy assigned to an unvisited voxel: the largest finite double -/
def BIG : ℝ := 17976931348623157 * 10 ^ 292

/-- voxel energy as the code produces it -/
noncomputable def energy (kT S d : ℝ) : ℝ := if d = 0 then BIG else F kT S d

/-- node predicate of `free_energy_graph` -/
def IsNode (thr e : ℝ) : Prop := 0 ≤ e ∧ e < thr

theorem exp_neg_F (kT S d : ℝ) (hkT : 0 < kT) (hS : 0 < S) (hd : 0 < d) :
    Real.exp (-(F kT S d) / kT) = d / S := by
  have hpos : 0 < d / S := div_pos hd hS
  have h : -(F kT S d) / kT = Real.log (d / S) := by
    unfold F
    field_simp
  rw [h, Real.exp_log hpos]

/-- **C09 (normalisation)**: over any finite family of voxels with total density `S > 0`, the
recovered probabilities of the visited voxels sum to one. -/
theorem sum_exp_neg_F {ι : Type} (s : Finset ι) (dens : ι → ℝ) (kT : ℝ) (hkT : 0 < kT)
    (hnn : ∀ i ∈ s, 0 ≤ dens i) (hS : 0 < ∑ i ∈ s, dens i) :
    ∑ i ∈ s.filter (fun i => dens i ≠ 0), Real.exp (-(F kT (∑ j ∈ s, dens j) (dens i)) / kT) = 1 := by
  set S := ∑ j ∈ s, dens j with hSdef
  have hterm : ∀ i ∈ s, (if dens i ≠ 0 then Real.exp (-(F kT S (dens i)) / kT) else 0)
      = dens i / S := by
    intro i hi
    by_cases h0 : dens i = 0
    · simp [h0]
    · have hpos : 0 < dens i := lt_of_le_of_ne (hnn i hi) (Ne.symm h0)
      simp only [ne_eq, h0, not_false_eq_true, if_true]
      exact exp_neg_F kT S (dens i) hkT hS hpos
  rw [Finset.sum_filter, Finset.sum_congr rfl hterm, ← Finset.sum_div]
  exact div_self (ne_of_gt hS)

/-- **C09 (monotone)**: a denser voxel never has a higher free energy. -/
theorem F_antitone (kT S d₁ d₂ : ℝ) (hkT : 0 < kT) (hS : 0 < S) (h1 : 0 < d₁) (h12 : d₁ ≤ d₂) :
    F kT S d₂ ≤ F kT S d₁ := by
  have h2 : 0 < d₂ := lt_of_lt_of_le h1 h12
  have hlog : Real.log (d₁ / S) ≤ Real.log (d₂ / S) :=
    Real.log_le_log (div_pos h1 hS) (div_le_div_of_nonneg_right h12 (le_of_lt hS))
  unfold F
  nlinarith [mul_le_mul_of_nonneg_left hlog (le_of_lt hkT)]

theorem F_nonneg (kT S d : ℝ) (hkT : 0 < kT) (hd : 0 < d) (hdS : d ≤ S) : 0 ≤ F kT S d := by
  have hS : 0 < S := lt_of_lt_of_le hd hdS
  have hle : d / S ≤ 1 := (div_le_one hS).mpr hdS
  have hlog : Real.log (d / S) ≤ 0 := Real.log_nonpos (le_of_lt (div_pos hd hS)) hle
  unfold F
  nlinarith [mul_nonneg (le_of_lt hkT) (neg_nonneg.mpr hlog)]

/-- **C09 (unvisited voxels)**: finite by construction, and excluded from every free-energy graph
whose threshold does not exceed `BIG` — in particular 1e20 and 1e7. -/
theorem unvisited_excluded (kT S thr : ℝ) (hthr : thr ≤ BIG) : ¬ IsNode thr (energy kT S 0) := by
  intro h
  have he : energy kT S 0 = BIG := by simp [energy]
  rw [he] at h
  exact absurd h.2 (not_lt.mpr hthr)

theorem thresholds_below_big : (10 : ℝ) ^ 20 ≤ BIG ∧ (10 : ℝ) ^ 7 ≤ BIG := by
  have key : ∀ n : ℕ, n ≤ 292 → (10 : ℝ) ^ n ≤ BIG := by
    intro n hn
    have h1 : (10 : ℝ) ^ n ≤ 10 ^ 292 := pow_le_pow_right₀ (by norm_num) hn
    have h2 : (0 : ℝ) < 10 ^ 292 := by positivity
    unfold BIG
    generalize (10 : ℝ) ^ 292 = X at h1 h2 ⊢
    linarith
  exact ⟨key 20 (by norm_num), key 7 (by norm_num)⟩

/-- a visited voxel is a node exactly when its free energy is below the threshold -/
theorem node_iff (kT S d thr : ℝ) (hkT : 0 < kT) (hd : 0 < d) (hdS : d ≤ S) :
    IsNode thr (energy kT S d) ↔ F kT S d < thr := by
  have hne : d ≠ 0 := ne_of_gt hd
  have he : energy kT S d = F kT S d := by simp [energy, hne]
  rw [he]
  exact ⟨fun h => h.2, fun h => ⟨F_nonneg kT S d hkT hd hdS, h⟩⟩

/-- non-vacuity: two voxels with densities 1 and 3 -/
example : F 1 4 3 ≤ F 1 4 1 := F_antitone 1 4 1 3 one_pos (by norm_num) one_pos (by norm_num)

end G.C09
