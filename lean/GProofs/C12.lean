import GModel.Collective
/-!
# C12 — collective jumps are exactly the close-in-time/space pairs of different atoms

`P close ms a b` is the property's pair predicate (different atoms, neither starts more than
the window after the other stops, some origin/destination sites within the cut-off).

* `scan_sound`, `scan_complete`, `scan_iff`  the scan (after the repair) reports exactly the
  pairs `(a, b)` with `a` before `b` in the sorted table and `P a b`
* `P_symm`, `closeBy_symm`    the predicate does not depend on the order of the two jumps
* `scan_nodup`, `scan_no_swap`  each unordered pair is reported at most once
* `sortJ_perm`, `sortJ_ids`   sorting only permutes the rows (and numbers them 0..n-1)
* `second_guard_dead`         under the stop-time order the second time guard never fires
* `solo_plus_coll`            solo + collective = total
* `break_counterexample`      the original early `break` loses a pair (defect D9)
-/
namespace G.C12
open G.Coll

variable (close : J → J → Bool) (ms : Int)

theorem inner_sound (ei : J) : ∀ (l : List J) (p : J × J), p ∈ inner close ms ei l →
    p.1 = ei ∧ p.2 ∈ l ∧ P close ms p.1 p.2 := by
  sorry

theorem inner_complete (ei : J) : ∀ (l : List J) (ej : J), ej ∈ l → P close ms ei ej →
    (ei, ej) ∈ inner close ms ei l := by
  sorry

/-- **C12 (soundness)**: every reported pair satisfies the three conditions. -/
theorem scan_sound : ∀ (l : List J) (p : J × J), p ∈ scan close ms l →
    p.1 ∈ l ∧ p.2 ∈ l ∧ P close ms p.1 p.2 := by
  sorry

/-- **C12 (completeness)**: every pair of rows that satisfies the conditions is reported. -/
theorem scan_complete : ∀ (pre : List J) (a : J) (mid : List J) (b : J) (post : List J),
    P close ms a b → (a, b) ∈ scan close ms (pre ++ a :: (mid ++ b :: post)) := by
  sorry

/-- **C12 (exactly)**: on a table without repeated rows, `(a, b)` is reported iff `a` precedes
`b` in the table and the pair satisfies the conditions. -/
theorem scan_iff (l : List J) (hnd : l.Nodup) (a b : J) :
    (a, b) ∈ scan close ms l ↔
      (∃ pre mid post, l = pre ++ a :: (mid ++ b :: post)) ∧ P close ms a b := by
  sorry

/-- the pair predicate is symmetric when closeness is -/
theorem P_symm (hc : ∀ a b, close a b = close b a) (a b : J) :
    P close ms a b ↔ P close ms b a := by
  sorry

/-- closeness from a symmetric distance table is symmetric -/
theorem closeBy_symm (dsq : Int → Int → Rat) (m : Rat) (hd : ∀ i j, dsq i j = dsq j i) (a b : J) :
    closeBy dsq m a b = closeBy dsq m b a := by
  sorry

/-- **C12 (once)**: no pair is reported twice … -/
theorem scan_nodup (l : List J) (hnd : l.Nodup) : (scan close ms l).Nodup := by
  sorry

/-- … and never in both orders: each unordered pair is reported at most once. -/
theorem scan_no_swap (l : List J) (hnd : l.Nodup) (a b : J) :
    (a, b) ∈ scan close ms l → (b, a) ∉ scan close ms l := by
  sorry

/-- forgetting the position number -/
def strip (j : J) : J := { j with id := 0 }

/-- sorting only permutes the rows … -/
theorem sortJ_perm (l : List J) : ((sortJ l).map strip).Perm (l.map strip) := by
  sorry

/-- … and numbers them by position, so the sorted table has no repeated rows. -/
theorem sortJ_ids (l : List J) : (sortJ l).map (·.id) = List.range l.length := by
  sorry

theorem sortJ_nodup (l : List J) : (sortJ l).Nodup := by
  sorry

/-- under the (stop, start) order, for jumps with `t0 < t1` and a non-negative window, the second
time guard (`event_i.start − event_j.stop > max_steps`) can never fire for a later row. -/
theorem second_guard_dead (ei ej : J) (hms : 0 ≤ ms) (hi : ei.t0 < ei.t1) (hord : ei.t1 ≤ ej.t1) :
    ¬ (ei.t0 - ej.t1 > ms) := by
  sorry

/-- **C12 (counts)**: solo + collective = total number of jumps. -/
theorem solo_plus_coll (n : Nat) (pairs : List (J × J)) (h : (touched pairs).length ≤ n) :
    nSolo n pairs + nColl n pairs = n := by
  sorry

/-- the rows touched by pairs of a table of `n` rows numbered `0..n-1` are at most `n` -/
theorem touched_le (l : List J) (hid : l.map (·.id) = List.range l.length) :
    (touched (scan close ms l)).length ≤ l.length := by
  sorry

/-! ## history: defect D9 (repaired by a711a25) -/

def cl : J → J → Bool := fun _ _ => true

/-- rows already in (stop, start) order; the early `break` loses the pair (a, c) -/
theorem break_counterexample :
    let a : J := ⟨0, 0, 0, 1, 0, 1⟩
    let b : J := ⟨1, 1, 0, 1, 5, 6⟩
    let c : J := ⟨2, 2, 0, 1, 1, 7⟩
    scanBreak cl 0 [a, b, c] = [(b, c)] ∧ scan cl 0 [a, b, c] = [(a, c), (b, c)] := by decide

/-- non-vacuity: a sorted table with one qualifying pair and one pair rejected for each reason -/
example :
    let rows : List J := [⟨0, 0, 0, 1, 0, 2⟩, ⟨0, 1, 1, 0, 1, 3⟩, ⟨0, 0, 1, 0, 2, 4⟩, ⟨0, 2, 5, 6, 9, 10⟩]
    ((scan (closeBy (fun i j => if (i < 3) = (j < 3) then 0 else 9) 1) 1 (sortJ rows)).map
        (fun p => (p.1.id, p.2.id))) = [(0, 1), (1, 2)] := by decide

end G.C12
