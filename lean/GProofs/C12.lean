import GModel.Collective
/-!
# C12 — collective jumps are exactly the close-in-time/space pairs of different atoms

`P close ms a b` is the property's pair predicate (different atoms, neither starts more than
the window after the other stops, some origin/destination sites within the cut-off).

* `scan_sound`, `scan_complete`, `scan_iff`  the scan (after the repair) reports exactly the
  pairs `(a, b)` with `a` before `b` in the sorted table and `P a b`
* `P_symm`, `closeBy_symm`    the predicate does not depend on the order of the two jumps
* `scan_nodup`, `scan_no_swap`  each unordered pair is reported at most once
* `sortJ_perm`, `sortJ_ids`   sorting only permutes the rows (and numbers them 0..n-1)
* `second_guard_dead`         under the stop-time order the second time guard never fires
* `solo_plus_coll`            solo + collective = total
* `break_counterexample`      the original early `break` loses a pair (defect D9)
-/
namespace G.C12
open G.Coll

variable (close : J → J → Bool) (ms : Int)

theorem inner_sound (ei : J) : ∀ (l : List J) (p : J × J), p ∈ inner close ms ei l →
    p.1 = ei ∧ p.2 ∈ l ∧ P close ms p.1 p.2 := by
  intro l
  induction l with
  | nil => intro p h; simp [inner] at h
  | cons ej rest ih =>
    intro p h
    unfold inner at h
    split at h
    · obtain ⟨a, b, c⟩ := ih p h; exact ⟨a, List.mem_cons_of_mem _ b, c⟩
    · split at h
      · obtain ⟨a, b, c⟩ := ih p h; exact ⟨a, List.mem_cons_of_mem _ b, c⟩
      · split at h
        · obtain ⟨a, b, c⟩ := ih p h; exact ⟨a, List.mem_cons_of_mem _ b, c⟩
        · split at h
          · rcases List.mem_cons.mp h with h | h
            · subst h
              refine ⟨rfl, by simp, ?_⟩
              unfold P; simp_all
            · obtain ⟨a, b, c⟩ := ih p h; exact ⟨a, List.mem_cons_of_mem _ b, c⟩
          · obtain ⟨a, b, c⟩ := ih p h; exact ⟨a, List.mem_cons_of_mem _ b, c⟩

theorem inner_complete (ei : J) : ∀ (l : List J) (ej : J), ej ∈ l → P close ms ei ej →
    (ei, ej) ∈ inner close ms ei l := by
  intro l
  induction l with
  | nil => intro ej h; simp at h
  | cons x rest ih =>
    intro ej hmem hP
    unfold inner
    rcases List.mem_cons.mp hmem with h | h
    · subst h
      obtain ⟨h1, h2, h3, h4⟩ := hP
      rw [if_neg h2, if_neg h3, if_neg h1, if_pos h4]
      simp
    · have := ih ej h hP
      split
      · exact this
      · split
        · exact this
        · split
          · exact this
          · split
            · exact List.mem_cons_of_mem _ this
            · exact this

/-- **C12 (soundness)**: every reported pair satisfies the three conditions. -/
theorem scan_sound : ∀ (l : List J) (p : J × J), p ∈ scan close ms l →
    p.1 ∈ l ∧ p.2 ∈ l ∧ P close ms p.1 p.2 := by
  intro l
  induction l with
  | nil => intro p h; simp [scan] at h
  | cons ei rest ih =>
    intro p h
    simp only [scan, List.mem_append] at h
    rcases h with h | h
    · obtain ⟨a, b, c⟩ := inner_sound close ms ei rest p h
      exact ⟨by rw [a]; simp, List.mem_cons_of_mem _ b, c⟩
    · obtain ⟨a, b, c⟩ := ih p h
      exact ⟨List.mem_cons_of_mem _ a, List.mem_cons_of_mem _ b, c⟩

/-- **C12 (completeness)**: every pair of rows that satisfies the conditions is reported. -/
theorem scan_complete : ∀ (pre : List J) (a : J) (mid : List J) (b : J) (post : List J),
    P close ms a b → (a, b) ∈ scan close ms (pre ++ a :: (mid ++ b :: post)) := by
  intro pre
  induction pre with
  | nil =>
    intro a mid b post hP
    simp only [List.nil_append, scan, List.mem_append]
    left
    exact inner_complete close ms a _ b (by simp) hP
  | cons x pre ih =>
    intro a mid b post hP
    simp only [List.cons_append, scan, List.mem_append]
    right
    exact ih a mid b post hP

theorem scan_mem_split : ∀ (l : List J) (a b : J), (a, b) ∈ scan close ms l →
    ∃ pre mid post, l = pre ++ a :: (mid ++ b :: post) := by
  intro l
  induction l with
  | nil => intro a b h; simp [scan] at h
  | cons ei rest ih =>
    intro a b h
    simp only [scan, List.mem_append] at h
    rcases h with h | h
    · obtain ⟨e, m, _⟩ := inner_sound close ms ei rest _ h
      simp only at e m
      subst e
      obtain ⟨mid, post, rfl⟩ := List.append_of_mem m
      exact ⟨[], mid, post, rfl⟩
    · obtain ⟨pre, mid, post, rfl⟩ := ih a b h
      exact ⟨ei :: pre, mid, post, rfl⟩

/-- **C12 (exactly)**: on a table without repeated rows, `(a, b)` is reported iff `a` precedes
`b` in the table and the pair satisfies the conditions. -/
theorem scan_iff (l : List J) (hnd : l.Nodup) (a b : J) :
    (a, b) ∈ scan close ms l ↔
      (∃ pre mid post, l = pre ++ a :: (mid ++ b :: post)) ∧ P close ms a b := by
  constructor
  · intro h
    refine ⟨scan_mem_split close ms l a b h, ?_⟩
    exact (scan_sound close ms l (a, b) h).2.2
  · rintro ⟨⟨pre, mid, post, rfl⟩, hP⟩
    exact scan_complete close ms pre a mid b post hP

/-- the pair predicate is symmetric when closeness is -/
theorem P_symm (hc : ∀ a b, close a b = close b a) (a b : J) :
    P close ms a b ↔ P close ms b a := by
  have key : ∀ a b, P close ms a b → P close ms b a := by
    intro a b ⟨h1, h2, h3, h4⟩
    exact ⟨fun h => h1 h.symm, h3, h2, by rw [← hc]; exact h4⟩
  exact ⟨key a b, key b a⟩

/-- closeness from a symmetric distance table is symmetric -/
theorem closeBy_symm (dsq : Int → Int → Rat) (m : Rat) (hd : ∀ i j, dsq i j = dsq j i) (a b : J) :
    closeBy dsq m a b = closeBy dsq m b a := by
  unfold closeBy
  rw [hd a.o b.o, hd a.o b.d, hd a.d b.o, hd a.d b.d]
  cases decide (dsq b.o a.o < m) <;> cases decide (dsq b.d a.o < m) <;>
    cases decide (dsq b.o a.d < m) <;> cases decide (dsq b.d a.d < m) <;> rfl

theorem inner_eq_filter (ei : J) : ∀ l : List J,
    inner close ms ei l = (l.filter (fun ej => decide (P close ms ei ej))).map (fun ej => (ei, ej)) := by
  intro l
  induction l with
  | nil => rfl
  | cons ej rest ih =>
    unfold inner
    rw [List.filter_cons]
    by_cases h1 : ej.t0 - ei.t1 > ms
    · have hn : ¬ P close ms ei ej := fun h => h.2.1 h1
      simp only [h1, hn, if_true, decide_false, ih]; simp
    · by_cases h2 : ei.t0 - ej.t1 > ms
      · have hn : ¬ P close ms ei ej := fun h => h.2.2.1 h2
        simp only [h1, h2, hn, if_true, if_false, decide_false, ih]; simp
      · by_cases h3 : ei.atom = ej.atom
        · have hn : ¬ P close ms ei ej := fun h => h.1 h3
          simp only [h1, h2, h3, hn, if_true, if_false, decide_false, ih]; simp
        · by_cases h4 : close ei ej = true
          · have hp : P close ms ei ej := ⟨h3, h1, h2, h4⟩
            simp only [h1, h2, h3, h4, hp, if_true, if_false, decide_true, ih, List.map_cons]
          · have hn : ¬ P close ms ei ej := fun h => h4 h.2.2.2
            simp only [h1, h2, h3, h4, hn, if_false, decide_false, ih]; simp

theorem inner_nodup (ei : J) (l : List J) (hnd : l.Nodup) : (inner close ms ei l).Nodup := by
  rw [inner_eq_filter]
  have hf : (l.filter (fun ej => decide (P close ms ei ej))).Nodup :=
    List.Pairwise.filter _ hnd
  exact List.Pairwise.map _ (fun a b hab h => hab (by injection h)) hf

/-- **C12 (once)**: no pair is reported twice … -/
theorem scan_nodup (l : List J) (hnd : l.Nodup) : (scan close ms l).Nodup := by
  induction l with
  | nil => simp [scan]
  | cons ei rest ih =>
    rw [List.nodup_cons] at hnd
    simp only [scan]
    rw [List.nodup_append]
    refine ⟨inner_nodup close ms ei rest hnd.2, ih hnd.2, ?_⟩
    intro p hp q hq hpq
    subst hpq
    have h1 := (inner_sound close ms ei rest p hp).1
    have h2 := (scan_sound close ms rest p hq).1
    rw [h1] at h2
    exact hnd.1 h2

/-- … and never in both orders: each unordered pair is reported at most once. -/
theorem scan_no_swap (l : List J) (hnd : l.Nodup) (a b : J) :
    (a, b) ∈ scan close ms l → (b, a) ∉ scan close ms l := by
  induction l with
  | nil => intro h; simp [scan] at h
  | cons ei rest ih =>
    rw [List.nodup_cons] at hnd
    intro h1 h2
    simp only [scan, List.mem_append] at h1 h2
    rcases h1 with h1 | h1 <;> rcases h2 with h2 | h2
    · obtain ⟨e1, m1, _⟩ := inner_sound close ms ei rest _ h1
      obtain ⟨e2, _, _⟩ := inner_sound close ms ei rest _ h2
      simp only at e1 m1 e2
      subst e1
      subst e2
      exact hnd.1 m1
    · obtain ⟨e1, _, _⟩ := inner_sound close ms ei rest _ h1
      obtain ⟨_, m2, _⟩ := scan_sound close ms rest _ h2
      simp only at e1 m2
      subst e1
      exact hnd.1 m2
    · obtain ⟨_, m1, _⟩ := scan_sound close ms rest _ h1
      obtain ⟨e2, _, _⟩ := inner_sound close ms ei rest _ h2
      simp only at e2 m1
      subst e2
      exact hnd.1 m1
    · exact ih hnd.2 h1 h2

/-- forgetting the position number -/
def strip (j : J) : J := { j with id := 0 }

theorem insertSorted_perm (x : J) : ∀ l : List J, (insertSorted x l).Perm (x :: l) := by
  intro l
  induction l with
  | nil => exact List.Perm.refl _
  | cons y ys ih =>
    unfold insertSorted
    split
    · exact ((List.Perm.cons y ih).trans (List.Perm.swap x y ys))
    · exact List.Perm.refl _

theorem foldl_insert_perm : ∀ (l acc : List J),
    (l.foldl (fun acc x => insertSorted x acc) acc).Perm (acc ++ l) := by
  intro l
  induction l with
  | nil => intro acc; simp
  | cons x xs ih =>
    intro acc
    simp only [List.foldl_cons]
    refine (ih _).trans ?_
    refine ((insertSorted_perm x acc).append_right xs).trans ?_
    simpa using (List.perm_middle (a := x) (l₁ := acc) (l₂ := xs)).symm

/-- sorting only permutes the rows … -/
theorem sortJ_perm (l : List J) : ((sortJ l).map strip).Perm (l.map strip) := by
  unfold sortJ
  simp only [List.map_map]
  have h1 : (strip ∘ fun (p : J × Nat) => { p.1 with id := p.2 }) = strip ∘ Prod.fst := by
    funext p; rfl
  rw [h1, ← List.map_map, List.zipIdx_map_fst]
  exact (foldl_insert_perm l []).map strip

/-- … and numbers them by position, so the sorted table has no repeated rows. -/
theorem sortJ_ids (l : List J) : (sortJ l).map (·.id) = List.range l.length := by
  unfold sortJ
  simp only [List.map_map]
  have h1 : ((fun (j : J) => j.id) ∘ fun (p : J × Nat) => { p.1 with id := p.2 }) = Prod.snd := by
    funext p; rfl
  rw [h1, List.zipIdx_map_snd, (foldl_insert_perm l []).length_eq, List.range_eq_range']
  simp

theorem nodup_of_map {α β : Type} (f : α → β) : ∀ l : List α, (l.map f).Nodup → l.Nodup := by
  intro l
  induction l with
  | nil => intro _; exact List.nodup_nil
  | cons a t ih =>
    intro h
    rw [List.map_cons, List.nodup_cons] at h
    rw [List.nodup_cons]
    exact ⟨fun hm => h.1 (List.mem_map_of_mem hm), ih h.2⟩

theorem sortJ_nodup (l : List J) : (sortJ l).Nodup := by
  apply nodup_of_map (·.id)
  rw [sortJ_ids]
  exact List.nodup_range

/-- under the (stop, start) order, for jumps with `t0 < t1` and a non-negative window, the second
time guard (`event_i.start − event_j.stop > max_steps`) can never fire for a later row. -/
theorem second_guard_dead (ei ej : J) (hms : 0 ≤ ms) (hi : ei.t0 < ei.t1) (hord : ei.t1 ≤ ej.t1) :
    ¬ (ei.t0 - ej.t1 > ms) := by
  omega

/-- **C12 (counts)**: solo + collective = total number of jumps. -/
theorem solo_plus_coll (n : Nat) (pairs : List (J × J)) (h : (touched pairs).length ≤ n) :
    nSolo n pairs + nColl n pairs = n := by
  unfold nColl nSolo
  omega

theorem nodup_eraseDups : ∀ l : List Nat, l.eraseDups.Nodup := by
  intro l
  generalize hn : l.length = n
  induction n using Nat.strongRecOn generalizing l with
  | _ n ih =>
    cases l with
    | nil => simp
    | cons a t =>
      rw [List.eraseDups_cons, List.nodup_cons]
      constructor
      · rw [List.mem_eraseDups, List.mem_filter]
        simp
      · have hlen : (t.filter fun b => !b == a).length < n := by
          have := List.length_filter_le (fun b => !b == a) t
          simp at hn; omega
        exact ih _ hlen _ rfl

/-- the rows touched by pairs of a table of `n` rows numbered `0..n-1` are at most `n` -/
theorem touched_le (l : List J) (hid : l.map (·.id) = List.range l.length) :
    (touched (scan close ms l)).length ≤ l.length := by
  have hnd : (touched (scan close ms l)).Nodup := nodup_eraseDups _
  have hsub : touched (scan close ms l) ⊆ List.range l.length := by
    intro x hx
    unfold touched at hx
    rw [List.mem_eraseDups, List.mem_flatMap] at hx
    obtain ⟨p, hp, hx⟩ := hx
    obtain ⟨m1, m2, _⟩ := scan_sound close ms l p hp
    rw [← hid]
    simp only [List.mem_cons, List.not_mem_nil, or_false] at hx
    rcases hx with rfl | rfl
    · exact List.mem_map_of_mem m1
    · exact List.mem_map_of_mem m2
  have := hnd.length_le_of_subset hsub
  simpa using this

/-! ## history: defect D9 (repaired by a711a25) -/

def cl : J → J → Bool := fun _ _ => true

/-- rows already in (stop, start) order; the early `break` loses the pair (a, c) -/
theorem break_counterexample :
    let a : J := ⟨0, 0, 0, 1, 0, 1⟩
    let b : J := ⟨1, 1, 0, 1, 5, 6⟩
    let c : J := ⟨2, 2, 0, 1, 1, 7⟩
    scanBreak cl 0 [a, b, c] = [(b, c)] ∧ scan cl 0 [a, b, c] = [(a, c), (b, c)] := by decide

/-- non-vacuity: a sorted table with one qualifying pair and one pair rejected for each reason -/
example :
    let rows : List J := [⟨0, 0, 0, 1, 0, 2⟩, ⟨0, 1, 1, 0, 1, 3⟩, ⟨0, 0, 1, 0, 2, 4⟩, ⟨0, 2, 5, 6, 9, 10⟩]
    ((scan (closeBy (fun i j => if (i < 3) = (j < 3) then 0 else 9) 1) 1 (sortJ rows)).map
        (fun p => (p.1.id, p.2.id))) = [(0, 1), (1, 2)] := by decide

end G.C12
