import GModel.Collective
import GProofs.C12
/-!
# C12 (early exit) — which early exit from the pair scan is sound

The original code left the inner loop at the first later row that STARTS too late (defect D9: rows are ordered by
STOP time, a later row may still start early enough).  An exit is sound exactly when it can argue about all later
rows: with the rows ordered by stop time and no transit longer than `L`, a row that stops more than `ms + L` after
`ei` stops — and every row after it — starts more than `ms` after `ei` stops.

* `innerExit`            the inner loop with such an exit
* `inner_nil_of_late`    behind a row that stops later than `ei.t1 + ms + L`, the repaired loop finds nothing
* `innerExit_eq_inner`   hence the loop with the exit reports exactly what the loop without it reports
* `exit_bound_tight`     with `≥` in place of `>` a pair is lost (the slip of a seeded change)
-/
namespace G.C12Exit
open G.Coll

variable (close : J → J → Bool) (ms : Int)

/-- inner loop with an early exit bounded by the longest transit `L` -/
def innerExit (L : Int) (ei : J) : List J → List (J × J)
  | [] => []
  | ej :: rest =>
    if ej.t1 - ei.t1 > ms + L then []
    else if ej.t0 - ei.t1 > ms then innerExit L ei rest
    else if ei.t0 - ej.t1 > ms then innerExit L ei rest
    else if ei.atom = ej.atom then innerExit L ei rest
    else if close ei ej then (ei, ej) :: innerExit L ei rest
    else innerExit L ei rest

/-- every row of `l` starts more than `ms` after `ei` stops: nothing is reported -/
theorem inner_nil_of_all_late (ei : J) : ∀ (l : List J), (∀ e ∈ l, e.t0 - ei.t1 > ms) → inner close ms ei l = [] := by
  intro l
  induction l with
  | nil => intro _; rfl
  | cons e rest ih =>
    intro h
    unfold inner
    rw [if_pos (h e (by simp))]
    exact ih (fun x hx => h x (by simp [hx]))

theorem inner_nil_of_late (L : Int) (ei ej : J) (rest : List J)
    (hdur : ∀ e ∈ ej :: rest, e.t1 - e.t0 ≤ L)
    (hsorted : ∀ e ∈ rest, ej.t1 ≤ e.t1)
    (hlate : ej.t1 - ei.t1 > ms + L) : inner close ms ei (ej :: rest) = [] := by
  apply inner_nil_of_all_late
  intro e he
  have hd := hdur e he
  have ht : ej.t1 ≤ e.t1 := by
    simp only [List.mem_cons] at he
    rcases he with rfl | he
    · exact Int.le_refl _
    · exact hsorted e he
  omega

/-- **C12 (sound early exit)**: rows ordered by stop time, no transit longer than `L` -/
theorem innerExit_eq_inner (L : Int) (ei : J) :
    ∀ (l : List J), (∀ e ∈ l, e.t1 - e.t0 ≤ L) → l.Pairwise (fun a b => a.t1 ≤ b.t1) →
      innerExit close ms L ei l = inner close ms ei l := by
  intro l
  induction l with
  | nil => intro _ _; rfl
  | cons ej rest ih =>
    intro hdur hs
    have hs' := List.pairwise_cons.mp hs
    have ihr := ih (fun e he => hdur e (by simp [he])) hs'.2
    by_cases hlate : ej.t1 - ei.t1 > ms + L
    · rw [inner_nil_of_late close ms L ei ej rest hdur hs'.1 hlate]
      unfold innerExit
      rw [if_pos hlate]
    · unfold innerExit inner
      rw [if_neg hlate, ihr]

/-- the bound is tight: exiting already at `=` loses the pair (row 1 has the longest transit and starts exactly `ms` after
row 0 stops) -/
theorem exit_bound_tight :
    let a : J := ⟨0, 0, 0, 1, 0, 2⟩
    let b : J := ⟨1, 1, 2, 3, 5, 10⟩
    inner (fun _ _ => true) 3 a [b] = [(a, b)] ∧ (b.t1 - a.t1 ≥ 3 + 5) := by decide

end G.C12Exit
