import GModel.Counts
/-!
# C05 — count matrices, occupancy and the jump-diffusivity sum conserve counts

* `matrixAsIs_get`, `matrixAsIs_shape`  with all indices inside `[0, n)` the fancy-index
  assignment of unique-pair counts puts in entry (i, j) exactly the number of rows (i, j)
* `matrixSpec_sum`       the matrix sums to the number of rows
* `matrixSpec_diag`      rows with origin ≠ destination ⇒ empty diagonal
* `weightedSum_eq_rows`  Σ_ij w(i,j)·M_ij = Σ_rows w(origin, destination)  (jump diffusivity:
                         w = squared minimum-image site distance)
* `occ_sum`              per-site counts plus the "no site" count add up to frames × atoms
* `nosite_fold_counterexample`, `nosite_overwrite_counterexample`
                         a row touching "no site" (−1) is folded into the last site and may
                         overwrite a real count (defect D5, recorded as a known finding)
-/
namespace G.C05
open G G.Counts

/-- every index of every row lies inside the matrix -/
def Valid (rows : List Pair) (n : Nat) : Prop :=
  ∀ p ∈ rows, 0 ≤ p.1 ∧ p.1 < n ∧ 0 ≤ p.2 ∧ p.2 < n

/-- **C05 (matrix entry)**: entry (i, j) equals the number of recorded moves i → j. -/
theorem matrixAsIs_get (rows : List Pair) (n : Nat) (hv : Valid rows n) :
    ∃ m, matrixAsIs rows n = some m ∧
      ∀ i j, i < n → j < n → m.get i j = countPair rows ((i : Int), (j : Int)) := by
  sorry

/-- the result is an n × n matrix -/
theorem matrixAsIs_shape (rows : List Pair) (n : Nat) (m : Mat) (h : matrixAsIs rows n = some m) :
    m.length = n ∧ ∀ r ∈ m, r.length = n := by
  sorry

/-- **C05 (sum)**: the matrix sums to the number of rows (= number of jumps). -/
theorem matrixSpec_sum (rows : List Pair) (n : Nat) (hv : Valid rows n) :
    (matrixSpec rows n).sum = rows.length := by
  sorry

/-- **C05 (diagonal)**: when no row has origin = destination the diagonal is empty. -/
theorem matrixSpec_diag (rows : List Pair) (n : Nat) (hd : ∀ p ∈ rows, p.1 ≠ p.2) (i : Nat) (hi : i < n) :
    (matrixSpec rows n).get i i = 0 := by
  sorry

/-- **C05 (jump-diffusivity sum)**: summing `w(i,j) · M_ij` over the matrix is summing `w` over the rows. -/
theorem weightedSum_eq_rows (w : Nat → Nat → Rat) (rows : List Pair) (n : Nat) (hv : Valid rows n) :
    weightedSum w (matrixSpec rows n) = (rows.map (fun p => w p.1.toNat p.2.toNat)).sum := by
  sorry

/-- **C05 (occupancy)**: the per-site frame counts and the "no site" count add up to the
number of (frame, atom) entries, i.e. Σ_i occupancy_i · T = #{entries at a site}. -/
theorem occ_sum (states : List Int) (n : Nat) (hs : ∀ x ∈ states, -1 ≤ x ∧ x < n) :
    (((List.range n).map (fun (k : Nat) => occCount states (k : Int))).sum + occCount states (-1))
      = states.length := by
  sorry

/-! ## defect D5 (known finding): rows touching "no site" -/

/-- the move (−1 → 1) is booked as a move (1 → 1) of the last site -/
theorem nosite_fold_counterexample :
    matrixAsIs [(0, 1), (-1, 1)] 2 = some [[0, 1], [0, 1]] ∧ countPair [(0, 1), (-1, 1)] (1, 1) = 0 := by
  decide

/-- … and the count of (−1 → 0) is overwritten by that of (1 → 0): assignment, not accumulation -/
theorem nosite_overwrite_counterexample :
    matrixAsIs [(-1, 0), (-1, 0), (1, 0)] 2 = some [[0, 0], [1, 0]] := by
  decide

/-- non-vacuity of `Valid` -/
example : Valid [(0, 1), (2, 0), (0, 1)] 3 ∧
    matrixAsIs [(0, 1), (2, 0), (0, 1)] 3 = some [[0, 2, 0], [0, 0, 0], [1, 0, 0]] := by
  refine ⟨?_, by decide⟩
  intro p hp; simp at hp; rcases hp with h | h | h <;> subst h <;> decide

end G.C05
