import GModel.Counts
namespace G.C05
theorem placeholder : True := trivial
end G.C05
