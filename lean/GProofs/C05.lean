import GModel.Counts
/-!
# C05 — count matrices, occupancy and the jump-diffusivity sum conserve counts

* `matrixAsIs_get`, `matrixAsIs_shape`  with all indices inside `[0, n)` the fancy-index
  assignment of unique-pair counts puts in entry (i, j) exactly the number of rows (i, j)
* `matrixSpec_sum`       the matrix sums to the number of rows
* `matrixSpec_diag`      rows with origin ≠ destination ⇒ empty diagonal
* `weightedSum_eq_rows`  Σ_ij w(i,j)·M_ij = Σ_rows w(origin, destination)  (jump diffusivity:
                         w = squared minimum-image site distance)
* `occ_sum`              per-site counts plus the "no site" count add up to frames × atoms
* `nosite_fold_counterexample`, `nosite_overwrite_counterexample`
                         a row touching "no site" (−1) is folded into the last site and may
                         overwrite a real count (defect D5, recorded as a known finding)
-/
namespace G.C05
open G G.Counts

/-- every index of every row lies inside the matrix -/
def Valid (rows : List Pair) (n : Nat) : Prop :=
  ∀ p ∈ rows, 0 ≤ p.1 ∧ p.1 < n ∧ 0 ≤ p.2 ∧ p.2 < n

/-! ## helper lemmas: unique pairs, shapes, get/set -/


theorem mem_insPair (x p : Pair) (l : List Pair) : x ∈ insPair p l ↔ x = p ∨ x ∈ l := by
  induction l with
  | nil => simp [insPair]
  | cons q qs ih =>
    unfold insPair
    split
    · simp
    · split
      · subst_vars; simp
      · simp only [List.mem_cons, ih]; constructor <;> (intro h; rcases h with h | h | h <;> simp [h])

theorem mem_uniquePairs (x : Pair) (rows : List Pair) : x ∈ uniquePairs rows ↔ x ∈ rows := by
  induction rows with
  | nil => simp [uniquePairs]
  | cons p ps ih =>
    have : uniquePairs (p :: ps) = insPair p (uniquePairs ps) := rfl
    rw [this, mem_insPair, ih]; simp

/-- `m` is an n × n matrix -/
def Shape (n : Nat) (m : Mat) : Prop := m.length = n ∧ ∀ r ∈ m, r.length = n

theorem shape_zeros (n : Nat) : Shape n (zeros n) := by
  refine ⟨by simp [zeros], ?_⟩
  intro r hr
  simp only [zeros, List.mem_replicate] at hr
  simp [hr.2]

theorem shape_set {n : Nat} {m : Mat} (h : Shape n m) (i j v : Nat) : Shape n (m.set i j v) := by
  unfold Mat.set
  split
  next row hrow =>
    refine ⟨by simp [h.1], ?_⟩
    intro r hr
    rcases List.mem_or_eq_of_mem_set hr with h1 | h1
    · exact h.2 r h1
    · subst h1
      simpa using h.2 row (List.mem_of_getElem? hrow)
  next => exact h

theorem get_set {n : Nat} {m : Mat} (h : Shape n m) {i j : Nat} (hi : i < n) (hj : j < n) (v i' j' : Nat) :
    (m.set i j v).get i' j' = if i' = i ∧ j' = j then v else m.get i' j' := by
  have hil : i < m.length := by rw [h.1]; exact hi
  have hrow : m[i]? = some m[i] := List.getElem?_eq_getElem hil
  have hjl : j < (m[i]).length := by rw [h.2 _ (List.getElem_mem hil)]; exact hj
  unfold Mat.set
  rw [hrow]
  simp only [Mat.get, List.getD_eq_getElem?_getD, List.getElem?_set]
  by_cases h1 : i' = i
  · subst h1
    simp [hil, List.getElem?_set]
    by_cases h2 : j' = j
    · subst h2; simp [hjl]
    · have : ¬ j = j' := fun e => h2 e.symm
      simp [h2, this]
  · have : ¬ i = i' := fun e => h1 e.symm
    simp [h1, this]


theorem pyIdx_valid {x : Int} {n : Nat} (h0 : 0 ≤ x) (h1 : x < n) : pyIdx x n = some x.toNat := by
  simp [pyIdx, h0, h1]

theorem foldl_none (n : Nat) (v : Pair → Nat) (ps : List Pair) :
    ps.foldl (fun acc p => acc.bind (fun m => assign n m p (v p))) none = none := by
  induction ps with
  | nil => rfl
  | cons p ps ih => simpa using ih

theorem shape_assign {n : Nat} {m m' : Mat} {p : Pair} {v : Nat} (h : Shape n m)
    (ha : assign n m p v = some m') : Shape n m' := by
  unfold assign at ha
  split at ha
  · simp only [Option.some.injEq] at ha
    subst ha
    exact shape_set h _ _ _
  · simp at ha

theorem fold_shape (n : Nat) (v : Pair → Nat) (ps : List Pair) (m0 m : Mat) (h0 : Shape n m0)
    (h : ps.foldl (fun acc p => acc.bind (fun m => assign n m p (v p))) (some m0) = some m) :
    Shape n m := by
  induction ps generalizing m0 with
  | nil => simp at h; subst h; exact h0
  | cons p ps ih =>
    simp only [List.foldl_cons, Option.bind_some] at h
    cases ha : assign n m0 p (v p) with
    | none => rw [ha, foldl_none] at h; simp at h
    | some m1 => rw [ha] at h; exact ih m1 (shape_assign h0 ha) h

theorem fold_get (n : Nat) (v : Pair → Nat) (ps : List Pair) (hv : Valid ps n) (m0 : Mat) (h0 : Shape n m0) :
    ∃ m, ps.foldl (fun acc p => acc.bind (fun m => assign n m p (v p))) (some m0) = some m ∧
      ∀ i j, i < n → j < n →
        m.get i j = if ((i : Int), (j : Int)) ∈ ps then v ((i : Int), (j : Int)) else m0.get i j := by
  induction ps generalizing m0 with
  | nil => exact ⟨m0, rfl, by simp⟩
  | cons p ps ih =>
    obtain ⟨hp0, hp1, hp2, hp3⟩ := hv p (by simp)
    have ha : assign n m0 p (v p) = some (m0.set p.1.toNat p.2.toNat (v p)) := by
      simp [assign, pyIdx_valid hp0 hp1, pyIdx_valid hp2 hp3]
    have hv' : Valid ps n := fun q hq => hv q (by simp [hq])
    obtain ⟨m, hm, hget⟩ := ih hv' _ (shape_set h0 p.1.toNat p.2.toNat (v p))
    refine ⟨m, ?_, ?_⟩
    · simp only [List.foldl_cons, Option.bind_some, ha]; exact hm
    · intro i j hi hj
      rw [hget i j hi hj]
      by_cases hmem : ((i : Int), (j : Int)) ∈ ps
      · simp [hmem]
      · rw [get_set h0 (by omega) (by omega)]
        by_cases hp : ((i : Int), (j : Int)) = p
        · subst hp; simp
        · have hne : ¬ (i = p.1.toNat ∧ j = p.2.toNat) := by
            intro ⟨e1, e2⟩
            apply hp
            apply Prod.ext <;> simp <;> omega
          simp [hmem, hp, hne]

theorem countPair_eq_zero {rows : List Pair} {p : Pair} (h : p ∉ rows) : countPair rows p = 0 := by
  unfold countPair
  rw [List.length_eq_zero_iff, List.filter_eq_nil_iff]
  intro a ha he
  simp at he
  subst he; exact h ha

theorem zeros_get (n i j : Nat) : (zeros n).get i j = 0 := by
  simp only [Mat.get, zeros, List.getD_eq_getElem?_getD, List.getElem?_replicate]
  split
  · simp only [Option.getD_some, List.getElem?_replicate]; split <;> simp
  · simp

/-- **C05 (matrix entry)**: entry (i, j) equals the number of recorded moves i → j. -/
theorem matrixAsIs_get (rows : List Pair) (n : Nat) (hv : Valid rows n) :
    ∃ m, matrixAsIs rows n = some m ∧
      ∀ i j, i < n → j < n → m.get i j = countPair rows ((i : Int), (j : Int)) := by
  have hv' : Valid (uniquePairs rows) n := fun p hp => hv p ((mem_uniquePairs p rows).1 hp)
  obtain ⟨m, hm, hget⟩ := fold_get n (countPair rows) (uniquePairs rows) hv' (zeros n) (shape_zeros n)
  refine ⟨m, hm, ?_⟩
  intro i j hi hj
  rw [hget i j hi hj]
  split
  · rfl
  · next h => rw [zeros_get, countPair_eq_zero (fun h' => h ((mem_uniquePairs _ rows).2 h'))]

/-- the result is an n × n matrix -/
theorem matrixAsIs_shape (rows : List Pair) (n : Nat) (m : Mat) (h : matrixAsIs rows n = some m) :
    m.length = n ∧ ∀ r ∈ m, r.length = n := by
  exact fold_shape n (countPair rows) (uniquePairs rows) (zeros n) m (shape_zeros n) h


/-! ## helper lemmas: sums over the index grid -/

section Sums
set_option linter.unusedSectionVars false
variable {α : Type} [Add α] [Zero α]
  [Std.Associative (α := α) (· + ·)] [Std.Commutative (α := α) (· + ·)]
  [Std.LawfulIdentity (α := α) (· + ·) 0]

theorem add_zero' (a : α) : a + 0 = a := Std.LawfulRightIdentity.right_id (op := (· + ·)) a
theorem zero_add' (a : α) : 0 + a = a := Std.LawfulLeftIdentity.left_id (op := (· + ·)) a

theorem add_add_add_comm' (a b c d : α) : (a + b) + (c + d) = (a + c) + (b + d) := by
  have assoc : ∀ x y z : α, x + y + z = x + (y + z) := Std.Associative.assoc (op := (· + ·))
  have comm : ∀ x y : α, x + y = y + x := Std.Commutative.comm (op := (· + ·))
  rw [assoc, assoc, ← assoc b, ← assoc c, comm b c]

theorem sum_map_add {β : Type} (l : List β) (f g : β → α) :
    (l.map (fun x => f x + g x)).sum = (l.map f).sum + (l.map g).sum := by
  induction l with
  | nil => simp [zero_add']
  | cons x xs ih => simp only [List.map_cons, List.sum_cons, ih]; exact add_add_add_comm' _ _ _ _

theorem sum_map_zero {β : Type} (l : List β) (f : β → α) (h : ∀ x ∈ l, f x = 0) :
    (l.map f).sum = 0 := by
  induction l with
  | nil => simp
  | cons x xs ih =>
    simp only [List.map_cons, List.sum_cons]
    rw [h x (by simp), ih (fun y hy => h y (by simp [hy])), zero_add']

theorem sum_range_ite (n a : Nat) (g : Nat → α) (ha : a < n) :
    ((List.range n).map (fun i => if i = a then g i else 0)).sum = g a := by
  induction n with
  | zero => omega
  | succ n ih =>
    rw [List.range_succ, List.map_append, List.sum_append]
    by_cases h : a < n
    · rw [ih h]
      have : n ≠ a := by omega
      simp [this, add_zero']
    · have : a = n := by omega
      subst this
      rw [sum_map_zero]
      · simp [zero_add', add_zero']
      · intro x hx
        have : x < a := by simpa using hx
        have : x ≠ a := by omega
        simp [this]

/-- Σ_{i<n} Σ_{j<n} F i j -/
def gridSum (n : Nat) (F : Nat → Nat → α) : α :=
  ((List.range n).map (fun i => ((List.range n).map (fun j => F i j)).sum)).sum

theorem gridSum_add (n : Nat) (F H : Nat → Nat → α) :
    gridSum n (fun i j => F i j + H i j) = gridSum n F + gridSum n H := by
  unfold gridSum
  rw [← sum_map_add]
  congr 1
  apply List.map_congr_left
  intro i _
  exact sum_map_add _ _ _

theorem gridSum_ind (n : Nat) (p : Pair) (hp : 0 ≤ p.1 ∧ p.1 < n ∧ 0 ≤ p.2 ∧ p.2 < n) (F : Nat → Nat → α) :
    gridSum n (fun i j => if p = ((i : Int), (j : Int)) then F i j else 0) = F p.1.toNat p.2.toNat := by
  obtain ⟨h0, h1, h2, h3⟩ := hp
  unfold gridSum
  have inner : ∀ i : Nat, ((List.range n).map (fun (j : Nat) => if p = ((i : Int), (j : Int)) then F i j else 0)).sum
      = if i = p.1.toNat then F i p.2.toNat else 0 := by
    intro i
    by_cases hi : i = p.1.toNat
    · rw [if_pos hi, ← sum_range_ite n p.2.toNat (fun j => F i j) (by omega)]
      congr 1
      apply List.map_congr_left
      intro j _
      have : p = ((i : Int), (j : Int)) ↔ j = p.2.toNat := by
        constructor
        · intro e; rw [e]; simp
        · intro e; apply Prod.ext <;> simp <;> omega
      simp [this]
    · rw [if_neg hi]
      apply sum_map_zero
      intro j _
      have : ¬ p = ((i : Int), (j : Int)) := by
        intro e; apply hi; rw [e]; simp
      simp [this]
  simp only [inner]
  exact sum_range_ite n p.1.toNat (fun i => F i p.2.toNat) (by omega)

end Sums


theorem countPair_cons (p q : Pair) (rows : List Pair) :
    countPair (p :: rows) q = countPair rows q + (if p = q then 1 else 0) := by
  unfold countPair
  by_cases h : p = q <;> simp [h]

theorem matrixSpec_get (rows : List Pair) (n i j : Nat) (hi : i < n) (hj : j < n) :
    (matrixSpec rows n).get i j = countPair rows ((i : Int), (j : Int)) := by
  simp [Mat.get, matrixSpec, List.getD_eq_getElem?_getD, hi, hj]

theorem matrixSpec_sum_eq (rows : List Pair) (n : Nat) :
    (matrixSpec rows n).sum = gridSum n (fun i j => countPair rows ((i : Int), (j : Int))) := by
  simp [Mat.sum, matrixSpec, gridSum, List.map_map, Function.comp_def]

/-- **C05 (sum)**: the matrix sums to the number of rows (= number of jumps). -/
theorem matrixSpec_sum (rows : List Pair) (n : Nat) (hv : Valid rows n) :
    (matrixSpec rows n).sum = rows.length := by
  rw [matrixSpec_sum_eq]
  induction rows with
  | nil => 
    unfold gridSum
    apply sum_map_zero
    intro i _
    apply sum_map_zero
    intro j _
    rfl
  | cons p ps ih =>
    simp only [countPair_cons]
    rw [gridSum_add, ih (fun q hq => hv q (by simp [hq])),
      gridSum_ind n p (hv p (by simp)) (fun _ _ => 1)]
    simp

/-- **C05 (diagonal)**: when no row has origin = destination the diagonal is empty. -/
theorem matrixSpec_diag (rows : List Pair) (n : Nat) (hd : ∀ p ∈ rows, p.1 ≠ p.2) (i : Nat) (hi : i < n) :
    (matrixSpec rows n).get i i = 0 := by
  rw [matrixSpec_get rows n i i hi hi]
  apply countPair_eq_zero
  intro h
  exact hd _ h rfl

theorem zipIdx_range (n : Nat) : (List.range n).zipIdx = (List.range n).map (fun i => (i, i)) := by
  apply List.ext_getElem
  · simp
  · intro k h1 h2
    simp

theorem weightedSum_eq (w : Nat → Nat → Rat) (rows : List Pair) (n : Nat) :
    weightedSum w (matrixSpec rows n)
      = gridSum n (fun i j => w i j * (countPair rows ((i : Int), (j : Int)) : Rat)) := by
  simp [weightedSum, matrixSpec, gridSum, List.zipIdx_map, zipIdx_range, List.map_map, Function.comp_def]

/-- **C05 (jump-diffusivity sum)**: summing `w(i,j) · M_ij` over the matrix is summing `w` over the rows. -/
theorem weightedSum_eq_rows (w : Nat → Nat → Rat) (rows : List Pair) (n : Nat) (hv : Valid rows n) :
    weightedSum w (matrixSpec rows n) = (rows.map (fun p => w p.1.toNat p.2.toNat)).sum := by
  rw [weightedSum_eq]
  induction rows with
  | nil =>
    unfold gridSum
    apply sum_map_zero
    intro i _
    apply sum_map_zero
    intro j _
    simp [countPair]
  | cons p ps ih =>
    have hfun : (fun (i j : Nat) => w i j * (countPair (p :: ps) ((i : Int), (j : Int)) : Rat))
        = (fun (i j : Nat) => w i j * (countPair ps ((i : Int), (j : Int)) : Rat)
            + (if p = ((i : Int), (j : Int)) then w i j else 0)) := by
      funext i j
      rw [countPair_cons]
      split <;> grind
    rw [hfun, gridSum_add, ih (fun q hq => hv q (by simp [hq])), gridSum_ind n p (hv p (by simp))]
    simp only [List.map_cons, List.sum_cons]
    grind

theorem occCount_cons (x k : Int) (xs : List Int) :
    occCount (x :: xs) k = occCount xs k + (if x = k then 1 else 0) := by
  unfold occCount
  by_cases h : x = k <;> simp [h]

/-- **C05 (occupancy)**: the per-site frame counts and the "no site" count add up to the
number of (frame, atom) entries, i.e. Σ_i occupancy_i · T = #{entries at a site}. -/
theorem occ_sum (states : List Int) (n : Nat) (hs : ∀ x ∈ states, -1 ≤ x ∧ x < n) :
    (((List.range n).map (fun (k : Nat) => occCount states (k : Int))).sum + occCount states (-1))
      = states.length := by
  induction states with
  | nil =>
    rw [sum_map_zero] <;> simp [occCount]
  | cons x xs ih =>
    have ih' := ih (fun y hy => hs y (by simp [hy]))
    obtain ⟨hx0, hx1⟩ := hs x (by simp)
    simp only [occCount_cons]
    rw [sum_map_add]
    have key : ((List.range n).map (fun (k : Nat) => if x = (k : Int) then 1 else 0)).sum
        + (if x = -1 then 1 else 0) = 1 := by
      by_cases hx : x = -1
      · rw [sum_map_zero]
        · simp [hx]
        · intro k _
          have : ¬ x = (k : Int) := by omega
          simp [this]
      · have : ((List.range n).map (fun (k : Nat) => if x = (k : Int) then 1 else 0))
            = ((List.range n).map (fun (k : Nat) => if k = x.toNat then (fun _ => 1) k else 0)) := by
          apply List.map_congr_left
          intro k _
          have : x = (k : Int) ↔ k = x.toNat := by omega
          simp [this]
        rw [this, sum_range_ite n x.toNat (fun _ => 1) (by omega)]
        simp [hx]
    simp only [List.length_cons]
    omega


/-! ## defect D5 (known finding): rows touching "no site" -/

/-- the move (−1 → 1) is booked as a move (1 → 1) of the last site -/
theorem nosite_fold_counterexample :
    matrixAsIs [(0, 1), (-1, 1)] 2 = some [[0, 1], [0, 1]] ∧ countPair [(0, 1), (-1, 1)] (1, 1) = 0 := by
  decide

/-- … and the count of (−1 → 0) is overwritten by that of (1 → 0): assignment, not accumulation -/
theorem nosite_overwrite_counterexample :
    matrixAsIs [(-1, 0), (-1, 0), (1, 0)] 2 = some [[0, 0], [1, 0]] := by
  decide

/-- non-vacuity of `Valid` -/
example : Valid [(0, 1), (2, 0), (0, 1)] 3 ∧
    matrixAsIs [(0, 1), (2, 0), (0, 1)] 3 = some [[0, 2, 0], [0, 0, 0], [1, 0, 0]] := by
  refine ⟨?_, by decide⟩
  intro p hp; simp at hp; rcases hp with h | h | h <;> subst h <;> decide

end G.C05
