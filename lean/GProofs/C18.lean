import GModel.Orient
import GProofs.Geometry
import GProofs.C01
import GProofs.C17
import Mathlib.Tactic.Linarith
import Mathlib.Tactic.Ring
import Mathlib.Tactic.Positivity
import Mathlib.Tactic.FieldSimp
/-!
# C18 — orientation vectors are minimum-image bonds; transforms / autocorrelation exact

* `wrapHalf_range`, `wrapHalf_congr`, `direction_spec`   the per-axis ±1 wrap of the difference of two
        positions in [0,1) has every component in [−½, ½] and is congruent to `sat − cent`
* `direction_is_short_image`   if SOME periodic image of `sat − cent` is shorter than `r`, with `r`
        below half of every perpendicular width, the direction vector IS that image: its length is
        the periodic centre–satellite distance
* `symmetrize_length`, `symmetrize_get`, `symmetrize_images`   layout `[b·n_ops + k] = R_kᵀ v_b`; for a
        set of operations closed under transposition these are exactly the images `R v_b`, one per operation
* `transform_spec`
* `autocorr_lag_zero`, `autocorr_const`   the definition is 1 at lag 0, and identically 1 for a constant vector
-/
namespace G.C18
open G G.Orient G.Geometry

theorem wrapHalf_congr (d : ℚ) : ∃ k : ℤ, wrapHalf d = d + k := by
  unfold wrapHalf
  split_ifs
  · exact ⟨-1, by push_cast; ring⟩
  · exact ⟨1, by push_cast; ring⟩
  · exact ⟨0, by simp⟩

/-- for a difference of two coordinates in [0, 1) (so `−1 < d < 1`) the wrapped value lies in [−½, ½] -/
theorem wrapHalf_range (d : ℚ) (h0 : -1 < d) (h1 : d < 1) : |wrapHalf d| ≤ 1 / 2 := by
  unfold wrapHalf
  split_ifs with ha hb
  · rw [abs_le]; constructor <;> linarith
  · rw [abs_le]; constructor <;> linarith
  · rw [abs_le]; constructor <;> linarith

def InUnit (p : V3) : Prop := 0 ≤ p.x ∧ p.x < 1 ∧ 0 ≤ p.y ∧ p.y < 1 ∧ 0 ≤ p.z ∧ p.z < 1

/-- **C18 (direction)**: every component in [−½, ½], congruent to `sat − cent` modulo whole cells. -/
theorem direction_spec (cent sat : V3) (hc : InUnit cent) (hs : InUnit sat) :
    (|(direction cent sat).x| ≤ 1 / 2 ∧ |(direction cent sat).y| ≤ 1 / 2 ∧ |(direction cent sat).z| ≤ 1 / 2) ∧
    ∃ n1 n2 n3 : ℤ, direction cent sat = shiftBy (sat - cent) n1 n2 n3 := by
  obtain ⟨hc1, hc2, hc3, hc4, hc5, hc6⟩ := hc
  obtain ⟨hs1, hs2, hs3, hs4, hs5, hs6⟩ := hs
  refine ⟨⟨?_, ?_, ?_⟩, ?_⟩
  · exact wrapHalf_range _ (by simp only [_root_.G.C17.v3_sub_def]; linarith) (by simp only [_root_.G.C17.v3_sub_def]; linarith)
  · exact wrapHalf_range _ (by simp only [_root_.G.C17.v3_sub_def]; linarith) (by simp only [_root_.G.C17.v3_sub_def]; linarith)
  · exact wrapHalf_range _ (by simp only [_root_.G.C17.v3_sub_def]; linarith) (by simp only [_root_.G.C17.v3_sub_def]; linarith)
  · obtain ⟨k1, h1⟩ := wrapHalf_congr (sat - cent).x
    obtain ⟨k2, h2⟩ := wrapHalf_congr (sat - cent).y
    obtain ⟨k3, h3⟩ := wrapHalf_congr (sat - cent).z
    refine ⟨k1, k2, k3, ?_⟩
    simp only [direction, V3.map, shiftBy, h1, h2, h3]

/-- two numbers congruent modulo 1, one strictly inside (−½, ½) and the other the ±1 wrap of a
difference in (−1, 1), are equal -/
theorem wrapHalf_eq_of_abs_lt (d : ℚ) (n : ℤ) (h0 : -1 < d) (h1 : d < 1) (h : |d + n| < 1 / 2) :
    wrapHalf d = d + n := by
  rw [abs_lt] at h
  obtain ⟨hl, hu⟩ := h
  unfold wrapHalf
  split_ifs with ha hb
  · have e : n = -1 := by
      have a1 : (n : ℚ) < 0 := by linarith
      have a2 : ((-2 : ℤ) : ℚ) < n := by push_cast; linarith
      have b1 : n < 0 := by exact_mod_cast a1
      have b2 : (-2 : ℤ) < n := by exact_mod_cast a2
      omega
    subst e; push_cast; ring
  · have e : n = 1 := by
      have a1 : (0 : ℚ) < n := by linarith
      have a2 : (n : ℚ) < ((2 : ℤ) : ℚ) := by push_cast; linarith
      have b1 : 0 < n := by exact_mod_cast a1
      have b2 : n < 2 := by exact_mod_cast a2
      omega
    subst e; push_cast; ring
  · have e : n = 0 := by
      have a1 : ((-1 : ℤ) : ℚ) < n := by push_cast; linarith
      have a2 : (n : ℚ) < ((1 : ℤ) : ℚ) := by push_cast; linarith
      have b1 : (-1 : ℤ) < n := by exact_mod_cast a1
      have b2 : n < 1 := by exact_mod_cast a2
      omega
    subst e; simp

/-- **C18 (minimum image)**: if some periodic image of `sat − cent` is shorter than `r` and `r` is
below half of every perpendicular width (`4 r² adj_ii ≤ det G`), the direction vector is that image. -/
theorem direction_is_short_image (G : Sym3) (hpd : PosDef G) (cent sat : V3) (hc : InUnit cent) (hs : InUnit sat)
    (rsq : ℚ) (n1 n2 n3 : ℤ) (hq : G.Q (shiftBy (sat - cent) n1 n2 n3) < rsq)
    (h1 : 4 * rsq * G.adj1 ≤ G.det) (h2 : 4 * rsq * G.adj2 ≤ G.det) (h3 : 4 * rsq * G.adj3 ≤ G.det) :
    direction cent sat = shiftBy (sat - cent) n1 n2 n3 := by
  obtain ⟨hc1, hc2, hc3, hc4, hc5, hc6⟩ := hc
  obtain ⟨hs1, hs2, hs3, hs4, hs5, hs6⟩ := hs
  obtain ⟨hx, hy, hz⟩ := _root_.G.C17.small_vector_components G hpd _ rsq hq h1 h2 h3
  simp only [shiftBy] at hx hy hz
  have ex := wrapHalf_eq_of_abs_lt (sat - cent).x n1
    (by simp only [_root_.G.C17.v3_sub_def]; linarith) (by simp only [_root_.G.C17.v3_sub_def]; linarith) hx
  have ey := wrapHalf_eq_of_abs_lt (sat - cent).y n2
    (by simp only [_root_.G.C17.v3_sub_def]; linarith) (by simp only [_root_.G.C17.v3_sub_def]; linarith) hy
  have ez := wrapHalf_eq_of_abs_lt (sat - cent).z n3
    (by simp only [_root_.G.C17.v3_sub_def]; linarith) (by simp only [_root_.G.C17.v3_sub_def]; linarith) hz
  simp only [direction, V3.map, shiftBy, ex, ey, ez]

theorem symmetrize_length (ops : List Mat) (vs : List V3) :
    (symmetrize ops vs).length = vs.length * ops.length := by
  unfold symmetrize
  induction vs with
  | nil => simp
  | cons v rest ih =>
    rw [List.flatMap_cons, List.length_append, ih, List.length_map, List.length_cons, Nat.succ_mul]
    omega

/-- **C18 (layout)**: entry `b · n_ops + k` is `R_kᵀ v_b`. -/
theorem symmetrize_get (ops : List Mat) (vs : List V3) (b k : Nat) (hb : b < vs.length) (hk : k < ops.length) :
    (symmetrize ops vs)[b * ops.length + k]? = some ((ops.getD k default).transpose.mulVec (vs.getD b V3.zero)) := by
  induction vs generalizing b with
  | nil => simp at hb
  | cons v rest ih =>
    have hcons : symmetrize ops (v :: rest)
        = ops.map (fun r => r.transpose.mulVec v) ++ symmetrize ops rest := by
      simp only [symmetrize, List.flatMap_cons]
    rw [hcons]
    cases b with
    | zero =>
      have hlt : 0 * ops.length + k < (ops.map (fun r => r.transpose.mulVec v)).length := by
        rw [List.length_map]; omega
      rw [List.getElem?_append_left hlt, List.getElem?_map]
      have hk' : 0 * ops.length + k = k := by omega
      rw [hk', List.getElem?_eq_getElem hk]
      simp only [List.getD_eq_getElem?_getD, List.getElem?_eq_getElem hk, Option.map_some,
        Option.getD_some, List.getElem?_cons_zero]
    | succ b' =>
      have hb' : b' < rest.length := by simpa using hb
      have hge : (ops.map (fun r => r.transpose.mulVec v)).length ≤ (b' + 1) * ops.length + k := by
        rw [List.length_map, Nat.succ_mul]; omega
      rw [List.getElem?_append_right hge, List.length_map]
      have hidx : (b' + 1) * ops.length + k - ops.length = b' * ops.length + k := by
        rw [Nat.succ_mul]; omega
      rw [hidx, ih b' hb']
      simp only [List.getD_eq_getElem?_getD, List.getElem?_cons_succ]

/-- **C18 (images)**: when the operation list is closed under transposition (as a multiset — true for
a group of orthogonal matrices, where `Rᵀ = R⁻¹`), the block of a vector is a permutation of its images
`R v` under the operations: exactly its images under the group, one per operation. -/
theorem symmetrize_images (ops : List Mat) (hT : (ops.map Mat.transpose).Perm ops) (v : V3) :
    (symmetrize ops [v]).Perm (ops.map (fun r => r.mulVec v)) := by
  have h1 : symmetrize ops [v] = (ops.map Mat.transpose).map (fun r => r.mulVec v) := by
    simp only [symmetrize, List.flatMap_cons, List.flatMap_nil, List.append_nil, List.map_map]
    rfl
  rw [h1]
  exact hT.map _

/-- **C18 (transform)**: the matrix is applied to every vector. -/
theorem transform_spec (m : Mat) (vs : List V3) (b : Nat) (hb : b < vs.length) :
    (transform m vs)[b]? = some (m.mulVec (vs.getD b V3.zero)) ∧ (transform m vs).length = vs.length := by
  refine ⟨?_, ?_⟩
  · simp only [transform, List.getElem?_map, List.getD_eq_getElem?_getD, List.getElem?_eq_getElem hb,
      Option.map_some, Option.getD_some]
  · simp only [transform, List.length_map]

/-- **C18 (autocorrelation, lag 0)**: normalised to one. -/
theorem autocorr_lag_zero (x : List V3) (hne : x ≠ []) (h0 : rawCorr x 0 ≠ 0) : (autocorrDef x)[0]? = some 1 := by
  have hpos : 0 < x.length := List.length_pos_of_ne_nil hne
  simp only [autocorrDef, List.getElem?_map, List.getElem?_range hpos, Option.map_some]
  rw [div_self h0]

theorem list_sum_nonneg : ∀ (l : List ℚ), (∀ q ∈ l, 0 ≤ q) → 0 ≤ l.sum := by
  intro l
  induction l with
  | nil => intro _; simp
  | cons a t ih =>
    intro h
    rw [List.sum_cons]
    have h1 : 0 ≤ a := h a (by simp)
    have h2 : 0 ≤ t.sum := ih (fun q hq => h q (by simp [hq]))
    linarith

theorem dot_self_nonneg (v : V3) : 0 ≤ v.dot v := by
  unfold V3.dot
  nlinarith [mul_self_nonneg v.x, mul_self_nonneg v.y, mul_self_nonneg v.z]

/-- the zero-lag value is the mean squared length: non-negative, and positive unless all vectors vanish -/
theorem rawCorr_zero_nonneg (x : List V3) : 0 ≤ rawCorr x 0 := by
  unfold rawCorr
  apply div_nonneg
  · apply list_sum_nonneg
    intro q hq
    rw [List.mem_map] at hq
    obtain ⟨k, _, rfl⟩ := hq
    exact dot_self_nonneg _
  · exact Nat.cast_nonneg _

theorem sum_map_const_range (c : ℚ) : ∀ j : ℕ, ((List.range j).map (fun _ => c)).sum = (j : ℚ) * c := by
  intro j
  induction j with
  | zero => simp
  | succ j ih =>
    rw [List.range_succ, List.map_append, List.sum_append, ih]
    simp only [List.map_cons, List.map_nil, List.sum_cons, List.sum_nil]
    push_cast
    ring

theorem rawCorr_replicate (v : V3) (n m : ℕ) (hm : m < n) : rawCorr (List.replicate n v) m = v.dot v := by
  unfold rawCorr
  simp only [List.length_replicate]
  have hmap : (List.range (n - m)).map
      (fun (k : Nat) => ((List.replicate n v).getD k V3.zero).dot ((List.replicate n v).getD (k + m) V3.zero))
      = (List.range (n - m)).map (fun _ => v.dot v) := by
    apply List.map_congr_left
    intro k hk
    rw [List.mem_range] at hk
    have hk1 : k < n := by omega
    have hk2 : k + m < n := by omega
    simp only [List.getD_eq_getElem?_getD, List.getElem?_replicate_of_lt hk1,
      List.getElem?_replicate_of_lt hk2, Option.getD_some]
  rw [hmap, sum_map_const_range]
  have hne : ((n - m : ℕ) : ℚ) ≠ 0 := by
    have : 0 < n - m := by omega
    exact_mod_cast this.ne'
  field_simp

/-- **C18 (constant vector)**: a vector that never changes has autocorrelation 1 at every lag. -/
theorem autocorr_const (v : V3) (hv : v.dot v ≠ 0) (n : Nat) (m : Nat) (hm : m < n) :
    (autocorrDef (List.replicate n v))[m]? = some 1 := by
  have hlen : (List.replicate n v).length = n := List.length_replicate
  have h0 : rawCorr (List.replicate n v) 0 = v.dot v := rawCorr_replicate v n 0 (by omega)
  have hmm : rawCorr (List.replicate n v) m = v.dot v := rawCorr_replicate v n m hm
  simp only [autocorrDef, List.getElem?_map, hlen, List.getElem?_range hm, Option.map_some, h0, hmm]
  rw [div_self hv]

/-- non-vacuity: a bond across the cell face; a 2/m-like operation set closed under transposition -/
example :
    direction ⟨63/64, 1/2, 1/2⟩ ⟨1/64, 1/2, 9/16⟩ = ⟨1/32, 0, 1/16⟩ ∧
    symmetrize [⟨⟨1,0,0⟩,⟨0,1,0⟩,⟨0,0,1⟩⟩, ⟨⟨0,-1,0⟩,⟨1,0,0⟩,⟨0,0,1⟩⟩, ⟨⟨0,1,0⟩,⟨-1,0,0⟩,⟨0,0,1⟩⟩] [⟨1, 2, 3⟩]
      = [⟨1, 2, 3⟩, ⟨2, -1, 3⟩, ⟨-2, 1, 3⟩] ∧
    autocorrDef [⟨1, 0, 0⟩, ⟨0, 1, 0⟩, ⟨-1, 0, 0⟩] = [1, 0, -1] := by
  decide +kernel

end G.C18
