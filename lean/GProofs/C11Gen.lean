import GGen.FormulasC11
import Mathlib.Tactic.Linarith
import Mathlib.Tactic.Ring
import Mathlib.Tactic.Positivity
/-!
# C11 — obligations on the formula slice regenerated from /repo's source (GGen/FormulasC11.lean):
the shell normalisation of `radial_distribution_between_species`

`pi` is a parameter (any positive number); the statements are the algebra of the ideal-gas shell count.
-/
namespace G.C11Gen
open G

/-- density × volume of the spherical shell [r, r + Δ): (4/3)π((r+Δ)³ − r³) -/
theorem shellNorm_eq (r res rho pi : ℚ) :
    Gen.shellNorm r res rho pi = rho * (4 / 3 * pi * ((r + res) ^ 3 - r ^ 3)) := by
  unfold Gen.shellNorm
  ring

/-- positive for a non-negative radius, positive bin width, density and pi: the division is defined -/
theorem shellNorm_pos (r res rho pi : ℚ) (hr : 0 ≤ r) (hres : 0 < res) (hrho : 0 < rho) (hpi : 0 < pi) :
    0 < Gen.shellNorm r res rho pi := by
  rw [shellNorm_eq]
  have h3 : 0 < (r + res) ^ 3 - r ^ 3 := by
    have e : (r + res) ^ 3 - r ^ 3 = res * (3 * r ^ 2 + 3 * r * res + res ^ 2) := by ring
    rw [e]
    have : 0 ≤ r * res := mul_nonneg hr hres.le
    positivity
  positivity

/-- consecutive shells tile the ball: the normalisations of [r, r+Δ) and [r+Δ, r+2Δ) add up to that of [r, r+2Δ) -/
theorem shellNorm_add (r res rho pi : ℚ) :
    Gen.shellNorm r res rho pi + Gen.shellNorm (r + res) res rho pi = Gen.shellNorm r (2 * res) rho pi := by
  unfold Gen.shellNorm
  ring

/-- linear in the density: twice as many second-species atoms, twice the ideal-gas count -/
theorem shellNorm_density (c r res rho pi : ℚ) : Gen.shellNorm r res (c * rho) pi = c * Gen.shellNorm r res rho pi := by
  unfold Gen.shellNorm
  ring

theorem particleVol_eq (n vol : ℚ) : Gen.particleVol n vol = n / vol := by
  unfold Gen.particleVol
  ring

end G.C11Gen
