import GGen.FormulasC10
import GModel.Labels
import Mathlib.Tactic.Linarith
import Mathlib.Tactic.Ring
/-!
# C10 — obligations on the formula slice regenerated from /repo's source (GGen/FormulasC10.lean): graph construction and the scan over the peaks

Every theorem here is ABOUT THE GENERATED DEFINITIONS: when the source formula changes, the definition changes with it
and the theorem either still holds (a harmless rewrite) or stops checking (then the check searches for a failing input).
-/
namespace G.C10Gen
open G

theorem isNode_iff (F thr : ℚ) : Gen.isNode F thr = true ↔ 0 ≤ F ∧ F < thr := by
  unfold Gen.isNode
  simp

theorem edgeWeight_eq (a b e thr : ℚ) : Gen.edgeWeight a b e thr = (a + b) / 2 := by
  unfold Gen.edgeWeight
  ring

theorem edgeWeightExp_eq (a b e thr : ℚ) : Gen.edgeWeightExp a b e thr = min e thr := by
  unfold Gen.edgeWeightExp
  split_ifs with h
  · exact (min_eq_left h.le).symm
  · exact (min_eq_right (not_lt.mp h)).symm

/-- the scan over the peaks as the source performs it: a peak without a percolating path is handled by
`Gen.peakNoPath`, a better path is recognised by `Gen.peakBetter`; the initial best cost is +∞ (`none`) -/
def scanGen : Option (Nat × ℚ) → List (Nat × Option ℚ) → Option (Nat × ℚ)
  | acc, [] => acc
  | acc, (_, none) :: rest =>
    match Gen.peakNoPath with
    | .cont => scanGen acc rest
    | .brk => acc
  | acc, (k, some c) :: rest =>
    scanGen (match acc with
      | none => some (k, c)
      | some (k', b) => if Gen.peakBetter c b then some (k, c) else some (k', b)) rest

/-- … is the model's scan, hence (C10Peak) returns the cheapest path over ALL supplied peaks -/
theorem scanGen_eq_model (acc : Option (Nat × ℚ)) (l : List (Nat × Option ℚ)) :
    scanGen acc l = Labels.bestPeakFrom acc l := by
  induction l generalizing acc with
  | nil => rfl
  | cons hd tl ih =>
    obtain ⟨k, oc⟩ := hd
    cases oc with
    | none =>
      have hp : Gen.peakNoPath = .cont := rfl
      simp only [scanGen, hp, Labels.bestPeakFrom, List.foldl_cons, Labels.bestStep]
      exact ih acc
    | some c =>
      simp only [scanGen, Labels.bestPeakFrom, List.foldl_cons, Labels.bestStep]
      rw [ih]
      cases acc with
      | none => rfl
      | some kb =>
        obtain ⟨k', b⟩ := kb
        simp only [Gen.peakBetter, Labels.bestPeakFrom, decide_eq_true_eq]

end G.C10Gen
