import GModel.Path
import GGen.FormulasC10
import GModel.Labels
import Mathlib.Tactic.Linarith
import Mathlib.Tactic.Ring
import Mathlib.Tactic.Positivity
/-!
# C10 — obligations on the formula slice regenerated from /repo's source (GGen/FormulasC10.lean): graph construction and the scan over the peaks

Every theorem here is ABOUT THE GENERATED DEFINITIONS: when the source formula changes, the definition changes with it
and the theorem either still holds (a harmless rewrite) or stops checking (then the check searches for a failing input).
-/
namespace G.C10Gen
open G

theorem isNode_iff (F thr : ℚ) : Gen.isNode F thr = true ↔ 0 ≤ F ∧ F < thr := by
  unfold Gen.isNode
  simp

theorem edgeWeight_eq (a b e thr : ℚ) : Gen.edgeWeight a b e thr = (a + b) / 2 := by
  unfold Gen.edgeWeight
  ring

theorem edgeWeightExp_eq (a b e thr : ℚ) : Gen.edgeWeightExp a b e thr = min e thr := by
  unfold Gen.edgeWeightExp
  split_ifs with h
  · exact (min_eq_left h.le).symm
  · exact (min_eq_right (not_lt.mp h)).symm

/-- the scan over the peaks as the source performs it: a peak without a percolating path is handled by
`Gen.peakNoPath`, a better path is recognised by `Gen.peakBetter`; the initial best cost is +∞ (`none`) -/
def scanGen : Option (Nat × ℚ) → List (Nat × Option ℚ) → Option (Nat × ℚ)
  | acc, [] => acc
  | acc, (_, none) :: rest =>
    match Gen.peakNoPath with
    | .cont => scanGen acc rest
    | .brk => acc
  | acc, (k, some c) :: rest =>
    scanGen (match acc with
      | none => some (k, c)
      | some (k', b) => if Gen.peakBetter c b then some (k, c) else some (k', b)) rest

/-- … is the model's scan, hence (C10Peak) returns the cheapest path over ALL supplied peaks -/
theorem scanGen_eq_model (acc : Option (Nat × ℚ)) (l : List (Nat × Option ℚ)) :
    scanGen acc l = Labels.bestPeakFrom acc l := by
  induction l generalizing acc with
  | nil => rfl
  | cons hd tl ih =>
    obtain ⟨k, oc⟩ := hd
    cases oc with
    | none =>
      have hp : Gen.peakNoPath = .cont := rfl
      simp only [scanGen, hp, Labels.bestPeakFrom, List.foldl_cons, Labels.bestStep]
      exact ih acc
    | some c =>
      simp only [scanGen, Labels.bestPeakFrom, List.foldl_cons, Labels.bestStep]
      rw [ih]
      cases acc with
      | none => rfl
      | some kb =>
        obtain ⟨k', b⟩ := kb
        simp only [Gen.peakBetter, Labels.bestPeakFrom, decide_eq_true_eq]

/-! ### wrapped / fractional coordinates of a path -/

/-- every wrapped coordinate lies inside the grid along ITS OWN axis and is congruent to the original -/
theorem wrappedSite_spec (x y z nx ny nz : Int) (hx : 0 < nx) (hy : 0 < ny) (hz : 0 < nz) :
    let w := Gen.wrappedSite x y z nx ny nz
    (0 ≤ w.1 ∧ w.1 < nx ∧ nx ∣ (x - w.1)) ∧ (0 ≤ w.2.1 ∧ w.2.1 < ny ∧ ny ∣ (y - w.2.1)) ∧
    (0 ≤ w.2.2 ∧ w.2.2 < nz ∧ nz ∣ (z - w.2.2)) := by
  unfold Gen.wrappedSite
  exact ⟨⟨Int.emod_nonneg _ (by omega), Int.emod_lt_of_pos _ hx, Int.dvd_self_sub_emod⟩,
    ⟨Int.emod_nonneg _ (by omega), Int.emod_lt_of_pos _ hy, Int.dvd_self_sub_emod⟩,
    ⟨Int.emod_nonneg _ (by omega), Int.emod_lt_of_pos _ hz, Int.dvd_self_sub_emod⟩⟩

theorem wrappedSite_eq_model (dims : Nat × Nat × Nat) (hx : 0 < dims.1) (hy : 0 < dims.2.1) (hz : 0 < dims.2.2) (v : Path.Vox) :
    Gen.wrappedSite v.1 v.2.1 v.2.2 dims.1 dims.2.1 dims.2.2 = Path.wrapSite dims v := by
  have pc : ∀ (a : Int) (n : Nat), 0 < n → a % (n : Int) = ((pmod a n : Nat) : Int) := by
    intro a n hn
    unfold pmod
    exact (Int.toNat_of_nonneg (Int.emod_nonneg _ (by omega))).symm
  unfold Gen.wrappedSite Path.wrapSite
  rw [pc _ _ hx, pc _ _ hy, pc _ _ hz]

/-- the fractional coordinate of a wrapped voxel `0 ≤ w < n` lies strictly inside the cell -/
theorem fracSite_in_unit (w n : Int) (hw : 0 ≤ w) (hn : w < n) :
    0 < Gen.fracSite (w : ℚ) (n : ℚ) ∧ Gen.fracSite (w : ℚ) (n : ℚ) < 1 := by
  have hnq : (0 : ℚ) < (n : ℚ) := by exact_mod_cast (lt_of_le_of_lt hw hn)
  have h0q : (0 : ℚ) ≤ (w : ℚ) := by exact_mod_cast hw
  have h1' : w + 1 ≤ n := by omega
  have h1q : (w : ℚ) + 1 ≤ (n : ℚ) := by exact_mod_cast h1'
  unfold Gen.fracSite
  constructor
  · apply div_pos _ hnq
    linarith
  · rw [div_lt_one hnq]
    linarith

theorem frac_sites_use_wrapped : Gen.fracSitesUseWrapped = true := by
  rfl

end G.C10Gen
