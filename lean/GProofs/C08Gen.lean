import GGen.FormulasC08
import GModel.Volume
import GProofs.C08
import Mathlib.Tactic.Linarith
import Mathlib.Tactic.Ring
/-!
# C08 — obligations on the formula slice regenerated from /repo's source (GGen/FormulasC08.lean): voxel ↔ fractional coordinate

Every theorem here is ABOUT THE GENERATED DEFINITIONS: when the source formula changes, the definition changes with it
and the theorem either still holds (a harmless rewrite) or stops checking (then the check searches for a failing input).
-/
namespace G.C08Gen
open G

theorem voxelToFrac_eq_model (n : Nat) (v : Int) : Gen.voxelToFrac (v : ℚ) (n : ℚ) = Volume.voxelToFrac n v := by
  unfold Gen.voxelToFrac Volume.voxelToFrac
  ring

theorem fracToVoxel_eq_model (n : Nat) (x : ℚ) : Gen.fracToVoxel x (n : ℚ) = Volume.fracToVoxel n x := by
  have h : Gen.fracToVoxel x (n : ℚ) = G.truncZ (x * (n : ℚ)) := by
    unfold Gen.fracToVoxel
    exact congrArg G.truncZ (by ring)
  rw [h]
  rfl

/-- centre of a voxel and back: the same index, for every grid size and every index -/
theorem roundtrip_gen (n : Nat) (hn : 0 < n) (v : Nat) :
    Gen.fracToVoxel (Gen.voxelToFrac (v : ℚ) (n : ℚ)) (n : ℚ) = v := by
  have hv : ((v : ℚ)) = (((v : Int)) : ℚ) := by push_cast; rfl
  rw [hv, voxelToFrac_eq_model, fracToVoxel_eq_model]
  exact C08.roundtrip n hn v

/-- the voxel centre lies inside its voxel: `v/n < centre < (v+1)/n` -/
theorem voxelToFrac_inside (n : Nat) (hn : 0 < n) (v : Nat) :
    (v : ℚ) / n < Gen.voxelToFrac (v : ℚ) (n : ℚ) ∧ Gen.voxelToFrac (v : ℚ) (n : ℚ) < ((v : ℚ) + 1) / n := by
  have hnq : (0 : ℚ) < n := by exact_mod_cast hn
  have h : Gen.voxelToFrac (v : ℚ) (n : ℚ) = ((v : ℚ) + 1 / 2) / n := by
    unfold Gen.voxelToFrac
    ring
  rw [h]
  constructor
  · apply div_lt_div_of_pos_right _ hnq
    linarith
  · apply div_lt_div_of_pos_right _ hnq
    linarith

/-- voxel edge for the grid size `n = ⌊L / res⌋ ≥ 1`: at least the resolution, less than twice it -/
theorem voxelSize_bounds (L res : ℚ) (n : Nat) (hn : 0 < n) (hres : 0 < res)
    (hlo : (n : ℚ) * res ≤ L) (hhi : L < ((n : ℚ) + 1) * res) :
    res ≤ Gen.voxelSize L n ∧ Gen.voxelSize L n < 2 * res := by
  have h : Gen.voxelSize L n = L / n := by
    unfold Gen.voxelSize
    ring
  rw [h]
  exact C08.voxel_size_bounds L res n hn hres hlo hhi

/-! ### the grid of `trajectory_to_volume` -/

/-- `astype(int)` of a non-negative whole number is that number -/
theorem truncZ_intCast_nonneg (n : ℤ) (h : 0 ≤ n) : G.truncZ (n : ℚ) = n := by
  have hq : (0 : ℚ) ≤ (n : ℚ) := by exact_mod_cast h
  have hf : ((n : ℚ)).floor = ⌊(n : ℚ)⌋ := rfl
  unfold G.truncZ
  rw [if_pos hq, hf, Int.floor_intCast]

/-- the generated edge count, in closed form (needs only `0 ≤ ⌊L / res⌋`) -/
theorem nEdges_eq (L res : ℚ) (h : 0 ≤ ⌊L / res⌋) : Gen.nEdges L res = 1 + ⌊L / res⌋ := by
  have hf : (L / res).floor = ⌊L / res⌋ := rfl
  have h1 : (0 : ℤ) ≤ 1 + ⌊L / res⌋ := by omega
  have hc : (1 : ℚ) + ((⌊L / res⌋ : ℤ) : ℚ) = (((1 + ⌊L / res⌋ : ℤ)) : ℚ) := by push_cast; ring
  unfold Gen.nEdges
  simp only [hf]
  rw [hc]
  exact truncZ_intCast_nonneg _ h1

/-- number of voxels along an axis = number of edges − 1 = ⌊L / resolution⌋ -/
theorem nEdges_spec (L res : ℚ) (hL : 0 ≤ L) (hres : 0 < res) : Gen.nEdges L res - 1 = ⌊L / res⌋ := by
  have h0 : 0 ≤ ⌊L / res⌋ := Int.floor_nonneg.mpr (div_nonneg hL (le_of_lt hres))
  rw [nEdges_eq L res h0]
  ring

/-- with `n = nEdges − 1 ≥ 1` voxels: `n·res ≤ L < (n+1)·res`, hence (voxelSize_bounds) res ≤ voxel edge < 2 res -/
theorem nEdges_bracket (L res : ℚ) (hL : 0 ≤ L) (hres : 0 < res) :
    ((Gen.nEdges L res - 1 : Int) : ℚ) * res ≤ L ∧ L < (((Gen.nEdges L res - 1 : Int) : ℚ) + 1) * res := by
  rw [nEdges_spec L res hL hres]
  have h1 := Int.floor_le (L / res)
  have h2 := Int.lt_floor_add_one (L / res)
  constructor
  · exact (le_div_iff₀ hres).mp h1
  · exact (div_lt_iff₀ hres).mp h2

/-- at least one voxel as soon as the resolution does not exceed the axis length -/
theorem nEdges_ge_two (L res : ℚ) (hres : 0 < res) (h : res ≤ L) : 2 ≤ Gen.nEdges L res := by
  have h1 : (1 : ℚ) ≤ L / res := (le_div_iff₀ hres).mpr (by linarith)
  have h2 : (1 : ℤ) ≤ ⌊L / res⌋ := Int.le_floor.mpr (by exact_mod_cast h1)
  rw [nEdges_eq L res (by omega)]
  omega

end G.C08Gen
