import GGen.FormulasC08
import GModel.Volume
import GProofs.C08
import Mathlib.Tactic.Linarith
import Mathlib.Tactic.Ring
/-!
# C08 — obligations on the formula slice regenerated from /repo's source (GGen/FormulasC08.lean): voxel ↔ fractional coordinate

Every theorem here is ABOUT THE GENERATED DEFINITIONS: when the source formula changes, the definition changes with it
and the theorem either still holds (a harmless rewrite) or stops checking (then the check searches for a failing input).
-/
namespace G.C08Gen
open G

theorem voxelToFrac_eq_model (n : Nat) (v : Int) : Gen.voxelToFrac (v : ℚ) (n : ℚ) = Volume.voxelToFrac n v := by
  unfold Gen.voxelToFrac Volume.voxelToFrac
  ring

theorem fracToVoxel_eq_model (n : Nat) (x : ℚ) : Gen.fracToVoxel x (n : ℚ) = Volume.fracToVoxel n x := by
  have h : Gen.fracToVoxel x (n : ℚ) = G.truncZ (x * (n : ℚ)) := by
    unfold Gen.fracToVoxel
    exact congrArg G.truncZ (by ring)
  rw [h]
  rfl

/-- centre of a voxel and back: the same index, for every grid size and every index -/
theorem roundtrip_gen (n : Nat) (hn : 0 < n) (v : Nat) :
    Gen.fracToVoxel (Gen.voxelToFrac (v : ℚ) (n : ℚ)) (n : ℚ) = v := by
  have hv : ((v : ℚ)) = (((v : Int)) : ℚ) := by push_cast; rfl
  rw [hv, voxelToFrac_eq_model, fracToVoxel_eq_model]
  exact C08.roundtrip n hn v

/-- the voxel centre lies inside its voxel: `v/n < centre < (v+1)/n` -/
theorem voxelToFrac_inside (n : Nat) (hn : 0 < n) (v : Nat) :
    (v : ℚ) / n < Gen.voxelToFrac (v : ℚ) (n : ℚ) ∧ Gen.voxelToFrac (v : ℚ) (n : ℚ) < ((v : ℚ) + 1) / n := by
  have hnq : (0 : ℚ) < n := by exact_mod_cast hn
  have h : Gen.voxelToFrac (v : ℚ) (n : ℚ) = ((v : ℚ) + 1 / 2) / n := by
    unfold Gen.voxelToFrac
    ring
  rw [h]
  constructor
  · apply div_lt_div_of_pos_right _ hnq
    linarith
  · apply div_lt_div_of_pos_right _ hnq
    linarith

/-- voxel edge for the grid size `n = ⌊L / res⌋ ≥ 1`: at least the resolution, less than twice it -/
theorem voxelSize_bounds (L res : ℚ) (n : Nat) (hn : 0 < n) (hres : 0 < res)
    (hlo : (n : ℚ) * res ≤ L) (hhi : L < ((n : ℚ) + 1) * res) :
    res ≤ Gen.voxelSize L n ∧ Gen.voxelSize L n < 2 * res := by
  have h : Gen.voxelSize L n = L / n := by
    unfold Gen.voxelSize
    ring
  rw [h]
  exact C08.voxel_size_bounds L res n hn hres hlo hhi

end G.C08Gen
