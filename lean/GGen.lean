import GGen.Moves
import GGen.CacheKeys
import GGen.JumpStep
