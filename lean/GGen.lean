import GGen.Moves
import GGen.CacheKeys
