import GGen.Moves
import GGen.CacheKeys
import GGen.JumpStep
import GGen.PairGuard
