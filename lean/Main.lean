import GModel
open G

partial def loop (h : IO.FS.Stream) (out : IO.FS.Stream) : IO Unit := do
  let line ← h.getLine
  if line.isEmpty then return ()
  let l := (line.trimAscii).toString
  -- first token is a case id that is echoed back
  match l.splitOn " " with
  | id :: rest =>
    out.putStrLn (id ++ " " ++ runLine allTables (" ".intercalate rest))
    out.flush
  | [] => out.putStrLn "bad-op"
  loop h out

def main : IO Unit := do
  let out ← IO.getStdout
  loop (← IO.getStdin) out
  out.flush
