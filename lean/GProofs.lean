import GProofs.AuditCmd
