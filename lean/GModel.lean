import GModel.Basic
import GModel.Events
import GModel.Jumps
import GModel.Ops
import GModel.Dispatch
