"""C19 — time partitioning for statistics conserves states and events."""

from __future__ import annotations

import json
from collections import Counter
from itertools import pairwise

import numpy as np

from . import core, gem, hist, translate
from .core import Outcome, PropertySpec, enc_list

from gemdat.jumps import Jumps  # noqa: E402
from gemdat.transitions import Transitions, _calculate_transition_events  # noqa: E402

PID = 'C19'
MODULES = ['GProofs.C19', 'GProofs.C19Gen']
EV_COLS = ['atom index', 'start site', 'destination site', 'start inner site', 'destination inner site', 'time']


def build(case):
    lat = np.eye(3) * 8.0
    s = np.array(case['s']).T
    i = np.array(case['i']).T
    T, A = s.shape
    rng = np.random.default_rng(case.get('seed', 0))
    coords = rng.integers(0, 64, size=(T, A + 1, 3)) / 64
    traj = gem.make_traj(coords, lat, ['Li'] * A + ['O'], time_step=1e-15)
    sites = gem.make_sites(lat, hist.SITE_POOL[: max(2, int(s.max()) + 1)])
    events = _calculate_transition_events(atom_sites=s, atom_inner_sites=i)
    tr = Transitions(trajectory=traj, diff_trajectory=traj.filter('Li'), sites=sites, events=events,
                     states=s, inner_states=i)
    return tr, traj, s, i


def check_transitions_split(out: Outcome, case, tag):
    out.evaluations += 1
    try:
        tr, traj, s, i = build(case)
    except ValueError:
        out.count('no-events')
        return
    T, A = s.shape
    n_events = len(tr.events)
    all_rows = Counter(map(tuple, tr.events[EV_COLS].to_numpy().tolist()))
    times = tr.events['time'].to_numpy().tolist()
    whole_jumps = {}
    for mr in case.get('mrs', [0]):
        try:
            whole_jumps[mr] = Jumps(tr, minimal_residence=mr).n_jumps
        except ValueError:
            whole_jumps[mr] = 0
    nontriv = False
    for n_parts in case['n_parts']:
        c = {**case, 'n_parts': [n_parts]}
        interval = np.linspace(0, T - 1, n_parts + 1, dtype=int)
        empty_traj_part = any(b <= a for a, b in pairwise(interval))
        if (T + n_parts) % 2:
            _ = tr.trajectory.displacements  # read-only queries before the split must not matter
            _ = tr.diff_trajectory.displacements
        try:
            parts = tr.split(n_parts)
        except ValueError as e:
            if n_events < n_parts and 'Not enough transitions' in str(e):
                out.count('refused-too-few-events')
            elif empty_traj_part:
                out.count('refused-empty-trajectory-part')
            else:
                out.fail('property', 'split-raised', c, observed=type(e).__name__ + ': ' + str(e)[:120])
            continue
        except Exception as e:  # noqa: BLE001
            if empty_traj_part:
                out.count('refused-empty-trajectory-part')
            else:
                out.fail('property', 'split-raised', c, observed=type(e).__name__ + ': ' + str(e)[:120])
            continue
        if len(parts) != n_parts:
            out.fail('property', 'n-parts', c, expected=n_parts, observed=len(parts))
            continue
        # states: chunks concatenate to the original, sizes as np.array_split
        cat = np.concatenate([p.states for p in parts])
        cati = np.concatenate([p.inner_states for p in parts])
        if not (np.array_equal(cat, s) and np.array_equal(cati, i)):
            out.fail('property', 'states-concatenate', c, expected='original states', observed=[p.states.shape for p in parts])
        sizes = [len(p.states) for p in parts]
        msz = list(map(int, core.drive1(f'array-split {T} {n_parts}').split()[1:]))
        if sizes != msz:
            out.fail('correspondence', 'model-array-split', c, expected=msz, observed=sizes)
        # events: every original event exactly once, re-based into the part
        bins = np.linspace(0, T + 1, n_parts + 1, dtype=int).tolist()
        mono = all(a <= b for a, b in pairwise(bins)) and bins[0] == 0 and bins[-1] >= T
        if not mono:
            out.fail('correspondence', 'bins-hypothesis', c, observed=bins, note='bin vector not monotone from 0 to beyond the last frame')
        rebuilt = Counter()
        for k, p in enumerate(parts):
            lo, hi = bins[k], bins[k + 1]
            rows = p.events[EV_COLS].to_numpy().tolist()
            for r in rows:
                if not (0 <= r[5] < max(hi - lo, 0)):
                    out.fail('property', 'rebased-offset-in-part', c, expected=f'0 <= t < {hi - lo}', observed=r, note=f'part {k}')
                rr = list(r)
                rr[5] += lo
                rebuilt[tuple(rr)] += 1
        if rebuilt != all_rows:
            missing = all_rows - rebuilt
            dup = rebuilt - all_rows
            out.fail('property', 'events-exactly-once', c, expected=n_events, observed=sum(rebuilt.values()),
                     note=f'missing {sorted(missing)[:4]} extra {sorted(dup)[:4]}')
        mparts = core.drive1(f'bin-events {enc_list(bins)} {enc_list(times)}').split()[1:]
        # parse counted lists
        pos = 0
        msizes = []
        mtimes = []
        while pos < len(mparts):
            k = int(mparts[pos])
            msizes.append(k)
            mtimes.append(sorted(map(int, mparts[pos + 1: pos + 1 + k])))
            pos += 1 + k
        got_times = [sorted(p.events['time'].to_numpy().tolist()) for p in parts]
        if got_times != mtimes:
            out.fail('property' if rebuilt != all_rows else 'correspondence', 'model-bin-events', c, expected=mtimes, observed=got_times)
        # chronological order of parts: trajectory parts are the frame ranges of the source
        for k, p in enumerate(parts):
            a, b = int(interval[k]), int(interval[k + 1])
            if not np.array_equal(p.trajectory.positions, traj.positions[a:b]):
                out.fail('property', 'part-trajectory-frames', c, expected=[a, b], observed=len(p.trajectory), note=f'part {k}')
        # jump counts of the parts never add up to more than the whole
        for mr, total in whole_jumps.items():
            cnt = 0
            for p in parts:
                try:
                    cnt += Jumps(p, minimal_residence=mr).n_jumps
                except ValueError:
                    pass
            # Jumps.split: the parts of a Jumps object, analysed with ITS settings
            if total > 0:
                try:
                    jparts = Jumps(tr, minimal_residence=mr).split(n_parts)
                    jc = sum(jp.n_jumps for jp in jparts)
                    if jc > total or any(jp.minimal_residence != mr for jp in jparts):
                        out.fail('property', 'jumps-split-subadditive', {**c, 'mr': mr}, expected=f'<= {total} with minimal_residence {mr}',
                                 observed=[jc, [jp.minimal_residence for jp in jparts]])
                    if jc != cnt:
                        out.fail('property', 'jumps-split-parts', {**c, 'mr': mr}, expected=cnt, observed=jc,
                                 note='Jumps.split parts differ from Jumps(part, same settings)')
                except ValueError:
                    out.count('jumps-split-refused-part-without-jumps')
            if cnt > total:
                out.fail('property', 'jumps-subadditive', {**c, 'mr': mr}, expected=f'<= {total}', observed=cnt)
            if cnt < total:
                out.count('split-lost-jumps')
        ev0 = 0 in times
        evl = (T - 2) in times
        if n_parts >= 2 and n_events >= n_parts and (ev0 or evl):
            nontriv = True
    if nontriv:
        out.nontrivial.add(json.dumps({'s': case['s'], 'i': case['i'], 'n': case['n_parts']}))
    if len(out.samples) < 2 and T * A <= 40 and n_events >= 3:
        out.sample({'tag': tag, **case, 'events(time)': times})


def check_traj_split(out: Outcome, rng):
    """Trajectory.split on its own: contiguous, ordered frame ranges; equal length on request."""
    T = int(rng.integers(2, 80))
    A = int(rng.integers(1, 4))
    coords = rng.integers(-64, 128, size=(T, A, 3)) / 64
    name, lat = gem.lattice_pool(rng)
    traj = gem.make_traj(coords, lat, ['Li'] * A)
    pos = traj.positions.copy()
    n_parts = int(rng.integers(1, max(2, T)))
    out.evaluations += 1
    queried = bool(rng.integers(2))
    if queried:
        _ = traj.cumulative_displacements  # a read-only query made before the split (the object is then stored as displacements)
    case = {'traj_T': T, 'traj_A': A, 'n_parts': n_parts, 'displacement_query_before_split': queried, 'coords': coords.tolist() if T * A <= 12 else 'omitted', 'lattice': lat.tolist()}
    interval = np.linspace(0, T - 1, n_parts + 1, dtype=int)
    if any(b <= a for a, b in pairwise(interval)):
        out.count('traj-empty-part-skipped')
        return
    for equal in (False, True):
        try:
            parts = traj.split(n_parts, equal_parts=equal)
        except Exception as e:  # noqa: BLE001
            out.fail('property', 'traj-split-raised', {**case, 'equal': equal}, observed=type(e).__name__ + str(e)[:100])
            continue
        if len(parts) != n_parts:
            out.fail('property', 'traj-n-parts', {**case, 'equal': equal}, expected=n_parts, observed=len(parts))
            continue
        op = 'traj-parts-eq ' + str(T) if equal else 'traj-parts'
        m = list(map(int, core.drive1(f'{op} {enc_list(interval)}').split()[1:]))
        ranges = [(m[2 * k], m[2 * k + 1]) for k in range(n_parts)]
        prev_stop = None
        for k, p in enumerate(parts):
            a, b = ranges[k]
            # find the part's frames in the source: must be the range starting at interval[k]
            if not np.array_equal(p.positions, pos[a:b]):
                out.fail('property', 'traj-part-frames', {**case, 'equal': equal}, expected=[a, b], observed=len(p), note=f'part {k}')
            if a != interval[k] or b > interval[k + 1] or (not equal and b != interval[k + 1]):
                out.fail('correspondence', 'model-traj-parts', {**case, 'equal': equal}, expected=[int(interval[k]), int(interval[k + 1])], observed=[a, b])
            if prev_stop is not None and a < prev_stop:
                out.fail('property', 'traj-parts-overlap', {**case, 'equal': equal}, observed=[prev_stop, a])
            prev_stop = b
            if p.time_step != traj.time_step or not np.array_equal(p.get_lattice().matrix, traj.get_lattice().matrix):
                out.fail('property', 'traj-part-metadata', {**case, 'equal': equal}, observed=str(p.time_step))
        if equal and len({len(p) for p in parts}) != 1:
            out.fail('property', 'traj-equal-parts', {**case}, expected='one length', observed=[len(p) for p in parts])
    if n_parts >= 2:
        out.nontrivial.add(('traj', T, A, n_parts, hash(coords.tobytes())))


def gen_case(rng, long=False):
    T = int(rng.integers(4, 120 if long else 40))
    A = int(rng.integers(1, 4))
    s, i = hist.exclusive(*hist.random_histories(rng, T, A, int(rng.integers(2, 5)), inner=bool(rng.integers(2))))
    # force events at the first and last possible frame now and then
    if rng.random() < 0.4:
        s[0, 0], i[0, 0] = -1, -1
        s[1, 0], i[1, 0] = 0, 0
    if rng.random() < 0.4:
        s[-1, 0], i[-1, 0] = -1, -1
        s[-2, 0], i[-2, 0] = 1, 1
    s, i = hist.exclusive(s, i)
    n_ev = sum(len(hist.spec_events(s[:, a], i[:, a])) for a in range(A))
    cand = sorted({1, 2, 3, int(rng.integers(1, max(2, n_ev + 1))), n_ev if n_ev else 1})
    return {'s': s.T.tolist(), 'i': i.T.tolist(), 'n_parts': [n for n in cand if n >= 1], 'seed': int(rng.integers(1 << 30)),
            'mrs': [0, int(rng.integers(1, 8))]}


def corpus():
    d = core.CORPUS / PID
    return [json.loads(p.read_text()) for p in sorted(d.glob('*.json'))] if d.exists() else []


def run(tier: str, seed: int, scale: int) -> Outcome:
    out = Outcome()
    rng = np.random.default_rng(seed)
    for case in corpus():
        check_transitions_split(out, case, 'corpus')
    # exhaustive small: every one-atom default history T <= 6, every n_parts 1..#events
    if tier != 'quick' or True:
        Tmax = 6 if tier == 'quick' else 8
        for T in range(3, Tmax + 1):
            s, i = hist.exhaustive_histories(T, 2, 'eq')
            step = 1 if tier != 'quick' else max(1, s.shape[1] // 150)
            for a in range(0, s.shape[1], step):
                n_ev = len(hist.spec_events(s[:, a], i[:, a]))
                if n_ev == 0:
                    continue
                check_transitions_split(out, {'s': [s[:, a].tolist()], 'i': [i[:, a].tolist()],
                                              'n_parts': list(range(1, n_ev + 1)), 'mrs': [0]}, f'small-T{T}')
    n = (150 if tier == 'quick' else 3000) * scale
    for k in range(n):
        check_transitions_split(out, gen_case(rng, long=(k % 5 == 0)), 'random')
    for _ in range(n):
        check_traj_split(out, rng)
    out.extra['observation'] = ('event bins (linspace(0, n_states+1)) do not coincide with the state chunks (array_split); the '
                                'statement does not require it; Trajectory.split drops the last frame (linspace ends at len-1, exclusive stop)')
    return out


def replay(case):
    out = Outcome()
    check_transitions_split(out, case, 'replay')
    fails = [f for f in out.failures if f.kind == 'property']
    text = '\n'.join(f'{f.clause}: expected {f.expected} observed {f.observed} {f.note}' for f in fails) or 'no failure'
    return (not fails), text


SPEC = PropertySpec(
    pid=PID,
    modules=MODULES,
    run=run,
    replay=replay,
    gen=translate.gen_for('FormulasC19'),
    rule=('one-atom default histories up to the stated length with n_parts = 1 .. #events, and random multi-atom (site, inner) '
          'histories (4-120 frames, events forced at the first / last possible frame in 40% of cases) with n_parts in {1,2,3,random,'
          '#events}, through Transitions.split / Jumps(part) on real objects; random Trajectory.split(n, equal_parts) on pool '
          'lattices. On the implementation: n parts, states / inner states concatenate to the original, every event exactly once '
          'with 0 <= re-based time < bin width, part trajectories are the source frame ranges, sum of part jump counts <= whole '
          '(residence 0 and random), trajectory parts contiguous / ordered / equal-length. Non-trivial: n_parts >= 2, #events >= '
          'n_parts and an event at the first or last possible frame; distinct = distinct (history, n_parts set).'),
    trusted=['np.linspace(..., dtype=int) boundary vectors are taken from numpy; their monotonicity and end points (the only hypotheses '
             'of the theorems) are checked per case', 'np.array_split sizes as modelled by arraySplitSizes'],
    assumptions=['parts of the trajectory are non-empty (pymatgen cannot build an empty trajectory); a refusal there is not a violation',
                 'Jumps of a part without jumps raises ValueError by design and counts as 0 jumps'],
)
