"""Builders for real GEMDAT / pymatgen objects used by the property harnesses."""

from __future__ import annotations

import io
import warnings
from contextlib import redirect_stdout
from fractions import Fraction

import numpy as np

warnings.filterwarnings('ignore')

from pymatgen.core import Element, Lattice, Species, Structure  # noqa: E402

from gemdat import Trajectory  # noqa: E402

F = Fraction


def quiet(fn, *a, **k):
    """Call fn swallowing stdout (loaders print on cache errors)."""
    buf = io.StringIO()
    with redirect_stdout(buf):
        return fn(*a, **k)


# ---- lattice pool: every matrix entry is a small dyadic, hence exactly representable ----

def _rot_pyth(axis: int, a: int, b: int, c: int) -> np.ndarray:
    """Rational rotation about `axis` with cos=a/c, sin=b/c (a²+b²=c²)."""
    co, si = a / c, b / c
    r = np.eye(3)
    i, j = [(1, 2), (0, 2), (0, 1)][axis]
    r[i, i] = co
    r[j, j] = co
    r[i, j] = -si
    r[j, i] = si
    return r


def rot_frac(axis: int, a: int, b: int, c: int):
    """Same rotation as exact Fractions (3x3 nested lists)."""
    co, si = F(a, c), F(b, c)
    r = [[F(int(i == j)) for j in range(3)] for i in range(3)]
    i, j = [(1, 2), (0, 2), (0, 1)][axis]
    r[i][i] = co
    r[j][j] = co
    r[i][j] = -si
    r[j][i] = si
    return r


LATTICES = {
    'cubic': [[8, 0, 0], [0, 8, 0], [0, 0, 8]],
    'ortho': [[6, 0, 0], [0, 8, 0], [0, 0, 10]],
    'mono': [[6, 0, 0], [0, 8, 0], [2, 0, 9]],
    'tric': [[7, 0, 0], [1.5, 8, 0], [2, 1, 9]],
    'tric2': [[6, 0.5, 1], [-1, 7, 0.5], [1.5, -2, 8]],  # no axis aligned
    'hexlike': [[8, 0, 0], [-4, 7, 0], [0, 0, 10]],
    'skew': [[6, 0, 0], [4.5, 6, 0], [3.5, 2.5, 7]],  # strongly triclinic
}


def lattice_pool(rng, allow_rot=True):
    """Pick a lattice; optionally rotate it rigidly by a *dyadic-free* exact rotation.

    Rotations with cos/sin = 3/5, 4/5 are not dyadic, so M·R is not exactly
    representable; they are used where results are tolerance-compared.  For exact
    comparisons use axis permutations / sign flips (exact) instead.
    """
    name = rng.choice(list(LATTICES))
    m = np.array(LATTICES[name], dtype=float)
    return name, m


def exact_orientation(rng, m: np.ndarray) -> np.ndarray:
    """Re-orient a lattice matrix exactly: proper signed axis permutation (det=+1)."""
    perms = [
        [[1, 0, 0], [0, 1, 0], [0, 0, 1]],
        [[0, 1, 0], [0, 0, 1], [1, 0, 0]],
        [[0, 0, 1], [1, 0, 0], [0, 1, 0]],
        [[0, -1, 0], [1, 0, 0], [0, 0, 1]],
        [[1, 0, 0], [0, 0, -1], [0, 1, 0]],
        [[0, 0, 1], [0, 1, 0], [-1, 0, 0]],
        [[-1, 0, 0], [0, -1, 0], [0, 0, 1]],
    ]
    r = np.array(perms[rng.integers(len(perms))], dtype=float)
    assert round(np.linalg.det(r)) == 1
    return m @ r


def make_traj(coords, lattice, species, time_step=1e-15, metadata=None, **kw) -> Trajectory:
    species = [Element(sp) if isinstance(sp, str) else sp for sp in species]
    return Trajectory(
        species=species,
        coords=np.array(coords, dtype=float),
        lattice=np.array(lattice, dtype=float),
        time_step=time_step,
        metadata=metadata if metadata is not None else {'temperature': 300.0},
        **kw,
    )


def make_sites(lattice, frac_coords, labels=None, specie='Li') -> Structure:
    frac_coords = np.array(frac_coords, dtype=float)
    return Structure(
        lattice=Lattice(np.array(lattice, dtype=float)),
        species=[specie] * len(frac_coords),
        coords=frac_coords,
        labels=list(labels) if labels is not None else None,
    )


def reference_cell(rng, lat):
    """A cell that differs metrically from `lat` (each axis scaled by 0.94-1.06, a small shear): site structures taken from a
    reference crystal carry such a cell; only their FRACTIONAL coordinates matter, distances are those of the simulation cell."""
    lat = np.array(lat, dtype=float)
    f = np.array([float(rng.choice([0.94, 0.97, 1.03, 1.06])) for _ in range(3)])
    out = lat * f[:, None]
    out[1] = out[1] + 0.03 * out[0]
    return out


def enc_m3(m) -> str:
    from .core import enc
    return ' '.join(enc(v) for row in np.asarray(m).tolist() for v in row)


def enc_v3s(vs) -> str:
    from .core import enc
    vs = np.asarray(vs, dtype=float).reshape(-1, 3)
    return ' '.join([str(len(vs))] + [enc(v) for row in vs.tolist() for v in row])
