#!/bin/bash
# Development aid (not a registered command): apply every stored harmless rewrite (refactors/<id>/patch.diff) to /repo in turn,
# run the quick check of its property, undo it.  Expected: exit 0 for each (possibly with STRUCTURE-NOTE / SLICE-NOTE lines).
cd "$(dirname "$0")/.." || exit 2
[ -z "$(git -C /repo status --porcelain)" ] || { echo "/repo is not clean"; exit 2; }
for d in refactors/*/; do
  id=$(basename "$d"); pid=${id%-*}
  git -C /repo apply "$PWD/$d/patch.diff" || { echo "$id does not apply"; git -C /repo checkout -- .; continue; }
  out=$(./check "$pid" quick 2>&1)
  echo "$id $(echo "$out" | grep -E '^VIOLATION|^STRUCTURE-NOTE|^SLICE-NOTE|HARNESS' | cut -c1-160 | tr '\n' ' ') $(echo "$out" | tail -1 | grep -o 'rc=[0-9]')"
  git -C /repo checkout -- .
done
/venv/bin/python -c "from harness import translate; translate.generate()"
git -C /repo status --short
