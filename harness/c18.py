"""C18 — orientation vectors are minimum-image bonds; transforms / autocorrelation exact."""

from __future__ import annotations

import json
import struct
import warnings
from fractions import Fraction

import numpy as np
from pymatgen.core import Lattice
from pymatgen.symmetry.groups import PointGroup

from . import core, gem, translate
from .core import Outcome, PropertySpec, enc

from gemdat.orientations import Orientations  # noqa: E402
from gemdat.utils import cartesian_to_spherical, fft_autocorrelation  # noqa: E402

PID = 'C18'
MODULES = ['GProofs.Geometry', 'GProofs.C18', 'GProofs.C18Gen']
POINT_GROUPS = ['1', '-1', '2/m', 'mmm', '4/mmm', 'm-3m']
TETRA = np.array([[1, 1, 1], [1, -1, -1], [-1, 1, -1], [-1, -1, 1]]) / np.sqrt(3)


def rand_rotation(rng):
    q = rng.normal(size=4)
    q /= np.linalg.norm(q)
    a, b, c, d = q
    return np.array([[a*a+b*b-c*c-d*d, 2*(b*c-a*d), 2*(b*d+a*c)],
                     [2*(b*c+a*d), a*a-b*b+c*c-d*d, 2*(c*d-a*b)],
                     [2*(b*d-a*c), 2*(c*d+a*b), a*a-b*b-c*c+d*d]])


def gen_case(rng, many=False):
    name, lat = gem.lattice_pool(rng)
    if name == 'skew':
        name, lat = 'tric', np.array(gem.LATTICES['tric'], float)
    T = int(rng.integers(2, 8))
    nc = int(rng.integers(1, 3))
    bond = float(rng.uniform(0.9, 1.5))
    centres = []
    if many:
        # a large system: 5 x 4 x 4 copies of the cell, one tetrahedron near the middle of most sub-cells (> 256 satellite atoms)
        name, lat = 'tric x (5,4,4)', np.array(gem.LATTICES['tric'], float) * np.array([5, 4, 4])[:, None]
        T, bond = 2, 1.0
        grid = [(i, j, k) for i in range(5) for j in range(4) for k in range(4)]
        nc = int(rng.integers(66, 80))
        centres = [(np.array(g) + 0.5 + rng.integers(-8, 9, size=3) / 64) / np.array([5, 4, 4]) for g in [grid[q] for q in rng.permutation(len(grid))[:nc]]]
    L = Lattice(lat)
    while len(centres) < nc:
        c = rng.integers(0, 64, size=3) / 64
        if rng.random() < 0.5:
            c[int(rng.integers(3))] = float(rng.choice([0.0, 1 / 64, 63 / 64]))  # bonds cross a face
        if all(L.get_all_distances(c, o)[0, 0] > 4.5 for o in centres):
            centres.append(c)
    cent = np.zeros((T, nc, 3))
    sat = np.zeros((T, 4 * nc, 3))
    rots = [rand_rotation(rng) for _ in range(nc)]
    for t in range(T):
        for k in range(nc):
            drift = rng.integers(-2, 3, size=3) / 256
            cent[t, k] = centres[k] + drift * t
            rot = rots[k] @ rand_rotation(rng) if t and rng.random() < 0.5 else rots[k]
            rots[k] = rot
            for j in range(4):
                v = bond * (1 + 0.05 * rng.normal()) * (rot @ TETRA[j])
                sat[t, 4 * k + j] = cent[t, k] + L.get_fractional_coords(v)
    cent = np.round(cent * 4096) / 4096
    sat = np.round(sat * 4096) / 4096
    return {'lattice_name': name, 'lattice': lat.tolist(), 'cent': cent.tolist(), 'sat': sat.tolist(),
            'group': str(rng.choice(POINT_GROUPS)), 'matrix': (rng.integers(-8, 9, size=(3, 3)) / 4).tolist()}


def bits(tokens):
    return np.array([struct.unpack('<d', struct.pack('<Q', int(b)))[0] for b in tokens])


def check_case(out: Outcome, case, tag):
    lat = np.array(case['lattice'], float)
    L = Lattice(lat)
    cent = np.array(case['cent'], float)
    sat = np.array(case['sat'], float)
    T, nc, _ = cent.shape
    ns = sat.shape[1]
    out.evaluations += 1
    coords = np.concatenate([cent, sat], axis=1)
    traj = gem.make_traj(coords, lat, ['S'] * nc + ['O'] * ns)
    try:
        with warnings.catch_warnings():
            warnings.simplefilter('ignore')
            ori = Orientations(traj, center_type='S', satellite_type='O')
        vec = np.array(ori.vectors)
    except Exception as e:  # noqa: BLE001
        out.fail('property', 'orientations-raised', case, observed=type(e).__name__ + ': ' + str(e)[:100])
        return
    frames = ' '.join(' '.join(enc(v) for v in cent[t].reshape(-1).tolist()) + ' ' + ' '.join(enc(v) for v in sat[t].reshape(-1).tolist())
                      for t in range(T))
    r = core.drive1(f'orient {gem.enc_m3(lat)} {nc} {ns} {T} {frames}')
    parts = r[3:].split(' | ')
    bonds = list(map(int, parts[0].split()))
    nb = len(bonds) // 2
    if nb != 4 * nc:
        out.count('skipped-not-tetrahedral')
        return
    dirs = np.array([float(core.dec_rat(t)) for t in parts[1].split()]).reshape(T, nb, 3)
    lens = np.array([float(core.dec_rat(t)) for t in parts[2].split()]).reshape(T, nb)
    cert = np.array([float(core.dec_rat(t)) for t in parts[3].split()]).reshape(T, nb)
    if (cert < 0).any():
        out.count('skipped-uncertified')
        return
    want = dirs @ lat
    # vectors are the minimum-image Cartesian bonds centre -> satellite
    if vec.shape != want.shape or not np.allclose(vec, want, rtol=1e-9, atol=1e-9):
        out.fail('property', 'vectors-are-minimum-image-bonds', case, expected=want.tolist()[:1], observed=vec.tolist()[:1])
        return
    if not np.allclose(np.sum(vec ** 2, axis=-1), cert, rtol=1e-9, atol=1e-12):
        out.fail('property', 'lengths-equal-periodic-distances', case, expected=cert.tolist()[:1], observed=np.sum(vec ** 2, axis=-1).tolist()[:1])
    if not np.allclose(lens, cert, rtol=1e-12):
        out.fail('correspondence', 'model-per-axis-wrap-vs-certified', case, expected=cert.tolist()[:1], observed=lens.tolist()[:1])
    # normalise: unit length, direction unchanged
    nrm = np.array(ori.normalize().vectors)
    if not np.allclose(np.linalg.norm(nrm, axis=-1), 1, atol=1e-12) or not np.allclose(np.cross(nrm, vec), 0, atol=1e-9) or np.any(np.sum(nrm * vec, axis=-1) <= 0):
        out.fail('property', 'normalize', case)
    # symmetrise with a point group: for every vector exactly its images under the group, one per operation
    g = PointGroup(case['group'])
    ops = np.array([o.rotation_matrix for o in g.symmetry_ops])
    if not np.allclose(np.einsum('kij,klj->kil', ops, ops), np.eye(3)):
        out.count('group-not-orthogonal')
    else:
        sym = np.array(ori.symmetrize(sym_group=case['group']).vectors)
        nops = len(ops)
        if sym.shape != (T, nb * nops, 3):
            out.fail('property', 'symmetrize-count', case, expected=[T, nb * nops, 3], observed=list(sym.shape))
        else:
            ok = True
            for t in range(T):
                for b in range(nb):
                    got = np.round(sym[t, b * nops:(b + 1) * nops], 9)
                    wantimg = np.round(np.einsum('kij,j->ki', ops, vec[t, b]), 9)
                    if sorted(map(tuple, got.tolist())) != sorted(map(tuple, (wantimg + 0.0).tolist())):
                        ok = False
                        break
                if not ok:
                    break
            if not ok:
                out.fail('property', 'symmetrize-images', case, expected=wantimg.tolist(), observed=got.tolist(), note=f'group {case["group"]}')
            # exact layout vs the model on the first frame (ops are integer matrices here)
            ops_s = ' '.join([str(nops)] + [' '.join(enc(v) for v in o.reshape(-1).tolist()) for o in ops])
            v0 = np.round(vec[0] * 2**20) / 2**20
            ms = core.drive1(f'symm {ops_s} {gem.enc_v3s(v0)}')
            mv = np.array([float(core.dec_rat(x)) for x in ms.split()[1:]]).reshape(nb * nops, 3)
            o2 = Orientations(traj, 'S', 'O', in_vectors=v0[None, :, :]).symmetrize(sym_group=case['group']).vectors[0]
            if not np.allclose(o2, mv, atol=1e-12):
                out.fail('property', 'symmetrize-layout', case, expected=mv.tolist()[:4], observed=np.array(o2).tolist()[:4])
    # linear transform
    M = np.array(case['matrix'], float)
    tv = np.array(ori.transform(M).vectors)
    if not np.allclose(tv, np.einsum('ij,tbj->tbi', M, vec), rtol=1e-12, atol=1e-12):
        out.fail('property', 'transform', case)
    # normalising after a change of units (Angstrom -> metre, Angstrom -> bohr x 1e5): still unit vectors, whatever the scale
    for scale_ in (1e-10, 1.8897e5):
        tn = np.array(ori.transform(np.eye(3) * scale_).normalize().vectors)
        if not np.allclose(np.linalg.norm(tn, axis=-1), 1, atol=1e-12) or np.any(np.sum(tn * vec, axis=-1) <= 0):
            out.fail('property', 'normalize', {**case, 'after_transform_by': scale_}, expected='unit vectors', observed=np.linalg.norm(tn, axis=-1).reshape(-1)[:4].tolist(),
                     note='transform(scale x identity) followed by normalize()')
            break
    # spherical representation invertible
    sph = np.array(ori.vectors_spherical)
    az, el, rr = np.radians(sph[..., 0]), np.radians(sph[..., 1]), sph[..., 2]
    back = np.stack([rr * np.cos(el) * np.cos(az), rr * np.cos(el) * np.sin(az), rr * np.sin(el)], axis=-1)
    if not np.allclose(back, vec, rtol=1e-9, atol=1e-9):
        out.fail('property', 'spherical-invertible', case)
    # autocorrelation: definition vs implementation (known finding D13), and vs the as-is twin
    ac = np.array(ori.autocorrelation())  # [bond, time]
    vq = np.round(vec * 2**20) / 2**20
    ac_q = np.array(fft_autocorrelation(vq))
    for b in range(min(nb, 2)):
        series = gem.enc_v3s(vq[:, b, :])
        md = core.drive([('d', f'acorr {series}'), ('a', f'acorr-asis {series}')])
        want_def = np.array([float(core.dec_rat(x)) for x in md['d'].split()[1:]])
        asis = bits(md['a'].split()[1:])
        if not np.allclose(ac_q[b], want_def, rtol=1e-9, atol=1e-9):
            note = 'as-is-irfft-default-length' if np.allclose(ac_q[b], asis, rtol=1e-9, atol=1e-9) else 'differs-from-as-is-model'
            out.fail('property', 'autocorrelation-equals-definition', case, expected=want_def.tolist(), observed=ac_q[b].tolist(), note=note)
        if abs(ac[b, 0] - 1) > 1e-12:
            out.fail('property', 'autocorrelation-lag-zero-one', case, observed=float(ac[b, 0]))
    crosses = bool(np.any(np.abs(np.mod(sat, 1)[:, bonds[1::2]] - np.mod(cent, 1)[:, bonds[0::2]]) > 0.5))
    if crosses:
        out.nontrivial.add(json.dumps(case, sort_keys=True))
    if len(out.samples) < 2 and T <= 3 and nc == 1:
        out.sample({'tag': tag, **case})


def corpus():
    d = core.CORPUS / PID
    return [json.loads(p.read_text()) for p in sorted(d.glob('*.json'))] if d.exists() else []


def run(tier: str, seed: int, scale: int) -> Outcome:
    out = Outcome()
    rng = np.random.default_rng(seed)
    for case in corpus():
        check_case(out, case, 'corpus')
    for _ in range((150 if tier == 'quick' else 1500) * scale):
        check_case(out, gen_case(rng), 'random')
    for _ in range((1 if tier == 'quick' else 4) * scale):
        check_case(out, gen_case(rng, many=True), 'many-molecules')
    return out


def classify(f: core.Failure, finding: dict) -> bool:
    if finding['id'] == 'D13':
        return f.clause == 'autocorrelation-equals-definition' and f.note == 'as-is-irfft-default-length'
    return False


def replay(case):
    out = Outcome()
    check_case(out, case, 'replay')
    fails = [f for f in out.failures if f.kind == 'property']
    text = '\n'.join(f'{f.clause}: expected {str(f.expected)[:300]} observed {str(f.observed)[:300]} {f.note}' for f in fails) or 'no failure'
    return (not fails), text


SPEC = PropertySpec(
    pid=PID,
    modules=MODULES,
    run=run,
    replay=replay,
    gen=translate.gen_for('FormulasC18'),
    classify=classify,
    rule=('random molecular trajectories: 1-2 tetrahedral centre/satellite clusters (bond 0.9-1.5 A, random orientation changing in time, '
          'centres on a k/64 grid, half of them on a cell face so that bonds cross it), 2-7 frames, pool lattices (widths >= 6 A), '
          'coordinates on a k/4096 grid; vectors vs the Lean model (matching at frame 0, per-axis wrap, 1e-9) and their lengths vs the '
          'certified minimum-image distances; normalize; symmetrize with point groups 1, -1, 2/m, mmm, 4/mmm, m-3m (images as sets '
          'per vector, exact layout on frame 0); transform with a random dyadic 3x3 matrix; spherical representation inverted; '
          'autocorrelation vs the definition in exact rationals and vs the as-is binary64 twin. Non-trivial: a bond crossing a face.'),
    trusted=['pymatgen PointGroup operation matrices', 'np.linalg.norm, trigonometric functions (tolerance 1e-9)',
             'np.fft.rfft/irfft: the as-is twin is a direct DFT of the same formula'],
    assumptions=['bond length well below half of every cell width (per-axis wrap = minimum image); exactly four satellites within 1.5 x the shortest bond'],
)
