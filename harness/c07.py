"""C07 — results depend only on geometry: orientation, origin, labelling invariance."""

from __future__ import annotations

import json
import warnings

import numpy as np
from pymatgen.core import Lattice

from . import core, gem, hist, trajsc
from .core import Outcome, PropertySpec

from gemdat.rdf import radial_distribution  # noqa: E402
from gemdat.volume import trajectory_to_volume  # noqa: E402

PID = 'C07'
MODULES = ['GProofs.Geometry', 'GProofs.C07', 'GProofs.C07Pipe']
JCOLS = ['atom index', 'start site', 'destination site', 'start time', 'stop time']
ECOLS = ['atom index', 'start site', 'destination site', 'start inner site', 'destination inner site', 'time']
LATS = ['cubic', 'ortho', 'mono', 'tric', 'hexlike']


def gen_system(rng):
    name = str(rng.choice(LATS))
    lat = np.array(gem.LATTICES[name], float)
    L = Lattice(lat)
    T = int(rng.integers(4, 14))
    A = int(rng.integers(1, 4))
    ns = int(rng.integers(2, 5))
    s, i = hist.exclusive(*hist.random_histories(rng, T, A, ns, inner=True))
    sites = hist.SITE_POOL[rng.permutation(8)[:ns]].copy()
    coords = np.zeros((T, A, 3))
    for t in range(T):
        for a in range(A):
            if s[t, a] == -1:
                coords[t, a] = hist.VOID + rng.integers(-2, 3, size=3) / 64
            elif i[t, a] == s[t, a]:
                coords[t, a] = sites[s[t, a]] + L.get_fractional_coords(rng.normal(size=3) * 0.05)
            else:
                v = rng.normal(size=3)
                v *= 0.75 / np.linalg.norm(v)
                coords[t, a] = sites[s[t, a]] + L.get_fractional_coords(v)
    coords = trajsc.fix_ties(rng, np.round(coords * 1024) / 1024)  # NoTie: no exact half-cell step
    fw = np.array([[0.875, 0.875, 0.875], [0.375, 0.875, 0.375]])
    return {'lattice_name': name, 'lattice': lat.tolist(), 'coords': coords.tolist(), 'sites': sites.tolist(),
            'framework': fw.tolist(), 'labels': ['A' if k % 2 == 0 else 'B' for k in range(ns)]}


def analyse(lat, coords, sites, framework, labels, endpoints=None, do_path=True):
    """run the analyses on one representation; returns a dict of canonical results"""
    lat = np.array(lat, float)
    coords = np.array(coords, float)
    T, A, _ = coords.shape
    fw = np.broadcast_to(np.array(framework, float)[None, :, :], (T, len(framework), 3))
    traj = gem.make_traj(np.concatenate([coords, fw], axis=1), lat, ['Li'] * A + ['O'] * len(framework), time_step=2e-15)
    st = gem.make_sites(lat, sites, labels=labels)
    res = {}
    with warnings.catch_warnings():
        warnings.simplefilter('ignore')
        try:
            # per-label radii (same value) every other system: exercises the label-group code path as well
            rad = {lab: 1.0 for lab in set(labels)} if (len(sites) + T) % 2 else 1.0
            tr = traj.transitions_between_sites(st, 'Li', site_radius=rad, site_inner_fraction=0.5)
        except ValueError:
            return None
        res['states'] = np.array(tr.states)
        res['inner'] = np.array(tr.inner_states)
        # results keyed by site LABEL: the same for every order in which the sites are listed
        res['by_label'] = {'atom_locations': dict(tr.atom_locations()), 'occupancy_by_site_type': dict(tr.occupancy_by_site_type())}
        res['events'] = sorted(map(tuple, tr.events[ECOLS].to_numpy().tolist()))
        try:
            j = tr.jumps()
            res['jumps'] = sorted(map(tuple, j.data[JCOLS].to_numpy().tolist()))
            try:
                res['jumps_mr2'] = sorted(map(tuple, tr.jumps(minimal_residence=2).data[JCOLS].to_numpy().tolist()))
            except ValueError:
                res['jumps_mr2'] = []
            res['matrix'] = np.array(j.matrix())
            res['jump_diff'] = float(j.jump_diffusivity(3))
            try:
                res['n_solo'] = int(j.collective(max_dist=4.5).n_solo_jumps)
            except Exception:  # noqa: BLE001
                res['n_solo'] = None
        except ValueError:
            res['jumps'] = []
            res['jumps_mr2'] = []
        rd = radial_distribution(transitions=tr, floating_specie='Li', max_dist=4.0, resolution=0.45)  # squared distances are dyadic, (0.45 k)^2 never is: no pair sits on a bin edge
        res['rdf'] = {(state, r.label): np.array(r.y).tolist() for state, coll in rd.items() for r in coll}
        m = traj.filter('Li').metrics()
        res['tracer'] = float(m.tracer_diffusivity(dimensions=3))
        res['density'] = float(m.particle_density())
        vol = trajectory_to_volume(traj.filter('Li'), resolution=0.9)  # L/0.9 is far from an integer for every pool cell
        res['volume'] = np.array(vol.data)
        fe = vol.get_free_energy(temperature=300.0)
        res['free_energy'] = np.array(fe.data)
        occ = np.argwhere(res['volume'] > 0)
        if len(occ) >= 2 and do_path:
            a, b = (occ[0], occ[-1]) if endpoints is None else (np.array(endpoints[0]), np.array(endpoints[1]))
            try:
                # a floor of one count per voxel makes every voxel admissible, so that a path always exists
                from gemdat.volume import Volume
                fe_all = Volume(data=res['volume'] + 1, lattice=vol.lattice).get_free_energy(temperature=300.0)
                p = fe_all.optimal_path(start=tuple(a), stop=tuple(b), method='dijkstra')
                res['path'] = (tuple(map(int, a)), tuple(map(int, b)), float(p.total_energy))
            except Exception:  # noqa: BLE001
                res['path'] = (tuple(map(int, a)), tuple(map(int, b)), None)
    return res


def model_pipeline(lat, coords, sites, radius=1.0, frac=0.5):
    """GModel.Pipeline.run for every atom (driver op `pipe`): states, inner states, events, jumps for minimal residence 0 and 2"""
    from .core import enc
    coords = np.array(coords, float)
    T, A, _ = coords.shape
    sites_s = ' '.join([str(len(sites))] + [' '.join(enc(v) for v in s_) + ' ' + enc(radius) for s_ in np.array(sites, float).tolist()])
    lines = [(f'{mr}:{a}', f'pipe {gem.enc_m3(lat)} {enc(frac)} {mr} {sites_s} {gem.enc_v3s(coords[:, a])}') for mr in (0, 2) for a in range(A)]
    got = core.drive(lines)
    res = {'states': np.zeros((T, A), int), 'inner': np.zeros((T, A), int), 'events': [], 'jumps': [], 'jumps_mr2': []}
    for a in range(A):
        for mr in (0, 2):
            parts = got[f'{mr}:{a}'].split('|')
            assert parts[0].split()[0] == 'ok', got[f'{mr}:{a}']
            jv = list(map(int, parts[3].split()))
            res['jumps' if mr == 0 else 'jumps_mr2'] += [(a, *jv[1 + 4 * k: 5 + 4 * k]) for k in range(jv[0])]
        res['states'][:, a] = list(map(int, parts[0].split()[1:]))
        res['inner'][:, a] = list(map(int, parts[1].split()))
        ev = list(map(int, parts[2].split()))
        # model row: t s0 s1 i0 i1  ->  ECOLS order
        res['events'] += [(a, ev[2 + 5 * k], ev[3 + 5 * k], ev[4 + 5 * k], ev[5 + 5 * k], ev[1 + 5 * k]) for k in range(ev[0])]
    for k in ('events', 'jumps', 'jumps_mr2'):
        res[k] = sorted(res[k])
    return res


def check_pipeline(out, case, what, lat, coords, sites, impl):
    """correspondence at both ends of the C07Pipe theorems: the implementation's states / inner states / events / jumps of THIS
    representation of the system equal what the composed model computes from the same numbers"""
    mod = model_pipeline(lat, coords, sites)
    c = {**case, 'transformation': what}
    for k in ('states', 'inner'):
        if not np.array_equal(mod[k], impl[k]):
            out.fail('correspondence', f'model-pipeline-{k}', c, expected=mod[k].T.tolist(), observed=impl[k].T.tolist(), note=what.split(':')[0])
            return False
    for k in ('events', 'jumps', 'jumps_mr2'):
        want = [tuple(int(x) for x in r) for r in impl[k]]
        if mod[k] != want:
            out.fail('correspondence', f'model-pipeline-{k}', c, expected=mod[k][:8], observed=want[:8], note=what.split(':')[0])
            return False
    out.count('pipeline-model-agrees')
    return True


def close(a, b, tol=1e-9):
    return a is None and b is None or (a is not None and b is not None and abs(a - b) <= tol * max(abs(a), abs(b), 1e-300))


def compare(out, case, base, other, what, atom_perm=None, site_perm=None, roll=None):
    """`other` must equal `base` up to the relabelling / roll implied by the transformation"""
    A = base['states'].shape[1]
    ap = list(range(A)) if atom_perm is None else list(atom_perm)      # new atom index a' holds old atom ap[a']
    ns = int(max(base['states'].max(), 0)) + 1
    sp = None if site_perm is None else list(site_perm)                # new site index k' holds old site sp[k']
    inv_a = {old: new for new, old in enumerate(ap)}
    inv_s = (lambda x: x) if sp is None else (lambda x: -1 if x == -1 else sp.index(x))
    c = {**case, 'transformation': what}

    def fail(clause, exp, obs):
        out.fail('property', clause, c, expected=exp, observed=obs, note=what.split(':')[0])

    exp_states = np.vectorize(inv_s)(base['states'][:, ap]) if base['states'].size else base['states']
    if not np.array_equal(other['states'], exp_states):
        return fail('states-invariant', exp_states.T.tolist(), other['states'].T.tolist())
    exp_inner = np.vectorize(inv_s)(base['inner'][:, ap])
    if not np.array_equal(other['inner'], exp_inner):
        return fail('inner-states-invariant', exp_inner.T.tolist(), other['inner'].T.tolist())
    for nm in base['by_label']:
        b_, o_ = base['by_label'][nm], other['by_label'][nm]
        if b_.keys() != o_.keys() or any(abs(float(b_[k]) - float(o_[k])) > 1e-12 for k in b_):
            return fail('label-keyed-results-invariant', {nm: {k: float(v) for k, v in b_.items()}}, {nm: {k: float(v) for k, v in o_.items()}})
    ev = sorted((inv_a[e[0]], inv_s(e[1]), inv_s(e[2]), inv_s(e[3]), inv_s(e[4]), e[5]) for e in base['events'])
    if other['events'] != ev:
        return fail('events-invariant', ev[:6], other['events'][:6])
    jm = sorted((inv_a[j[0]], inv_s(j[1]), inv_s(j[2]), j[3], j[4]) for j in base['jumps'])
    if other['jumps'] != jm:
        return fail('jumps-invariant', jm[:6], other['jumps'][:6])
    jm2 = sorted((inv_a[j[0]], inv_s(j[1]), inv_s(j[2]), j[3], j[4]) for j in base['jumps_mr2'])
    if other['jumps_mr2'] != jm2:
        return fail('jumps-invariant', jm2[:6], other['jumps_mr2'][:6])
    if base['jumps']:
        M = base['matrix']
        expM = M if sp is None else M[np.ix_(sp, sp)]
        if not np.array_equal(other['matrix'], expM):
            return fail('matrix-invariant', expM.tolist(), other['matrix'].tolist())
        if not close(base['jump_diff'], other['jump_diff']):
            return fail('jump-diffusivity-invariant', base['jump_diff'], other['jump_diff'])
        if base['n_solo'] != other['n_solo']:
            return fail('collective-count-invariant', base['n_solo'], other['n_solo'])
    if sp is None or all(case['labels'][sp[k]] == case['labels'][k] for k in range(len(sp))):
        if base['rdf'] != other['rdf']:
            return fail('rdf-invariant', {str(k): v for k, v in list(base['rdf'].items())[:3]}, {str(k): v for k, v in list(other['rdf'].items())[:3]})
    if not close(base['tracer'], other['tracer']) or not close(base['density'], other['density']):
        return fail('metrics-invariant', [base['tracer'], base['density']], [other['tracer'], other['density']])
    expV = base['volume'] if roll is None else np.roll(base['volume'], roll, axis=(0, 1, 2))
    if roll is not False:
        if other['volume'].shape != expV.shape or not np.array_equal(other['volume'], expV):
            return fail('volume-rolled', np.argwhere(expV > 0).tolist()[:6], np.argwhere(other['volume'] > 0).tolist()[:6])
        expF = base['free_energy'] if roll is None else np.roll(base['free_energy'], roll, axis=(0, 1, 2))
        if not np.allclose(other['free_energy'], expF, rtol=1e-12):
            return fail('free-energy-rolled', None, None)
        if 'path' in base and 'path' in other:
            shp = np.array(base['volume'].shape)
            sh = np.zeros(3, int) if roll is None else np.array(roll)
            want_ep = (tuple(int(x) for x in (np.array(base['path'][0]) + sh) % shp), tuple(int(x) for x in (np.array(base['path'][1]) + sh) % shp))
            if other['path'][:2] == want_ep and not close(base['path'][2], other['path'][2]):
                return fail('path-cost-invariant', base['path'], other['path'])


def check_case(out: Outcome, case, tag, rng):
    lat = np.array(case['lattice'], float)
    coords = np.array(case['coords'], float)
    sites = np.array(case['sites'], float)
    fw = np.array(case['framework'], float)
    labels = case['labels']
    T, A, _ = coords.shape
    ns = len(sites)
    out.evaluations += 1
    base = analyse(lat, coords, sites, fw, labels)
    if base is None:
        out.count('no-events')
        return
    # expected site assignment sanity (margin): the generator's geometry keeps every decision >= 0.2 A from a sphere surface
    check_pipeline(out, case, 'identity', lat, coords, sites, base)
    trans = []
    # (1) rigid rotations of the lattice vectors, same fractional coordinates
    trans.append(('rotation:signed-permutation', dict(lat=gem.exact_orientation(rng, lat))))
    rot = gem._rot_pyth(int(rng.integers(3)), 3, 4, 5) @ gem._rot_pyth(int(rng.integers(3)), 5, 12, 13)
    trans.append(('rotation:(3,4,5)x(5,12,13)', dict(lat=lat @ rot)))
    trans.append(('rotation:from_parameters-orientation', dict(lat=Lattice.from_parameters(*Lattice(lat).parameters).matrix.copy())))
    # (2) translations of atoms and sites together, wrapping through the faces
    vol_shape = base['volume'].shape
    for kind in ('dyadic', 'voxel'):
        if kind == 'dyadic':
            tau = rng.integers(-64, 65, size=3) / 64
            roll = False
        else:
            kv = rng.integers(-3, 4, size=3)
            tau = kv / np.array(vol_shape)
            roll = tuple(int(x) for x in kv)
        trans.append((f'translation:{kind}:{tau.tolist()}', dict(coords=coords + tau, sites=np.mod(sites + tau, 1), fw=np.mod(fw + tau, 1), roll=roll)))
    # (3) permutations of atoms and of sites
    if A >= 2:
        ap = rng.permutation(A)
        trans.append((f'atom-permutation:{ap.tolist()}', dict(coords=coords[:, ap], atom_perm=ap.tolist())))
    spm = rng.permutation(ns)
    trans.append((f'site-permutation:{spm.tolist()}', dict(sites=sites[spm], labels=[labels[k] for k in spm], site_perm=spm.tolist())))
    n_before = len(out.failures)
    for what, kw in trans:
        ep = None
        if kw.get('roll') and 'path' in base:
            shp = np.array(base['volume'].shape)
            ep = tuple((np.array(base['path'][k]) + np.array(kw['roll'])) % shp for k in (0, 1))
        other = analyse(kw.get('lat', lat), kw.get('coords', coords), kw.get('sites', sites), kw.get('fw', fw), kw.get('labels', labels), endpoints=ep,
                        do_path=what.startswith('translation:voxel') or what.startswith('rotation:signed'))
        out.evaluations += 1
        if other is None:
            out.fail('property', 'transformed-system-has-no-events', {**case, 'transformation': what})
            continue
        compare(out, case, base, other, what, atom_perm=kw.get('atom_perm'), site_perm=kw.get('site_perm'), roll=kw.get('roll'))
        check_pipeline(out, case, what, kw.get('lat', lat), kw.get('coords', coords), kw.get('sites', sites), other)
        out.count('t:' + what.split(':')[0])
    wraps = bool(len(base['jumps']) >= 1)
    if wraps and case['lattice_name'] != 'cubic':
        out.nontrivial.add(json.dumps(case, sort_keys=True))
    if len(out.samples) < 2 and T * A <= 10:
        out.sample({'tag': tag, **case, 'transformations': [w for w, _ in trans]})
    return len(out.failures) > n_before


def corpus():
    d = core.CORPUS / PID
    return [json.loads(p.read_text()) for p in sorted(d.glob('*.json'))] if d.exists() else []


def check_translation_to_face(out: Outcome, rng):
    """a translation by whole voxels that carries an atom from the interior to a few 1e-6 (… 1e-12) below a cell face: the
    density volume is still the rolled volume, the positions are still (x + t) mod 1"""
    name, lat = gem.lattice_pool(rng)
    T, A = int(rng.integers(2, 5)), int(rng.integers(1, 4))
    coords = rng.integers(0, 64, size=(T, A, 3)) / 64 + 1 / 256
    base_tr = gem.make_traj(coords, lat, ['Li'] * A)
    v0 = np.array(trajectory_to_volume(base_tr, resolution=0.9).data)
    n = np.array(v0.shape)
    kv = rng.integers(1, 4, size=3)
    tau = kv / n
    eps = float(rng.choice([3e-6, 4e-7, 1e-9, 1e-12]))
    ax = int(rng.integers(3))
    coords = coords.copy()
    coords[0, 0, ax] = float(np.mod(1 - eps - tau[ax], 1))
    out.evaluations += 1
    case = {'translation_to_face': True, 'lattice_name': name, 'lattice': lat.tolist(), 'coords': coords.tolist(), 'voxel_shift': kv.tolist(), 'below_face_by': eps}
    tr0 = gem.make_traj(coords, lat, ['Li'] * A)
    tr1 = gem.make_traj(coords + tau, lat, ['Li'] * A)
    va, vb = np.array(trajectory_to_volume(tr0, resolution=0.9).data), np.array(trajectory_to_volume(tr1, resolution=0.9).data)
    want = np.roll(va, tuple(int(x) for x in kv), axis=(0, 1, 2))
    p1 = np.array(tr1.positions)
    dd = p1 - np.mod(coords + tau, 1)
    if np.any(np.abs(dd - np.round(dd)) > 1e-12) or np.any(np.abs(dd) > 0.5):
        out.fail('property', 'positions-translated', case, expected=np.mod(coords + tau, 1)[0, 0].tolist(), observed=p1[0, 0].tolist())
    elif vb.shape != want.shape or not np.array_equal(vb, want):
        out.fail('property', 'volume-rolled', case, expected=np.argwhere(want > 0).tolist()[:6], observed=np.argwhere(vb > 0).tolist()[:6], note='translation')
    out.nontrivial.add(('to-face', json.dumps(case['coords'])))


def run(tier: str, seed: int, scale: int) -> Outcome:
    out = Outcome()
    rng = np.random.default_rng(seed)
    for case in corpus():
        check_case(out, case, 'corpus', rng)
    for _ in range((60 if tier == 'quick' else 600) * scale):
        check_case(out, gen_system(rng), 'random', rng)
    for _ in range((40 if tier == 'quick' else 400) * scale):
        check_translation_to_face(out, rng)
    return out


def replay(case):
    out = Outcome()
    if case.get('translation_to_face'):
        return True, 'translation-to-face cases: re-run ./check C07 quick with the recorded seed'
    c = {k: v for k, v in case.items() if k != 'transformation'}
    check_case(out, c, 'replay', np.random.default_rng(0))
    fails = [f for f in out.failures if f.kind == 'property']
    text = '\n'.join(f'{f.clause} under {f.case.get("transformation")}: expected {str(f.expected)[:200]} observed {str(f.observed)[:200]}' for f in fails) or 'no failure'
    return (not fails), text


SPEC = PropertySpec(
    pid=PID,
    modules=MODULES,
    run=run,
    replay=replay,
    rule=('random systems (cubic / orthorhombic / monoclinic / triclinic / hexagonal-like cells, 2-4 labelled sites, 1-3 Li atoms following '
          'random site itineraries realised geometrically, 2 framework atoms, 4-13 frames), each evaluated in its base representation and '
          'under: 3 rigid rotations of the lattice vectors (exact signed permutation, rational (3,4,5)x(5,12,13) rotation, pymatgen '
          'from_parameters orientation), 2 translations of atoms and sites together through the cell faces (dyadic vector; multiples of '
          'the voxel size), an atom permutation and a site permutation. Compared up to the corresponding relabelling: states, inner '
          'states, events, jumps, jump matrix, jump diffusivity (1e-9), collective solo count, per-state RDFs, tracer diffusivity and '
          'density, density volume and free energy (identical, or rolled by the voxel shift), optimal-path cost. In EVERY representation '
          'the states, inner states, events and jumps (minimal residence 0 and 2) are also compared with GModel.Pipeline.run (driver op '
          'pipe) on the same numbers, which ties the end-to-end theorems of C07Pipe to the code at both ends. Non-trivial: >= 1 '
          'jump in a non-cubic cell.'),
    trusted=['the geometry of generated systems keeps every site-assignment decision >= 0.2 A away from a sphere surface, so float noise of non-exact rotations cannot flip it'],
    assumptions=['NoTie; strongly skewed non-reduced cells are excluded here (known finding D16 of C02)'],
)
