"""C12 — collective jumps are exactly the close-in-time/space pairs of different atoms."""

from __future__ import annotations

import json
import math
from fractions import Fraction
from types import SimpleNamespace

import numpy as np
import pandas as pd
from pymatgen.core import Lattice

from . import core, gem, hist, translate
from .core import Outcome, PropertySpec, enc

from gemdat.collective import Collective  # noqa: E402

PID = 'C12'
MODULES = ['GProofs.Geometry', 'GProofs.C12', 'GProofs.C12Gen', 'GProofs.C12Win', 'GProofs.C12Exit']
COLS = ['atom index', 'start site', 'destination site', 'start time', 'stop time']


def make_df(rows, presorted=False):
    df = pd.DataFrame(data=np.array(rows, dtype=int).reshape(-1, 5), columns=COLS)
    if presorted:
        # a table the caller already put in chronological order: its row labels are no longer 0..n-1
        df = df.sort_values(['stop time', 'start time'])
    return df


def impl_collective(rows, lat, site_coords, ms, md, presorted=False):
    sites = gem.make_sites(lat, site_coords)
    c = Collective(jumps=SimpleNamespace(data=make_df(rows, presorted)), sites=sites, lattice=Lattice(np.array(lat, float)),
                   max_steps=ms, max_dist=md)
    pairs = [(tuple(int(a[k]) for k in COLS), tuple(int(b[k]) for k in COLS)) for a, b in c.collective]
    coll_jumps = [((int(a[0]), int(a[1])), (int(b[0]), int(b[1]))) for a, b in c.coll_jumps]
    return pairs, coll_jumps, int(c.n_solo_jumps), int(c.n_coll_jumps)


def model_line(op, rows, lat, site_coords, ms, md):
    md2 = Fraction(md) * Fraction(md)
    rows_s = ' '.join([str(len(rows))] + [str(int(v)) for r in rows for v in r])
    return f'{op} {ms} {enc(md2)} {gem.enc_m3(lat)} {gem.enc_v3s(site_coords)} {rows_s}'


def parse_model(line):
    tk = line.split()
    assert tk[0] == 'ok', line
    n = int(tk[1])
    v = list(map(int, tk[2:]))
    pairs = [(tuple(v[10 * k: 10 * k + 5]), tuple(v[10 * k + 5: 10 * k + 10])) for k in range(n)]
    return pairs, v[10 * n], v[10 * n + 1]


def spec_pairs(rows, dsq, ms, md):
    """the property's definition: unordered pairs of rows (by position) satisfying the three conditions"""
    md2 = Fraction(md) * Fraction(md)
    out = set()
    for x in range(len(rows)):
        for y in range(x + 1, len(rows)):
            a, b = rows[x], rows[y]
            if a[0] == b[0]:
                continue
            if b[3] - a[4] > ms or a[3] - b[4] > ms:
                continue
            if any(dsq[p][q] < md2 for p in (a[1], a[2]) for q in (b[1], b[2])):
                out.add(frozenset((tuple(a), tuple(b))))
    return out


def skew_sites(rng):
    """a skewed cell and a site set containing a pair whose nearest image is NOT the per-axis rounded one;
    returns (name, lattice, sites, cut-off between the true and the naive distance)"""
    from pymatgen.core import Lattice as _L
    for _ in range(200):
        name = str(rng.choice(['skew', 'hexlike', 'tric2']))
        lat = np.array(gem.LATTICES[name], float)
        ns = int(rng.integers(3, 7))
        grid = rng.permutation(512)[:ns]
        sc = np.array([[(g // 64) / 8, ((g // 8) % 8) / 8, (g % 8) / 8] for g in grid])
        true = _L(lat).get_all_distances(sc, sc)
        d = sc[:, None, :] - sc[None, :, :]
        naive = np.linalg.norm((d - np.round(d)) @ lat, axis=-1)
        gap = naive - true
        if gap.max() > 0.3:
            i, j = np.unravel_index(np.argmax(gap), gap.shape)
            md = float(np.round((true[i, j] + naive[i, j]) / 2 * 8) / 8)
            if true[i, j] + 0.05 < md < naive[i, j] - 0.05:
                return name + '+naive-image-differs', lat, sc, md, (int(i), int(j))
    return None


def gen_case(rng, big=False):
    sk = skew_sites(rng) if rng.random() < 0.25 else None
    if sk is not None:
        name, lat, site_coords, md_sk, pair = sk
        ns = len(site_coords)
    else:
        name, lat = gem.lattice_pool(rng)
        ns = int(rng.integers(3, 8))
        # sites on a k/8 grid, distinct
        grid = rng.permutation(512)[:ns]
        site_coords = np.array([[(g // 64) / 8, ((g // 8) % 8) / 8, (g % 8) / 8] for g in grid])
    n = int(rng.integers(2, 15 if big else 11))
    rows = set()
    horizon = int(rng.integers(6, 40))
    while len(rows) < n:
        atom = int(rng.integers(0, 4))
        o, d = map(int, rng.choice(ns, size=2, replace=False))
        t0 = int(rng.integers(0, horizon))
        dur = int(rng.integers(1, 4)) if rng.random() < 0.6 else int(rng.integers(4, horizon + 2))
        rows.add((atom, o, d, t0, t0 + dur))
    rows = [list(r) for r in rows]
    rng.shuffle(rows)
    ms = int(rng.integers(0, 6))
    md = float(rng.choice([0.5, 1.0, 2.0, 3.0, 4.5, 6.0]))
    if sk is not None:
        md = md_sk
        others = [k for k in range(ns) if k not in pair] or [pair[0]]
        # two overlapping jumps of different atoms that touch the critical site pair
        rows[0] = [0, pair[0], int(rng.choice(others)), 3, 5]
        rows[1] = [1, int(rng.choice(others)), pair[1], 4, 6]
        # rows are identified by their content in the oracle: keep them distinct
        seen, uniq = set(), []
        for r in rows:
            if tuple(r) not in seen:
                seen.add(tuple(r))
                uniq.append(r)
        rows = uniq
    elif rng.random() < 0.15:
        # a cut-off a few 1e-8 (relative) above or below one of the site separations: decided correctly in double precision only
        dd = Lattice(lat).get_all_distances(site_coords, site_coords)
        dd = dd[dd > 0.3]
        if len(dd):
            md = float(rng.choice(dd)) * (1 + float(rng.choice([3e-8, -3e-8, 8e-8])))
    return {'lattice_name': name, 'lattice': lat.tolist(), 'sites': site_coords.tolist(), 'rows': rows, 'ms': ms, 'md': md,
            'presorted_table': bool(rng.random() < 0.3)}


def check_case(out: Outcome, case, tag):
    rows, lat, sc, ms, md = case['rows'], case['lattice'], case['sites'], case['ms'], case['md']
    ns = len(sc)
    out.evaluations += 1
    res = core.drive([('m', model_line('coll', rows, lat, sc, ms, md)),
                      ('b', model_line('coll-break', rows, lat, sc, ms, md)),
                      ('d', f'sitedist {gem.enc_m3(lat)} {gem.enc_v3s(sc)}')])
    dflat = [core.dec_rat(t) for t in res['d'].split()[1:]]
    dsq = [dflat[k * ns:(k + 1) * ns] for k in range(ns)]
    # margin: cut-off decisions must not sit within 1e-9 (relative) of a site distance
    dmin = min(abs(math.sqrt(float(v)) - md) for r in dsq for v in r)
    if dmin < 1e-9 * max(md, 1.0):
        out.count('skipped-margin')
        return
    # trusted-base validation: pymatgen's minimum-image distance equals the certified one
    pm = Lattice(np.array(lat, float)).get_all_distances(np.array(sc), np.array(sc))
    if not np.allclose(pm**2, np.array(dsq, dtype=float), rtol=1e-9, atol=1e-12):
        out.fail('correspondence', 'pymatgen-min-image', case, expected=[[str(v) for v in r] for r in dsq], observed=pm.tolist(),
                 note='Lattice.get_all_distances differs from the certified minimum image')
    try:
        pairs, coll_jumps, nsolo, ncoll = impl_collective(rows, lat, sc, ms, md, presorted=bool(case.get('presorted_table')))
    except Exception as e:  # noqa: BLE001
        out.fail('property', 'collective-build', case, observed=type(e).__name__ + ': ' + str(e)[:200])
        return
    want = spec_pairs(rows, dsq, ms, md)
    got_sets = [frozenset(p) for p in pairs]
    got = set(got_sets)
    mpairs, msolo, mcoll = parse_model(res['m'])
    bpairs, _, _ = parse_model(res['b'])
    if len(got_sets) != len(got):
        out.fail('property', 'each-pair-once', case, expected=len(got), observed=len(got_sets))
    if got - want:
        out.fail('property', 'reported-pairs-satisfy-conditions', case, expected=sorted(map(sorted, want)),
                 observed=sorted(map(sorted, got)), note=f'spurious: {sorted(map(sorted, got - want))}')
    if want - got:
        out.fail('property', 'every-qualifying-pair-reported', case, expected=sorted(map(sorted, want)),
                 observed=sorted(map(sorted, got)), note=f'missing: {sorted(map(sorted, want - got))}')
    touched = {r for p in got for r in p}
    if nsolo + ncoll != len(rows):
        out.fail('property', 'solo-plus-collective', case, expected=len(rows), observed=[nsolo, ncoll])
    if ncoll != len(touched):
        out.fail('property', 'collective-count', case, expected=len(touched), observed=ncoll)
    if coll_jumps != [((a[1], a[2]), (b[1], b[2])) for a, b in pairs]:
        out.fail('property', 'coll-jumps-site-pairs', case, observed=coll_jumps)
    if pairs != mpairs or (nsolo, ncoll) != (msolo, mcoll):
        kind = 'property' if (got != want) else 'correspondence'
        out.fail(kind, 'model-collective', case, expected=[mpairs, msolo, mcoll], observed=[pairs, nsolo, ncoll])
    # non-triviality: >= 1 reported pair and >= 1 rejected pair for each of the three reasons
    rej_atom = rej_time = rej_dist = False
    md2 = Fraction(md) * Fraction(md)
    for x in range(len(rows)):
        for y in range(x + 1, len(rows)):
            a, b = rows[x], rows[y]
            time_ok = not (b[3] - a[4] > ms or a[3] - b[4] > ms)
            close = any(dsq[p][q] < md2 for p in (a[1], a[2]) for q in (b[1], b[2]))
            if a[0] == b[0] and time_ok and close:
                rej_atom = True
            if a[0] != b[0] and not time_ok and close:
                rej_time = True
            if a[0] != b[0] and time_ok and not close:
                rej_dist = True
    if want and rej_atom and rej_time and rej_dist:
        out.nontrivial.add(json.dumps(case, sort_keys=True))
    if set(map(frozenset, bpairs)) != want:
        out.count('early-break-would-miss')
    if want:
        out.count('cases-with-pairs')
    if len(out.samples) < 2 and want and len(rows) <= 6:
        out.sample({'tag': tag, **case, 'reported_pairs': pairs, 'n_solo': nsolo})


def check_public(out: Outcome, rng):
    """Jumps.collective(): window = ceil(1 / (attempt frequency × time step)) from the implementation's own ν."""
    T = int(rng.integers(40, 120))
    A = int(rng.integers(2, 4))
    s, i = hist.random_histories(rng, T, A, 4, inner=False)
    traj, sites, kw = hist.realise(s, i)
    # every other system: the site structure carries the (metrically different) cell of a reference crystal; distances
    # between sites are minimum-image distances of the SIMULATION cell
    ref_cell = rng.random() < 0.5
    if ref_cell:
        sites = gem.make_sites(gem.reference_cell(rng, traj.get_lattice().matrix), sites.frac_coords, labels=sites.labels)
    try:
        tr = traj.transitions_between_sites(sites, **kw)
        jumps = tr.jumps()
    except ValueError:
        return
    out.evaluations += 1
    try:
        md = float(rng.choice([1.0, 4.5, 6.0]))
        if ref_cell:
            # a cut-off 2 % above or below one of the site separations: decided differently by a cell that is 3-6 % off
            dd = traj.get_lattice().get_all_distances(sites.frac_coords, sites.frac_coords)
            dd = np.unique(np.round(dd[dd > 0.3], 6))
            if len(dd):
                md = float(rng.choice(dd)) * float(rng.choice([0.98, 1.02]))
        coll = jumps.collective(max_dist=md)
    except Exception as e:  # noqa: BLE001
        out.count('public-collective-raised:' + type(e).__name__)
        return
    freq, _ = jumps.trajectory.metrics().attempt_frequency()
    want_steps = math.ceil(1.0 / (float(freq) * jumps.trajectory.time_step)) if float(freq) > 0 else None
    if want_steps is not None and coll.max_steps != want_steps:
        out.fail('property', 'window-formula', {'s': s.T.tolist()}, expected=want_steps, observed=coll.max_steps)
    rows = jumps.data[COLS].to_numpy().tolist()
    case = {'lattice': traj.get_lattice().matrix.tolist(), 'sites': sites.frac_coords.tolist(), 'rows': rows,
            'ms': int(coll.max_steps), 'md': md, 'via': 'public'}
    pairs = [(tuple(int(a[k]) for k in COLS), tuple(int(b[k]) for k in COLS)) for a, b in coll.collective]
    res = core.drive([('m', model_line('coll', rows, case['lattice'], case['sites'], case['ms'], md))])
    mpairs, msolo, mcoll = parse_model(res['m'])
    if pairs != mpairs or (int(coll.n_solo_jumps), int(coll.n_coll_jumps)) != (msolo, mcoll) or jumps.n_solo_jumps != msolo and md == 1.0:
        out.fail('property', 'public-collective', case, expected=[mpairs, msolo], observed=[pairs, int(coll.n_solo_jumps)])
    out.count('public-systems')


def corpus():
    d = core.CORPUS / PID
    return [json.loads(p.read_text()) for p in sorted(d.glob('*.json'))] if d.exists() else []


def exhaustive_small(out: Outcome):
    """all tables of 3 rows (atoms 0,1,2; fixed sites all close) over a 4-value time grid"""
    lat = np.eye(3) * 8
    sc = [[0, 0, 0], [0.125, 0, 0]]
    grid = [0, 1, 2, 3]
    spans = [(a, b) for a in grid for b in range(a + 1, 6)]
    import itertools
    for sp in itertools.product(spans, repeat=3):
        rows = [[k, 0, 1, sp[k][0], sp[k][1]] for k in range(3)]
        for ms in (0, 1):
            check_case(out, {'lattice': lat.tolist(), 'sites': sc, 'rows': rows, 'ms': ms, 'md': 2.0}, 'exhaustive-3rows')


def run(tier: str, seed: int, scale: int) -> Outcome:
    out = Outcome()
    rng = np.random.default_rng(seed)
    for case in corpus():
        check_case(out, case, 'corpus')
    n = (1000 if tier == 'quick' else 20000) * scale
    for _ in range(n):
        check_case(out, gen_case(rng, big=(tier != 'quick')), 'random')
    if tier != 'quick':
        exhaustive_small(out)
        out.extra['exhaustive_bound'] = 'all 3-row tables (3 atoms) with start in 0..3, stop in start+1..5, window 0 and 1'
    for _ in range((30 if tier == "quick" else 200) * scale):
        check_public(out, rng)
    return out


def replay(case):
    out = Outcome()
    check_case(out, case, 'replay')
    fails = [f for f in out.failures if f.kind == 'property']
    text = '\n'.join(f'{f.clause}: expected {f.expected} observed {f.observed} {f.note}' for f in fails) or 'no failure'
    return (not fails), text


SPEC = PropertySpec(
    pid=PID,
    modules=MODULES,
    run=run,
    replay=replay,
    gen=translate.gen_for('PairGuard', 'FormulasC12'),
    rule=('random jump tables of 2-14 distinct rows (4 atoms, 3-7 sites on a k/8 grid of a pool lattice incl. triclinic ones, start '
          'times 0..40, 40% long transits overlapping many other jumps), window 0-5, cut-off from {0.5,1,2,3,4.5,6} or within 3e-8..8e-8 (relative) of a site distance, kept >= 1e-9 (relative) from '
          'every site distance; 30% of the tables handed over already sorted by stop time (row labels not 0..n-1); through Collective(...) directly and 30 (200) through Jumps.collective() — half of them with a site structure carrying a 3-6 % '
          'different reference cell and a cut-off 2 % off a site separation of the simulation cell — (window formula recomputed from '
          'the implementation\'s own attempt frequency). On the implementation: reported unordered pairs = pairs satisfying the three '
          'conditions (exact minimum-image distances from the certified model), each once, solo + collective = total; exact '
          'agreement (order included) with the Lean scan. Non-trivial: >= 1 reported pair and >= 1 rejected pair for each of '
          'same-atom / time-window / distance; distinct = distinct case.'),
    trusted=['pymatgen Lattice.get_all_distances = minimum image (cross-checked per case against the certified minimum image of GModel.Basic)',
             'pandas sort_values on two keys is a stable lexicographic sort (modelled by a stable insertion sort)'],
    assumptions=['cut-off distances keep a 1e-6 margin from every site-site distance (float comparison inside the implementation)'],
)
