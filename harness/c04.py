"""C04 — jumps are exactly the changes of visited site; stricter settings only remove."""

from __future__ import annotations

import json
from collections import Counter
from types import SimpleNamespace

import numpy as np

from . import core, hist, translate
from .core import Outcome, PropertySpec, enc_list

from gemdat.jumps import Jumps, _generic_transitions_to_jumps  # noqa: E402
from gemdat.transitions import _calculate_transition_events  # noqa: E402

PID = 'C04'
MODULES = ['GProofs.C03', 'GProofs.C04', 'GProofs.C04Strict', 'GProofs.C04Gen']
MRS = [0, 1, 2, 3, 5]


def impl_jumps(s, i, mr, events=None):
    """('ok', {atom: [(o, d, t0, t1)]}) / ('none', None) for 'No jumps found' / ('err', name)."""
    try:
        ev = events if events is not None else _calculate_transition_events(atom_sites=s, atom_inner_sites=i)
    except ValueError:
        return 'noevents', None
    try:
        df = _generic_transitions_to_jumps(SimpleNamespace(events=ev), minimal_residence=mr)
    except ValueError as e:
        if 'No jumps found' in str(e):
            return 'none', None
        return 'err', 'ValueError'
    except Exception as e:  # noqa: BLE001
        return 'err', type(e).__name__
    return 'ok', df_to_jumps(df)


def df_to_jumps(df):
    rows: dict[int, list] = {}
    cols = ['atom index', 'start site', 'destination site', 'start time', 'stop time']
    for a, o, d, t0, t1 in df[cols].to_numpy().tolist():
        rows.setdefault(int(a), []).append((int(o), int(d), int(t0), int(t1)))
    return rows


def parse_jumps(line: str):
    tk = line.split()
    assert tk[0] == 'ok', line
    n = int(tk[1])
    v = list(map(int, tk[2:]))
    return [tuple(v[4 * k: 4 * k + 4]) for k in range(n)]


def check_system(out: Outcome, s: np.ndarray, i: np.ndarray, tag: str, mrs=MRS, via='helper', public=None):
    """One [T, A] system under every minimal residence in `mrs`."""
    T, A = s.shape
    default = bool(np.array_equal(s, i))
    defaults = {a: hist.spec_default_jumps(s[:, a]) for a in range(A)}
    try:
        events = None if public else _calculate_transition_events(atom_sites=s, atom_inner_sites=i)
    except ValueError:
        events = None
        if not public:
            out.evaluations += A
            out.count('no-events')
            return
    # model for all atoms and residences in one driver call
    lines = [(f'{mr}:{a}', f'jumps {mr} {enc_list(s[:, a])} {enc_list(i[:, a])}') for mr in mrs for a in range(A)]
    model = core.drive(lines)
    prev_res = None
    for mr in mrs:
        out.evaluations += A
        if public:
            try:
                status, res = 'ok', df_to_jumps(public.jumps(minimal_residence=mr).data)
            except ValueError as e:
                status, res = ('none', None) if 'No jumps found' in str(e) else ('err', 'ValueError')
            except Exception as e:  # noqa: BLE001
                status, res = 'err', type(e).__name__
        else:
            status, res = impl_jumps(s, i, mr, events)
        mjs = {a: parse_jumps(model[f'{mr}:{a}']) for a in range(A)}
        total_model = sum(len(v) for v in mjs.values())
        sysc = {'via': via, 'mr': mr, 's': s.T.tolist(), 'i': i.T.tolist()} if A * T <= 600 else None
        if status == 'err':
            out.fail('property', 'jumps-build', sysc or {'via': via, 'mr': mr, 'shape': [T, A]}, observed=res,
                     note='jump extraction raised an unexpected exception')
            prev_res = None
            continue
        if status == 'none':
            res = {}
            # refusing is only right when there is no jump to report
            want_total = sum(len(v) for v in defaults.values()) if default else total_model
            if want_total > 0:
                kind = 'property' if default else 'correspondence'
                out.fail(kind, 'jumps-eq-visited-site-changes' if default else 'model-jumps',
                         sysc or {'via': via, 'mr': mr, 'shape': [T, A]},
                         expected=defaults if default else mjs, observed='No jumps found')
        for a in range(A):
            got = res.get(a, [])
            case = {'via': via, 'mr': mr, 's': [s[:, a].tolist()], 'i': [i[:, a].tolist()]}
            dj = defaults[a]
            if default:
                # clause 1: jumps are exactly the consecutive distinct visited sites
                if sorted(got) != sorted(dj):
                    out.fail('property', 'jumps-eq-visited-site-changes', case, expected=dj, observed=got)
            else:
                # clause 2: every reported jump is a default jump (atom, origin, destination, start time)
                cd = Counter((o, d, t0) for o, d, t0, _ in dj)
                cg = Counter((o, d, t0) for o, d, t0, _ in got)
                extra = cg - cd
                if extra:
                    out.fail('property', 'strict-subset-of-default', case, expected=dj, observed=got,
                             note=f'not default jumps: {sorted(extra)}')
                for o, d, t0, t1 in got:
                    if not (0 <= t0 < T and 0 <= t1 < T and s[t0, a] == o and s[t1, a] == d and o != d and o != -1 and d != -1 and t0 < t1):
                        out.fail('property', 'consistent-with-states', case, expected='s[t0]=origin, s[t1]=destination',
                                 observed=(o, d, t0, t1))
            if mr > 0 and default and sorted(got) != sorted(dj):
                pass  # already reported
            # clause 3: raising the residence never adds jumps
            if prev_res is not None:
                more = Counter(got) - Counter(prev_res[1].get(a, []))
                if more:
                    out.fail('property', 'minres-monotone', {**case, 'mr_smaller': prev_res[0]},
                             expected=prev_res[1].get(a, []), observed=got, note=f'added: {sorted(more)}')
            # correspondence with the Lean model (exact, including order)
            if got != mjs[a]:
                kind = 'property' if default else 'correspondence'
                out.fail(kind, 'model-jumps', case, expected=mjs[a], observed=got)
            if hist.nontrivial_history(s[:, a], i[:, a]) and dj:
                out.nontrivial.add((mr, tuple(s[:, a].tolist()), tuple(i[:, a].tolist())))
            if got:
                out.count('atoms-with-jumps')
            if len(got) < len(dj):
                out.count('strict-removed-some')
            if mr > 0 and prev_res is not None and len(got) < len(prev_res[1].get(a, [])):
                out.count('residence-removed-some')
        prev_res = (mr, res)
    if T * A <= 60 and len(out.samples) < 3 and sum(len(v) for v in defaults.values()) >= 2:
        out.sample({'tag': tag, 'via': via, 's': s.T.tolist(), 'i': i.T.tolist(),
                    'default_jumps(o,d,t0,t1)': defaults, 'mrs': mrs})


def check_public(out: Outcome, s, i, tag):
    traj, sites, kw = hist.realise(s, i)
    try:
        tr = traj.transitions_between_sites(sites, **kw)
    except ValueError:
        out.count('public-no-events')
        return
    out.count('public-systems')
    check_system(out, tr.states, tr.inner_states, tag, mrs=[0, 2], via='public', public=tr)
    # n_jumps agrees with the table
    try:
        j = Jumps(tr)
        if j.n_jumps != len(j.data):
            out.fail('property', 'n_jumps', {'via': 'public', 's': s.T.tolist(), 'i': i.T.tolist()},
                     expected=len(j.data), observed=j.n_jumps)
    except ValueError:
        pass


def corpus():
    d = core.CORPUS / PID
    return [json.loads(p.read_text()) for p in sorted(d.glob('*.json'))] if d.exists() else []


def run(tier: str, seed: int, scale: int) -> Outcome:
    out = Outcome()
    rng = np.random.default_rng(seed)
    for case in corpus():
        check_system(out, np.array(case['s']).T, np.array(case['i']).T, 'corpus', mrs=case.get('mrs', MRS))
    Tsub = 5 if tier == 'quick' else 7
    Teq = 7 if tier == 'quick' else 9
    if scale > 1:
        Tsub += 1
        Teq += 1
    for T in range(2, Teq + 1):
        s, i = hist.exhaustive_histories(T, 2, 'eq')
        for lo in range(0, s.shape[1], 2048):
            check_system(out, s[:, lo:lo + 2048], i[:, lo:lo + 2048], f'exhaustive-default-T{T}')
    for T in range(2, Tsub + 1):
        s, i = hist.exhaustive_histories(T, 2, 'sub')
        for lo in range(0, s.shape[1], 2048):
            check_system(out, s[:, lo:lo + 2048], i[:, lo:lo + 2048], f'exhaustive-inner-T{T}')
    out.exhaustive = True
    out.extra['exhaustive_bound'] = (f'default mode: all histories over 2 sites + none, T <= {Teq}; inner mode: all (site, inner) '
                                     f'histories with inner in {{-1, site}}, T <= {Tsub}; each under minimal residence {MRS}')
    n_rand = (150 if tier == 'quick' else 3000) * scale
    for k in range(n_rand):
        T = int(rng.integers(3, 300 if k % 10 == 0 else 50))
        A = int(rng.integers(1, 5))
        s, i = hist.random_histories(rng, T, A, int(rng.integers(2, 6)), inner=bool(k % 3))
        mrs = sorted({0, int(rng.integers(1, 4)), int(rng.integers(4, 12))})
        if k % 4 == 0:
            # "never accept a visit that only reaches the outer shell": residences near the largest 64-bit integer
            mrs += [2**62, 2**63 - 1000, 2**63 - 1]
        check_system(out, s, i, 'random', mrs=mrs)
    n_pub = (10 if tier == 'quick' else 150) * scale
    for k in range(n_pub):
        T = int(rng.integers(4, 30))
        s, i = hist.random_histories(rng, T, int(rng.integers(1, 4)), int(rng.integers(2, 6)), inner=bool(k % 2))
        check_public(out, s, i, 'public')
    return out


def replay(case):
    out = Outcome()
    s = np.array(case['s']).T
    i = np.array(case['i']).T
    mrs = sorted({0, case.get('mr', 0), case.get('mr_smaller', 0)})
    if case.get('via') == 'public':
        check_public(out, s, i, 'replay')
    else:
        check_system(out, s, i, 'replay', mrs=mrs)
    fails = [f for f in out.failures if f.kind == 'property']
    text = '\n'.join(f'{f.clause}: expected {f.expected} observed {f.observed} {f.note}' for f in fails) or 'no failure'
    return (not fails), text


SPEC = PropertySpec(
    pid=PID,
    modules=MODULES,
    run=run,
    replay=replay,
    gen=translate.gen_for('JumpStep'),
    rule=('exhaustive: every one-atom history over 2 sites + "none" (default mode, inner = outer) and every (site, inner) history '
          'with inner_t in {-1, site_t} up to the stated lengths, each under minimal_residence in {0,1,2,3,5}, through '
          '_calculate_transition_events + _generic_transitions_to_jumps; random multi-atom histories up to 300 frames with random '
          'residences; a few systems through Trajectory.transitions_between_sites(...).jumps(...). Checked on the implementation: '
          'default mode = consecutive distinct visited sites (exact rows); strict modes: every jump is a default jump and matches the '
          'states; raising the residence never adds a jump; exact agreement with the Lean machine. A case (history, residence) is '
          'non-trivial when the history has >= 1 default jump and is non-trivial in the sense of C03; distinct = distinct (residence, history).'),
    trusted=['pandas groupby / iterrows order (events of an atom in time order) as assumed by the model',
             'GModel.Jumps.step is a line-by-line transcription of the loop body of _generic_transitions_to_jumps (validated by this correspondence)'],
    assumptions=['inner_t in {-1, site_t}', 'a history without any jump makes the builder raise ValueError("No jumps found") by design'],
)
