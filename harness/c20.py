"""C20 — memoised analysis results are transparent and never leak between objects."""

from __future__ import annotations

import gc
import json
import warnings
import weakref

import numpy as np

from . import c05, core, translate
from .core import Outcome, PropertySpec

from gemdat.caching import weak_lru_cache  # noqa: E402
from gemdat.jumps import Jumps  # noqa: E402
from gemdat.metrics import TrajectoryMetrics  # noqa: E402

PID = 'C20'
MODULES = ['GProofs.C20', 'GProofs.C20Gen']


def lru_of(method):
    """the functools.lru_cache object behind a weak_lru_cache-decorated function"""
    for cell in method.__closure__ or ():
        try:
            v = cell.cell_contents
        except ValueError:
            continue
        if hasattr(v, 'cache_info'):
            return v
    raise RuntimeError('no lru_cache object found behind the decorated method')


def make_toy(cap):
    class Holder:
        def __init__(self, owner, k):
            self.owner = owner
            self.k = k

    class Toy:
        body_runs = 0  # how often a method body was executed: a call that does not execute it was served from the cache

        def __init__(self, payload):
            self.payload = payload

        @weak_lru_cache(maxsize=cap)
        def compute(self, k):
            Toy.body_runs += 1
            return (self.payload, k)

        @weak_lru_cache(maxsize=cap)
        def selfref(self, k):
            Toy.body_runs += 1
            return Holder(self, k)

    return Toy


def gen_ops(rng, n_ops, max_live, n_args):
    """op sequence over object slots; returns list of ('n', oid) / ('c', oid, arg) / ('d', oid)"""
    ops = []
    live = []
    next_oid = 0
    for _ in range(n_ops):
        r = rng.random()
        if not live or (r < 0.18 and len(live) < max_live):
            ops.append(('n', next_oid))
            live.append(next_oid)
            next_oid += 1
        elif r < 0.30 and live:
            k = int(rng.integers(len(live)))
            ops.append(('d', live.pop(k)))
            # often re-create at once so that the allocator hands the same address out again
            if rng.random() < 0.7:
                ops.append(('n', next_oid))
                live.append(next_oid)
                next_oid += 1
        else:
            o = live[int(rng.integers(len(live)))]
            ops.append(('c', o, int(rng.integers(n_args))))
    return ops, next_oid


def run_toy(out: Outcome, ops, nobj, cap, selfref, tag):
    """Run one op sequence on a fresh Toy class; compare with the Lean model step by step."""
    Toy = make_toy(cap)
    method = Toy.selfref if selfref else Toy.compute
    try:
        lru = lru_of(method)
    except RuntimeError:
        lru = None  # another cache implementation: hits are still observable (the body does not run), the entry count is not
        out.count('cache-internals-not-functools-lru')
    objs = {}
    dead = set()
    watchers = {}
    addrs = {}
    tokens = []
    observed = []
    case = {'cap': cap, 'selfref': int(selfref), 'ops': [list(o) for o in ops], 'nobj': nobj}
    prop_fail = False
    for op in ops:
        if op[0] == 'n':
            o = Toy(payload=('obj', op[1]))
            objs[op[1]] = o
            addrs[op[1]] = id(o)
            watchers[op[1]] = weakref.ref(o, lambda r, k=op[1]: dead.add(k))
            tokens.append(f'n {op[1]} {id(o)}')
            observed.append('-')
            del o
        elif op[0] == 'd':
            del objs[op[1]]  # CPython frees at once (no reference cycles here); one gc.collect() at the end
            tokens.append(f'd {op[1]}')
            observed.append('-')
        else:
            _, k, arg = op
            runs_before = Toy.body_runs
            # odd arguments are passed by keyword, even ones by position (one spelling per value: functools keys the two apart)
            fn_ = Toy.selfref if selfref else Toy.compute
            val = fn_(objs[k], k=arg) if arg % 2 else fn_(objs[k], arg)
            hit = Toy.body_runs == runs_before
            tokens.append(f'c {k} {arg}')
            observed.append(f'{"h" if hit else "m"}:{lru.cache_info().currsize if lru is not None else "?"}')
            # property: the cached call returns what an uncached recomputation returns, for THIS object
            if selfref:
                ok = val.owner is objs[k] and val.k == arg
            else:
                ok = val == method.__wrapped__(objs[k], arg) and val == (('obj', k), arg)
            if not ok:
                out.fail('property', 'cached-equals-recomputed', case, expected=(k, arg), observed=repr(val)[:80],
                         note='a cached call returned a value that is not this object\'s own result')
                prop_fail = True
            del val
    gc.collect()
    line = f'memo {cap} {int(selfref)} {nobj} {len(tokens)} ' + ' '.join(tokens)
    res = core.drive1(line).split()
    assert res[0] == 'ok', res[:3]
    bar = res.index('|')
    model_ops = [t if t == '-' else t.split(':')[0] + ':' + t.split(':')[2] for t in res[1:bar]]
    model_alive = res[bar + 1:]
    out.evaluations += 1
    if lru is None:
        model_ops = [t if t == '-' else t.split(':')[0] + ':?' for t in model_ops]
    if model_ops != observed:
        first = next(i for i, (a, b) in enumerate(zip(model_ops, observed)) if a != b)
        out.fail('correspondence', 'hit-miss-trace', case, expected=model_ops[first], observed=observed[first],
                 note=f'first difference at op {first}: {ops[first]}')
    # liveness: a dropped object must be dead unless a cached value legitimately references it
    for k in range(nobj):
        is_dead = k in dead
        held = k in objs
        if held:
            continue
        if not selfref and not is_dead:
            out.fail('property', 'cache-keeps-object-alive', case, expected='collected', observed='alive', note=f'object {k}')
            prop_fail = True
        want_alive = model_alive[k] == '1'
        if want_alive == is_dead:
            out.fail('correspondence', 'liveness', case, expected='alive' if want_alive else 'dead',
                     observed='dead' if is_dead else 'alive', note=f'object {k}')
    reuse = len(set(addrs.values())) < len(addrs)
    evict = any(t.split(':')[1] != '?' and int(t.split(':')[1]) == cap and t[0] == 'm' for t in observed if t != '-')
    if reuse or evict:
        out.nontrivial.add(json.dumps(case['ops']) + str(cap) + str(selfref))
    if reuse:
        out.count('address-reuse-sequences')
    if evict:
        out.count('eviction-sequences')
    if len(out.samples) < 2 and len(ops) <= 14 and reuse:
        out.sample({'tag': tag, **case, 'addresses': addrs, 'trace': observed})
    objs.clear()
    return prop_fail


def values_equal(a, b):
    import pandas as pd
    if isinstance(a, np.ndarray) or isinstance(b, np.ndarray):
        return np.array_equal(np.asarray(a), np.asarray(b), equal_nan=True)
    if isinstance(a, (pd.DataFrame, pd.Series)):
        return a.equals(b)
    if isinstance(a, tuple):
        return len(a) == len(b) and all(values_equal(x, y) for x, y in zip(a, b))
    if isinstance(a, float) and isinstance(b, float) and np.isnan(a) and np.isnan(b):
        return True
    try:
        return bool(a == b)
    except Exception:  # noqa: BLE001
        return repr(a) == repr(b)


REAL_METHODS = {
    'Transitions': [('matrix', ()), ('states_next', ()), ('states_prev', ())],
    'Jumps': [('matrix', ()), ('_counter', ()), ('counter', ()), ('jump_diffusivity', (3,)), ('jump_diffusivity', (2,)), ('rates', (2,)), ('rates', (1,))],
    'TrajectoryMetrics': [('speed', ()), ('particle_density', ()), ('mol_per_liter', ()), ('amplitudes', ()),
                          ('vibration_amplitude', ()), ('attempt_frequency', ())],
}


def run_real(out: Outcome, rng, with_collective):
    """two real systems side by side: cached == uncached for each, results never swapped, objects die when dropped"""
    systems = []
    twin = bool(rng.integers(2))
    for n_sys in range(2):
        for _try in range(20):
            if n_sys == 1 and twin and systems:
                # a TWIN of the first system, alive at the same time: same events and site geometry, other site labels, time step and
                # temperature (the same run re-analysed with relabelled sites / a corrected time step)
                c0 = systems[0][0]
                case = {**c0, 'labels': [('M' + lab[1:]) if k % 2 else 'Q0' for k, lab in enumerate(c0['labels'])], 'time_step': 5e-15, 'temperature': 800.0}
            else:
                case = c05.build_system(rng, T=int(rng.integers(6, 20)), A=2, n_sites=3, inner=False)
            try:
                tr, s, i = c05.realise(case)
                j = Jumps(tr)
                systems.append((case, tr, j, TrajectoryMetrics(tr.diff_trajectory)))
                break
            except ValueError:
                continue
    if len(systems) < 2:
        return
    out.evaluations += 1
    case = {'real': [s[0] for s in systems], 'with_collective': with_collective}
    if twin:
        out.count('real-twin-systems')
    watch = {}
    dead = set()
    for n, (_, tr, j, m) in enumerate(systems):
        for name, obj in (('Transitions', tr), ('Jumps', j), ('TrajectoryMetrics', m)):
            watch[(n, name)] = weakref.ref(obj, lambda r, k=(n, name): dead.add(k))
    # interleave calls on the two systems
    for rep in range(2):
        for n, (_, tr, j, m) in enumerate(systems):
            for cname, obj in (('Transitions', tr), ('Jumps', j), ('TrajectoryMetrics', m)):
                for meth, args in REAL_METHODS[cname]:
                    bound = getattr(obj, meth)
                    try:
                        v1 = bound(*args)
                        v2 = bound(*args)
                        raw = getattr(type(obj), meth).__wrapped__(obj, *args)
                    except Exception as e:  # noqa: BLE001
                        out.count(f'real-raised:{cname}.{meth}:{type(e).__name__}')
                        continue
                    if not values_equal(v1, raw) or not values_equal(v2, raw):
                        out.fail('property', 'cached-equals-recomputed', {**case, 'method': f'{cname}.{meth}', 'system': n},
                                 expected=repr(raw)[:120], observed=repr(v1)[:120])
                    if v2 is not v1:
                        out.count('real-second-call-not-a-hit')
            # further public analysis calls (cached or not today): none of them may pin its object
            for fn in (lambda: tr.jumps(), lambda: tr.jumps(minimal_residence=1), lambda: tr.occupancy(), lambda: tr.atom_locations(),
                       lambda: tr.occupancy_by_site_type(), lambda: j.to_graph(), lambda: j.rates(2), lambda: j.split(2),
                       # cached calls that FAIL (more parts than events): a failure must not pin the object either
                       lambda: j.rates(50), lambda: j.activation_energies(50), lambda: j.rates(50),
                       lambda: m.tracer_diffusivity(dimensions=3), lambda: m.tracer_conductivity(z_ion=1, dimensions=3),
                       lambda: m.haven_ratio(dimensions=3), lambda: tr.split(2), lambda: tr.trajectory.metrics().speed()):
                try:
                    _r = fn()
                    del _r
                except Exception:  # noqa: BLE001
                    pass
            if with_collective:
                try:
                    c1 = j.collective()
                    if c1.jumps is not j and getattr(c1, 'jumps', None) is not None and not isinstance(c1.jumps, weakref.ProxyType):
                        out.fail('property', 'cached-equals-recomputed', {**case, 'method': 'Jumps.collective', 'system': n},
                                 observed='collective of another object')
                except Exception as e:  # noqa: BLE001
                    out.count(f'real-raised:Jumps.collective:{type(e).__name__}')
    out.count('real-systems', 2)
    del tr, j, m, obj, bound
    systems.clear()
    gc.collect()
    for key in watch:
        if key not in dead:
            out.fail('property', 'cache-keeps-object-alive', {**case, 'method': 'Jumps.collective' if with_collective else 'any',
                                                              'object': key[1]},
                     expected='collected', observed='alive', note=f'{key[1]} of system {key[0]} survived after its last reference was dropped')
    out.nontrivial.add(('real', json.dumps(case['real'][0]['s']), with_collective))


def run_shared_trajectory(out: Outcome, rng):
    """ONE Trajectory object analysed for two diffusing species one after the other (both orders): every result must equal the
    result of the same analysis on a freshly built, never analysed copy — nothing computed for one analysis may reach the other"""
    from . import gem, hist
    T = int(rng.integers(40, 90))
    s, i = hist.random_histories(rng, T, 4, 3, inner=False)
    a = 8.0
    lat = np.eye(3) * a
    coords = np.zeros((T, 5, 3))
    for t in range(T):
        for k in range(4):
            coords[t, k] = hist.VOID if s[t, k] < 0 else hist.SITE_POOL[s[t, k]]
        coords[t, 4] = [0.875, 0.875, 0.875]
    # the two species vibrate with different amplitudes (different attempt frequencies)
    jit = rng.integers(-6, 7, size=(T, 5, 3)) / 1024
    jit[:, 2:4] = rng.integers(-2, 3, size=(T, 2, 3)) / 1024 * (np.arange(T)[:, None, None] % 3 == 0)
    coords = coords + jit
    species = ['Li', 'Li', 'Na', 'Na', 'O']
    sites = gem.make_sites(lat, hist.SITE_POOL[:3])

    def build():
        return gem.make_traj(coords, lat, species, time_step=2e-15, metadata={'temperature': 500.0})

    def analyse(traj, sp):
        res = {}
        with warnings.catch_warnings():
            warnings.simplefilter('ignore')
            tr = traj.transitions_between_sites(sites, floating_specie=sp, site_radius=1.0)
            j = tr.jumps()
            res['n_jumps'] = int(j.n_jumps)
            res['edges'] = {e: float(d['e_act']) for e, d in j.to_graph().edges.items()}
            try:
                res['max_steps'] = int(j.collective().max_steps)
            except Exception as e:  # noqa: BLE001
                res['max_steps'] = type(e).__name__
            try:
                res['e_act'] = {k: tuple(map(float, v)) for k, v in j.activation_energies(n_parts=2).T.to_dict('list').items()}
            except Exception as e:  # noqa: BLE001
                res['e_act'] = type(e).__name__
            res['attempt'] = float(traj.filter(sp).metrics().attempt_frequency()[0])
        return res

    def same(x, y):
        if isinstance(x, dict) and isinstance(y, dict):
            return x.keys() == y.keys() and all(same(x[k], y[k]) for k in x)
        if isinstance(x, (tuple, list)) and isinstance(y, (tuple, list)):
            return len(x) == len(y) and all(same(p, q) for p, q in zip(x, y))
        if isinstance(x, float) and isinstance(y, float):
            return (np.isnan(x) and np.isnan(y)) or x == y or abs(x - y) <= 1e-12 * max(abs(x), abs(y))
        return x == y

    try:
        ref = {sp: analyse(build(), sp) for sp in ('Li', 'Na')}
    except ValueError:
        out.count('shared-trajectory-no-jumps')
        return
    out.evaluations += 1
    case = {'shared_trajectory': True, 's': s.T.tolist(), 'note': 're-run ./check C20 quick with the recorded seed'}
    for order in (('Li', 'Na'), ('Na', 'Li')):
        traj = build()
        for sp in order:
            try:
                got = analyse(traj, sp)
            except ValueError:
                got = None
            if got is None or not same(got, ref[sp]):
                diff = [k for k in ref[sp] if got is None or not same(got.get(k), ref[sp][k])]
                out.fail('property', 'analysis-independent-of-earlier-analyses', {**case, 'order': list(order), 'species': sp},
                         expected={k: ref[sp][k] for k in diff[:3]}, observed=None if got is None else {k: got.get(k) for k in diff[:3]},
                         note=f'{sp} analysed {"second" if sp == order[1] else "first"} on a trajectory object shared with the {order[0] if sp == order[1] else order[1]} analysis')
                break
    out.nontrivial.add(('shared', json.dumps(case['s'])))


def corpus():
    d = core.CORPUS / PID
    return [json.loads(p.read_text()) for p in sorted(d.glob('*.json'))] if d.exists() else []


def run(tier: str, seed: int, scale: int) -> Outcome:
    out = Outcome()
    rng = np.random.default_rng(seed)
    for case in corpus():
        run_toy(out, [tuple(o) for o in case['ops']], case['nobj'], case['cap'], bool(case['selfref']), 'corpus')
    n = (300 if tier == 'quick' else 3000) * scale
    for k in range(n):
        cap = int(rng.choice([1, 2, 4, 8, 128]))
        if cap == 128:
            ops, nobj = gen_ops(rng, int(rng.integers(200, 300)), 160, 2)
        else:
            ops, nobj = gen_ops(rng, int(rng.integers(5, 60)), cap + 3, 3)
        run_toy(out, ops, nobj, cap, selfref=(k % 7 == 0), tag='random')
    for k in range((12 if tier == 'quick' else 150) * scale):
        run_real(out, rng, with_collective=(k % 3 == 0))
    for k in range((6 if tier == 'quick' else 60) * scale):
        run_shared_trajectory(out, rng)
    return out


def classify(f: core.Failure, finding: dict) -> bool:
    if finding['id'] == 'D14':
        c = f.case if isinstance(f.case, dict) else {}
        return (f.clause == 'cache-keeps-object-alive' and c.get('method') == 'Jumps.collective'
                and c.get('object') in ('Jumps', 'Transitions', 'TrajectoryMetrics'))
    return False


def replay(case):
    out = Outcome()
    if 'ops' in case:
        run_toy(out, [tuple(o) for o in case['ops']], case['nobj'], case['cap'], bool(case['selfref']), 'replay')
    else:
        return True, 'real-object cases are replayed by re-running the check with the same seed'
    fails = [f for f in out.failures if f.kind == 'property']
    text = '\n'.join(f'{f.clause}: expected {f.expected} observed {f.observed} {f.note}' for f in fails) or 'no failure'
    return (not fails), text


SPEC = PropertySpec(
    pid=PID,
    modules=MODULES,
    run=run,
    replay=replay,
    gen=translate.gen_for('FormulasC20'),
    classify=classify,
    rule=('random op sequences (create / call with 2-3 argument values / drop+gc, 70% of drops followed at once by a creation so that '
          'CPython reuses the address) on instrumented classes decorated with the real weak_lru_cache, cache sizes 1,2,4,8 (5-60 ops) '
          'and 128 (200-300 ops, up to 160 live objects); the real id() of every object is fed to the Lean model, whose hit/miss + '
          'cache-size trace and final liveness are compared op by op with cache_info() and weakref callbacks; every returned value is '
          'compared with method.__wrapped__ and with the object\'s own payload. Plus pairs of real Transitions / Jumps / '
          'TrajectoryMetrics objects: cached == uncached for every cached method, interleaved, then dropped and checked dead. '
          'Non-trivial: the sequence contains an address reuse or an eviction; distinct = distinct op sequence.'),
    trusted=['CPython weakref.ref canonical-reference / hash / equality semantics and functools.lru_cache LRU order as modelled in GModel.Memo '
             '(validated op by op against cache_info with the real addresses)',
             'gc.collect() + weakref callbacks as the liveness oracle'],
    assumptions=['analysis objects are not mutated between calls (otherwise "uncached recomputation" is not a function of the object identity)'],
)
