import numpy as np
def structure_xml(lat, frac, name=None):
    nm = f' name="{name}"' if name else ''
    s = f'<structure{nm}>\n<crystal>\n<varray name="basis">\n'
    for r in lat: s += '<v> %.8f %.8f %.8f </v>\n' % tuple(r)
    s += '</varray>\n<i name="volume"> %.8f </i>\n<varray name="rec_basis">\n' % abs(np.linalg.det(lat))
    for r in np.linalg.inv(lat).T: s += '<v> %.8f %.8f %.8f </v>\n' % tuple(r)
    s += '</varray>\n</crystal>\n<varray name="positions">\n'
    for r in frac: s += '<v> %.8f %.8f %.8f </v>\n' % tuple(r)
    s += '</varray>\n</structure>\n'
    return s
def vasprun_xml(lat, species, frames, tebeg=600.0, potim=2.0):
    lat=np.array(lat,float)
    types=[]
    for sp in species:
        if sp not in types: types.append(sp)
    s='<?xml version="1.0" encoding="ISO-8859-1"?>\n<modeling>\n<generator>\n<i name="program" type="string">vasp </i>\n<i name="version" type="string">5.4.4 </i>\n</generator>\n'
    s+='<incar>\n<i name="TEBEG"> %.4f</i>\n<i name="POTIM"> %.4f</i>\n<i type="int" name="IBRION"> 0</i>\n<i type="int" name="NSW"> %d</i>\n</incar>\n' % (tebeg, potim, len(frames))
    s+='<kpoints>\n<generation param="Gamma">\n<v type="int" name="divisions"> 1 1 1 </v>\n<v name="usershift"> 0.0 0.0 0.0 </v>\n<v name="genvec1"> 1.0 0.0 0.0 </v>\n<v name="genvec2"> 0.0 1.0 0.0 </v>\n<v name="genvec3"> 0.0 0.0 1.0 </v>\n<v name="shift"> 0.0 0.0 0.0 </v>\n</generation>\n<varray name="kpointlist">\n<v> 0.0 0.0 0.0 </v>\n</varray>\n<varray name="weights">\n<v> 1.0 </v>\n</varray>\n</kpoints>\n'
    s+='<parameters>\n<separator name="ionic">\n<i name="TEBEG"> %.4f</i>\n<i name="POTIM"> %.4f</i>\n<i type="int" name="NSW"> %d</i>\n<i type="int" name="IBRION"> 0</i>\n</separator>\n<separator name="electronic">\n<i type="int" name="NELM"> 60</i>\n</separator>\n</parameters>\n' % (tebeg, potim, len(frames))
    s+='<atominfo>\n<atoms> %d </atoms>\n<types> %d </types>\n<array name="atoms">\n<dimension dim="1">ion</dimension>\n<field type="string">element</field>\n<field type="int">atomtype</field>\n<set>\n' % (len(species), len(types))
    for sp in species: s+='<rc><c>%s</c><c> %d</c></rc>\n' % (sp.ljust(2), types.index(sp)+1)
    s+='</set>\n</array>\n<array name="atomtypes">\n<dimension dim="1">type</dimension>\n<field type="int">atomspertype</field>\n<field type="string">element</field>\n<field>mass</field>\n<field>valence</field>\n<field type="string">pseudopotential</field>\n<set>\n'
    for tp in types: s+='<rc><c> %d</c><c>%s</c><c> 1.0</c><c> 1.0</c><c> PAW_PBE %s 01Jan2000 </c></rc>\n' % (species.count(tp), tp.ljust(2), tp)
    s+='</set>\n</array>\n</atominfo>\n'
    s+=structure_xml(lat, frames[0], 'initialpos')
    for fr in frames:
        s+='<calculation>\n<scstep>\n<energy>\n<i name="e_fr_energy"> -1.0 </i>\n<i name="e_wo_entrp"> -1.0 </i>\n<i name="e_0_energy"> -1.0 </i>\n</energy>\n</scstep>\n'
        s+=structure_xml(lat, fr)
        s+='<energy>\n<i name="e_fr_energy"> -1.0 </i>\n<i name="e_wo_entrp"> -1.0 </i>\n<i name="e_0_energy"> -1.0 </i>\n</energy>\n</calculation>\n'
    s+=structure_xml(lat, frames[-1], 'finalpos')
    s+='</modeling>\n'
    return s


def write_lammps(dirpath, lat, species, frames):
    """xyz trajectory + LAMMPS data file; returns (coords_file, data_file)"""
    import warnings
    from pathlib import Path
    from pymatgen.core import Lattice, Structure
    from pymatgen.io.lammps.data import LammpsData
    d = Path(dirpath)
    L = Lattice(np.array(lat, float))
    st = Structure(L, species, frames[0])
    with warnings.catch_warnings():
        warnings.simplefilter('ignore')
        LammpsData.from_structure(st, atom_style='atomic').write_file(str(d / 'data.lmp'))
    with open(d / 'traj.xyz', 'w') as f:
        for t, fr in enumerate(frames):
            f.write(f'{len(species)}\nframe {t}\n')
            for el, fc in zip(species, fr):
                c = L.get_cartesian_coords(fc)
                f.write('%s %.8f %.8f %.8f\n' % (el, *c))
    return str(d / 'traj.xyz'), str(d / 'data.lmp')


def write_vasprun(dirpath, lat, species, frames, **kw):
    from pathlib import Path
    p = Path(dirpath) / 'vasprun.xml'
    p.write_text(vasprun_xml(lat, species, frames, **kw))
    return str(p)


class FakeAtom:
    def __init__(self, name, k):
        self.name = name
        self.residue = f'res{k // 2}'
        self.resname = 'MOL'
        self.resid = k // 2


class FakeAtoms(list):
    @property
    def names(self):
        return [a.name for a in self]


class FakeTs:
    def __init__(self, dims):
        self.dimensions = dims


class FakeTrajectory:
    def __init__(self, cart, dims, dt):
        self._cart = cart
        self._dims = dims
        self.dt = dt

    def timeseries(self):
        return np.array(self._cart, dtype=float).copy()

    def __getitem__(self, k):
        return FakeTs(self._dims)

    def __iter__(self):
        return iter([FakeTs(self._dims) for _ in self._cart])


class FakeUniverse:
    """stands in for MDAnalysis.Universe(topology, coords) in from_gromacs"""
    registry: dict = {}
    calls = 0

    def __init__(self, topology_file, coords_file):
        FakeUniverse.calls += 1
        spec = FakeUniverse.registry[(str(topology_file), str(coords_file))]
        self.atoms = FakeAtoms(FakeAtom(n, k) for k, n in enumerate(spec['names']))
        self.trajectory = FakeTrajectory(spec['cart'], spec['dims'], spec['dt'])
