"""C03 — transition events are a faithful, complete change-log of the site states."""

from __future__ import annotations

import numpy as np

from . import core, gem, hist
from .core import Outcome, PropertySpec, enc_list

from gemdat.transitions import Transitions, _calculate_transition_events  # noqa: E402

PID = 'C03'
MODULES = ['GProofs.C03']


def impl_events(s: np.ndarray, i: np.ndarray):
    """('ok', {atom: [rows]}) or ('err', name)."""
    try:
        df = _calculate_transition_events(atom_sites=s, atom_inner_sites=i)
    except Exception as e:  # noqa: BLE001
        return 'err', type(e).__name__
    rows: dict[int, list] = {}
    arr = df[['atom index', 'time', 'start site', 'destination site',
              'start inner site', 'destination inner site']].to_numpy()
    for a, t, s0, s1, i0, i1 in arr.tolist():
        rows.setdefault(int(a), []).append((int(t), int(s0), int(s1), int(i0), int(i1)))
    return 'ok', rows


def parse_events(tokens: list[str]):
    n = int(tokens[0])
    v = list(map(int, tokens[1:]))
    return [tuple(v[5 * k: 5 * k + 5]) for k in range(n)]


def replay_rows(s0, i0, rows, T):
    """rebuild the histories of one atom from its first-frame state and its rows"""
    s = [s0] * T
    i = [i0] * T
    cur = (s0, i0)
    k = 0
    rows = sorted(rows)
    for t in range(T):
        s[t], i[t] = cur
        while k < len(rows) and rows[k][0] == t:
            cur = (rows[k][2], rows[k][4])
            k += 1
    return s, i


def find_culprit(s, i, pred):
    """smallest column subset (one column if possible) on which `pred(sub_s, sub_i)` holds"""
    cols = list(range(s.shape[1]))
    while len(cols) > 1:
        half = len(cols) // 2
        left, right = cols[:half], cols[half:]
        if pred(s[:, left], i[:, left]):
            cols = left
        elif pred(s[:, right], i[:, right]):
            cols = right
        else:
            break
    return cols


def check_batch(out: Outcome, s: np.ndarray, i: np.ndarray, tag: str, via: str = 'helper'):
    """Compare one [T, A] system: implementation vs specification vs model."""
    T, A = s.shape
    spec = {a: hist.spec_events(s[:, a], i[:, a]) for a in range(A)}
    any_change = any(spec[a] for a in range(A))
    out.evaluations += A
    status, rows = impl_events(s, i)
    case_small = {'via': via, 's': s.T.tolist(), 'i': i.T.tolist()} if A * T <= 400 else None
    if status == 'err':
        if not any_change:
            out.count('refused-no-change')
            return
        # building failed although there is a change: find a minimal culprit
        cols = find_culprit(s, i, lambda ss, ii: impl_events(ss, ii)[0] == 'err'
                            and any(hist.spec_events(ss[:, a], ii[:, a]) for a in range(ss.shape[1])))
        out.fail('property', 'build-never-fails',
                 {'via': via, 's': s[:, cols].T.tolist(), 'i': i[:, cols].T.tolist()},
                 expected='event table', observed=rows,
                 note='building the table raised for a history containing a change')
        return
    # model (driver) per atom that has a change or rows
    lines = []
    for a in range(A):
        lines.append((str(a), f'events {enc_list(s[:, a])} {enc_list(i[:, a])}'))
    model = core.drive(lines)
    for a in range(A):
        got = sorted(rows.get(a, []))
        want = spec[a]
        key = (tuple(s[:, a].tolist()), tuple(i[:, a].tolist()))
        if hist.nontrivial_history(s[:, a], i[:, a]):
            out.nontrivial.add(key)
        mod = model[str(a)].split()
        mrows = parse_events(mod[1:]) if mod[0] == 'ok' else None
        case = {'via': via, 's': [s[:, a].tolist()], 'i': [i[:, a].tolist()]}
        if got != want:
            clause = 'rows-iff-change'
            if len(got) != len(set(got)):
                clause = 'one-row-per-change'
            out.fail('property', clause, case, expected=want, observed=got)
        elif len(rows.get(a, [])) != len(want):
            out.fail('property', 'one-row-per-change', case, expected=want, observed=rows.get(a))
        else:
            rs, ri = replay_rows(int(s[0, a]), int(i[0, a]), got, T)
            if rs != s[:, a].tolist() or ri != i[:, a].tolist():
                out.fail('property', 'replay-reconstructs', case, expected=[s[:, a].tolist(), i[:, a].tolist()],
                         observed=[rs, ri])
        if mrows != want:
            out.fail('correspondence', 'model-events', case, expected=want, observed=model[str(a)],
                     note='Lean model disagrees with the specification')
        if want:
            out.count('atoms-with-events')
            if all(r[1] == r[2] for r in want):
                out.count('inner-only-atoms')
            if len({(r[3], r[4]) for r in want}) and all(r[3] == r[4] for r in want):
                out.count('never-inner-change-atoms')
        else:
            out.count('atoms-without-events')
    if case_small and len(out.samples) < 3:
        out.sample({'tag': tag, **case_small})


def check_fill(out: Outcome, s: np.ndarray, tag: str):
    """states_prev / states_next through a real Transitions object."""
    T, A = s.shape
    sites = gem.make_sites(np.eye(3) * 8, hist.SITE_POOL[:2])
    tr = Transitions(trajectory=None, diff_trajectory=None, sites=sites, events=None,
                     states=s.copy(), inner_states=s.copy())
    order = (T + A) % 2  # both call orders are exercised
    if order:
        prev = np.array(tr.states_prev())
        nxt = np.array(tr.states_next())
    else:
        nxt = np.array(tr.states_next())
        prev = np.array(tr.states_prev())
    if not np.array_equal(tr.states, s):
        out.fail('property', 'views-altered-states', {'via': 'fill', 's': s.T.tolist()[:4]}, expected='states unchanged',
                 observed=np.array(tr.states).T.tolist()[:4], note='states_prev()/states_next() modified Transitions.states')
    for nm, arr in (('states-prev', prev), ('states-next', nxt)):
        if arr.shape != s.shape:
            out.fail('property', nm, {'via': 'fill', 's': s.T.tolist()[:4]}, expected=f'an array of shape {s.shape} (frames x atoms of THIS object)',
                     observed=f'shape {arr.shape}', note='the view does not even have the shape of the states it was asked for')
            return
    lines = []
    for a in range(A):
        lines.append((f'f{a}', f'ffill {enc_list(s[:, a])}'))
        lines.append((f'b{a}', f'bfill {enc_list(s[:, a])}'))
    model = core.drive(lines)
    out.evaluations += A
    for a in range(A):
        col = s[:, a]
        case = {'via': 'fill', 's': [col.tolist()]}
        wp, wn = hist.spec_ffill(col), hist.spec_bfill(col)
        if prev[:, a].tolist() != wp:
            out.fail('property', 'states-prev', case, expected=wp, observed=prev[:, a].tolist())
        if nxt[:, a].tolist() != wn:
            out.fail('property', 'states-next', case, expected=wn, observed=nxt[:, a].tolist())
        mp = list(map(int, model[f'f{a}'].split()[1:]))
        mn = list(map(int, model[f'b{a}'].split()[1:]))
        if mp != wp or mn != wn:
            out.fail('correspondence', 'model-fill', case, expected=[wp, wn], observed=[mp, mn])
        if (col == -1).any() and (col != -1).any():
            out.nontrivial.add(('fill', tuple(col.tolist())))


def check_fill_lifecycle(out: Outcome, rng, n_objects=48):
    """states_prev / states_next over a HISTORY of objects: each Transitions is analysed, released, and the next one is created
    straight afterwards (so that it is likely to live at the address the previous one had); the views of every object must be
    those of ITS states.  Everything the constructor needs is prepared before, so that nothing else is allocated in between."""
    sites = gem.make_sites(np.eye(3) * 8, hist.SITE_POOL[:2])
    shapes = [(int(rng.integers(2, 9)), int(rng.integers(1, 4))) for _ in range(3)]
    hs = []
    for k in range(n_objects):
        T, A = shapes[k % 3] if k % 4 else shapes[0]
        hs.append(hist.random_histories(rng, T, A, int(rng.integers(1, 4)), inner=False)[0])
    specs = [([hist.spec_ffill(h[:, a]) for a in range(h.shape[1])], [hist.spec_bfill(h[:, a]) for a in range(h.shape[1])]) for h in hs]
    seen, reused = set(), 0
    history = []
    for k, h in enumerate(hs):
        tr = Transitions(trajectory=None, diff_trajectory=None, sites=sites, events=None, states=h, inner_states=h)
        reused += id(tr) in seen
        seen.add(id(tr))
        if k % 2:
            prev, nxt = tr.states_prev(), tr.states_next()
        else:
            nxt, prev = tr.states_next(), tr.states_prev()
        del tr
        out.evaluations += 1
        history.append(h.T.tolist())
        wp, wn = np.array(specs[k][0]).T, np.array(specs[k][1]).T
        for nm, got, want in (('states-prev', np.array(prev), wp), ('states-next', np.array(nxt), wn)):
            if got.shape != want.shape or not np.array_equal(got, want):
                out.fail('property', nm, {'via': 'fill-lifecycle', 'objects_analysed_and_released_before': history[:-1][-6:], 's': h.T.tolist()},
                         expected=want.T.tolist(), observed=got.T.tolist()[:6], note='object created after earlier ones were released')
                return
    out.count('fill-lifecycle-objects', n_objects)
    out.count('fill-lifecycle-address-reused', reused)
    if reused:
        out.nontrivial.add(('lifecycle', reused, n_objects))


def check_public(out: Outcome, s: np.ndarray, i: np.ndarray, tag: str):
    """Through Trajectory.transitions_between_sites on a trajectory realising the itinerary."""
    traj, sites, kw = hist.realise(s, i)
    try:
        tr = traj.transitions_between_sites(sites, **kw)
    except Exception as e:  # noqa: BLE001
        anyc = any(hist.spec_events(s[:, a], i[:, a]) for a in range(s.shape[1]))
        out.evaluations += 1
        if anyc:
            out.fail('property', 'build-never-fails', {'via': 'public', 's': s.T.tolist(), 'i': i.T.tolist()},
                     expected='event table', observed=type(e).__name__,
                     note='transitions_between_sites raised for a history containing a change')
        return
    if not (np.array_equal(tr.states, s) and np.array_equal(tr.inner_states, i)):
        # site assignment is C02's business; here we only need the histories we asked for
        out.count('public-assignment-differs')
        s, i = tr.states, tr.inner_states
    ev = tr.events
    rows: dict[int, list] = {}
    for a, t, s0, s1, i0, i1 in ev[['atom index', 'time', 'start site', 'destination site',
                                     'start inner site', 'destination inner site']].to_numpy().tolist():
        rows.setdefault(int(a), []).append((int(t), int(s0), int(s1), int(i0), int(i1)))
    out.evaluations += s.shape[1]
    for a in range(s.shape[1]):
        want = hist.spec_events(s[:, a], i[:, a])
        if sorted(rows.get(a, [])) != want or len(rows.get(a, [])) != len(want):
            out.fail('property', 'rows-iff-change', {'via': 'public', 's': [s[:, a].tolist()], 'i': [i[:, a].tolist()]},
                     expected=want, observed=rows.get(a, []))
    # previous / next site views of the object the public pipeline built (its own array types)
    prev, nxt = np.array(tr.states_prev()), np.array(tr.states_next())
    for nm, arr in (('states-prev', prev), ('states-next', nxt)):
        if arr.shape != s.shape:
            out.fail('property', nm, {'via': 'public', 'frames': int(s.shape[0]), 's': s.T.tolist() if s.shape[0] <= 400 else 'omitted (long run)'},
                     expected=f'an array of shape {s.shape} (frames x atoms of THIS object)', observed=f'shape {arr.shape}',
                     note='the view does not even have the shape of the states it was asked for')
            return
    for a in range(s.shape[1]):
        wp, wn = hist.spec_ffill(s[:, a]), hist.spec_bfill(s[:, a])
        if prev[:, a].tolist() != wp or nxt[:, a].tolist() != wn:
            bad = next(t for t in range(s.shape[0]) if prev[t, a] != wp[t] or nxt[t, a] != wn[t])
            out.fail('property', 'states-prev' if prev[:, a].tolist() != wp else 'states-next',
                     {'via': 'public', 'frames': int(s.shape[0]), 's': [s[:, a].tolist()] if s.shape[0] <= 400 else 'omitted (long run)'},
                     expected=[wp[bad], wn[bad]], observed=[int(prev[bad, a]), int(nxt[bad, a])], note=f'atom {a}, frame {bad}')
            break
    out.count('public-systems')


def long_history(rng, T):
    """one atom hopping between two sites with long stays and excursions to no site, T frames"""
    s = np.empty(T, dtype=int)
    t, cur = 0, 0
    while t < T:
        stay = int(rng.integers(200, 3000))
        s[t:t + stay] = cur
        t += stay
        gap = int(rng.integers(1, 400))
        s[t:t + gap] = -1
        t += gap
        cur = int(rng.integers(0, 2))
    return s[:, None], s[:, None].copy()


BIG_IDS = np.array([0, 999, 1000, 1001, 1999, 2001, 32767, 32768, 65536])


def run(tier: str, seed: int, scale: int) -> Outcome:
    out = Outcome()
    rng = np.random.default_rng(seed)
    # corpus first
    for case in core_corpus():
        s = np.array(case['s']).T
        i = np.array(case['i']).T
        if case.get('via') == 'public':
            check_public(out, s, i, 'corpus')
        else:
            check_batch(out, s, i, 'corpus')
    # exhaustive bounded enumeration
    Tmax = 6 if tier == 'quick' else 8
    if scale > 1:
        Tmax += 1
    for T in range(1, Tmax + 1):
        s, i = hist.exhaustive_histories(T, 2, 'sub')
        # each history alone would make "all atoms skipped" paths: test in chunks, plus
        # singletons for the refusal path on small T
        for lo in range(0, s.shape[1], 4096):
            check_batch(out, s[:, lo:lo + 4096], i[:, lo:lo + 4096], f'exhaustive-T{T}')
        if T <= 3:
            for a in range(s.shape[1]):
                check_batch(out, s[:, a:a + 1], i[:, a:a + 1], f'single-T{T}')
        check_fill(out, s[:, : min(s.shape[1], 4096)], f'fill-T{T}')
    out.exhaustive = True
    out.extra['exhaustive_bound'] = f'all (site, inner) histories with inner_t in {{-1, site_t}}, 2 sites + none, T <= {Tmax}'
    # random long multi-atom histories
    n_rand = (300 if tier == 'quick' else 5000) * scale
    for k in range(n_rand):
        T = int(rng.integers(2, 400 if k % 10 == 0 else 60))
        A = int(rng.integers(1, 7))
        s, i = hist.random_histories(rng, T, A, int(rng.integers(1, 6)), inner=bool(rng.integers(2)))
        check_batch(out, s, i, 'random')
        if k % 5 == 0:
            check_fill(out, s, 'random-fill')
    # large site indices (site tables with thousands of sites): index arithmetic must not collide
    for k in range((40 if tier == 'quick' else 400) * scale):
        T = int(rng.integers(2, 40))
        s_, i_ = hist.random_histories(rng, T, int(rng.integers(1, 4)), len(BIG_IDS), inner=True)
        ids = BIG_IDS[rng.permutation(len(BIG_IDS))]
        big = lambda x: np.where(x >= 0, ids[np.clip(x, 0, None)], -1)  # noqa: E731
        check_batch(out, big(s_), big(i_), 'large-site-indices')
    # one run longer than 2^15 frames through the public pipeline (index / dtype limits of the fill views)
    for k in range(1 * scale if tier == 'quick' else 3 * scale):
        s_, i_ = long_history(rng, int(rng.integers(33500, 36000)))
        check_public(out, s_, i_, 'public-long')
    # objects analysed and released one after the other
    for k in range((6 if tier == 'quick' else 60) * scale):
        check_fill_lifecycle(out, rng)
    # public API path
    n_pub = (25 if tier == 'quick' else 300) * scale
    for k in range(n_pub):
        T = int(rng.integers(2, 30))
        A = int(rng.integers(1, 4))
        s, i = hist.random_histories(rng, T, A, int(rng.integers(2, 6)), inner=True)
        check_public(out, s, i, 'public')
    return out


def core_corpus():
    import json
    d = core.CORPUS / PID
    return [json.loads(p.read_text()) for p in sorted(d.glob('*.json'))] if d.exists() else []


def replay(case):
    s = np.array(case['s']).T
    i = np.array(case['i']).T
    out = Outcome()
    if case.get('via') == 'fill-lifecycle':
        sites = gem.make_sites(np.eye(3) * 8, hist.SITE_POOL[:2])
        for h in [np.array(x).T for x in case['objects_analysed_and_released_before']] + [np.array(case['s']).T]:
            tr = Transitions(trajectory=None, diff_trajectory=None, sites=sites, events=None, states=h, inner_states=h)
            prev, nxt = np.array(tr.states_prev()), np.array(tr.states_next())
            del tr
        wp = np.array([hist.spec_ffill(h[:, a]) for a in range(h.shape[1])]).T
        wn = np.array([hist.spec_bfill(h[:, a]) for a in range(h.shape[1])]).T
        ok = prev.shape == wp.shape and np.array_equal(prev, wp) and np.array_equal(nxt, wn)
        return ok, ('views of the last object are those of its states' if ok else 'views of the last object are not those of its states (depends on memory layout: re-run the check with the recorded seed if this replay passes)')
    if case.get('via') == 'public':
        check_public(out, s, i, 'replay')
    elif case.get('via') == 'fill':
        check_fill(out, s, 'replay')
    else:
        check_batch(out, s, i, 'replay')
    fails = [f for f in out.failures if f.kind == 'property']
    text = '\n'.join(f'{f.clause}: expected {f.expected} observed {f.observed} {f.note}' for f in fails) or 'no failure'
    return (not fails), text


SPEC = PropertySpec(
    pid=PID,
    modules=MODULES,
    run=run,
    replay=replay,
    rule=('exhaustive: every (site, inner-site) history of one atom with inner_t in {-1, site_t} over 2 sites + "none" up to the '
          'stated length, run through _calculate_transition_events in batches and alone; random multi-atom histories up to 400 frames '
          '(immobile, never-inner, flickering, direct site-to-site styles); the same through Trajectory.transitions_between_sites on '
          'trajectories synthesised to realise the itinerary; states_prev/states_next through Transitions, also over histories of 48 objects each '
          'analysed and released before the next is created (address reuse counted in the evidence). A case (one atom history) '
          'is non-trivial when it has >= 2 changes and a change at the first/last frame, a direct site-to-site move, a return to the '
          'same site, an inner-only change or >= 3 visited sites; distinct = distinct (site, inner) history.'),
    trusted=['np.nonzero / slicing / np.union1d / fancy indexing semantics as modelled in GModel.Events (validated by this correspondence)',
             'pandas DataFrame construction of the event table'],
    assumptions=['histories are integer arrays [time, atom] with -1 = no site; inner_t in {-1, site_t} (C02 inner_subset)'],
)
