"""C16 — trajectory caching is faithful and survives an interrupted cache write."""

from __future__ import annotations

import io
import json
import pickle
import shutil
import tempfile
import warnings
from contextlib import redirect_stdout
from pathlib import Path

import numpy as np

from . import core, gem, mkfiles, translate
from .core import Outcome, PropertySpec

import gemdat.trajectory as gtraj  # noqa: E402
from gemdat import Trajectory  # noqa: E402

PID = 'C16'
MODULES = ['GProofs.C16', 'GProofs.C16Names']


def traj_sig(tr):
    """everything that makes two trajectories identical"""
    lat = np.array(tr.lattice)
    return {
        'coords': np.array(tr.coords).tolist(), 'disp': bool(tr.coords_are_displacement),
        'base': None if tr.base_positions is None else np.array(tr.base_positions).tolist(),
        'species': [str(s) for s in tr.species], 'lattice': lat.tolist(), 'constant_lattice': bool(tr.constant_lattice),
        'time_step': tr.time_step, 'metadata': {k: (v if isinstance(v, (int, float, str)) else repr(v)) for k, v in tr.metadata.items()},
        'site_properties': repr(tr.site_properties),
    }


def same(a, b):
    return a == b


class Counting:
    """count calls of the real parsers"""

    def __init__(self):
        self.n = 0

    def wrap(self, fn):
        def inner(*a, **k):
            self.n += 1
            return fn(*a, **k)
        return inner


def quiet_call(fn, **kw):
    buf = io.StringIO()
    with warnings.catch_warnings(), redirect_stdout(buf):
        warnings.simplefilter('ignore')
        try:
            return 'ok', fn(**kw)
        except Exception as e:  # noqa: BLE001
            return 'raised', type(e).__name__


class LoaderEnv:
    """a scratch directory with generated source files for one loader, and its variants of arguments"""

    def __init__(self, kind, rng, root, unwrapped=False):
        self.kind = kind
        self.dir = Path(tempfile.mkdtemp(prefix=f'c16_{kind}_', dir=root))
        lat = [[6, 0, 0], [0, 7, 0], [1, 0, 8]]
        species = ['Li', 'Li', 'O']
        T = int(rng.integers(2, 5))
        frames = [np.mod(rng.integers(0, 64, size=(3, 3)) / 64 + 0.01 * t, 1) for t in range(T)]
        if unwrapped:
            # unwrapped source coordinates: atoms that left the box through a face stay outside it in the files
            shift = rng.integers(-1, 2, size=(3, 3)).astype(float)
            frames = [f + shift * (t >= 1) for t, f in enumerate(frames)]
        self.frames = frames
        if kind == 'lammps':
            cf, df = mkfiles.write_lammps(self.dir, lat, species, frames)
            self.base = dict(coords_file=cf, data_file=df, temperature=300.0, time_step=1.0)
            self.fn = Trajectory.from_lammps
            self.variants = [
                {}, {'temperature': 450.0}, {'time_step': 2.0}, {'type_mapping': {'Li': 'Na', 'O': 'S'}},
                {'constant_lattice': False}, {'atom_style': 'charge'},
            ]
            self.src_file = cf
        elif kind == 'vasprun':
            xf = mkfiles.write_vasprun(self.dir, lat, species, frames)
            self.base = dict(xml_file=xf)
            self.fn = Trajectory.from_vasprun
            self.variants = [{}, {'constant_lattice': False}, {'parse_dos': True}, {'exception_on_bad_xml': False}]
            self.src_file = xf
        else:
            top, crd = str(self.dir / 'topol.tpr'), str(self.dir / 'traj.xtc')
            cart = [np.array(f) @ np.diag([6.0, 7.0, 8.0]) for f in frames]
            mkfiles.FakeUniverse.registry[(top, crd)] = dict(names=['LI1', 'LI2', 'O1'], cart=cart,
                                                            dims=[6.0, 7.0, 8.0, 90.0, 90.0, 90.0], dt=2.0)
            self.base = dict(topology_file=top, coords_file=crd, temperature=300.0)
            self.fn = Trajectory.from_gromacs
            self.variants = [{}, {'temperature': 500.0}, {'constant_lattice': False}]
            self.src_file = crd

    def cache_files(self):
        return sorted(p for p in self.dir.iterdir() if p.name.endswith('.cache'))

    def clear_cache(self):
        for p in self.cache_files():
            p.unlink()

    def load(self, variant):
        return quiet_call(self.fn, **{**self.base, **variant})

    def reference(self, variant):
        """what parsing the source files with these arguments yields: a load with no cache present"""
        saved = {p: p.read_bytes() for p in self.cache_files()}
        self.clear_cache()
        r = self.load(variant)
        new = self.cache_files()
        name = new[0].name if new else None
        self.clear_cache()
        for p, b in saved.items():
            p.write_bytes(b)
        return r, name

    def close(self):
        shutil.rmtree(self.dir, ignore_errors=True)


def result_sig(r):
    return (r[0], traj_sig(r[1]) if r[0] == 'ok' else r[1])


def check_loader(out: Outcome, kind, rng, tier, root, unwrapped=False):
    env = LoaderEnv(kind, rng, root, unwrapped)
    case0 = {'loader': kind, 'unwrapped_source_coordinates': unwrapped}
    try:
        refs = {}
        names = {}
        for k, v in enumerate(env.variants):
            r, nm = env.reference(v)
            refs[k] = result_sig(r)
            names[k] = nm
        # the parse itself: positions are the generated fractional coordinates modulo the cell
        if refs[0][0] == 'ok' and not refs[0][1]['disp']:
            got_c = np.array(refs[0][1]['coords'])
            want_c = np.mod(np.array(env.frames), 1)
            dd = got_c - want_c if got_c.shape == want_c.shape else None
            if dd is None or np.abs(dd - np.round(dd)).max() > 1e-5 or got_c.min() < 0 or got_c.max() >= 1:
                out.fail('property', 'parsed-trajectory', case0, expected=want_c.tolist(), observed=got_c.tolist(),
                         note='positions parsed from the source files are not the source coordinates wrapped into the cell')
        # different parser options use different default cache files (when they change what is parsed)
        for a in range(len(env.variants)):
            for b in range(a + 1, len(env.variants)):
                if refs[a] != refs[b] and names[a] is not None and names[a] == names[b]:
                    out.fail('property', 'different-options-different-cache-files', {**case0, 'options': [env.variants[a], env.variants[b]]},
                             expected='distinct default cache files', observed=names[a],
                             note='options that change the parsed trajectory share one default cache file')
        # argument matrix with caches present: every load must return what parsing with ITS arguments returns
        env.clear_cache()
        order = list(rng.permutation(len(env.variants))) * 2
        for k in order:
            out.evaluations += 1
            got = result_sig(env.load(env.variants[k]))
            if got != refs[k]:
                out.fail('property', 'load-with-cache-equals-parse', {**case0, 'options': env.variants[k], 'history': [env.variants[j] for j in order]},
                         expected=str(refs[k])[:300], observed=str(got)[:300],
                         note='a cache written for other arguments was returned')
                break
        # --- truncation at byte k of the real cache file, for variant 0
        env.clear_cache()
        st, tr0 = env.load({})
        if st != 'ok':
            out.fail('property', 'loader-raised', case0, observed=tr0)
            return
        cfile = env.cache_files()[0]
        B = cfile.read_bytes()
        ref0 = refs[0]
        n = len(B)
        if tier == 'quick':
            ks = sorted(set(list(range(0, min(48, n))) + list(range(max(0, n - 48), n)) + [int(x) for x in rng.integers(0, n, size=40)]))
        else:
            ks = list(range(n))
        # codec hypotheses on the real pickle: round trip, and no proper prefix decodes
        if result_sig(('ok', pickle.loads(B))) != ref0:
            out.fail('property', 'cache-roundtrip', case0, note='pickle round trip is not the identity')
        for k in ks:
            try:
                pickle.loads(B[:k])
                out.fail('correspondence', 'codec-prefix-free', {**case0, 'prefix': k}, note='a proper prefix of the cache file decodes')
            except Exception:  # noqa: BLE001
                pass
        for k in ks:
            out.evaluations += 1
            cfile.write_bytes(B[:k])
            got = result_sig(env.load({}))
            c = {**case0, 'truncate_at': k, 'cache_len': n}
            if got != ref0:
                out.fail('property', 'truncated-cache-falls-back-to-source', c, expected='trajectory parsed from source', observed=str(got)[:200])
                break
            after = cfile.read_bytes() if cfile.exists() else b''
            try:
                ok = result_sig(('ok', pickle.loads(after))) == ref0
            except Exception:  # noqa: BLE001
                ok = False
            if not ok:
                out.fail('property', 'complete-cache-left-behind', c, observed=len(after))
                break
            out.nontrivial.add((kind, 'trunc', k, n))
        # --- garbage / empty / foreign pickle
        unreadable = [('empty', b''), ('text', b'not a pickle'), ('random', bytes(rng.integers(0, 256, size=300).tolist())),
                      ('pickled-int', pickle.dumps(12345)[:-1]),
                      # contents on which unpickling fails with OTHER exception types than UnpicklingError / EOFError
                      ('unknown-protocol', b'\x80\x09' + B[2:]), ('text-lines', b'garbage\n'), ('lammps-dump-text', b'ITEM: TIMESTEP\n0\n'),
                      ('bad-utf8-string', b'\x80\x04\x8c\x02\xff\xfe.'), ('bad-int-literal', b'I12x\n.'), ('reduce-on-int', b'\x80\x04K\x01K\x02\x85R.'),
                      ('stale-class', b'\x80\x04\x95\x1f\x00\x00\x00\x00\x00\x00\x00\x8c\x0bgemdat.gone\x94\x8c\x07Missing\x94\x93\x94)\x81\x94.'),
                      ('one-byte-damaged', B[:len(B) // 2] + bytes([B[len(B) // 2] ^ 0x41]) + B[len(B) // 2 + 1:])]
        for label, content in unreadable:
            try:
                obj = pickle.loads(content)
            except Exception as e_:  # noqa: BLE001
                out.count(f'unreadable-kind:{type(e_).__name__}')
            else:
                # the content still decodes (to whatever object): not an 'unreadable' cache, outside this clause
                out.count(f'damaged-content-still-decodes-to-{type(obj).__name__}')
                continue
            out.evaluations += 1
            cfile.write_bytes(content)
            got = result_sig(env.load({}))
            if got != ref0:
                out.fail('property', 'unreadable-cache-falls-back-to-source', {**case0, 'content': label}, observed=str(got)[:200])
        # --- fault / recover cycles against the model's prediction (hit or re-parse)
        counter = Counting()
        from pymatgen.io import vasp as pm_vasp
        from pymatgen.io.lammps.data import LammpsData
        orig = (pm_vasp.Vasprun, LammpsData.from_file, mkfiles.FakeUniverse.calls)
        pm_vasp.Vasprun = counter.wrap(orig[0])
        gtraj.vasp.Vasprun = pm_vasp.Vasprun
        try:
            env.clear_cache()
            toks, observed = [], []
            for _ in range(12 if tier == 'quick' else 60):
                r = rng.random()
                if r < 0.5:
                    before = (counter.n, mkfiles.FakeUniverse.calls, cfile.stat().st_mtime_ns if cfile.exists() else -1)
                    got = result_sig(env.load({}))
                    after_m = cfile.stat().st_mtime_ns if cfile.exists() else -1
                    hit = after_m == before[2] and before[2] != -1
                    toks.append('l 0')
                    observed.append(f'0:{int(hit)}')
                    out.evaluations += 1
                    if got != ref0:
                        out.fail('property', 'fault-cycle-load', {**case0, 'steps': toks}, observed=str(got)[:200])
                        break
                elif r < 0.7 and cfile.exists():
                    k = int(rng.integers(0, max(1, len(cfile.read_bytes()))))
                    cfile.write_bytes(cfile.read_bytes()[:k])
                    toks.append(f't 0 {1 if k > 0 else 0}')
                elif r < 0.85:
                    cfile.write_bytes(b'\x00garbage')
                    toks.append('g 0')
                elif cfile.exists():
                    cfile.unlink()
                    toks.append('d 0')
            m = core.drive1(f'cache 1 {len(toks)} ' + ' '.join(toks)).split('|')[0].split()[1:]
            if m != observed:
                out.fail('correspondence', 'model-hit-reparse-trace', {**case0, 'steps': toks}, expected=m, observed=observed)
            out.nontrivial.add((kind, 'cycle', tuple(toks)))
        finally:
            pm_vasp.Vasprun = orig[0]
            gtraj.vasp.Vasprun = orig[0]
        out.sample({'loader': kind, 'cache_bytes': n, 'prefixes_tested': len(ks), 'argument_variants': env.variants}, limit=3)
    finally:
        env.close()


def check_roundtrip(out: Outcome, rng, root):
    d = Path(tempfile.mkdtemp(prefix='c16_rt_', dir=root))
    try:
        for _ in range(20):
            name, lat = gem.lattice_pool(rng)
            T, A = int(rng.integers(1, 6)), int(rng.integers(1, 4))
            tr = gem.make_traj(rng.integers(-64, 128, size=(T, A, 3)) / 64, lat, ['Li'] * A, metadata={'temperature': 123.0, 'note': 'x'})
            if rng.random() < 0.5:
                _ = tr.displacements
            before = traj_sig(tr)
            p = d / 'x.cache'
            tr.to_cache(p)
            back = Trajectory.from_cache(p)
            out.evaluations += 1
            if traj_sig(back) != before or type(back) is not Trajectory:
                out.fail('property', 'to-cache-from-cache-identity', {'roundtrip': before}, observed=traj_sig(back))
    finally:
        shutil.rmtree(d, ignore_errors=True)


def check_sibling_sources(out: Outcome, kind, rng, root):
    """several runs kept side by side in ONE directory under names that differ only in a middle part (vasprun.300K.xml /
    vasprun.500K.xml, run.1.xyz / run.2.xyz): every load, cold or from the cache, must return what parsing THAT file yields"""
    lat = [[6, 0, 0], [0, 7, 0], [1, 0, 8]]
    species = ['Li', 'Li', 'O']
    shared = Path(tempfile.mkdtemp(prefix=f'c16_sib_{kind}_', dir=root))
    tags = ['300K', '500K', '700K'][: int(rng.integers(2, 4))]
    # vasprun files are also kept under one stem with different LAST suffixes (md.xml next to its predecessor md.bak)
    last_suffix = kind == 'vasprun' and bool(rng.integers(2))
    name_of = (lambda tag: f'md.{ {"300K": "xml", "500K": "bak", "700K": "prev"}[tag] }') if last_suffix else (lambda tag: f'vasprun.{tag}.xml')
    try:
        runs = []
        for tag in tags:
            T = int(rng.integers(2, 5))
            frames = [np.mod(rng.integers(0, 64, size=(3, 3)) / 64 + 0.01 * t, 1) for t in range(T)]
            iso = Path(tempfile.mkdtemp(prefix='c16_iso_', dir=root))
            try:
                if kind == 'vasprun':
                    src = mkfiles.write_vasprun(iso, lat, species, frames)
                    ref = quiet_call(Trajectory.from_vasprun, xml_file=src)
                    dst = shared / name_of(tag)
                    shutil.copy(src, dst)
                    runs.append((tag, dict(xml_file=str(dst)), ref))
                else:
                    cf, df = mkfiles.write_lammps(iso, lat, species, frames)
                    ref = quiet_call(Trajectory.from_lammps, coords_file=cf, data_file=df, temperature=300.0, time_step=1.0)
                    dst, ddst = shared / f'run.{tag}.xyz', shared / f'run.{tag}.lmp'
                    shutil.copy(cf, dst)
                    shutil.copy(df, ddst)
                    runs.append((tag, dict(coords_file=str(dst), data_file=str(ddst), temperature=300.0, time_step=1.0), ref))
            finally:
                shutil.rmtree(iso, ignore_errors=True)
        fn = Trajectory.from_vasprun if kind == 'vasprun' else Trajectory.from_lammps
        for rnd in ('cold', 'cached'):
            for tag, kw, ref in runs:
                out.evaluations += 1
                got = quiet_call(fn, **kw)
                if ref[0] != 'ok':
                    continue
                if got[0] != 'ok' or not same(traj_sig(got[1]), traj_sig(ref[1])):
                    out.fail('property', 'cache-hit-equals-parse' if rnd == 'cached' else 'load-equals-parse',
                             {'kind': kind, 'sibling_sources': [f'{Path(k["xml_file" if kind == "vasprun" else "coords_file"]).name}' for _, k, _ in runs], 'file': tag, 'round': rnd},
                             expected='the trajectory parsed from this very file', observed=(got[1] if got[0] != 'ok' else 'another trajectory'),
                             note=f'cache files in the directory: {sorted(p.name for p in shared.iterdir() if p.name.endswith(".cache"))}')
                    return
        # the default cache files now in the directory are the ones GModel.CacheName.cacheName names (driver op cachename): file name
        # minus its LAST suffix, template components, an 8-hex hash, 'cache' — exactly one per source file
        import re
        caches = sorted(p.name for p in shared.iterdir() if p.name.endswith('.cache'))
        tmpl = ['xml'] if kind == 'vasprun' else ['xyz']
        unexplained = set(caches)
        for tag, kw, ref in runs:
            if ref[0] != 'ok':
                continue
            src = Path(kw['xml_file' if kind == 'vasprun' else 'coords_file']).name
            comps = src.split('.')
            mine = []
            for c in caches:
                hm = re.search(r'\.([0-9a-f]{8})\.cache$', c)
                if not hm:
                    continue
                want = core.drive1(f'cachename {len(comps)} {" ".join(comps)} {len(tmpl)} {" ".join(tmpl)} {hm.group(1)}').split()[1]
                if want == c:
                    mine.append(c)
            unexplained -= set(mine)
            if not mine:
                # the FORMAT of the default name is not part of the property: a loader that names its cache files differently is not a
                # finding as long as the files stay distinct (checked below); recorded in the evidence
                out.count('cache-name-format-differs-from-model')
        if len(caches) != len([r for r in runs if r[2][0] == 'ok']):
            out.fail('property', 'distinct-default-cache-files', {'kind': kind, 'sources': [Path(k['xml_file' if kind == 'vasprun' else 'coords_file']).name for _, k, _ in runs], 'cache_files': caches},
                     expected='one default cache file per source file', observed=caches)
            return
        out.count(f'sibling-sources-{kind}')
    finally:
        shutil.rmtree(shared, ignore_errors=True)


def run(tier: str, seed: int, scale: int) -> Outcome:
    out = Outcome()
    rng = np.random.default_rng(seed)
    root = tempfile.gettempdir()
    import MDAnalysis
    real_universe = MDAnalysis.Universe
    try:
        check_roundtrip(out, rng, root)
        for _ in range((2 if tier == 'quick' else 10) * scale):
            check_sibling_sources(out, 'vasprun', rng, root)
            check_sibling_sources(out, 'lammps', rng, root)
        for rep in range(2 * scale):
            unwrapped = rep % 2 == 1
            check_loader(out, 'lammps', rng, tier, root, unwrapped)
            check_loader(out, 'vasprun', rng, tier, root, unwrapped)
            MDAnalysis.Universe = mkfiles.FakeUniverse
            try:
                check_loader(out, 'gromacs', rng, tier, root, unwrapped)
            finally:
                MDAnalysis.Universe = real_universe
    finally:
        MDAnalysis.Universe = real_universe
    return out


def replay(case):
    return True, 'C16 cases depend on generated files in a scratch directory: re-run ./check C16 quick with the recorded seed'


SPEC = PropertySpec(
    pid=PID,
    modules=MODULES,
    run=run,
    replay=replay,
    gen=translate.gen_for('CacheKeys', 'CacheNames'),
    rule=('real from_lammps (generated xyz + LAMMPS data file), from_vasprun (generated minimal vasprun.xml) and from_gromacs '
          '(MDAnalysis.Universe stubbed) in scratch directories, once with source coordinates inside the box and once with atoms that left it (unwrapped): parsed positions '
          '= source coordinates modulo the cell; reference = load with no cache present, per argument variant; '
          'argument matrix (temperature, time_step, type_mapping, atom_style, constant_lattice, parser kwargs) loaded twice in random '
          'order with caches present: every load must equal the reference for ITS arguments, variants that parse differently must use '
          'different default cache files; the real cache file truncated at byte k (quick: first/last 48 bytes + 40 random; thorough: '
          'every k) then loaded: result = reference and a complete cache is left behind; empty / text / random / foreign-pickle '
          'content; random fault/recover cycles compared with the Lean loader machine (hit vs re-parse); pickle prefix-freeness and '
          'round trip checked at every tested prefix; to_cache/from_cache identity in both storage modes. Non-trivial: a truncation '
          'strictly inside the file or a fault cycle.'),
    trusted=['pickle is a prefix-free codec with round trip (both hypotheses are checked on the real cache files at every tested prefix length)',
             'the 8-hex SHA-1 digest is injective on the argument sets used',
             'harness/translate.py extraction of the loaders\' signature / keyed / used parameter sets',
             'from_gromacs is exercised with a stub of MDAnalysis.Universe (no GROMACS files can be generated offline)'],
    assumptions=['torn writes other than prefixes, fsync ordering and concurrent loaders are OS behaviour the model does not exhibit (partial)'],
)
