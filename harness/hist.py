"""Site / inner-site histories: exhaustive enumeration, random itineraries,
Python-side specifications, and real trajectories that realise an itinerary."""

from __future__ import annotations

import itertools

import numpy as np

from . import gem

NOSITE = -1


def exhaustive_histories(T: int, n_sites: int = 2, inner_mode: str = 'sub'):
    """All (s, i) histories of length T with s_t in {-1,0..n_sites-1}.

    inner_mode 'eq': i = s (default mode); 'sub': i_t in {-1, s_t}.
    Returned as two int arrays of shape [T, N] (one column per history).
    """
    if inner_mode == 'eq':
        opts = [(s, s) for s in range(-1, n_sites)]
    else:
        opts = [(-1, -1)] + [(s, x) for s in range(n_sites) for x in (-1, s)]
    cols = list(itertools.product(opts, repeat=T))
    arr = np.array(cols, dtype=int)  # [N, T, 2]
    return arr[:, :, 0].T.copy(), arr[:, :, 1].T.copy()


def random_history(rng, T: int, n_sites: int, inner: bool, style: str | None = None):
    """One atom's (s, i) itinerary with dwell segments.

    styles: 'mobile', 'immobile', 'never-inner', 'flicker', 'direct' (site→site without gap)
    """
    style = style or rng.choice(['mobile', 'mobile', 'immobile', 'never-inner', 'flicker', 'direct'])
    s = np.full(T, NOSITE)
    i = np.full(T, NOSITE)
    if style == 'immobile':
        site = int(rng.integers(-1, n_sites))
        s[:] = site
        if inner and site != NOSITE:
            # inner state may flicker while the outer one never changes
            i[:] = np.where(rng.random(T) < 0.7, site, NOSITE)
        else:
            i[:] = site if not inner else NOSITE
        return s, i
    t = 0
    cur = int(rng.integers(-1, n_sites))
    while t < T:
        dwell = int(rng.integers(1, 2 if style == 'flicker' else max(2, T // 6) + 1) + (0 if style == 'flicker' else 0))
        dwell = max(1, dwell)
        end = min(T, t + dwell)
        s[t:end] = cur
        if cur != NOSITE:
            if not inner:
                i[t:end] = cur
            elif style == 'never-inner':
                pass
            else:
                # enter the inner sphere for a sub-interval (maybe), possibly at the segment ends
                mode = rng.integers(4)
                if mode == 0:
                    i[t:end] = cur
                elif mode == 1:
                    a = int(rng.integers(t, end))
                    b = int(rng.integers(a, end)) + 1
                    i[a:b] = cur
                elif mode == 2:
                    i[t:end] = np.where(rng.random(end - t) < 0.5, cur, NOSITE)
        t = end
        if style == 'direct' and rng.random() < 0.7 and cur != NOSITE:
            nxt = int(rng.integers(0, n_sites))
        else:
            nxt = int(rng.integers(-1, n_sites))
        cur = nxt
    return s, i


def random_histories(rng, T: int, n_atoms: int, n_sites: int, inner: bool):
    cols = [random_history(rng, T, n_sites, inner) for _ in range(n_atoms)]
    s = np.stack([c[0] for c in cols], axis=1)
    i = np.stack([c[1] for c in cols], axis=1)
    return s, i


def exclusive(s, i):
    """at most one atom per site and frame (pymatgen rejects occupancies > 1): later atoms yield"""
    s = s.copy()
    i = i.copy()
    for t in range(s.shape[0]):
        seen = set()
        for a in range(s.shape[1]):
            v = s[t, a]
            if v == NOSITE:
                continue
            if v in seen:
                s[t, a] = NOSITE
                i[t, a] = NOSITE
            seen.add(v)
    return s, i


# ---- Python-side specifications (the property's own definitions) ----


def spec_events(s, i):
    """rows (t, s_t, s_t+1, i_t, i_t+1) wherever the site or the inner site changes."""
    s = list(map(int, s))
    i = list(map(int, i))
    return [
        (t, s[t], s[t + 1], i[t], i[t + 1])
        for t in range(len(s) - 1)
        if s[t] != s[t + 1] or i[t] != i[t + 1]
    ]


def spec_default_jumps(s):
    """consecutive distinct entries of the visited-site sequence: (o, d, t0, t1)."""
    out = []
    last = None
    for t, x in enumerate(map(int, s)):
        if x == NOSITE:
            continue
        if last is not None and last[0] != x:
            out.append((last[0], x, last[1], t))
        last = (x, t)
    return out


def spec_ffill(col):
    out = []
    last = NOSITE
    for x in map(int, col):
        if x != NOSITE:
            last = x
        out.append(last)
    return out


def spec_bfill(col):
    return spec_ffill(list(col)[::-1])[::-1]


def nontrivial_history(s, i) -> bool:
    """>= 2 changes and one of: change at first/last frame, direct site→site move,
    return to the same site, inner-only change, (immobile atoms are counted at system level)."""
    s = list(map(int, s))
    i = list(map(int, i))
    T = len(s)
    ch = [t for t in range(T - 1) if s[t] != s[t + 1] or i[t] != i[t + 1]]
    if len(ch) < 2:
        return False
    first_last = 0 in ch or (T - 2) in ch
    direct = any(s[t] != s[t + 1] and s[t] != NOSITE and s[t + 1] != NOSITE for t in range(T - 1))
    inner_only = any(s[t] == s[t + 1] and i[t] != i[t + 1] for t in range(T - 1))
    visited = [x for x in s if x != NOSITE]
    collapsed = [x for k, x in enumerate(visited) if k == 0 or visited[k - 1] != x]
    # return to the same site through "no site"
    ret = False
    lastv = None
    gap = False
    for x in s:
        if x == NOSITE:
            gap = True
        else:
            if lastv is not None and gap and lastv == x:
                ret = True
            lastv = x
            gap = False
    return first_last or direct or inner_only or ret or len(collapsed) >= 3


# ---- real trajectories realising an itinerary (public-API path) ----

SITE_POOL = np.array(
    [
        [0.125, 0.125, 0.125],
        [0.625, 0.125, 0.125],
        [0.125, 0.625, 0.125],
        [0.125, 0.125, 0.625],
        [0.625, 0.625, 0.125],
        [0.625, 0.125, 0.625],
        [0.125, 0.625, 0.625],
        [0.625, 0.625, 0.625],
    ]
)
VOID = np.array([0.375, 0.375, 0.375])


def realise(states, inner, radius=1.0, inner_fraction=0.5, a=8.0, shift=None):
    """Cubic cell of edge `a` Å, sites from SITE_POOL (4 Å apart), atoms placed at the
    site centre (inner), 0.75 Å off-centre (outer only) or at VOID (no site).

    Returns (trajectory, sites_structure, kwargs for transitions_between_sites)."""
    states = np.asarray(states)
    inner = np.asarray(inner)
    T, A = states.shape
    n_sites = int(max(states.max(), 0)) + 1
    n_sites = max(n_sites, 2)
    lat = np.eye(3) * a
    coords = np.zeros((T, A, 3))
    off = np.array([0.75 / a, 0, 0])
    for t in range(T):
        for k in range(A):
            s = states[t, k]
            if s == NOSITE:
                coords[t, k] = VOID
            elif inner[t, k] == s:
                coords[t, k] = SITE_POOL[s]
            else:
                coords[t, k] = SITE_POOL[s] + off
    site_coords = SITE_POOL[:n_sites].copy()
    if shift is not None:
        coords = coords + shift
        site_coords = np.mod(site_coords + shift, 1)
    # one framework atom so that the full trajectory has a second species
    fw = np.zeros((T, 1, 3)) + np.array([0.875, 0.875, 0.875])
    allc = np.concatenate([coords, fw], axis=1)
    traj = gem.make_traj(allc, lat, ['Li'] * A + ['O'])
    sites = gem.make_sites(lat, site_coords)
    kw = dict(floating_specie='Li', site_radius=float(radius), site_inner_fraction=float(inner_fraction))
    return traj, sites, kw
