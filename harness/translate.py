"""Regenerate lean/GGen/*.lean from /repo's current source (AST extraction of table-like code).

  Moves.lean     neighbour-move tables of path.free_energy_graph (C10)
  CacheKeys.lean per loader: parameters of the signature, parameters that reach the cache file
                 name, parameters the parser reads (C16)
  Consts.lean    literal constants the theorems mention

Returns (ok, log).  An extraction that no longer parses is a broken obligation.
"""

from __future__ import annotations

import ast
from pathlib import Path

class Untranslatable(Exception):
    pass


REPO_SRC = Path('/repo/src/gemdat')
GGEN = Path(__file__).resolve().parents[1] / 'lean' / 'GGen'


def _tuples(node) -> list[tuple[int, ...]]:
    """literal `np.array([(..), (..)])` or list of tuples -> list of int tuples"""
    if isinstance(node, ast.Call):
        node = node.args[0]
    out = []
    for elt in node.elts:
        out.append(tuple(int(ast.literal_eval(e)) for e in elt.elts))
    return out


def extract_moves():
    tree = ast.parse((REPO_SRC / 'path.py').read_text())
    fn = next(n for n in ast.walk(tree) if isinstance(n, ast.FunctionDef) and n.name == 'free_energy_graph')
    face = diag = None
    for n in ast.walk(fn):
        if isinstance(n, ast.Assign) and len(n.targets) == 1 and isinstance(n.targets[0], ast.Name):
            if n.targets[0].id == 'movements' and face is None and isinstance(n.value, ast.Call) and n.value.args and isinstance(n.value.args[0], ast.List):
                face = _tuples(n.value)
            if n.targets[0].id == 'diagonal_movements':
                diag = _tuples(n.value)
    if face is None or diag is None:
        raise ValueError('movement tables not found in free_energy_graph')
    return face, diag


def lean_triples(ts):
    return '[' + ', '.join('(' + ', '.join(str(v) for v in t) + ')' for t in ts) + ']'


def loader_info():
    """per loader: signature params, params used to build the default cache name, params read after the cache lookup"""
    tree = ast.parse((REPO_SRC / 'trajectory.py').read_text())
    cls = next(n for n in tree.body if isinstance(n, ast.ClassDef) and n.name == 'Trajectory')
    info = {}
    for fn in cls.body:
        if isinstance(fn, ast.FunctionDef) and fn.name in ('from_vasprun', 'from_lammps', 'from_gromacs'):
            params = [a.arg for a in fn.args.args + fn.args.kwonlyargs if a.arg not in ('cls', 'cache')]
            if fn.args.kwarg:
                params.append('**' + fn.args.kwarg.arg)
            # keyed: names that flow into the `if not cache:` block (dict literal keys / json.dumps(kwargs) / with_suffix f-string)
            keyed = set()
            cache_if = None
            for n in fn.body:
                if isinstance(n, ast.If) and isinstance(n.test, ast.UnaryOp) and isinstance(n.test.operand, ast.Name) and n.test.operand.id == 'cache':
                    cache_if = n
                    break
            if cache_if is None:
                raise ValueError(f'{fn.name}: `if not cache:` block not found')
            for n in ast.walk(cache_if):
                if isinstance(n, ast.Name) and (n.id in params or '**' + n.id in params):
                    keyed.add(n.id if n.id in params else '**' + n.id)
            # the path arguments always take part (file name stem)
            # used by the parser: names read after the cache-lookup `if Path(cache).exists()` statement
            idx = fn.body.index(cache_if)
            used = set()
            for n in fn.body[idx + 1:]:
                for m in ast.walk(n):
                    if isinstance(m, ast.Name) and isinstance(m.ctx, ast.Load) and (m.id in params or '**' + m.id in params):
                        used.add(m.id if m.id in params else '**' + m.id)
            info[fn.name] = (params, sorted(keyed), sorted(used))
    if len(info) != 3:
        raise ValueError(f'loaders found: {sorted(info)}')
    return info


def loader_names_info():
    """per loader: what is HASHED into the default cache name, what is written into the suffix TEMPLATE, and which parameter's file
    name CARRIES the template (`Path(x).with_suffix(...)` keeps all but the last suffix of x)"""
    tree = ast.parse((REPO_SRC / 'trajectory.py').read_text())
    cls = next(n for n in tree.body if isinstance(n, ast.ClassDef) and n.name == 'Trajectory')
    info = {}
    for fn in cls.body:
        if isinstance(fn, ast.FunctionDef) and fn.name in ('from_vasprun', 'from_lammps', 'from_gromacs'):
            params = [a.arg for a in fn.args.args + fn.args.kwonlyargs if a.arg not in ('cls', 'cache')]
            if fn.args.kwarg:
                params.append('**' + fn.args.kwarg.arg)
            cache_if = next((n for n in fn.body if isinstance(n, ast.If) and isinstance(n.test, ast.UnaryOp) and isinstance(n.test.operand, ast.Name)
                             and n.test.operand.id == 'cache'), None)
            if cache_if is None:
                raise Untranslatable(f'{fn.name}: `if not cache:` block not found')
            hashed = set()
            assigns = {n.targets[0].id: n.value for n in ast.walk(cache_if) if isinstance(n, ast.Assign) and len(n.targets) == 1 and isinstance(n.targets[0], ast.Name)}
            if 'serialized' in assigns:
                hashed_expr = assigns['serialized']
            elif 'hashid' in assigns and isinstance(assigns['hashid'], ast.Call) and len(assigns['hashid'].args) == 1 and not assigns['hashid'].keywords:
                hashed_expr = assigns['hashid'].args[0]  # `hashid = <helper>(<what is hashed>)`
            else:
                raise Untranslatable(f'{fn.name}: neither `serialized = json.dumps(...)` nor `hashid = <helper>(<dict>)` in the `if not cache:` block')
            local_dicts = {k: v for k, v in assigns.items() if isinstance(v, ast.Dict)}

            def names_in(node, depth=0):
                for m in ast.walk(node):
                    if isinstance(m, ast.Name) and isinstance(m.ctx, ast.Load):
                        if m.id in local_dicts and depth < 3:
                            names_in(local_dicts[m.id], depth + 1)
                        elif m.id in params:
                            hashed.add(m.id)
                        elif '**' + m.id in params:
                            hashed.add('**' + m.id)
            names_in(hashed_expr)
            templated, carrier = set(), None
            val = assigns.get('cache')
            if (isinstance(val, ast.Call) and isinstance(val.func, ast.Attribute) and val.func.attr == 'with_suffix'
                    and len(val.args) == 1 and isinstance(val.args[0], ast.JoinedStr)):
                for m in ast.walk(val.args[0]):
                    if isinstance(m, ast.Name) and m.id in params:
                        templated.add(m.id)
                base = val.func.value
                if isinstance(base, ast.Call) and ast.unparse(base.func) == 'Path' and len(base.args) == 1 and isinstance(base.args[0], ast.Name):
                    carrier = base.args[0].id
            if carrier is None:
                raise Untranslatable(f'{fn.name}: default cache name is not `Path(<file parameter>).with_suffix(f"...")`')
            info[fn.name] = (sorted(hashed), sorted(templated), carrier)
    if len(info) != 3:
        raise Untranslatable(f'loaders found: {sorted(info)}')
    return info


def lean_strs(xs):
    return '[' + ', '.join('"' + x + '"' for x in xs) + ']'


def extract_consts():
    src = (REPO_SRC / 'shape.py').read_text()
    tree = ast.parse(src)
    bins = None
    for n in ast.walk(tree):
        if isinstance(n, ast.keyword) and n.arg == 'bins' and isinstance(n.value, ast.List):
            try:
                bins = [float(ast.literal_eval(e)) for e in n.value.elts]
            except Exception:  # noqa: BLE001
                pass
    return {'reimage_bins': bins}


# ---- C04: the event -> jump loop body, statement by statement ----

FIELD = {'start site': 'start_site', 'destination site': 'destination_site', 'start inner site': 'start_inner_site',
         'destination inner site': 'destination_inner_site', 'start time': 'start_time', 'stop time': 'stop_time',
         'atom index': 'atom_index'}
CMP = {ast.NotEq: '≠', ast.Eq: '=', ast.GtE: '≥', ast.Gt: '>', ast.Lt: '<', ast.LtE: '≤'}
STATE_VARS = ('fromevent', 'candidate_jump')
ALIASES: set = set()  # read-only local names introduced inside the loop body (`destination = event['destination site']`)




def _expr(node, bound):
    if isinstance(node, ast.Subscript) and isinstance(node.value, ast.Name) and isinstance(node.slice, ast.Constant):
        nm = node.value.id
        if nm in STATE_VARS:
            if nm not in bound:
                raise Untranslatable(f'{nm}[...] read outside an `is not None` guard')
            nm = nm + '_v'
        return f'{nm}.{FIELD[node.slice.value]}'
    if isinstance(node, ast.Name):
        if node.id == 'minimal_residence':
            return 'mr'
        if node.id in ALIASES:
            return node.id
        raise Untranslatable(f'name {node.id}')
    if isinstance(node, ast.BoolOp) and isinstance(node.op, (ast.And, ast.Or)):
        op = ' ∧ ' if isinstance(node.op, ast.And) else ' ∨ '
        return '(' + op.join(_expr(v, bound) for v in node.values) + ')'
    if isinstance(node, ast.Constant) and isinstance(node.value, int):
        return f'({node.value})'
    if isinstance(node, ast.UnaryOp) and isinstance(node.op, ast.USub):
        return f'(-{_expr(node.operand, bound)})'
    if isinstance(node, ast.BinOp) and isinstance(node.op, (ast.Sub, ast.Add)):
        op = '-' if isinstance(node.op, ast.Sub) else '+'
        return f'({_expr(node.left, bound)} {op} {_expr(node.right, bound)})'
    if isinstance(node, ast.Compare) and len(node.ops) == 1 and type(node.ops[0]) in CMP:
        return f'{_expr(node.left, bound)} {CMP[type(node.ops[0])]} {_expr(node.comparators[0], bound)}'
    raise Untranslatable(ast.dump(node)[:80])


def _is_not_none(test):
    return (isinstance(test, ast.Compare) and len(test.ops) == 1 and isinstance(test.ops[0], ast.IsNot)
            and isinstance(test.left, ast.Name) and test.left.id in STATE_VARS
            and isinstance(test.comparators[0], ast.Constant) and test.comparators[0].value is None)


def _stmts(body, ind, bound, lines):
    for st in body:
        pad = '  ' * ind
        if isinstance(st, ast.If):
            _if(st, ind, bound, lines, first=True)
        elif isinstance(st, ast.Assign) and len(st.targets) == 1:
            tg, val = st.targets[0], st.value
            if isinstance(tg, ast.Name) and tg.id in STATE_VARS:
                if isinstance(val, ast.Constant) and val.value is None:
                    lines.append(f'{pad}{tg.id} := none')
                elif isinstance(val, ast.Name) and val.id == 'event':
                    lines.append(f'{pad}{tg.id} := some event')
                else:
                    raise Untranslatable(ast.dump(st)[:80])
            elif (isinstance(tg, ast.Name) and tg.id not in ('event', 'jumps', 'events', 'minimal_residence') and tg.id.isidentifier()
                  and tg.id not in ALIASES and not tg.id.endswith('_v')):
                # a local name for a value read from the rows (assigned once, never reassigned): `let`
                lines.append(f'{pad}let {tg.id} := {_expr(val, bound)}')
                ALIASES.add(tg.id)
            elif (isinstance(tg, ast.Subscript) and isinstance(tg.value, ast.Name) and tg.value.id == 'event'
                  and isinstance(tg.slice, ast.Constant)):
                lines.append(f'{pad}event := {{ event with {FIELD[tg.slice.value]} := {_expr(val, bound)} }}')
            else:
                raise Untranslatable(ast.dump(st)[:80])
        elif (isinstance(st, ast.Expr) and isinstance(st.value, ast.Call) and isinstance(st.value.func, ast.Attribute)
              and st.value.func.attr == 'append' and isinstance(st.value.func.value, ast.Name) and st.value.func.value.id == 'jumps'):
            arg = st.value.args[0]
            if isinstance(arg, ast.Name) and arg.id == 'event':
                lines.append(f'{pad}jumps := jumps ++ [event]')
            elif isinstance(arg, ast.Name) and arg.id in STATE_VARS and arg.id in bound:
                lines.append(f'{pad}jumps := jumps ++ [{arg.id}_v]')
            else:
                raise Untranslatable(ast.dump(st)[:80])
        else:
            raise Untranslatable(ast.dump(st)[:80])


def _if(node, ind, bound, lines, first):
    pad = '  ' * ind
    kw = 'if' if first else 'else if'
    if _is_not_none(node.test):
        v = node.test.left.id
        lines.append(f'{pad}{kw} let some {v}_v := {v} then')
        _stmts(node.body, ind + 1, bound | {v}, lines)
    else:
        lines.append(f'{pad}{kw} {_expr(node.test, bound)} then')
        _stmts(node.body, ind + 1, bound, lines)
    if node.orelse:
        if len(node.orelse) == 1 and isinstance(node.orelse[0], ast.If):
            _if(node.orelse[0], ind, bound, lines, first=False)
        else:
            lines.append(f'{pad}else')
            _stmts(node.orelse, ind + 1, bound, lines)


def extract_jump_step():
    tree = ast.parse((REPO_SRC / 'jumps.py').read_text())
    fn = next(n for n in ast.walk(tree) if isinstance(n, ast.FunctionDef) and n.name == '_generic_transitions_to_jumps')
    loops = [n for n in ast.walk(fn) if isinstance(n, ast.For) and isinstance(n.iter, ast.Call)
             and isinstance(n.iter.func, ast.Attribute) and n.iter.func.attr == 'iterrows']
    if len(loops) != 1:
        raise Untranslatable(f'{len(loops)} iterrows loops found')
    lines = []
    ALIASES.clear()
    _stmts(loops[0].body, 1, set(), lines)
    head = ('/-! GENERATED by harness/translate.py from src/gemdat/jumps.py (_generic_transitions_to_jumps, the body of the\n'
            '`for _, event in events.iterrows()` loop, statement by statement) — do not edit -/\n'
            'namespace G.Gen\n\n'
            '/-- one row of the event table as the loop sees it (a pandas Series) -/\n'
            'structure Row where\n  atom_index : Int\n  start_site : Int\n  destination_site : Int\n  start_inner_site : Int\n'
            '  destination_inner_site : Int\n  start_time : Int\n  stop_time : Int\nderiving Repr, DecidableEq, Inhabited\n\n'
            'def jumpStep (mr : Int) (fromevent0 candidate_jump0 : Option Row) (jumps0 : List Row) (event0 : Row) :\n'
            '    Option Row × Option Row × List Row := Id.run do\n'
            '  let mut fromevent := fromevent0\n  let mut candidate_jump := candidate_jump0\n  let mut jumps := jumps0\n  let mut event := event0\n')
    tail = '  return (fromevent, candidate_jump, jumps)\n\nend G.Gen\n'
    return head + '\n'.join(lines) + '\n' + tail


# ---- C12: the guard chain of the pair scan in Collective._compute ----

def extract_pair_guard():
    tree = ast.parse((REPO_SRC / 'collective.py').read_text())
    fn = next(n for n in ast.walk(tree) if isinstance(n, ast.FunctionDef) and n.name == '_compute')
    inner = None
    for n in ast.walk(fn):
        if isinstance(n, ast.For) and any(isinstance(m, ast.For) for m in n.body):
            inner = next(m for m in n.body if isinstance(m, ast.For))
            break
    if inner is None:
        raise Untranslatable('nested pair loop not found in Collective._compute')
    names = {'event_i': 'ei', 'event_j': 'ej'}

    def ex(node):
        if isinstance(node, ast.Subscript) and isinstance(node.value, ast.Name) and node.value.id in names and isinstance(node.slice, ast.Constant):
            return f'{names[node.value.id]}.{FIELD[node.slice.value]}'
        if isinstance(node, ast.Name) and node.id == 'max_steps':
            return 'ms'
        if isinstance(node, ast.BinOp) and isinstance(node.op, ast.Sub):
            return f'({ex(node.left)} - {ex(node.right)})'
        if isinstance(node, ast.Compare) and len(node.ops) == 1 and type(node.ops[0]) in CMP:
            return f'{ex(node.left)} {CMP[type(node.ops[0])]} {ex(node.comparators[0])}'
        raise Untranslatable(ast.dump(node)[:80])

    guards = []
    for st in inner.body:
        if isinstance(st, ast.If) and len(st.body) == 1 and isinstance(st.body[0], (ast.Continue, ast.Break)) and not st.orelse:
            guards.append((ex(st.test), 'cont' if isinstance(st.body[0], ast.Continue) else 'brk'))
        else:
            break
    if not guards:
        raise Untranslatable('no guard statements at the top of the pair loop')
    body = ''.join(f'  if {c} then .{a} else\n' for c, a in guards) + '  .test\n'
    return ('/-! GENERATED by harness/translate.py from src/gemdat/collective.py (Collective._compute, the guard statements at the\n'
            'top of the inner pair loop, in order) — do not edit -/\n'
            'namespace G.Gen\n\n'
            'structure PRow where\n  atom_index : Int\n  start_site : Int\n  destination_site : Int\n  start_time : Int\n  stop_time : Int\n'
            'deriving Repr, DecidableEq\n\n'
            '/-- what the loop does with the pair before any distance is computed -/\n'
            'inductive Act where\n  | cont | brk | test\nderiving Repr, DecidableEq\n\n'
            'def pairGuard (ms : Int) (ei ej : PRow) : Act :=\n' + body + '\nend G.Gen\n')


def _slice_moves():
    face, diag = extract_moves()
    return ('/-! GENERATED by harness/translate.py from src/gemdat/path.py (free_energy_graph) — do not edit -/\n'
            'namespace G.Gen\n'
            f'def movesFace : List (Int × Int × Int) := {lean_triples(face)}\n'
            f'def movesDiag : List (Int × Int × Int) := {lean_triples(diag)}\n'
            'end G.Gen\n')


def _slice_cache_keys():
    info = loader_info()
    lines = ['/-! GENERATED by harness/translate.py from src/gemdat/trajectory.py (loaders) — do not edit -/', 'namespace G.Gen']
    for name, (params, keyed, used) in sorted(info.items()):
        lines.append(f'def {name}_params : List String := {lean_strs(params)}')
        lines.append(f'def {name}_keyed : List String := {lean_strs(keyed)}')
        lines.append(f'def {name}_used : List String := {lean_strs(used)}')
    lines.append('end G.Gen')
    return '\n'.join(lines) + '\n'


def _slice_cache_names():
    info = loader_names_info()
    lines = ['/-! GENERATED by harness/translate.py from src/gemdat/trajectory.py (loaders: how the default cache file name is built) — do not edit -/',
             'namespace G.Gen']
    for name, (hashed, templated, carrier) in sorted(info.items()):
        lines.append(f'def {name}_hashed : List String := {lean_strs(hashed)}')
        lines.append(f'def {name}_templated : List String := {lean_strs(templated)}')
        lines.append(f'def {name}_carrier : String := "{carrier}"')
    lines.append('end G.Gen')
    return '\n'.join(lines) + '\n'


STRUCTURAL = {'Moves': _slice_moves, 'CacheKeys': _slice_cache_keys, 'CacheNames': _slice_cache_names, 'JumpStep': extract_jump_step, 'PairGuard': extract_pair_guard}


def generate(names=None) -> tuple[bool, str]:
    """(re)write lean/GGen/<name>.lean for the named slices (default: all) from /repo's current source.
    Slices are independent: one that cannot be translated is written as a stub without definitions (so exactly the proof
    modules stating its obligations stop building) and makes the result not-ok for the checks that asked for it."""
    from . import formulas
    GGEN.mkdir(exist_ok=True)
    names = list(names) if names is not None else list(STRUCTURAL) + list(formulas.SLICES)
    ok, log = True, []
    generate.failed = {}
    for nm in names:
        if nm in STRUCTURAL:
            try:
                _write(GGEN / f'{nm}.lean', STRUCTURAL[nm]())
                log.append(f'{nm}: ok')
            except Exception as e:  # noqa: BLE001
                ok = False
                generate.failed[nm] = f'{type(e).__name__}: {e}'
                _write(GGEN / f'{nm}.lean', formulas.stub(f'{nm}: {type(e).__name__}: {e}'))
                log.append(f'{nm}: {type(e).__name__}: {e}')
        else:
            good, text, msg = formulas.render(nm)
            _write(GGEN / f'{nm}.lean', text)
            ok = ok and good
            if not good:
                generate.failed[nm] = msg
            log.append(msg if not good else f'{nm}: ok')
    return ok, '; '.join(log)


generate.failed = {}

# slice -> the proof modules that state obligations about it AND nothing else.  When such a slice can no longer be translated (the code
# was rewritten in a way the translator does not understand) these modules are left out of the run: the property is then carried by the
# hand-written model, its theorems and the correspondence check alone, exactly as for the code that was never translated, the check says
# so in a SLICE-NOTE line and searches for a failing input with the enlarged budget.  Slices whose definitions are used inside a property's
# main proof module (Moves -> C10, CacheKeys -> C16) are not listed: for them an untranslatable source is a broken obligation.
SLICE_MODULES = {
    'JumpStep': ['GProofs.C04Gen'], 'PairGuard': ['GProofs.C12Gen'], 'CacheNames': ['GProofs.C16Names'],
    'FormulasC01': ['GProofs.C01Gen'], 'FormulasC02': ['GProofs.C02Gen'], 'FormulasC05': ['GProofs.C05Gen'], 'FormulasC06': ['GProofs.C06Gen'],
    'FormulasC08': ['GProofs.C08Gen'], 'FormulasC09': ['GProofs.C09Gen'], 'FormulasC10': ['GProofs.C10Gen'], 'FormulasC11': ['GProofs.C11Gen'],
    'FormulasC12': ['GProofs.C12Win'], 'FormulasC14': ['GProofs.C14Gen'], 'FormulasC17': ['GProofs.C17Gen'], 'FormulasC18': ['GProofs.C18Gen'],
    'FormulasC19': ['GProofs.C19Gen'], 'FormulasC20': ['GProofs.C20Gen'],
}


def gen_for(*names):
    f = lambda: generate(names)  # noqa: E731
    f.slices = names
    return f


def _write(path: Path, text: str):
    if not path.exists() or path.read_text() != text:
        path.write_text(text)


if __name__ == '__main__':
    ok, log = generate()
    print(ok, log)
