"""C11 — radial distributions equal brute-force histograms and partition over states."""

from __future__ import annotations

import json
import math
import warnings
from collections import defaultdict
from fractions import Fraction

import numpy as np
from pymatgen.core import Lattice

from . import core, gem, hist, trajsc, translate
from .core import Outcome, PropertySpec, enc

from gemdat.rdf import radial_distribution, radial_distribution_between_species  # noqa: E402
from gemdat.transitions import Transitions, _calculate_transition_events  # noqa: E402

PID = 'C11'
MODULES = ['GProofs.Geometry', 'GProofs.C11', 'GProofs.C11Gen', 'GProofs.C11Names']


def gen_case(rng, long_run=False):
    name, lat = gem.lattice_pool(rng)
    T = int(rng.integers(2, 7)) if not long_run else int(rng.integers(1001, 1400))
    nLi = int(rng.integers(1, 4))
    others = [str(rng.choice(['O', 'S'])) for _ in range(int(rng.integers(1, 4)))]
    species = ['Li'] * nLi + sorted(others)
    A = len(species)
    coords = trajsc.rand_coords(rng, T, A, lo=0, hi=1)
    n_sites = int(rng.integers(2, 5))
    labels = ['A' if k % 2 == 0 else 'B' for k in range(n_sites)]
    r_ = rng.random()
    if r_ < 0.3:
        labels = ['A', 'B', 'C', 'A'][:n_sites]
    elif r_ < 0.6:
        # many distinct labels: the iteration order of a set of strings changes from process to process (hash randomisation); with
        # five or six names it practically never coincides with the sorted order
        n_sites = int(rng.integers(5, 7))
        labels = [str(x) for x in rng.permutation(['A', 'B', 'C', 'D', 'E', 'F'])[:n_sites]]
    s, _ = hist.exclusive(*hist.random_histories(rng, T, nLi, n_sites, inner=False))
    grid = rng.permutation(512)[:n_sites]
    site_coords = [[(g // 64) / 8, ((g // 8) % 8) / 8, (g % 8) / 8] for g in grid]
    return {'lattice_name': name, 'lattice': lat.tolist(), 'species': species, 'coords': coords.tolist(), 'states': s.T.tolist(),
            'labels': labels, 'sites': site_coords, 'resolution': float(rng.choice([0.25, 0.5, 1.0, 0.3, 0.7, 1.1])),
            'max_dist': float(rng.choice([2.0, 3.5, 5.0, 3.3, 4.0])),
            # read-only queries made between building the transitions and asking for the RDF (they switch the
            # internal representation of the queried trajectory object)
            # the same element in two oxidation states (decorated Species): still ONE symbol for the RDF
            'oxidation_states': bool(rng.random() < 0.3),
            'queries_before': [q for q in ('diff-displacements', 'full-displacements', 'diff-metrics') if rng.random() < 0.3]}


def label_pipeline(states, labels):
    """what the statement says: per (frame, atom) the label of the current site (or None), of the most
    recent and of the next site"""
    T, A = states.shape
    cur = [[None] * A for _ in range(T)]
    prv = [[None] * A for _ in range(T)]
    nxt = [[None] * A for _ in range(T)]
    for a in range(A):
        f = hist.spec_ffill(states[:, a])
        b = hist.spec_bfill(states[:, a])
        for t in range(T):
            cur[t][a] = labels[states[t, a]] if states[t, a] >= 0 else None
            prv[t][a] = labels[f[t]] if f[t] >= 0 else None
            nxt[t][a] = labels[b[t]] if b[t] >= 0 else None
    return cur, prv, nxt


def state_name(c, p, n):
    if c is not None:
        return '@' + c
    if p is None or n is None:
        return '~>'
    return p + '->' + n


def check_state_names(out: Outcome, labels, case):
    """correspondence for GModel.RdfNames (theorems C11Names): the dictionary the code files the per-state counts under, on every
    code that can occur (on a site: previous = next = that site; off-site: any previous / next), equals the model's"""
    try:
        from gemdat.rdf import _get_states
    except ImportError:
        out.count('state-name-helper-absent')
        return
    if any((not lab) or any(ch.isspace() for ch in lab) for lab in labels):
        return
    u = list(set(labels))
    toks = core.drive1(f'rdfnames {len(u)} ' + ' '.join(u)).split()
    assert toks[0] == 'ok', toks[:3]
    model = {int(toks[1 + 2 * k]): toks[2 + 2 * k] for k in range((len(toks) - 1) // 2)}
    try:
        impl = {int(k): v for k, v in _get_states(labels).items()}
    except Exception as e:  # noqa: BLE001
        # a private helper: called differently after a rewrite is not a finding (the names the user sees are compared through the counts)
        out.count(f'state-name-helper-not-callable:{type(e).__name__}')
        return
    n = len(u)
    codes = [i * 10**6 + i * 10**3 + i for i in range(n)] + [-10**6 + j * 10**3 + k for j in range(-1, n) for k in range(-1, n)]
    for c in codes:
        want, got = model.get(c), impl.get(c)
        same = (want == got) if not (want or '').startswith('~>') else (got or '').startswith('~>')
        if not same:
            out.fail('correspondence', 'model-state-names', {**case, 'unique_labels': u, 'code': c}, expected=want, observed=got)
            return
    out.count('state-names-agree')


def check_case(out: Outcome, case, tag):
    check_state_names(out, case['labels'], case)
    lat = np.array(case['lattice'], float)
    species = case['species']
    coords = np.array(case['coords'], float)
    states = np.array(case['states']).T
    labels = case['labels']
    res, md = case['resolution'], case['max_dist']
    T, A, _ = coords.shape
    nLi = species.count('Li')
    out.evaluations += 1
    bins = np.arange(0, md + res, res)
    nb = len(bins)
    if case.get('oxidation_states'):
        from pymatgen.core import Species
        ox = {'Li': (1, 1), 'O': (-2, -1), 'S': (-2, 4)}
        traj = gem.make_traj(coords, lat, [Species(sym, ox[sym][k % 2]) for k, sym in enumerate(species)])
    else:
        traj = gem.make_traj(coords, lat, species)
    sites = gem.make_sites(lat, case['sites'], labels=labels)
    try:
        events = _calculate_transition_events(atom_sites=states, atom_inner_sites=states)
    except ValueError:
        events = None
    tr = Transitions(trajectory=traj, diff_trajectory=traj.filter('Li'), sites=sites, events=events, states=states, inner_states=states)
    with warnings.catch_warnings():
        warnings.simplefilter('ignore')
        for q in case.get('queries_before', []):
            if q == 'diff-displacements':
                _ = tr.diff_trajectory.displacements
            elif q == 'full-displacements':
                _ = tr.trajectory.displacements
            elif q == 'diff-metrics' and T >= 3:
                _ = tr.diff_trajectory.metrics().speed()
        rdfs = radial_distribution(transitions=tr, floating_specie='Li', max_dist=md, resolution=res)
    got = defaultdict(lambda: np.zeros(nb, dtype=int))
    for state, coll in rdfs.items():
        for r in coll:
            key = ('~>' if state.startswith('~>') else state, r.label)
            if len(r.y) != nb or len(r.x) != nb:
                out.fail('property', 'rdf-array-length', case, expected=nb, observed=[len(r.x), len(r.y)])
                return
            got[key] = got[key] + np.array(r.y, dtype=int)
    # specification: exact minimum-image distances from the model, names from the label pipeline
    cur, prv, nxt = label_pipeline(states, labels)
    names = sorted({state_name(cur[t][a], prv[t][a], nxt[t][a]) for t in range(T) for a in range(nLi)})
    code_of = {n: k for k, n in enumerate(names)}
    symbols = sorted(set(species))
    sym_of = [symbols.index(s) for s in species]
    frames = []
    pos = np.array(traj.positions)
    for t in range(T):
        cs = ' '.join(enc(v) for v in pos[t].reshape(-1).tolist())
        codes = ' '.join(str(code_of[state_name(cur[t][a], prv[t][a], nxt[t][a])]) for a in range(nLi))
        frames.append(cs + ' ' + codes)
    line = (f'rdf {gem.enc_m3(lat)} {enc(res)} {nb} {A} ' + ' '.join(map(str, sym_of)) + f' {nLi} ' + ' '.join(map(str, range(nLi)))
            + f' {T} ' + ' '.join(frames))
    r = core.drive1(line).split()[1:]
    want = defaultdict(lambda: np.zeros(nb + 1, dtype=int))
    for k in range(0, len(r), 4):
        code, sym, b, cnt = int(r[k]), int(r[k + 1]), int(r[k + 2]), int(r[k + 3])
        want[(names[code], symbols[sym])][b] += cnt
    total_pairs = sum(int(v.sum()) for v in want.values())
    if total_pairs != T * nLi * A:
        out.fail('correspondence', 'model-partition', case, expected=T * nLi * A, observed=total_pairs)
    # margin: a distance within 1e-9 of a bin edge without being exactly on it is not decided
    L = Lattice(lat)
    d = np.concatenate([L.get_all_distances(pos[t][:nLi], pos[t]).reshape(-1) for t in range(T)])
    near = np.abs(d[:, None] - bins[None, :])
    # (for a bin width that is not a dyadic number the float edges k*res are not the exact multiples: a distance ON such an edge is
    #  not decided either)
    dyadic_res = float(res * 1024).is_integer()
    if np.any((near < 1e-9) & ((near > 0) | (not dyadic_res))):
        out.count('skipped-margin')
        return
    keys = set(got) | {k for k, v in want.items() if v[:nb].sum() > 0}
    for key in sorted(keys):
        g = got.get(key, np.zeros(nb, dtype=int))
        w = want.get(key, np.zeros(nb + 1, dtype=int))[:nb]
        if not np.array_equal(g, w):
            clause = 'per-state-counts'
            # was the total over states right (then only the state attribution is wrong)?
            tot_g = sum(v for k, v in got.items() if k[1] == key[1])
            tot_w = sum(v[:nb] for k, v in want.items() if k[1] == key[1])
            note = 'state-attribution-only' if np.array_equal(tot_g, tot_w) else 'pair-counts'
            out.fail('property', clause, case, expected={str(k): v[:nb].tolist() for k, v in want.items() if k[1] == key[1]},
                     observed={str(k): v.tolist() for k, v in got.items() if k[1] == key[1]}, note=note)
            break
    within = sum(int(v[:nb].sum()) for v in want.values())
    if sum(int(v.sum()) for v in got.values()) != within:
        out.fail('property', 'every-pair-in-exactly-one-state-and-bin', case, expected=within, observed=sum(int(v.sum()) for v in got.values()))
    # between species: raw pair counts, shell normalisation, symmetry
    sp2 = [s for s in symbols if s != 'Li']
    for other in sp2[:1]:
        counts = {}
        for a_, b_ in (('Li', other), (other, 'Li')):
            with warnings.catch_warnings():
                warnings.simplefilter('ignore')
                rd = radial_distribution_between_species(trajectory=traj, specie_1=a_, specie_2=b_, max_dist=md, resolution=res)
            n2 = species.count(b_)
            norm = (n2 / L.volume) * (4 / 3) * np.pi * ((bins[:-1] + res) ** 3 - bins[:-1] ** 3)
            if len(rd.y) != nb - 1 or len(rd.x) != nb - 1:
                out.fail('property', 'between-species-histogram', {**case, 'pair': [a_, b_]}, expected=f'{nb - 1} shells up to the cut-off {md}',
                         observed=f'{len(rd.y)} shells, the last one starting at {float(np.asarray(rd.x)[-1]) if len(rd.x) else None}')
                continue
            raw = np.array(rd.y) * norm
            ia = [k for k, s in enumerate(species) if s == a_]
            ib = [k for k, s in enumerate(species) if s == b_]
            fr = ' '.join(' '.join(enc(v) for v in pos[t][ia].reshape(-1).tolist()) + ' ' + ' '.join(enc(v) for v in pos[t][ib].reshape(-1).tolist())
                          for t in range(T))
            m = core.drive1(f'hist {gem.enc_m3(lat)} {enc(res)} {nb} {len(ia)} {len(ib)} {T} {fr}')
            mc = np.array(list(map(int, m.split('|')[0].split()[1:])), dtype=int)
            if len(rd.y) != nb - 1 or not np.allclose(raw, mc, rtol=1e-9, atol=1e-9):
                out.fail('property', 'between-species-histogram', {**case, 'pair': [a_, b_]}, expected=mc.tolist(), observed=np.round(raw, 6).tolist())
            counts[(a_, b_)] = np.rint(raw).astype(int)
        if len(counts) == 2 and not np.array_equal(*counts.values()):
            out.fail('property', 'between-species-symmetric', case, expected=counts[('Li', other)].tolist(), observed=counts[(other, 'Li')].tolist())
    transit = any(c is None for row in cur for c in row[:nLi])
    overflow = any(int(v[nb]) > 0 for v in want.values())
    if len(set(labels)) >= 2 and transit and overflow:
        out.nontrivial.add(json.dumps(case, sort_keys=True))
    if len(out.samples) < 2 and T * A <= 8:
        out.sample({'tag': tag, **case, 'states_seen': names})


def corpus():
    d = core.CORPUS / PID
    return [json.loads(p.read_text()) for p in sorted(d.glob('*.json'))] if d.exists() else []


def run(tier: str, seed: int, scale: int) -> Outcome:
    out = Outcome()
    rng = np.random.default_rng(seed)
    for case in corpus():
        check_case(out, case, 'corpus')
    for _ in range((150 if tier == 'quick' else 1500) * scale):
        check_case(out, gen_case(rng), 'random')
    # runs of more than a thousand frames (every frame contributes, also the last ones)
    for _ in range((1 if tier == 'quick' else 5) * scale):
        check_case(out, gen_case(rng, long_run=True), 'long-run')
    return out


def replay(case):
    out = Outcome()
    check_case(out, case, 'replay')
    fails = [f for f in out.failures if f.kind == 'property']
    text = '\n'.join(f'{f.clause}: expected {str(f.expected)[:300]} observed {str(f.observed)[:300]} {f.note}' for f in fails) or 'no failure'
    return (not fails), text


SPEC = PropertySpec(
    pid=PID,
    modules=MODULES,
    run=run,
    replay=replay,
    gen=translate.gen_for('FormulasC11'),
    rule=('random systems: pool lattice, 1-3 floating Li + 1-3 framework atoms of O/S, 2-6 frames of dyadic coordinates, 2-4 sites '
          'with ALTERNATING labels (A,B,A,... or A,B,C,A) so that a label shift is visible, random site histories (real Transitions '
          'object), resolution in {0.25,0.5,1,0.3,0.7,1.1}, cut-off in {2,3.5,5,3.3,4} (also cut-offs that are not a multiple of the bin width), '
          'read-only queries (displacements of the diffusing / full trajectory, speed) made between building the Transitions and the RDF. radial_distribution: every y array per (state, symbol) compared '
          'exactly with brute-force counts from certified minimum-image distances, states named by the label of the current / most '
          'recent / next site ("~>" states pooled); total = number of pairs within the cut-off; '
          'radial_distribution_between_species: y x shell normalisation = raw histogram (left-closed bins), symmetric in the two '
          'species. Non-trivial: >= 2 labels, a frame in transit and a pair in the overflow bin.'),
    trusted=['pymatgen Lattice.get_all_distances = minimum image (cross-checked in C12); np.sqrt on perfect squares is exact',
             'np.digitize(right=True) / np.histogram edge conventions as modelled by binRight / binLeft'],
    assumptions=['no distance within 1e-9 of a bin edge unless exactly on it (such cases are skipped)'],
)
