"""C01 — periodic positions/displacements are exact, wrapped, lattice-shift invariant."""

from __future__ import annotations

import json
from fractions import Fraction

import numpy as np

from . import core, gem, trajsc, translate
from .core import Outcome, PropertySpec

PID = 'C01'
MODULES = ['GProofs.C01', 'GProofs.C01Gen']

ORDERS = [
    [('P', 0), ('D', 0), ('C', 0), ('R', 0), ('P', 0), ('B', 0), ('D', 0), ('P', 0)],
    [('D', 0), ('P', 0), ('C', 0), ('P', 0), ('R', 0), ('D', 0)],
    [('C', 0), ('R', 0), ('P', 0), ('P', 0), ('D', 0), ('C', 0)],
]


def frs(a):
    return [Fraction(float(v)) for v in np.asarray(a, float).reshape(-1).tolist()]


def predicates(out: Outcome, case, coords, pos, disp, cum):
    """the statement's clauses, evaluated exactly on the implementation's arrays"""
    x = frs(coords)
    p = frs(pos)
    d = frs(disp)
    c = frs(cum)
    T, A, _ = np.asarray(coords).shape
    n = A * 3
    half = Fraction(1, 2)
    for k, (xv, pv) in enumerate(zip(x, p)):
        if not (0 <= pv < 1):
            out.fail('property', 'positions-in-unit-cell', case, expected='0 <= p < 1', observed=float(pv), note=f'flat index {k}')
            return
        if (pv - xv).denominator != 1:
            out.fail('property', 'positions-congruent-to-input', case, expected=float(xv), observed=float(pv), note=f'flat index {k}')
            return
    for k in range(len(d)):
        t, j = divmod(k, n)
        if abs(d[k]) > half:
            out.fail('property', 'displacement-minimum-image', case, expected='|d| <= 1/2', observed=float(d[k]), note=f'flat index {k}')
            return
        want = Fraction(0) if t == 0 else x[k] - x[k - n]
        if (d[k] - want).denominator != 1:
            out.fail('property', 'displacement-congruent-to-difference', case, expected=float(want), observed=float(d[k]), note=f'flat index {k}')
            return
        # running sum added to the first frame reproduces every frame modulo 1
        if ((x[j] + c[k]) - x[k]).denominator != 1:
            out.fail('property', 'running-sum-reproduces-frames', case, expected=float(x[k]), observed=float(x[j] + c[k]), note=f'flat index {k}')
            return


def check_case(out: Outcome, case, tag):
    lat = np.array(case['lattice'], float)
    coords = np.array(case['coords'], float)
    T, A, _ = coords.shape
    ops = ORDERS[case.get('order', 0)]
    out.evaluations += 1
    impl, trajs, _ = trajsc.run_impl(lat, [coords], [['Li'] * A], ops)
    model = trajsc.parse_model(core.drive1(trajsc.model_line(lat, [coords], ops)))
    diffs = trajsc.compare(impl, model)
    # property predicates on fresh reads
    tr = gem.make_traj(coords, lat, ['Li'] * A)
    pos = np.array(tr.positions)
    disp = np.array(tr.displacements)
    cum = np.array(tr.cumulative_displacements)
    n_before = len(out.failures)
    predicates(out, case, coords, pos, disp, cum)
    # a sub-trajectory (frames a..end of the same object) is a trajectory too: same clauses, displacements read BEFORE positions
    if T >= 3 and len(out.failures) == n_before:
        a0 = 1 + (A + T) % (T - 1)
        sub = tr[a0:]
        sd = np.array(sub.displacements)
        sc_ = np.array(sub.cumulative_displacements)
        sp_ = np.array(sub.positions)
        predicates(out, {**case, 'sub_trajectory_from_frame': a0}, coords[a0:], sp_, sd, sc_)
    # objects DERIVED from the trajectory (drift-corrected copy, selection, slice) are computed from it: afterwards the trajectory
    # itself must still report what it reported before
    if T >= 2 and len(out.failures) == n_before:
        import warnings
        src = gem.make_traj(coords, lat, ['Li'] * A)
        if (T + A) % 2:
            _ = src.positions
        with warnings.catch_warnings():
            warnings.simplefilter('ignore')
            _ = src.apply_drift_correction()
            _ = src.filter('Li')
            _ = src[1:]
        predicates(out, {**case, 'after': 'apply_drift_correction(), filter(), slice taken from the same object'}, coords,
                   np.array(src.positions), np.array(src.displacements), np.array(src.cumulative_displacements))
    prop_failed = len(out.failures) > n_before
    for n, t, why in diffs:
        # positions / displacements / cumulative displacements are pinned by the statement (model = spec by theorem)
        out.fail('property' if t in 'PDC' and trajsc.no_tie(coords) else 'correspondence', f'model-{t}', case,
                 observed=why, note=f'op #{n} of order {case.get("order", 0)}')
    # shift invariance (metamorphic, implementation vs implementation)
    if trajsc.no_tie(coords):
        rng = np.random.default_rng(case.get('seed', 0))
        shift = rng.integers(-3, 4, size=coords.shape).astype(float)
        tr2 = gem.make_traj(coords + shift, lat, ['Li'] * A)
        cum2 = np.array(tr2.cumulative_displacements)
        if not np.array_equal(cum2, cum):
            out.fail('property', 'shift-invariance-cumulative', {**case, 'shift': shift.tolist()}, expected=cum.tolist(), observed=cum2.tolist())
        d1 = gem.make_traj(coords, lat, ['Li'] * A).distances_from_base_position()
        d2 = tr2.distances_from_base_position()
        if not np.allclose(d1, d2, rtol=1e-12, atol=1e-12):
            out.fail('property', 'shift-invariance-distances', {**case, 'shift': shift.tolist()}, expected=np.array(d1).tolist(), observed=np.array(d2).tolist())
        p2 = np.array(tr2.positions)
        if not np.array_equal(p2, pos):
            out.fail('property', 'shift-invariance-positions', {**case, 'shift': shift.tolist()}, expected=pos.tolist(), observed=p2.tolist())
    else:
        out.count('tie-cases')
    wraps = bool(np.any(np.floor(coords[1:]) != np.floor(coords[:-1]))) if T > 1 else False
    nonident = not np.array_equal(lat, np.diag(np.diag(lat))) or len(set(np.diag(lat))) > 1
    if wraps and nonident:
        out.nontrivial.add(json.dumps(case, sort_keys=True))
    if len(out.samples) < 2 and T * A <= 6 and wraps:
        out.sample({'tag': tag, **case, 'positions': pos.tolist(), 'displacements': disp.tolist()})
    return prop_failed


FACE_VALUES = [0.0, 1.0, -1.0, 2.0, -1e-17, -1e-18, -5e-324, 1 - 1e-16, 1 - 2.0**-53, np.nextafter(1.0, 0), np.nextafter(1.0, 2),
               np.nextafter(0.0, 1), np.nextafter(0.0, -1), -2.0**-60, 3 - 2.0**-52, -3 + 2.0**-52, 0.5, -0.5, 1e-300, -1e-300,
               np.nextafter(2.0, 0), np.nextafter(-1.0, 0), np.nextafter(-1.0, -2)]


def face_values(rng, n):
    vals = list(FACE_VALUES)
    for den in (3, 5, 7, 10, 12, 16):
        for num in range(-den, 2 * den + 1, max(1, den // 3)):
            v = num / den
            vals += [v, np.nextafter(v, 10), np.nextafter(v, -10)]
    # near (not at) a face, at every decade between 1e-3 and 1e-14: catches tolerance-based "snapping"
    for m in (-1.0, 0.0, 1.0, 2.0):
        for j in range(3, 15):
            vals += [m + 10.0 ** -j, m - 10.0 ** -j]
    idx = rng.integers(0, len(vals), size=n)
    return np.array([vals[i] for i in idx])


def check_face(out: Outcome, rng, lat_name, lat):
    """coordinates within rounding distance of a cell face: predicates only (no exact model value)"""
    T, A = int(rng.integers(1, 5)), int(rng.integers(1, 3))
    coords = face_values(rng, T * A * 3).reshape(T, A, 3)
    case = {'face': True, 'lattice_name': lat_name, 'lattice': np.asarray(lat).tolist(), 'coords': coords.tolist(),
            'coords_hex': [float(v).hex() for v in coords.reshape(-1)]}
    out.evaluations += 1
    tr = gem.make_traj(coords, lat, ['Li'] * A)
    p1 = np.array(tr.positions).copy()
    p2 = np.array(tr.positions).copy()
    _ = tr.displacements
    p3 = np.array(tr.positions).copy()
    if not (p1.min() >= 0 and p1.max() < 1):
        out.fail('property', 'positions-in-unit-cell', case, expected='0 <= p < 1', observed=[float(p1.min()), float(p1.max())],
                 note='first read of .positions')
        return
    if not (p3.min() >= 0 and p3.max() < 1):
        out.fail('property', 'positions-in-unit-cell', case, expected='0 <= p < 1', observed=[float(p3.min()), float(p3.max())],
                 note='read after a displacement round trip')
        return
    if not np.array_equal(p1, p2):
        out.fail('property', 'positions-read-twice-identical', case, expected=p1.tolist(), observed=p2.tolist())
        return
    # congruence up to rounding, evaluated exactly: p - (x - floor(x)) is 0 or -1 within 2^-51
    import math
    for xv, pv in zip(coords.reshape(-1).tolist(), p1.reshape(-1).tolist()):
        fx = Fraction(xv)
        exact = fx - math.floor(fx)
        dev = abs(Fraction(pv) - exact)
        if min(dev, abs(dev - 1)) > Fraction(1, 2**51):
            out.fail('property', 'positions-congruent-to-input', case, expected=float(exact), observed=pv,
                     note='reported position is not the input modulo 1 (beyond rounding)')
            return
    d = np.array(tr.displacements)
    if np.any(np.abs(d) > 0.5 + 1e-15):
        out.fail('property', 'displacement-minimum-image', case, expected='|d| <= 1/2', observed=float(np.abs(d).max()))
    # the density volume must accept every such trajectory (it asserts 0 <= coords < 1)
    try:
        gem.make_traj(coords, lat, ['Li'] * A).to_volume(resolution=1.0)
    except AssertionError:
        out.fail('property', 'positions-in-unit-cell', case, expected='to_volume accepts wrapped positions', observed='AssertionError',
                 note='trajectory_to_volume asserted 0 <= coords < 1 on a fresh trajectory')
    out.count('face-cases')
    if np.any((coords < 0) & (coords > -1e-10)):
        out.nontrivial.add(('face', tuple(float(v).hex() for v in coords.reshape(-1))))


def gen_case(rng):
    name, lat = gem.lattice_pool(rng)
    if rng.random() < 0.4:
        lat = gem.exact_orientation(rng, lat)
    T, A = int(rng.integers(1, 9)), int(rng.integers(1, 5))
    if rng.random() < 0.5:
        c = trajsc.rand_coords(rng, T, A)
    else:
        c = trajsc.rand_coords(rng, T, A, step_scale=int(rng.choice([4, 20, 40])))
    if rng.random() < 0.9:
        c = trajsc.fix_ties(rng, c)
    return {'lattice_name': name, 'lattice': lat.tolist(), 'coords': c.tolist(), 'order': int(rng.integers(len(ORDERS))),
            'seed': int(rng.integers(1 << 30))}


def corpus():
    d = core.CORPUS / PID
    return [json.loads(p.read_text()) for p in sorted(d.glob('*.json'))] if d.exists() else []


def run(tier: str, seed: int, scale: int) -> Outcome:
    out = Outcome()
    rng = np.random.default_rng(seed)
    for case in corpus():
        if case.get('face'):
            replay(case, out)
        else:
            check_case(out, case, 'corpus')
    n = (600 if tier == 'quick' else 10000) * scale
    for _ in range(n):
        check_case(out, gen_case(rng), 'random')
    nf = (200 if tier == 'quick' else 3000) * scale
    names = list(gem.LATTICES)
    for k in range(nf):
        nm = names[k % len(names)]
        check_face(out, rng, nm, np.array(gem.LATTICES[nm], float))
    if tier != 'quick':
        # domain boundary: what the implementation does at exact half-cell steps (not a violation)
        obs = []
        for a, b in ((0.25, 0.75), (0.25, 1.75), (0.75, 0.25), (0.0, 0.5), (0.5, 0.0)):
            tr = gem.make_traj([[[a, 0, 0]], [[b, 0, 0]]], np.eye(3) * 4, ['Li'])
            obs.append({'x0': a, 'x1': b, 'displacement': float(tr.displacements[1, 0, 0])})
        out.extra['domain_boundary_observations'] = obs
    return out


def replay(case, out=None):
    o = out or Outcome()
    if case.get('face'):
        coords = np.array([float.fromhex(h) for h in case['coords_hex']]).reshape(np.array(case['coords']).shape)
        T, A, _ = coords.shape
        lat = np.array(case['lattice'], float)

        class _R:
            def integers(self, *a, **k):
                raise RuntimeError

        # re-run the face predicates on exactly these floats
        tr = gem.make_traj(coords, lat, ['Li'] * A)
        p1 = np.array(tr.positions).copy()
        p2 = np.array(tr.positions).copy()
        o.evaluations += 1
        if not (p1.min() >= 0 and p1.max() < 1):
            o.fail('property', 'positions-in-unit-cell', case, expected='0 <= p < 1', observed=[float(p1.min()), float(p1.max())])
        elif not np.array_equal(p1, p2):
            o.fail('property', 'positions-read-twice-identical', case, expected=p1.tolist(), observed=p2.tolist())
        else:
            try:
                gem.make_traj(coords, lat, ['Li'] * A).to_volume(resolution=1.0)
            except AssertionError:
                o.fail('property', 'positions-in-unit-cell', case, observed='to_volume AssertionError')
    else:
        check_case(o, case, 'replay')
    if out is not None:
        return None
    fails = [f for f in o.failures if f.kind == 'property']
    text = '\n'.join(f'{f.clause}: expected {f.expected} observed {f.observed} {f.note}' for f in fails) or 'no failure'
    return (not fails), text


SPEC = PropertySpec(
    pid=PID,
    modules=MODULES,
    run=run,
    replay=replay,
    gen=translate.gen_for('FormulasC01'),
    rule=('random trajectories of 1-8 frames x 1-4 atoms with dyadic coordinates k/64 in [-3,3] (independent, or random walks with '
          'steps up to 40/64 so that faces are crossed repeatedly) on pool lattices (cubic ... strongly triclinic, 40% re-oriented by an '
          'exact signed axis permutation), three different read orders of positions / displacements / cumulative displacements / '
          'distances: every array compared EXACTLY with the Lean model, distances^2 to 1e-9; the statement\'s clauses evaluated exactly '
          'on the implementation\'s arrays; a second run with random integer shifts per coordinate and frame (no-tie cases) must give '
          'identical cumulative displacements, positions and distances. Face stream: coordinates from {0, 1, -1e-17, 1-2^-53, '
          'nextafter neighbours of k/n ...}: positions in [0,1) on first and later reads, identical on re-read, congruent to the input, '
          'accepted by to_volume. Non-trivial: >= 1 coordinate crosses a face and the cell is not a multiple of the identity '
          '(face stream: a tiny negative coordinate); distinct = distinct case.'),
    trusted=['pymatgen Trajectory.to_displacements / to_positions (np.around = round-half-even, cumsum) as modelled in GModel.Traj',
             'IEEE rounding at cell faces is not quantified over by any theorem: covered by kernel-checked Float witnesses and the face stream'],
    assumptions=['NoTie: no per-frame move of exactly half a cell (minimum image not unique there); shift invariance is claimed for no-tie inputs'],
)
