"""Shared machinery of the GEMDAT verification checks.

  build / audit of the Lean cone of a property (the proof obligations)
  batch calls into the compiled model driver (line protocol)
  failure records, known-findings classification, replay files, evidence

Every check goes through `run_property(...)` below, which implements the
flow of DESIGN.md section 1.6.
"""

from __future__ import annotations

import json
import os
import re
import subprocess
import sys
import time
import traceback
from dataclasses import dataclass, field
from fractions import Fraction
from pathlib import Path
from typing import Any, Callable

VERIF = Path(__file__).resolve().parents[1]
LEAN = VERIF / 'lean'
DRIVER = LEAN / '.lake' / 'build' / 'bin' / 'driver'
EVIDENCE = VERIF / 'evidence'
REPLAYS = VERIF / 'replays'
CORPUS = VERIF / 'corpus'
KNOWN = VERIF / 'known_findings.json'

ALLOWED_AXIOMS = {'propext', 'Classical.choice', 'Quot.sound'}
FORBIDDEN = re.compile(
    r'\b(sorry|admit|native_decide|bv_decide|implemented_by|unsafe)\b|^\s*axiom\s|maxHeartbeats\s+0'
)

TRUSTED_BASE_COMMON = [
    'Lean 4.33 kernel; axioms of every theorem audited each run to be within {propext, Classical.choice, Quot.sound}',
    'Mathlib v4.33 modules imported singly by GProofs',
    'Lean compiler/runtime executing the model driver (lean/Main.lean)',
    'the Python harness: generators, canonicalisation, comparison, this correspondence check',
    'numpy element-wise arithmetic is exact on the dyadic inputs generated (inputs are sent to the model as exact fractions of the very floats the implementation sees)',
]


# --------------------------------------------------------------------------
# encoding of values for the line protocol


def frac(x) -> Fraction:
    """Exact rational value of a float / int / Fraction."""
    if isinstance(x, Fraction):
        return x
    if isinstance(x, (int,)):
        return Fraction(x)
    return Fraction(float(x))


def enc(x) -> str:
    f = frac(x)
    return str(f.numerator) if f.denominator == 1 else f'{f.numerator}/{f.denominator}'


def enc_list(xs, e=None) -> str:
    xs = list(xs)
    e = e or (lambda v: str(int(v)))
    return ' '.join([str(len(xs))] + [e(v) for v in xs])


def enc_rats(xs) -> str:
    return enc_list(xs, enc)


def dec_rat(tok: str) -> Fraction:
    if '/' in tok:
        n, d = tok.split('/')
        return Fraction(int(n), int(d))
    return Fraction(int(tok))


# --------------------------------------------------------------------------
# Lean: build, audit, driver


class LeanError(Exception):
    pass


def lake_build(targets: list[str]) -> tuple[bool, str]:
    """`lake build <targets>`; returns (ok, log)."""
    p = subprocess.run(
        ['lake', 'build', *targets], cwd=LEAN, capture_output=True, text=True, timeout=3000
    )
    return p.returncode == 0, (p.stdout + p.stderr)[-6000:]


def lean_sources(modules: list[str]) -> list[Path]:
    return [LEAN / (m.replace('.', '/') + '.lean') for m in modules]


def grep_forbidden(modules: list[str]) -> list[str]:
    """Forbidden constructs outside comments in the given modules (and all of GModel)."""
    hits = []
    files = lean_sources(modules) + sorted((LEAN / 'GModel').glob('*.lean'))
    for f in files:
        if not f.exists():
            hits.append(f'{f}: missing')
            continue
        text = f.read_text()
        # strip block comments and line comments
        text = re.sub(r'/-.*?-/', lambda m: '\n' * m.group(0).count('\n'), text, flags=re.S)
        for no, line in enumerate(text.splitlines(), 1):
            line = line.split('--')[0]
            if FORBIDDEN.search(line):
                hits.append(f'{f.relative_to(VERIF)}:{no}: {line.strip()}')
    return hits


def audit_modules(modules: list[str]) -> dict:
    """Run `#audit_module` on each module: theorem -> axioms."""
    src = 'import GProofs.AuditCmd\n' + ''.join(f'import {m}\n' for m in modules)
    src += ''.join(f'#audit_module {m}\n' for m in modules)
    tmp = LEAN / '.lake' / f'audit_{os.getpid()}.lean'
    tmp.write_text(src)
    try:
        p = subprocess.run(
            ['lake', 'env', 'lean', str(tmp)], cwd=LEAN, capture_output=True, text=True, timeout=1800
        )
    finally:
        tmp.unlink(missing_ok=True)
    out = p.stdout + p.stderr
    theorems: dict[str, list[str]] = {}
    for m in re.finditer(r'AUDIT (\S+) :(.*)', out):
        theorems[m.group(1)] = m.group(2).split()
    bad = {k: v for k, v in theorems.items() if not set(v) <= ALLOWED_AXIOMS}
    return {
        'ok': p.returncode == 0 and not bad and bool(theorems),
        'theorems': theorems,
        'bad': bad,
        'log': out[-3000:] if p.returncode != 0 else '',
    }


def leanchecker(modules: list[str]) -> tuple[bool, str]:
    p = subprocess.run(
        ['lake', 'env', 'leanchecker', *modules], cwd=LEAN, capture_output=True, text=True, timeout=3000
    )
    return p.returncode == 0, (p.stdout + p.stderr)[-2000:]


_DRIVER = None


def _driver_proc():
    """one long-lived model driver (forking a large Python process per call is slow)"""
    global _DRIVER
    if _DRIVER is None or _DRIVER.poll() is not None:
        if not DRIVER.exists():
            raise LeanError(f'model driver not built: {DRIVER}')
        _DRIVER = subprocess.Popen([str(DRIVER)], stdin=subprocess.PIPE, stdout=subprocess.PIPE, text=True, bufsize=1)
    return _DRIVER


def drive(lines: list[tuple[str, str]]) -> dict[str, str]:
    """Send `(id, op-line)` pairs through the model driver; id -> result line."""
    global _DRIVER
    if not lines:
        return {}
    import threading
    out = {}
    p = _driver_proc()
    err: list = []

    def writer():
        try:
            for i, l in lines:
                p.stdin.write(f'{i} {l}\n')
            p.stdin.flush()
        except Exception as e:  # noqa: BLE001
            err.append(e)

    th = threading.Thread(target=writer, daemon=True)
    th.start()
    try:
        for _ in lines:
            line = p.stdout.readline()
            if not line:
                _DRIVER = None
                raise LeanError('model driver closed its output (crashed?)')
            i, _, rest = line.rstrip('\n').partition(' ')
            out[i] = rest
    finally:
        th.join(timeout=60)
    if err:
        _DRIVER = None
        raise LeanError(f'driver failed: {err[0]}')
    if len(out) != len({i for i, _ in lines}):
        raise LeanError(f'driver answered {len(out)} of {len(lines)} lines')
    return out


def drive1(line: str) -> str:
    return drive([('x', line)])['x']


# --------------------------------------------------------------------------
# failures, findings, evidence


@dataclass
class Failure:
    """One case on which something is wrong.

    kind = 'property'        the property's predicate fails on the implementation
                             (a concrete failing input)
           'correspondence'  implementation and model disagree but the property's
                             own predicate could not be shown to fail on this case
    """

    kind: str
    clause: str
    case: dict
    expected: Any = None
    observed: Any = None
    note: str = ''

    def to_json(self):
        return {
            'kind': self.kind,
            'clause': self.clause,
            'case': self.case,
            'expected': self.expected,
            'observed': self.observed,
            'note': self.note,
        }


@dataclass
class Outcome:
    evaluations: int = 0
    nontrivial: set = field(default_factory=set)
    samples: list = field(default_factory=list)
    failures: list = field(default_factory=list)
    branches: dict = field(default_factory=dict)
    extra: dict = field(default_factory=dict)
    exhaustive: bool = False

    def count(self, key, n=1):
        self.branches[key] = self.branches.get(key, 0) + n

    def sample(self, s, limit=4):
        if len(self.samples) < limit:
            self.samples.append(s)

    def fail(self, kind, clause, case, expected=None, observed=None, note=''):
        # cap per (kind, clause, note) so that a frequent known finding cannot crowd out anything else
        key = f'fail:{kind}:{clause}:{note[:40]}'
        if self.branches.get(key, 0) < 40:
            self.failures.append(Failure(kind, clause, jsonable(case), jsonable(expected), jsonable(observed), note))
        self.count(key)
        self.count('failures')

    def merge(self, other: 'Outcome'):
        self.evaluations += other.evaluations
        self.nontrivial |= other.nontrivial
        for s in other.samples:
            self.sample(s)
        self.failures += other.failures
        for k, v in other.branches.items():
            self.count(k, v)
        self.extra.update(other.extra)


def jsonable(x):
    import numpy as np

    if isinstance(x, dict):
        return {str(k): jsonable(v) for k, v in x.items()}
    if isinstance(x, (list, tuple, set)):
        return [jsonable(v) for v in x]
    if isinstance(x, np.ndarray):
        return jsonable(x.tolist())
    if isinstance(x, (np.integer,)):
        return int(x)
    if isinstance(x, (np.floating,)):
        return float(x)
    if isinstance(x, Fraction):
        return str(x)
    if isinstance(x, (str, int, float, bool)) or x is None:
        return x
    return repr(x)


def load_known(prop: str) -> list[dict]:
    if not KNOWN.exists():
        return []
    data = json.loads(KNOWN.read_text())
    return [k for k in data.get('findings', []) if k['property'] == prop and k.get('status', 'open') == 'open']


def write_replay(prop: str, payload: dict) -> Path:
    d = REPLAYS / prop
    d.mkdir(parents=True, exist_ok=True)
    n = len(list(d.glob('*.json')))
    p = d / f'{n:04d}.json'
    p.write_text(json.dumps(jsonable(payload), indent=1))
    return p


def write_evidence(prop: str, payload: dict):
    EVIDENCE.mkdir(exist_ok=True)
    (EVIDENCE / f'{prop}.json').write_text(json.dumps(jsonable(payload), indent=1) + '\n')


@dataclass
class PropertySpec:
    """What a property module exports to the runner."""

    pid: str
    modules: list[str]  # Lean modules of the property's cone (audited, grep'ed, leancheck'ed)
    run: Callable  # run(tier, seed, budget_scale) -> Outcome
    rule: str  # how cases are generated and what counts as non-trivial
    classify: Callable | None = None  # classify(failure, finding) -> bool
    replay: Callable | None = None  # replay(case) -> (ok, text)
    trusted: list[str] = field(default_factory=list)
    assumptions: list[str] = field(default_factory=list)
    gen: Callable | None = None  # regenerate GGen slice: gen() -> (ok, log)


def run_property(spec: PropertySpec, tier: str, seed: int) -> int:
    t0 = time.time()
    pid = spec.pid
    lines: list[str] = []

    # 1. translated slice + build of the cone
    gen_ok, gen_log = (True, '')
    slices_skipped: dict[str, str] = {}
    modules = list(spec.modules)
    if spec.gen:
        gen_ok, gen_log = spec.gen()
        if not gen_ok:
            from . import translate
            failed = dict(getattr(translate.generate, 'failed', {}))
            if failed and all(nm in translate.SLICE_MODULES for nm in failed):
                # only slices with obligation modules of their own could not be translated: leave those modules out of this run
                drop = {m for nm in failed for m in translate.SLICE_MODULES[nm]}
                modules = [m for m in modules if m not in drop]
                slices_skipped = failed
                gen_ok = True
    notes_changed: list[str] = []
    if spec.gen and getattr(spec.gen, 'slices', None):
        from . import formulas
        notes_changed = formulas.changed_notes(spec.gen.slices)
    build_ok, build_log = lake_build(modules + ['driver'])
    # 2. audit
    forb = grep_forbidden(modules)
    audit = audit_modules(modules) if build_ok else {'ok': False, 'theorems': {}, 'bad': {}, 'log': 'not built'}
    checker_ok, checker_log = (True, '')
    if tier == 'thorough' and build_ok:
        checker_ok, checker_log = leanchecker(modules)
    proof_ok = gen_ok and build_ok and audit['ok'] and not forb and checker_ok
    obligations = max(len(audit['theorems']), 1)
    discharged = len([t for t in audit['theorems'] if t not in audit['bad']]) if proof_ok else 0
    broken_obligation = None
    if not proof_ok:
        if not gen_ok:
            broken_obligation = f'generated slice: {gen_log[-800:]}'
        elif not build_ok:
            m = re.search(r'error: (\S+\.lean:\d+:\d+: .*)', build_log)
            broken_obligation = f'lake build: {m.group(1) if m else build_log[-800:]}'
        elif forb:
            broken_obligation = f'forbidden construct: {forb[:3]}'
        elif not checker_ok:
            broken_obligation = f'leanchecker: {checker_log[-500:]}'
        else:
            broken_obligation = f'axiom audit: {audit["bad"] or audit["log"]}'

    # 3./4. correspondence + property oracles on the implementation
    outcome = Outcome()
    crashed = None
    if build_ok or DRIVER.exists():
        try:
            outcome = spec.run(tier, seed, 1)
        except Exception as e:
            tb = traceback.extract_tb(e.__traceback__)
            in_impl = [f for f in tb if f.filename.startswith('/repo/')]
            if in_impl and not isinstance(e, LeanError):
                # the implementation raised on an input of the property's domain, outside any guarded call:
                # that is a failure of the property (the operation must be total there), not of the harness
                last = in_impl[-1]
                outcome = Outcome()
                outcome.evaluations = 1
                outcome.fail('property', 'implementation-raised',
                             {'exception': f'{type(e).__name__}: {str(e)[:300]}', 'where': f'{last.filename}:{last.lineno} in {last.name}',
                              'traceback': traceback.format_exc()[-3000:], 'tier': tier, 'seed': seed},
                             expected='no exception', observed=type(e).__name__,
                             note='re-run the check with the same seed to reproduce')
            elif isinstance(e, (IndexError, ValueError, TypeError, KeyError, AttributeError)) and not isinstance(e, LeanError):
                # the harness could not make sense of what the implementation handed back (wrong shape, missing column, other type):
                # the correspondence is broken at this point; reported as such (with the traceback as the replay) rather than as exit 2
                hs = [f for f in tb if '/harness/' in f.filename]
                last = hs[-1] if hs else tb[-1]
                outcome = Outcome()
                outcome.evaluations = 1
                outcome.fail('correspondence', 'implementation-output-not-interpretable',
                             {'exception': f'{type(e).__name__}: {str(e)[:300]}', 'where': f'{last.filename}:{last.lineno} in {last.name}',
                              'traceback': traceback.format_exc()[-3000:], 'tier': tier, 'seed': seed},
                             expected='a result of the documented shape / type', observed=type(e).__name__,
                             note='re-run the check with the same seed to reproduce')
            else:
                crashed = traceback.format_exc()
    else:
        crashed = 'driver not available'

    # failing-input search when the proof side or the correspondence is broken
    known = load_known(pid)

    def is_known(f):
        return any(spec.classify and spec.classify(f, k) for k in known)

    corr_only = [f for f in outcome.failures if f.kind == 'correspondence']
    prop_fail = [f for f in outcome.failures if f.kind == 'property']
    searched = False
    if (not proof_ok or corr_only or notes_changed or slices_skipped) and not [f for f in prop_fail if not is_known(f)] and crashed is None:
        searched = True
        try:
            more = spec.run(tier, seed + 7919, 10)
            outcome.merge(more)
            prop_fail = [f for f in outcome.failures if f.kind == 'property']
            corr_only = [f for f in outcome.failures if f.kind == 'correspondence']
        except Exception:
            if not any(f.clause == 'implementation-output-not-interpretable' for f in corr_only):
                crashed = traceback.format_exc()

    # 5. classification against the committed known findings
    known_hit: dict[str, int] = {}
    unknown: list[Failure] = []
    for f in prop_fail:
        hit = None
        for k in known:
            if spec.classify and spec.classify(f, k):
                hit = k
                break
        if hit:
            known_hit[hit['id']] = known_hit.get(hit['id'], 0) + 1
        else:
            unknown.append(f)
    for k in known:
        if k['id'] in known_hit:
            lines.append(f'KNOWN-FINDING: property={pid} {k["what"]} [{k["id"]}, {known_hit[k["id"]]} case(s)]')

    for nm, why in slices_skipped.items():
        lines.append(f'SLICE-NOTE property={pid} the source behind the translated slice {nm} is written in a way the translator does not understand '
                     f'({why[:200]}); its obligations were NOT checked on this run (the hand-written model, its theorems and the correspondence '
                     f'check were); the failing-input search ran with the enlarged budget')
    if notes_changed:
        lines.append(f'STRUCTURE-NOTE property={pid} the array code around a translated slice is written differently than when the check was built '
                     f'({", ".join(notes_changed)}); the failing-input search ran with the enlarged budget')
    violations = 0
    rc = 0
    if unknown:
        f = unknown[0]
        rp = write_replay(pid, {
            'property': pid, 'tier': tier, 'seed': seed,
            'failure': f.to_json(),
            'further_failures': [g.to_json() for g in unknown[1:6]],
            'broken_obligation': broken_obligation,
            'replay_cmd': f'./check {pid} replay <this file>',
        })
        lines.append(f'VIOLATION property={pid} replay={rp.relative_to(VERIF)}')
        violations = len(unknown)
        rc = 1
    elif not proof_ok or corr_only:
        what = broken_obligation or f'correspondence: {corr_only[0].clause}'
        rp = write_replay(pid, {
            'property': pid, 'tier': tier, 'seed': seed,
            'no_failing_input_found': True,
            'broken': what,
            'correspondence_failures': [g.to_json() for g in corr_only[:6]],
            'searched_evaluations': outcome.evaluations,
        })
        lines.append(f'VIOLATION property={pid} replay={rp.relative_to(VERIF)} no-failing-input-found')
        violations = 1
        rc = 1
    if crashed is not None:
        lines.append(f'HARNESS-ERROR property={pid}')
        sys.stderr.write(crashed + '\n')
        rc = 2 if rc == 0 else rc

    wall = time.time() - t0
    cov = {
        'obligations': obligations,
        'discharged': discharged if proof_ok else min(discharged, obligations - 1),
        'checker_cmd': 'cd lean && lake build ' + ' '.join(modules)
        + ' && lake env lean <#audit_module of each>'
        + (' && lake env leanchecker ' + ' '.join(modules) if tier == 'thorough' else ''),
        'trusted_base': TRUSTED_BASE_COMMON + spec.trusted,
        'theorems': sorted(audit['theorems']),
        'evaluations': outcome.evaluations,
        'distinct_nontrivial': len(outcome.nontrivial),
        'rule': spec.rule,
        'samples': outcome.samples or ['(no case was run)'],
        'branches': outcome.branches,
        'exhaustive': outcome.exhaustive,
        'failing_input_search_ran': searched,
        'known_findings_hit': known_hit,
        'broken_obligation': broken_obligation,
        'structure_notes_changed': notes_changed,
        'slices_untranslatable': slices_skipped,
    }
    cov.update(outcome.extra)
    level = 'proof'
    if not proof_ok:
        # no proof was established on this run (a violation is reported): say so instead of claiming the proof level
        level = 'other'
        cov['explanation'] = ('the proof side did NOT check on this run (' + (broken_obligation or 'see broken_obligation')[:400] + '); the theorem counts above are what '
                              'was found before the failure, the case counts are those of the failing-input search that followed')
    write_evidence(pid, {
        'property_id': pid, 'tier': tier, 'seed': seed, 'level': level,
        'coverage': cov,
        'assumptions': spec.assumptions,
        'wall_s': round(wall, 2),
        'violations': violations,
    })
    for l in lines:
        print(l)
    print(f'{pid} {tier} seed={seed}: theorems={obligations} discharged={cov["discharged"]} '
          f'cases={outcome.evaluations} nontrivial={len(outcome.nontrivial)} '
          f'failures={len(outcome.failures)} known={sum(known_hit.values())} wall={wall:.1f}s rc={rc}')
    return rc


def run_replay(spec: PropertySpec, path: str) -> int:
    data = json.loads(Path(path).read_text())
    if data.get('no_failing_input_found'):
        print(f'replay {path}: no failing input recorded; broken: {data.get("broken")}')
        return 1
    case = data['failure']['case']
    if spec.replay is None:
        print('no replay function for this property')
        return 2
    ok, text = spec.replay(case)
    print(text)
    print('replay:', 'property holds on this case' if ok else 'property FAILS on this case')
    return 0 if ok else 1
