"""C05 — jump/occupancy bookkeeping conserves counts; jump diffusivity matches its formula."""

from __future__ import annotations

import json
from collections import Counter
from fractions import Fraction

import numpy as np
from scipy.constants import angstrom

from . import core, gem, hist, translate
from .core import Outcome, PropertySpec

from gemdat.jumps import Jumps  # noqa: E402
from gemdat.transitions import Transitions, _calculate_transition_events, _calculate_transitions_matrix  # noqa: E402

PID = 'C05'
MODULES = ['GProofs.Geometry', 'GProofs.C05', 'GProofs.C05Lab', 'GProofs.C05Occ', 'GProofs.C05Gen']


def build_system(rng, T=None, A=None, n_sites=None, inner=None, labels_mode=None):
    """A real Transitions object with arbitrary (random) site histories on a pool lattice."""
    name, lat = gem.lattice_pool(rng)
    T = T or int(rng.integers(4, 60))
    A = A or int(rng.integers(1, 5))
    n_sites = n_sites or int(rng.integers(2, 7))
    inner = bool(rng.integers(2)) if inner is None else inner
    s, i = hist.exclusive(*hist.random_histories(rng, T, A, n_sites, inner=inner))
    grid = rng.permutation(512)[:n_sites]
    site_coords = np.array([[(g // 64) / 8, ((g // 8) % 8) / 8, (g % 8) / 8] for g in grid])
    nl = int(rng.integers(1, 4))
    labels = [f'L{int(rng.integers(nl))}' for _ in range(n_sites)]
    case = dict(lattice_name=name, lattice=lat.tolist(), s=s.T.tolist(), i=i.T.tolist(),
                sites=site_coords.tolist(), labels=labels, seed=int(rng.integers(1 << 30)))
    # the site structure may carry the cell of a reference crystal; a residence threshold may be set
    if rng.random() < 0.4:
        case['site_cell'] = gem.reference_cell(rng, lat).tolist()
    case['minimal_residence'] = int(rng.choice([0, 0, 1, 3, 6]))
    return case


def realise(case):
    lat = np.array(case['lattice'])
    s = np.array(case['s']).T
    i = np.array(case['i']).T
    T, A = s.shape
    rng = np.random.default_rng(case['seed'])
    # small dyadic vibrations so that speeds / attempt frequency are finite
    base = rng.integers(0, 64, size=(1, A + 1, 3)) / 64
    vib = rng.integers(-4, 5, size=(T, A + 1, 3)) / 256
    coords = base + vib
    traj = gem.make_traj(coords, lat, ['Li'] * A + ['O'], time_step=case.get('time_step', 2e-15), metadata={'temperature': case.get('temperature', 500.0)})
    diff = traj.filter('Li')
    sites = gem.make_sites(case.get('site_cell', lat), case['sites'], labels=case['labels'])
    events = _calculate_transition_events(atom_sites=s, atom_inner_sites=i)
    tr = Transitions(trajectory=traj, diff_trajectory=diff, sites=sites, events=events, states=s, inner_states=i)
    return tr, s, i


def count_matrix(rows, n):
    m = np.zeros((n, n), dtype=int)
    for a, b in rows:
        if 0 <= a < n and 0 <= b < n:
            m[a, b] += 1
    return m


def model_matrix(rows, n):
    line = f'matrix {n} ' + ' '.join([str(len(rows))] + [f'{int(a)} {int(b)}' for a, b in rows])
    r = core.drive1(line).split()
    if r[0] != 'ok':
        return None
    return np.array(list(map(int, r[1:])), dtype=int).reshape(n, n)


def check_case(out: Outcome, case, tag):
    out.evaluations += 1
    try:
        tr, s, i = realise(case)
    except ValueError:
        out.count('no-events')
        return
    n = len(case['sites'])
    T, A = s.shape
    labels = case['labels']
    ev_rows = tr.events[['start site', 'destination site']].to_numpy().tolist()

    # --- Transitions.matrix(): entry (i, j) = number of recorded moves i -> j
    tm = np.array(tr.matrix())
    want_tm = count_matrix(ev_rows, n)
    touches_nosite = any(a == -1 or b == -1 for a, b in ev_rows)
    if not np.array_equal(tm, want_tm):
        asis = model_matrix(ev_rows, n)
        out.fail('property', 'transitions-matrix-entry', case, expected=want_tm.tolist(), observed=tm.tolist(),
                 note='as-is-model-agrees' if asis is not None and np.array_equal(asis, tm) else 'as-is-model-differs')
    else:
        asis = model_matrix(ev_rows, n)
        if asis is None or not np.array_equal(asis, tm):
            out.fail('correspondence', 'model-transitions-matrix', case, expected=None if asis is None else asis.tolist(), observed=tm.tolist())

    # --- occupancy
    occ_struct = tr.occupancy()
    occ = [float(site.species.num_atoms) for site in occ_struct]
    mline = core.drive1(f'occ {n} ' + core.enc_list(s.flatten())).split()
    counts = list(map(int, mline[1:]))
    for k in range(n):
        want = counts[k] / T
        if abs(occ[k] - want) > 1e-12:
            out.fail('property', 'occupancy-per-site', case, expected=want, observed=occ[k], note=f'site {k}')
    at_sites = int((s != -1).sum())
    if sum(counts[:n]) != at_sites or counts[n] != s.size - at_sites:
        out.fail('correspondence', 'model-occupancy', case, expected=at_sites, observed=counts)
    if abs(sum(occ) * T - at_sites) > 1e-9 * max(1, at_sites):
        out.fail('property', 'occupancy-sum', case, expected=at_sites / T, observed=sum(occ))
    loc = tr.atom_locations()
    byt = tr.occupancy_by_site_type()
    for lab in set(labels):
        idx = [k for k in range(n) if labels[k] == lab]
        w1 = sum(counts[k] for k in idx) / T / A
        w2 = sum(counts[k] for k in idx) / T / len(idx)
        if abs(loc[lab] - w1) > 1e-12 or abs(byt[lab] - w2) > 1e-12:
            out.fail('property', 'occupancy-by-label', case, expected=[w1, w2], observed=[loc[lab], byt[lab]], note=lab)
    # the same two dictionaries from GModel.OccLabels (theorems C05Occ: they add up to the occupancies / to one with the no-site fraction)
    if all(lab and not any(ch.isspace() for ch in lab) for lab in labels):
        toks = core.drive1(f'bylabel {n} ' + ' '.join(labels) + ' ' + core.enc_list(s.flatten()) + f' {T} {A}').split()[1:]
        model_by = {toks[3 * k]: (float(core.dec_rat(toks[3 * k + 1])), float(core.dec_rat(toks[3 * k + 2]))) for k in range(len(toks) // 3)}
        if set(model_by) != set(loc) or set(model_by) != set(byt) or any(abs(loc[lab] - model_by[lab][0]) > 1e-12 or abs(byt[lab] - model_by[lab][1]) > 1e-12 for lab in model_by):
            out.fail('property', 'occupancy-by-label', case, expected={k: list(v) for k, v in model_by.items()}, observed={k: [float(loc.get(k, float('nan'))), float(byt.get(k, float('nan')))] for k in model_by},
                     note='vs GModel.OccLabels')
    if abs(sum(loc.values()) * A * T - at_sites) > 1e-9 * max(1, at_sites):
        out.fail('property', 'atom-locations-sum', case, expected=at_sites / (A * T), observed=sum(loc.values()))

    # --- occupancy of time parts: fraction of the PART's frames (states and trajectory are cut differently)
    for n_parts in (2, 3):
        try:
            parts = tr.split(n_parts)
        except Exception:  # noqa: BLE001
            continue
        for k, part in enumerate(parts):
            ps = np.array(part.states)
            if len(ps) == 0:
                continue
            want = [(ps == j).sum() / len(ps) for j in range(n)]
            try:
                pocc = [float(site.species.num_atoms) for site in part.occupancy()]
            except Exception as e:  # noqa: BLE001
                out.fail('property', 'occupancy-of-part', case, expected=want, observed=type(e).__name__ + ': ' + str(e)[:80], note=f'part {k} of {n_parts}')
                break
            if not np.allclose(pocc, want, rtol=0, atol=1e-12):
                out.fail('property', 'occupancy-of-part', case, expected=want, observed=pocc, note=f'part {k} of {n_parts}')
                break
    # --- jumps
    mr = int(case.get('minimal_residence', 0))
    try:
        jumps = Jumps(tr, minimal_residence=mr)
    except ValueError:
        out.count('no-jumps')
        if touches_nosite and len(set(map(tuple, ev_rows))) >= 2:
            out.nontrivial.add(('t', json.dumps(case, sort_keys=True)))
        return
    jrows = jumps.data[['start site', 'destination site']].to_numpy().tolist()
    jm = np.array(jumps.matrix())
    want_jm = count_matrix(jrows, n)
    mm = model_matrix(jrows, n)
    if not np.array_equal(jm, want_jm):
        out.fail('property', 'jumps-matrix-entry', case, expected=want_jm.tolist(), observed=jm.tolist())
    if mm is None or not np.array_equal(mm, jm):
        out.fail('correspondence' if np.array_equal(jm, want_jm) else 'property', 'model-jumps-matrix', case,
                 expected=None if mm is None else mm.tolist(), observed=jm.tolist())
    if jm.sum() != jumps.n_jumps or jm.sum() != len(jrows):
        out.fail('property', 'jumps-matrix-sum', case, expected=len(jrows), observed=int(jm.sum()))
    if np.trace(jm) != 0:
        out.fail('property', 'jumps-matrix-diagonal', case, expected=0, observed=int(np.trace(jm)))
    # per-index and per-label counters
    c_idx = jumps._counter()
    want_idx = Counter((int(a), int(b)) for a, b in jrows)
    if dict(c_idx) != dict(want_idx):
        out.fail('property', 'counter-by-index', case, expected=dict(want_idx), observed=dict(c_idx))
    c_lab = jumps.counter()
    want_lab = Counter()
    for a in range(n):
        for b in range(n):
            if want_jm[a, b]:
                want_lab[labels[a], labels[b]] += int(want_jm[a, b])
    if dict(c_lab) != dict(want_lab):
        out.fail('property', 'counter-by-label', case, expected=dict(want_lab), observed=dict(c_lab))
    # the Lean label counter (GModel.Labels.counter; theorems counterGet_eq_matrix, counter_total)
    r = core.drive1(f'labelcounter {n} ' + ' '.join(labels) + f' {len(jrows)} ' + ' '.join(f'{int(a)} {int(b)}' for a, b in jrows)).split()[1:]
    m_lab = {(r[k], r[k + 1]): int(r[k + 2]) for k in range(0, len(r), 3)}
    if m_lab != dict(c_lab):
        out.fail('correspondence' if dict(c_lab) == dict(want_lab) else 'property', 'model-label-counter', case, expected=m_lab, observed=dict(c_lab))
    # graph edges = support of the matrix (every activation energy is finite here)
    try:
        g = jumps.to_graph()
        edges = set(g.edges)
        want_edges = {(a, b) for a in range(n) for b in range(n) if want_jm[a, b]}
        freq = float(jumps.trajectory.metrics().attempt_frequency()[0])
        if np.isfinite(freq) and freq > 0:
            if edges != want_edges:
                out.fail('property', 'graph-edges', case, expected=sorted(want_edges), observed=sorted(edges))
            if g.number_of_nodes() != n:
                out.fail('property', 'graph-nodes', case, expected=n, observed=g.number_of_nodes())
            # energy limits (in eV, the unit of the edge attribute): the edge set is the sub-set within the limits
            en = {e: float(d['e_act']) for e, d in g.edges.items()}
            vals = sorted(set(en.values()))
            if vals and all(np.isfinite(vals)):
                thr = 0.5 * (vals[0] + vals[-1]) if len(vals) >= 2 and vals[0] != vals[-1] else vals[0] + 0.01
                if thr != 0:
                    lo = set(jumps.to_graph(min_e_act=thr).edges)
                    hi = set(jumps.to_graph(max_e_act=thr).edges)
                    want_lo = {e for e, v in en.items() if v >= thr}
                    want_hi = {e for e, v in en.items() if v <= thr}
                    if lo != want_lo or hi != want_hi:
                        out.fail('property', 'graph-edges-within-energy-limits', case, expected=[sorted(want_lo), sorted(want_hi)],
                                 observed=[sorted(lo), sorted(hi)], note=f'limit {thr} eV; edge energies {vals[:6]}')
        else:
            out.count('graph-skipped-no-frequency')
    except Exception as e:  # noqa: BLE001
        out.fail('property', 'graph-build', case, observed=type(e).__name__ + str(e)[:100])
    # jump diffusivity
    rows_s = ' '.join([str(len(jrows))] + [f'{int(a)} {int(b)}' for a, b in jrows])
    r = core.drive1(f'jumpdiff {gem.enc_m3(case["lattice"])} {gem.enc_v3s(case["sites"])} {rows_s}').split()
    total_sq = core.dec_rat(r[1])
    for dims in (1, 2, 3):
        got = float(jumps.jump_diffusivity(dims))
        want = float(total_sq) * angstrom**2 / (2 * dims * A * (T * 2e-15))
        if not np.isclose(got, want, rtol=1e-9, atol=0):
            out.fail('property', 'jump-diffusivity', case, expected=want, observed=got, note=f'dimensions={dims}')
    # rates = aggregation of the per-part counters
    for n_parts in (2, 3):
        try:
            # the parts' counters, obtained independently of Jumps.split: the time parts of the transitions analysed with the
            # same conversion settings as the whole
            parts = [Jumps(p, minimal_residence=mr).counter() for p in tr.split(n_parts)]
        except ValueError:
            out.count('rates-refused')
            continue
        try:
            rates = jumps.rates(n_parts)
        except ValueError as e:
            out.fail('property', 'rates-aggregation', case, expected='rates', observed='ValueError: ' + str(e)[:80])
            continue
        part_time = jumps.trajectory.total_time / n_parts
        for pair in jumps.site_pairs:
            cnts = [p[pair] for p in parts]
            want_mean = np.mean(cnts) / (A * part_time)
            got_mean = rates.loc[pair]['rates'] if pair in rates.index else None
            if got_mean is None or not np.isclose(float(np.atleast_1d(got_mean)[0]), want_mean, rtol=1e-9):
                out.fail('property', 'rates-aggregation', case, expected=want_mean, observed=str(got_mean), note=str(pair))
                break
            # Lean rateMean on the same counts (theorem rate_times_time: rate x atoms x total time = jumps in the parts)
            mr_ = core.drive1(f'ratemean {len(cnts)} ' + ' '.join(str(int(c)) for c in cnts) + f' {A} {core.enc(float(part_time))}').split()
            if mr_[0] != 'ok' or not np.isclose(float(core.dec_rat(mr_[1])), float(np.atleast_1d(got_mean)[0]), rtol=1e-9):
                out.fail('correspondence', 'model-rate', case, expected=mr_, observed=str(got_mean), note=str(pair))
                break
    if len(want_idx) >= 2 and touches_nosite:
        out.nontrivial.add(('j', json.dumps(case, sort_keys=True)))
    if len(out.samples) < 2 and T * A <= 40:
        out.sample({'tag': tag, **case, 'jumps_matrix': jm.tolist(), 'occupancy': occ})


def check_helper(out: Outcome, rng):
    """the bare helper on rows with valid indices (exact: entry = count)"""
    import pandas as pd
    n = int(rng.integers(1, 6))
    k = int(rng.integers(1, 30))
    rows = rng.integers(0, n, size=(k, 2))
    df = pd.DataFrame({'start site': rows[:, 0], 'destination site': rows[:, 1]})
    got = _calculate_transitions_matrix(df, n_sites=n)
    want = count_matrix(rows.tolist(), n)
    out.evaluations += 1
    case = {'helper_rows': rows.tolist(), 'n': n}
    if not np.array_equal(got, want):
        out.fail('property', 'helper-matrix-entry', case, expected=want.tolist(), observed=np.array(got).tolist())
    mm = model_matrix(rows.tolist(), n)
    if mm is None or not np.array_equal(mm, got):
        out.fail('correspondence', 'model-helper-matrix', case, expected=None if mm is None else mm.tolist(), observed=np.array(got).tolist())


def corpus():
    d = core.CORPUS / PID
    return [json.loads(p.read_text()) for p in sorted(d.glob('*.json'))] if d.exists() else []


def run(tier: str, seed: int, scale: int) -> Outcome:
    out = Outcome()
    rng = np.random.default_rng(seed)
    for case in corpus():
        check_case(out, case, 'corpus')
    n = (300 if tier == 'quick' else 3000) * scale
    for _ in range(n):
        check_case(out, build_system(rng), 'random')
    for _ in range(n):
        check_helper(out, rng)
    return out


def classify(f: core.Failure, finding: dict) -> bool:
    if finding['id'] == 'D5':
        return f.clause == 'transitions-matrix-entry' and f.note == 'as-is-model-agrees'
    return False


def replay(case):
    out = Outcome()
    check_case(out, case, 'replay')
    fails = [f for f in out.failures if f.kind == 'property']
    text = '\n'.join(f'{f.clause}: expected {f.expected} observed {f.observed} {f.note}' for f in fails) or 'no failure'
    return (not fails), text


SPEC = PropertySpec(
    pid=PID,
    modules=MODULES,
    run=run,
    replay=replay,
    gen=translate.gen_for('FormulasC05'),
    classify=classify,
    rule=('random systems: pool lattice (cubic to triclinic), 2-6 sites on a k/8 grid with 1-3 labels, 1-4 atoms, 4-60 frames of random '
          '(site, inner) histories (C03 generator), real Transitions/Jumps objects over a vibrating dyadic trajectory; 40% with a site structure carrying a 3-6 % different '
          'reference cell (distances are those of the simulation cell); Jumps with minimal residence in {0,1,3,6}. On the '
          'implementation: Jumps.matrix / Transitions.matrix entries = row counts, matrix sum = n_jumps, empty diagonal, _counter, '
          'label counter, graph edge set = support, jump_diffusivity for d=1,2,3 vs exact sum of squared certified minimum-image '
          'distances (rel 1e-9), rates vs the counters of the time parts analysed independently with the same settings, occupancy per site / by label / sums; matrices vs the Lean as-is '
          'model of the fancy-index assignment. Non-trivial: >= 2 distinct (origin, destination) pairs and >= 1 event touching "no '
          'site"; distinct = distinct system.'),
    trusted=['np.unique(axis=0) order and last-write-wins fancy assignment as modelled in GModel.Counts.matrixAsIs',
             'scipy.constants.angstrom; FloatWithUnit arithmetic'],
    assumptions=['site occupancy <= 1 (pymatgen rejects a Structure otherwise)'],
)
