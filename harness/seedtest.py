"""Development aid (not a registered command): confirm a seeded change and run the checks against it.

  /venv/bin/python -m harness.seedtest <Cxx> <dir-with-x.diff,x_demo.py,x_meta.txt> <x> [<seed-id>] [other checks…]

1. scratch worktree of /repo under /tmp: demo passes on the clean tree, patch applies, demo fails with
   it, the 66 offline tests still pass;
2. the patch is applied to /repo itself, `./check Cxx quick` (and any other named checks) are run,
   and the patch is undone straight afterwards;
3. the change is stored under /verif/seeded/<seed-id>/ with meta.json (caught_by, what was run).
"""

from __future__ import annotations

import json
import re
import shutil
import subprocess
import sys
from pathlib import Path

VERIF = Path(__file__).resolve().parents[1]
PY = '/venv/bin/python'


def sh(cmd, cwd=None, env=None, timeout=3600):
    p = subprocess.run(cmd, cwd=cwd, env=env, capture_output=True, text=True, timeout=timeout, shell=isinstance(cmd, str))
    return p.returncode, p.stdout + p.stderr


def main(argv):
    pid, src, tag = argv[0], Path(argv[1]), argv[2]
    seed_id = argv[3] if len(argv) > 3 else f'{pid}-{tag}'
    others = argv[4:]
    patch = src / f'{tag}.diff'
    demo = src / f'{tag}_demo.py'
    meta_txt = (src / f'{tag}_meta.txt').read_text() if (src / f'{tag}_meta.txt').exists() else ''
    wt = Path(f'/tmp/seedcheck_{seed_id}')
    result = {'property': pid, 'seed_id': seed_id, 'needs': meta_txt.strip()}
    import os
    phase = os.environ.get('SEEDTEST_PHASE', 'all')  # 'confirm' (parallelisable), 'check' (serial, needs /repo), 'all'
    stash = Path('/tmp/seedtest_confirm') / f'{seed_id}.json'
    if phase == 'check':
        result = json.loads(stash.read_text())
        return check_phase(result, pid, seed_id, others, patch, demo)
    sh(['git', '-C', '/repo', 'worktree', 'remove', '--force', str(wt)])
    rc, out = sh(['git', '-C', '/repo', 'worktree', 'add', '--detach', str(wt), 'HEAD'])
    try:
        import os
        env = {**os.environ, 'PYTHONPATH': f'{wt}/src'}
        rc0, out0 = sh([PY, str(demo)], cwd=wt, env=env, timeout=900)
        result['demo_clean_exit'] = rc0
        rca, outa = sh(['git', '-C', str(wt), 'apply', str(patch)])
        result['patch_applies'] = rca == 0
        if rca != 0:
            result['apply_error'] = outa[-500:]
        rc1, out1 = sh([PY, str(demo)], cwd=wt, env=env, timeout=900)
        result['demo_patched_exit'] = rc1
        result['demo_patched_tail'] = out1.strip().splitlines()[-1:] if out1.strip() else []
        rct, outt = sh([PY, '-m', 'pytest', '-q', '-p', 'no:cacheprovider', '--timeout=900', '--continue-on-collection-errors'], cwd=wt, env=env, timeout=1800)
        m = re.search(r'(\d+) passed', outt)
        result['tests_passed_with_patch'] = int(m.group(1)) if m else None
    finally:
        sh(['git', '-C', '/repo', 'worktree', 'remove', '--force', str(wt)])
    confirmed = (result.get('demo_clean_exit') == 0 and result.get('patch_applies') and result.get('demo_patched_exit') == 1
                 and result.get('tests_passed_with_patch') == 66)
    result['confirmed'] = bool(confirmed)
    print(json.dumps({k: v for k, v in result.items() if k != 'needs'}, indent=1))
    if not confirmed:
        print('NOT CONFIRMED — not kept')
        return 1
    if phase == 'confirm':
        stash.parent.mkdir(exist_ok=True)
        stash.write_text(json.dumps(result))
        return 0
    return check_phase(result, pid, seed_id, others, patch, demo)


def check_phase(result, pid, seed_id, others, patch, demo):
    # run the checks against the patched /repo
    rc, st = sh(['git', '-C', '/repo', 'status', '--porcelain'])
    if st.strip():
        print('/repo is not clean, refusing to apply'); return 2
    caught = {}
    try:
        rca, outa = sh(['git', '-C', '/repo', 'apply', str(patch)])
        assert rca == 0, outa
        for chk in [pid] + others:
            rcc, outc = sh(['./check', chk, 'quick'], cwd=VERIF, timeout=3600)
            vio = [l for l in outc.splitlines() if l.startswith('VIOLATION')]
            caught[chk] = {'exit': rcc, 'violation_line': vio[0] if vio else None}
            if vio:
                m = re.search(r'replay=(\S+)', vio[0])
                if m and (VERIF / m.group(1)).exists():
                    d = json.loads((VERIF / m.group(1)).read_text())
                    f = d.get('failure', {})
                    caught[chk]['clause'] = f.get('clause', d.get('broken'))
    finally:
        sh(['git', '-C', '/repo', 'checkout', '--', '.'])
        # the generated Lean slices were re-created from the patched tree: put back what the clean tree gives
        sh(['/venv/bin/python', '-c', 'from harness import translate; translate.generate()'], cwd=VERIF)
    result['checks'] = caught
    result['caught'] = any(v['exit'] == 1 for v in caught.values())
    dest = VERIF / 'seeded' / seed_id
    dest.mkdir(parents=True, exist_ok=True)
    shutil.copy(patch, dest / 'patch.diff')
    shutil.copy(demo, dest / 'demo.py')
    result['ran'] = [f'demo on clean/patched scratch worktree (PYTHONPATH=<worktree>/src {PY} demo.py)', 'pytest offline suite on the patched worktree',
                     'git -C /repo apply patch.diff; ./check <id> quick; git -C /repo checkout -- .']
    (dest / 'meta.json').write_text(json.dumps(result, indent=1) + '\n')
    print(json.dumps(caught, indent=1))
    print('CAUGHT' if result['caught'] else 'MISSED')
    return 0


if __name__ == '__main__':
    sys.exit(main(sys.argv[1:]))
