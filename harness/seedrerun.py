"""Development aid (not a registered command): re-run the quick checks against every stored seeded change.

  /venv/bin/python -m harness.seedrerun [seed-id …]

For each /verif/seeded/<id>/: git -C /repo apply patch.diff; ./check <property> quick (plus every check already named in
meta.json); git -C /repo checkout -- . ; meta.json is updated with what was observed.
"""

from __future__ import annotations

import json
import re
import subprocess
import sys
from pathlib import Path

VERIF = Path(__file__).resolve().parents[1]


def sh(cmd, cwd=None, timeout=3600):
    p = subprocess.run(cmd, cwd=cwd, capture_output=True, text=True, timeout=timeout)
    return p.returncode, p.stdout + p.stderr


def main(argv):
    ids = argv or sorted(p.name for p in (VERIF / 'seeded').iterdir() if (p / 'patch.diff').exists())
    rc, st = sh(['git', '-C', '/repo', 'status', '--porcelain'])
    if st.strip():
        print('/repo is not clean, refusing'); return 2
    missed = []
    for sid in ids:
        d = VERIF / 'seeded' / sid
        meta = json.loads((d / 'meta.json').read_text())
        pid = meta['property']
        checks = [pid] + [c for c in meta.get('checks', {}) if c != pid]
        caught = {}
        try:
            rca, outa = sh(['git', '-C', '/repo', 'apply', str(d / 'patch.diff')])
            if rca != 0:
                print(sid, 'PATCH DOES NOT APPLY', outa[-200:]); continue
            for chk in checks:
                rcc, outc = sh(['./check', chk, 'quick'], cwd=VERIF)
                vio = [l for l in outc.splitlines() if l.startswith('VIOLATION')]
                caught[chk] = {'exit': rcc, 'violation_line': vio[0] if vio else None}
                if vio:
                    m = re.search(r'replay=(\S+)', vio[0])
                    if m and (VERIF / m.group(1)).exists():
                        r = json.loads((VERIF / m.group(1)).read_text())
                        caught[chk]['clause'] = r.get('failure', {}).get('clause', r.get('broken'))
        finally:
            sh(['git', '-C', '/repo', 'checkout', '--', '.'])
        # the generated Lean slices were re-created from the patched tree: put back what the clean tree gives
        sh(['/venv/bin/python', '-c', 'from harness import translate; translate.generate()'], cwd=VERIF)
        meta['checks'] = caught
        meta['caught'] = any(v['exit'] == 1 for v in caught.values())
        (d / 'meta.json').write_text(json.dumps(meta, indent=1) + '\n')
        own = caught[pid]
        print(sid, 'CAUGHT' if own['exit'] == 1 else f'MISSED(exit {own["exit"]})', own.get('clause'),
              {k: v['exit'] for k, v in caught.items() if k != pid}, flush=True)
        if own['exit'] != 1:
            missed.append(sid)
    print('missed by the property\'s own check:', missed)
    return 0


if __name__ == '__main__':
    sys.exit(main(sys.argv[1:]))
