"""C10 — optimal and percolating paths are valid, correctly reported and cost-minimal."""

from __future__ import annotations

import json
import math
from fractions import Fraction

import networkx as nx
import numpy as np
from pymatgen.core import Lattice

from . import core, translate
from .core import Outcome, PropertySpec, enc

from gemdat.path import Pathway, free_energy_graph, optimal_path, optimal_percolating_path  # noqa: E402
from gemdat.volume import FreeEnergyVolume  # noqa: E402

PID = 'C10'
MODULES = ['GProofs.C10', 'GProofs.C10Peak', 'GProofs.C10Gen']
METHODS = ['dijkstra', 'bellman-ford', 'minmax-energy', 'dijkstra-exp', 'simple']
BIGF = 1.7976931348623157e308


def enc_grid(E, thr, diag):
    nx_, ny_, nz_ = E.shape
    return f'{nx_} {ny_} {nz_} {enc(thr)} {int(diag)} ' + ' '.join(enc(v) for v in E.reshape(-1).tolist())


def enc_vox(v):
    return ' '.join(str(int(x)) for x in v)


def gen_case(rng, maxshape):
    shape = [int(rng.integers(1, m + 1)) for m in maxshape]
    if np.prod(shape) < 2:
        shape[int(rng.integers(3))] = 3
    E = rng.integers(0, 49, size=shape) / 8.0
    thr = float(rng.choice([3.0, 4.5, 7.0]))
    # a few explicitly blocked voxels (unvisited: largest double), and some negative ones (never nodes)
    mask = rng.random(shape) < 0.12
    E[mask] = BIGF
    if rng.random() < 0.1:
        E[tuple(rng.integers(0, s) for s in shape)] = -0.5
    nodes = np.argwhere((E >= 0) & (E < thr))
    if len(nodes) < 2:
        E[...] = rng.integers(0, 16, size=shape) / 8.0
        nodes = np.argwhere((E >= 0) & (E < thr))
    a, b = rng.choice(len(nodes), size=2, replace=len(nodes) < 2)
    start, stop = nodes[a].tolist(), nodes[b].tolist()
    if rng.random() < 0.05:
        blocked = np.argwhere(~((E >= 0) & (E < thr)))
        if len(blocked):
            stop = blocked[int(rng.integers(len(blocked)))].tolist()
    return {'shape': shape, 'E': E.reshape(-1).tolist(), 'thr': thr, 'diag': bool(rng.integers(2)), 'start': start, 'stop': stop}


def exp_cost_optimum(G, start, stop):
    """independent Bellman-Ford in floats over the implementation's own weight_exp attributes"""
    dist = {start: 0.0}
    nodes = list(G.nodes)
    for _ in range(len(nodes) + 1):
        changed = False
        for u, v, w in G.edges(data='weight_exp'):
            for a, b in ((u, v), (v, u)):
                if a in dist and dist[a] + w < dist.get(b, math.inf) * (1 - 1e-15):
                    dist[b] = dist[a] + w
                    changed = True
        if not changed:
            break
    return dist.get(stop)


def check_case(out: Outcome, case, tag):
    shape = tuple(case['shape'])
    E = np.array(case['E'], float).reshape(shape)
    thr, diag = case['thr'], case['diag']
    start, stop = tuple(case['start']), tuple(case['stop'])
    out.evaluations += 1
    gline = enc_grid(E, thr, diag)
    res = core.drive([('o', f'optimum {gline} {enc_vox(start)} {enc_vox(stop)}'), ('n', f'nodes {gline}')])
    o = res['o'].split()[1:]
    opt = {'sum': o[0], 'steps': o[2], 'bottleneck': o[4]}
    certs = [o[1], o[3], o[5]]
    if certs != ['1', '1', '1']:
        out.fail('correspondence', 'certificate-not-established', case, observed=certs)
        return
    fev = FreeEnergyVolume(data=E, lattice=Lattice(np.eye(3) * 5.0))
    G = fev.free_energy_graph(max_energy_threshold=thr, diagonal=diag)
    want_nodes = {tuple(ix) for ix in np.argwhere(np.array([c == '1' for c in res['n'].split()[1:]]).reshape(shape)).tolist()}
    if set(G.nodes) != want_nodes:
        out.fail('property', 'graph-nodes', case, expected=sorted(want_nodes)[:6], observed=sorted(G.nodes)[:6])
        return
    # every edge carries weight = mean of its two voxel energies and weight_exp = exp(weight) capped at the threshold (independent of the path search)
    for u, v, dat in G.edges(data=True):
        w = 0.5 * (E[u] + E[v])
        we = math.exp(w) if math.exp(w) < thr else thr
        if not (math.isclose(dat['weight'], w, rel_tol=1e-12, abs_tol=1e-300) and math.isclose(dat['weight_exp'], we, rel_tol=1e-12)):
            out.fail('property', 'exp-weight', {**case, 'edge': [list(map(int, u)), list(map(int, v))]}, expected=[w, we], observed=[dat['weight'], dat['weight_exp']],
                     note='edge attributes of free_energy_graph')
            break
    reachable = opt['sum'] != 'none'
    # the other neighbourhood mode requested on the SAME volume object afterwards must give that mode's graph
    G_other = fev.free_energy_graph(max_energy_threshold=thr, diagonal=not diag)
    oline = enc_grid(E, thr, not diag)
    oo = core.drive1(f'optimum {oline} {enc_vox(start)} {enc_vox(stop)}').split()[1:]
    try:
        p2 = fev.optimal_path(F_graph=G_other, start=start, stop=stop, method='dijkstra')
        s2 = [tuple(int(x) for x in q) for q in p2.sites]
        pc2 = core.drive1(f'pathcheck {oline} {len(s2)} ' + ' '.join(enc_vox(q) for q in s2)).split()
        if pc2[1] != '1':
            out.fail('property', 'steps-between-admissible-neighbours', {**case, 'diag': not diag, 'second_mode_on_same_object': True}, observed=s2,
                     note='graph requested with the other neighbourhood mode on the same volume object')
        elif oo[0] != 'none' and core.dec_rat(pc2[2]) != core.dec_rat(oo[0]):
            out.fail('property', 'cost-minimal', {**case, 'diag': not diag, 'second_mode_on_same_object': True}, expected=oo[0], observed=pc2[2],
                     note='graph requested with the other neighbourhood mode on the same volume object')
    except (nx.NetworkXNoPath, nx.NodeNotFound):
        if oo[0] != 'none':
            out.fail('property', 'path-exists-but-refused', {**case, 'diag': not diag, 'second_mode_on_same_object': True}, expected=oo[0])
    for method in case.get('methods', METHODS):
        c = {**case, 'method': method}
        try:
            path = fev.optimal_path(F_graph=G, start=start, stop=stop, method=method)
        except (nx.NetworkXNoPath, nx.NodeNotFound):
            if reachable:
                out.fail('property', 'path-exists-but-refused', c, expected=f'a path of cost {opt["sum"]}', observed='NetworkXNoPath/NodeNotFound')
            else:
                out.count('unreachable-refused')
            continue
        except Exception as e:  # noqa: BLE001
            out.fail('property', 'path-raised', c, observed=type(e).__name__ + ': ' + str(e)[:100])
            continue
        sites = [tuple(int(x) for x in s) for s in path.sites]
        if not reachable:
            out.fail('property', 'path-through-inadmissible-voxels', c, expected='no admissible path', observed=sites)
            continue
        if sites[0] != start or sites[-1] != stop:
            out.fail('property', 'endpoints', c, expected=[start, stop], observed=[sites[0], sites[-1]])
            continue
        pl = f'pathcheck {gline} {len(sites)} ' + ' '.join(enc_vox(s) for s in sites)
        pc = core.drive1(pl).split()
        valid, ecost, nsum, emax = pc[1] == '1', core.dec_rat(pc[2]), core.dec_rat(pc[3]), core.dec_rat(pc[4])
        if not valid:
            out.fail('property', 'steps-between-admissible-neighbours', c, observed=sites)
            continue
        if [float(x) for x in path.energy] != [float(E[s]) for s in sites]:
            out.fail('property', 'reported-energies', c, expected=[float(E[s]) for s in sites], observed=list(map(float, path.energy)))
        if Fraction(float(path.total_energy)) != nsum:
            out.fail('property', 'total-energy', c, expected=float(nsum), observed=float(path.total_energy))
        if method in ('dijkstra', 'bellman-ford'):
            if ecost != core.dec_rat(opt['sum']):
                out.fail('property', 'cost-minimal', c, expected=opt['sum'], observed=str(ecost), note='sum of edge weights')
        elif method == 'simple':
            if len(sites) - 1 != int(core.dec_rat(opt['steps'])):
                out.fail('property', 'cost-minimal', c, expected=opt['steps'], observed=len(sites) - 1, note='number of steps')
        elif method == 'minmax-energy':
            if emax != core.dec_rat(opt['bottleneck']):
                note = 'as-is: the dijkstra (sum) optimum is returned' if ecost == core.dec_rat(opt['sum']) else 'neither bottleneck- nor sum-optimal'
                out.fail('property', 'cost-minimal-minmax', c, expected=opt['bottleneck'], observed=str(emax), note=note)
            elif ecost != core.dec_rat(opt['sum']):
                out.count('minmax-differs-from-dijkstra')
        elif method == 'dijkstra-exp':
            got = sum(G.edges[a, b]['weight_exp'] for a, b in zip(sites, sites[1:]))
            want = exp_cost_optimum(G, start, stop)
            if want is None or not math.isclose(got, want, rel_tol=1e-9, abs_tol=0):
                out.fail('property', 'cost-minimal', c, expected=want, observed=got, note='sum of min(exp(w), threshold)')
            for a, b in zip(sites, sites[1:]):
                w = 0.5 * (E[a] + E[b])
                we = min(math.exp(w), thr) if math.exp(w) < thr else thr
                if not math.isclose(G.edges[a, b]['weight_exp'], we, rel_tol=1e-12):
                    out.fail('property', 'exp-weight', c, expected=we, observed=G.edges[a, b]['weight_exp'])
                    break
        # wrapped / fractional coordinates of an in-grid path are itself / voxel centres
        if path.dims is not None:
            w = path.wrapped_sites()
            if [tuple(map(int, x)) for x in w] != sites:
                out.fail('property', 'wrapped-sites', c, expected=sites, observed=w)
    check_same_object_sequence(out, case)
    blocked = bool((~((E >= 0) & (E < thr))).any())
    steps = int(core.dec_rat(opt['steps'])) if reachable else 0
    if steps >= 3 and blocked and len(set(shape)) >= 2:
        out.nontrivial.add(json.dumps(case, sort_keys=True))
    if len(out.samples) < 2 and np.prod(shape) <= 12 and steps >= 2:
        out.sample({'tag': tag, **case, 'optimal': opt})


def check_same_object_sequence(out: Outcome, case):
    """a history on ONE volume object, graph never supplied by the caller: path -> the caller prunes a graph it was handed -> path
    again -> a voxel of that path is raised above the threshold IN PLACE -> path again.  Every answer must be valid and cost-minimal
    for the grid as it is at that moment (default graph: threshold 1e7, all 26 neighbours)."""
    shape = tuple(case['shape'])
    E = np.array(case['E'], float).reshape(shape)
    start, stop = tuple(case['start']), tuple(case['stop'])
    THR = 1e7
    if start == stop or not all(0 <= E[v] < THR for v in (start, stop)):
        return
    fev = FreeEnergyVolume(data=E.copy(), lattice=Lattice(np.eye(3) * 5.0))

    def ask(step):
        grid = np.array(fev.data, float)
        gl = enc_grid(grid, THR, True)
        want = core.drive1(f'optimum {gl} {enc_vox(start)} {enc_vox(stop)}').split()[1:]
        c = {**case, 'thr': THR, 'diag': True, 'same_object_history': step}
        try:
            p = fev.optimal_path(start=start, stop=stop, method='dijkstra')
        except (nx.NetworkXNoPath, nx.NodeNotFound):
            if want[0] != 'none':
                out.fail('property', 'path-exists-but-refused', c, expected=want[0], note=step)
            return None
        sites = [tuple(int(x) for x in q) for q in p.sites]
        if want[0] == 'none':
            out.fail('property', 'path-through-inadmissible-voxels', c, expected='no admissible path', observed=sites, note=step)
            return None
        pc = core.drive1(f'pathcheck {gl} {len(sites)} ' + ' '.join(enc_vox(q) for q in sites)).split()
        if pc[1] != '1':
            out.fail('property', 'steps-between-admissible-neighbours', c, observed=sites, note=step)
            return None
        if [float(x) for x in p.energy] != [float(grid[q]) for q in sites]:
            out.fail('property', 'reported-energies', c, expected=[float(grid[q]) for q in sites], observed=list(map(float, p.energy)), note=step)
            return None
        if core.dec_rat(pc[2]) != core.dec_rat(want[0]):
            out.fail('property', 'cost-minimal', c, expected=want[0], observed=pc[2], note=step)
            return None
        return sites

    out.evaluations += 1
    s1 = ask('first path')
    if not s1 or len(s1) < 3:
        return
    mid = s1[len(s1) // 2]
    handed = fev.free_energy_graph(max_energy_threshold=THR)
    if mid in handed:
        handed.remove_node(mid)
    s2 = ask(f'after the caller removed voxel {list(mid)} from a graph it had been handed')
    if not s2:
        return
    mid2 = s2[len(s2) // 2]
    fev.data[mid2] = BIGF
    ask(f'after voxel {list(mid2)} of the volume was raised above the threshold in place')
    out.count('same-object-sequences')


def check_percolation(out: Outcome, rng, maxshape):
    shape = [int(rng.integers(2, m + 1)) for m in maxshape]
    E = rng.integers(0, 33, size=shape) / 8.0
    E[rng.random(shape) < 0.15] = BIGF
    dirs = ''.join(d for d in 'xyz' if rng.random() < 0.5) or 'x'
    npeaks = int(rng.integers(1, 4))
    vis = np.argwhere(E < 1e7)
    if len(vis) == 0:
        return
    peaks = vis[rng.choice(len(vis), size=min(npeaks, len(vis)), replace=False)]
    case = {'percolation': True, 'shape': shape, 'E': E.reshape(-1).tolist(), 'dirs': dirs, 'peaks': peaks.tolist()}
    check_perc_case(out, case, 'percolation')


def check_percolation_pocket(out: Outcome, rng):
    """one supplied peak sits in a pocket (all its neighbours blocked) and is listed among peaks of open channels: the
    result must still be the cheapest percolating path over ALL supplied peaks, wherever the pocket peak is listed"""
    shape = [5, 4, 5]
    E = rng.integers(0, 33, size=shape) / 8.0
    E[rng.random(shape) < 0.05] = BIGF
    p0 = np.array([int(rng.integers(0, n)) for n in shape])
    for d in np.argwhere(np.ones((3, 3, 3))) - 1:
        if d.any():
            E[tuple((p0 + d) % shape)] = BIGF
    E[tuple(p0)] = float(rng.integers(0, 9)) / 8.0
    dirs = ''.join(d for d in 'xyz' if rng.random() < 0.5) or 'z'
    vis = np.array([v for v in np.argwhere(E < 1e7) if not (v == p0).all()])
    if len(vis) < 2:
        return
    others = vis[rng.choice(len(vis), size=2, replace=False)]
    peaks = np.vstack([others[:1], [p0], others[1:]])[rng.permutation(3)]
    case = {'percolation': True, 'shape': shape, 'E': E.reshape(-1).tolist(), 'dirs': dirs, 'peaks': peaks.tolist(), 'pocket': p0.tolist()}
    check_perc_case(out, case, 'percolation-pocket')


def check_percolation_zero_channel(out: Outcome, rng):
    """a straight channel of voxels with free energy exactly 0 (energies given relative to their minimum) percolates at total cost 0;
    its peak is listed before peaks of costlier channels: the zero-cost path must be kept"""
    shape = [4, 3, 4]
    E = rng.integers(1, 33, size=shape) / 8.0
    E[rng.random(shape) < 0.05] = BIGF
    ax = int(rng.integers(3))
    fixed = [int(rng.integers(0, n)) for n in shape]
    sl = [fixed[0], fixed[1], fixed[2]]
    sl[ax] = slice(None)
    E[tuple(sl)] = 0.0
    p0 = list(fixed)
    p0[ax] = int(rng.integers(0, shape[ax]))
    vis = np.array([v for v in np.argwhere(E < 1e7) if E[tuple(v)] > 0])
    if len(vis) < 2:
        return
    others = vis[rng.choice(len(vis), size=2, replace=False)]
    peaks = np.vstack([[p0], others])
    case = {'percolation': True, 'shape': shape, 'E': E.reshape(-1).tolist(), 'dirs': 'xyz'[ax], 'peaks': peaks.tolist(), 'zero_channel_axis': ax}
    check_perc_case(out, case, 'percolation-zero-channel')


def check_perc_case(out: Outcome, case, tag):
    shape = tuple(case['shape'])
    E = np.array(case['E'], float).reshape(shape)
    dirs = case['dirs']
    peaks = np.array(case['peaks'], int)
    out.evaluations += 1
    fev = FreeEnergyVolume(data=E, lattice=Lattice(np.diag([4.0, 5.0, 6.0])))
    try:
        best = optimal_percolating_path(fev, peaks=peaks, percolate=dirs)
    except Exception as e:  # noqa: BLE001
        out.fail('property', 'percolation-raised', case, observed=type(e).__name__ + ': ' + str(e)[:100])
        return
    pv = np.array([d in dirs for d in 'xyz'])
    tiled = np.tile(E, tuple(1 + pv))
    gline = enc_grid(tiled, 1e7, True)
    image = np.array(shape) * pv
    lines = [(str(k), f'optimum {gline} {enc_vox(p)} {enc_vox(p + image)}') for k, p in enumerate(peaks)]
    res = core.drive(lines)
    costs = []
    for k, p in enumerate(peaks):
        o = res[str(k)].split()[1:]
        if o[1] != '1':
            out.fail('correspondence', 'certificate-not-established', case)
            return
        if o[0] != 'none':
            # total_energy = node sum = edge cost + E(peak) (both ends are images of the peak)
            costs.append((core.dec_rat(o[0]) + Fraction(float(E[tuple(p)])), k))
    # the scan over the supplied peaks (GModel.Labels.bestPeak; theorems bestPeak_min, bestPeak_none_iff, bestPeak_first)
    by_peak = {k: c for c, k in costs}
    bp = core.drive1(f'bestpeak {len(peaks)} ' + ' '.join(enc(by_peak[k]) if k in by_peak else 'none' for k in range(len(peaks)))).split()[1:]
    if (bp == ['none']) != (not costs) or (costs and core.dec_rat(bp[1]) != min(costs)[0]):
        out.fail('correspondence', 'model-best-peak', case, expected=str(min(costs)[0]) if costs else 'none', observed=bp)
    elif costs and best is not None and tuple(int(x) for x in best.sites[0]) != tuple(int(x) for x in peaks[int(bp[0])]):
        # ties between peaks: the first supplied peak of minimal cost is the one returned
        out.fail('property' if Fraction(float(best.total_energy)) != core.dec_rat(bp[1]) else 'correspondence', 'model-best-peak-choice', case,
                 expected=[int(x) for x in peaks[int(bp[0])]], observed=[int(x) for x in best.sites[0]])
    if not costs:
        if best is not None:
            out.fail('property', 'percolation-path-through-inadmissible-voxels', case, observed=[tuple(map(int, s)) for s in best.sites])
        out.count('no-percolation')
        return
    if best is None:
        out.fail('property', 'percolating-path-exists-but-none-returned', case, expected=str(min(costs)[0]))
        return
    sites = [tuple(int(x) for x in s) for s in best.sites]
    pl = f'pathcheck {gline} {len(sites)} ' + ' '.join(enc_vox(s) for s in sites)
    pc = core.drive1(pl).split()
    if pc[1] != '1':
        out.fail('property', 'steps-between-admissible-neighbours', case, observed=sites)
        return
    start = np.array(sites[0])
    if not any((start == p).all() for p in peaks) or tuple(start + image) != sites[-1]:
        out.fail('property', 'connects-peak-to-its-image', case, expected='peak -> peak + dims*direction', observed=[sites[0], sites[-1]])
    nsum = core.dec_rat(pc[3])
    if nsum != min(costs)[0] or Fraction(float(best.total_energy)) != nsum:
        out.fail('property', 'cheapest-over-peaks', case, expected=str(min(costs)[0]), observed=str(nsum))
    # wrapped voxel and fractional coordinates lie inside the original grid along every axis
    try:
        w = [tuple(int(x) for x in s) for s in best.wrapped_sites()]
        f = np.array(best.frac_sites())
    except Exception as e:  # noqa: BLE001
        out.fail('property', 'wrapped-sites-raised', case, observed=type(e).__name__)
        return
    mw = core.drive1(f'wrap {shape[0]} {shape[1]} {shape[2]} {len(sites)} ' + ' '.join(enc_vox(s) for s in sites))
    wpart, fpart = mw[3:].split(' | ')
    wv = list(map(int, wpart.split()))
    want_w = [tuple(wv[3 * k: 3 * k + 3]) for k in range(len(sites))]
    inside = all(0 <= a < n for s in w for a, n in zip(s, shape))
    if not inside or w != want_w:
        out.fail('property', 'wrapped-sites-inside-grid', case, expected=want_w, observed=w,
                 note='xdim-for-all-axes' if w == [(s[0] % shape[0], s[1] % shape[0], s[2] % shape[0]) for s in sites] else '')
    want_f = np.array([float(core.dec_rat(t)) for t in fpart.split()]).reshape(-1, 3)
    if f.shape != want_f.shape or not np.allclose(f, want_f, rtol=1e-12) or f.min() < 0 or f.max() >= 1:
        out.fail('property', 'frac-sites-inside-cell', case, expected=want_f.tolist(), observed=f.tolist(),
                 note='xdim-for-all-axes' if w != want_w else '')
    if len(set(shape)) >= 2 and len(sites) >= 3:
        out.nontrivial.add(json.dumps(case, sort_keys=True))
    out.count('percolating-paths')


def corpus():
    d = core.CORPUS / PID
    return [json.loads(p.read_text()) for p in sorted(d.glob('*.json'))] if d.exists() else []


def run(tier: str, seed: int, scale: int) -> Outcome:
    out = Outcome()
    rng = np.random.default_rng(seed)
    for case in corpus():
        (check_perc_case if case.get('percolation') else check_case)(out, case, 'corpus')
    ms = (5, 4, 6) if tier == 'quick' else (6, 6, 6)
    for _ in range((200 if tier == 'quick' else 2000) * scale):
        check_case(out, gen_case(rng, ms), 'random')
    for _ in range((100 if tier == 'quick' else 1000) * scale):
        check_percolation(out, rng, (4, 3, 5) if tier == 'quick' else (5, 5, 5))
    for _ in range((30 if tier == 'quick' else 300) * scale):
        check_percolation_pocket(out, rng)
    for _ in range((20 if tier == 'quick' else 200) * scale):
        check_percolation_zero_channel(out, rng)
    return out


def classify(f: core.Failure, finding: dict) -> bool:
    if finding['id'] == 'D7':
        return f.clause == 'cost-minimal-minmax' and f.note.startswith('as-is')
    return False


def replay(case):
    out = Outcome()
    (check_perc_case if case.get('percolation') else check_case)(out, case, 'replay')
    fails = [f for f in out.failures if f.kind == 'property']
    text = '\n'.join(f'{f.clause}: expected {str(f.expected)[:200]} observed {str(f.observed)[:200]} {f.note}' for f in fails) or 'no failure'
    return (not fails), text


SPEC = PropertySpec(
    pid=PID,
    modules=MODULES,
    run=run,
    replay=replay,
    classify=classify,
    gen=translate.gen_for('Moves', 'FormulasC10'),
    rule=('random free-energy grids up to 5x4x6 (thorough 6x6x6) with unequal axes, dyadic energies k/8 in [0,6], 12% blocked voxels '
          '(largest double), occasional negative voxels, thresholds {3,4.5,7}, both neighbourhoods, random admissible start/stop (5% '
          'blocked stop), all five methods; percolation on grids up to 4x3x5 (5x5x5) with 1-3 peaks and all seven direction sets. On the '
          'implementation: end points, every step between admissible neighbours of the periodic grid (Lean validPath on the move table '
          'regenerated from path.py), reported energies = grid values, total_energy = node sum, cost of the returned path = the '
          'optimum certified by a feasible potential (exact rationals) for sum / steps / bottleneck, independent float Bellman-Ford for '
          'exp weights; percolating path = cheapest over ALL supplied peaks to the image exactly one cell away (30/300 grids 5x4x5 with one '
          'peak enclosed in a pocket of blocked voxels, listed at a random position among peaks of open channels), wrapped / fractional coordinates '
          'inside the original grid on every axis. Non-trivial: optimal path of >= 3 steps, >= 1 blocked voxel, unequal axes.'),
    trusted=['networkx shortest paths are NOT trusted: the returned path is checked against a potential whose feasibility the model re-checks edge by edge',
             'np.exp for dijkstra-exp weights (tolerance 1e-9)', 'harness/translate.py extraction of the move tables'],
    assumptions=['energies on a dyadic grid so that float sums are exact'],
)
