"""C06 — mean squared displacement and tracer diffusivity equal their definitions."""

from __future__ import annotations

import json

import numpy as np
from scipy.constants import angstrom

from . import core, gem, trajsc, translate
from .core import Outcome, PropertySpec

from gemdat.metrics import TrajectoryMetrics  # noqa: E402

PID = 'C06'
MODULES = ['GProofs.C06', 'GProofs.C06Fft', 'GProofs.C06Gen', 'GProofs.C14Gen']


def gen_case(rng, tmax):
    name, lat = gem.lattice_pool(rng)
    if rng.random() < 0.3:
        lat = gem.exact_orientation(rng, lat)
    T = int(rng.integers(2, tmax + 1))
    A = int(rng.integers(1, 5))
    c = trajsc.fix_ties(rng, trajsc.rand_coords(rng, T, A, step_scale=int(rng.choice([3, 12, 28]))))
    return {'lattice_name': name, 'lattice': lat.tolist(), 'coords': c.tolist(), 'time_step': float(rng.choice([1e-15, 2e-15, 5e-16]))}


def check_case(out: Outcome, case, tag):
    lat = np.array(case['lattice'], float)
    coords = np.array(case['coords'], float)
    T, A, _ = coords.shape
    out.evaluations += 1
    ops = [('M', 0), ('R', 0)]
    model = trajsc.parse_model(core.drive1(trajsc.model_line(lat, [coords], ops)))
    mvals = model[0][1]
    algo = np.array([float(v) for v in mvals[0::2]]).reshape(A, T)
    defn = np.array([float(v) for v in mvals[1::2]]).reshape(A, T)
    if any(a != b for a, b in zip(mvals[0::2], mvals[1::2])):
        out.fail('correspondence', 'model-algorithm-vs-definition', case, note='msdAlgo != msdDef in exact arithmetic (theorem instance fails)')
    dist2 = np.array([float(v) for v in model[1][1]]).reshape(T, A)
    tr = gem.make_traj(coords, lat, ['Li'] * A, time_step=case['time_step'])
    msd = np.array(tr.mean_squared_displacement())
    scale = max(float(np.max(np.abs(defn))), float(np.max(dist2)), 1e-30)
    if msd.shape != defn.shape or not np.allclose(msd, defn, rtol=1e-9, atol=1e-9 * scale):
        out.fail('property', 'msd-equals-definition', case, expected=defn.tolist(), observed=msd.tolist(),
                 note=f'max abs deviation {float(np.max(np.abs(msd - defn))) if msd.shape == defn.shape else "shape"}')
    if msd.shape == defn.shape and not np.allclose(msd[:, 0], 0, atol=1e-9 * scale):
        out.fail('property', 'msd-zero-at-lag-zero', case, expected=0, observed=msd[:, 0].tolist())
    d = np.array(tr.distances_from_base_position())  # [atom, frame]
    if not np.allclose(d.T ** 2, dist2, rtol=1e-9, atol=1e-12 * scale):
        out.fail('property', 'distance-is-cartesian-length', case, expected=dist2.tolist(), observed=(d.T ** 2).tolist())
    total_time = T * case['time_step']
    metrics = TrajectoryMetrics(tr)  # ONE object asked for every dimensionality, in an order that varies from case to case
    for dims in [(3, 2, 1, 3), (1, 2, 3, 2), (2, 3, 1, 1)][(T + A) % 3]:
        got = float(metrics.tracer_diffusivity(dimensions=dims))
        want = float(np.mean(dist2[-1])) * angstrom**2 / (2 * dims * total_time)
        if not np.isclose(got, want, rtol=1e-9, atol=0):
            out.fail('property', 'tracer-diffusivity', case, expected=want, observed=got, note=f'dimensions={dims}')
    # query -> extend -> query on the same object: the second answer must describe the extended trajectory
    if T >= 4:
        h = T // 2
        first = gem.make_traj(coords[:h], lat, ['Li'] * A, time_step=case['time_step'])
        _ = first.mean_squared_displacement()
        _ = first.distances_from_base_position()
        first.extend(gem.make_traj(coords[h:], lat, ['Li'] * A, time_step=case['time_step']))
        msd2 = np.array(first.mean_squared_displacement())
        d2 = np.array(first.distances_from_base_position())
        if msd2.shape != defn.shape or not np.allclose(msd2, defn, rtol=1e-9, atol=1e-9 * scale):
            out.fail('property', 'msd-equals-definition', {**case, 'history': 'query, extend, query'}, expected=list(defn.shape), observed=list(msd2.shape),
                     note='after extend() the MSD does not describe the extended trajectory')
        elif d2.T.shape != dist2.shape or not np.allclose(d2.T ** 2, dist2, rtol=1e-9, atol=1e-12 * scale):
            out.fail('property', 'distance-is-cartesian-length', {**case, 'history': 'query, extend, query'}, expected=list(dist2.shape), observed=list(d2.T.shape))
    crossing = bool(np.any(np.floor(coords[1:]) != np.floor(coords[:-1])))
    skew = not np.array_equal(lat, np.diag(np.diag(lat)))
    differ = A >= 2 and len({tuple(np.round(np.diff(coords[:, a], axis=0).reshape(-1), 9)) for a in range(A)}) >= 2
    if crossing and skew and differ:
        out.nontrivial.add(json.dumps(case, sort_keys=True))
    if len(out.samples) < 2 and T * A <= 8 and crossing:
        out.sample({'tag': tag, **case, 'msd': msd.tolist()})


def check_fft_step(out: Outcome, rng):
    """the trusted step of C06Fft made observable: numpy's `ifft(|fft(x, n=pad)|^2)` IS the cyclic autocorrelation of x padded (or
    truncated) to `pad` (GModel.Fft.cyclicAcorr), for the code's length 2n and for other lengths (where it is not the linear one)"""
    n = int(rng.integers(1, 33))
    x = rng.integers(-40, 41, size=n)
    pads = sorted({2 * n, max(2 * n - 1, 1), max(2 * n - 2, 1), n, n + int(rng.integers(1, 6)), max(n - int(rng.integers(1, 4)), 1), 2 * n + int(rng.integers(1, 9))})
    lines = [(str(p), f'cacorr {p} {n} ' + ' '.join(str(int(v)) for v in x)) for p in pads]
    res = core.drive(lines)
    lin = [int(sum(int(x[t]) * int(x[t + k]) for t in range(n - k))) for k in range(n)]
    for p in pads:
        out.evaluations += 1
        toks = res[str(p)].split()
        assert toks[0] == 'ok', res[str(p)]
        model = [int(core.dec_rat(t)) for t in toks[1:]]
        got = np.fft.ifft(np.abs(np.fft.fft(x, n=p)) ** 2).real
        m = min(n, p)
        case = {'fft_step': True, 'x': x.tolist(), 'pad': p}
        if not np.allclose(got[:m], model[:m], rtol=0, atol=1e-6 * (1 + max(abs(v) for v in model))):
            out.fail('correspondence', 'fft-is-cyclic-autocorrelation', case, expected=model[:m], observed=got[:m].tolist())
        if p >= 2 * n - 1 and model != lin:
            out.fail('correspondence', 'cyclic-eq-linear-instance', case, expected=lin, observed=model, note='theorem instance C06Fft.cyclic_eq_linear fails')
        out.count('fft-step-pad-long-enough' if p >= 2 * n - 1 else ('fft-step-wraps' if model != lin else 'fft-step-short-but-equal'))


def corpus():
    d = core.CORPUS / PID
    return [json.loads(p.read_text()) for p in sorted(d.glob('*.json'))] if d.exists() else []


def run(tier: str, seed: int, scale: int) -> Outcome:
    out = Outcome()
    rng = np.random.default_rng(seed)
    for case in corpus():
        check_case(out, case, 'corpus')
    n = (300 if tier == 'quick' else 3000) * scale
    for k in range(n):
        check_case(out, gen_case(rng, 40 if (tier == 'quick' or k % 10) else 200), 'random')
    for _ in range((60 if tier == 'quick' else 600) * scale):
        check_fft_step(out, rng)
    return out


def replay(case):
    out = Outcome()
    if case.get('fft_step'):
        x, p = np.array(case['x']), int(case['pad'])
        n = len(x)
        model = [int(core.dec_rat(t)) for t in core.drive1(f'cacorr {p} {n} ' + ' '.join(str(int(v)) for v in x)).split()[1:]]
        got = np.fft.ifft(np.abs(np.fft.fft(x, n=p)) ** 2).real
        m = min(n, p)
        ok = bool(np.allclose(got[:m], model[:m], rtol=0, atol=1e-6 * (1 + max(abs(v) for v in model))))
        return ok, f'numpy {got[:m].tolist()} vs cyclic autocorrelation {model[:m]}'
    check_case(out, case, 'replay')
    fails = [f for f in out.failures if f.kind == 'property']
    text = '\n'.join(f'{f.clause}: expected {str(f.expected)[:200]} observed {str(f.observed)[:200]} {f.note}' for f in fails) or 'no failure'
    return (not fails), text


SPEC = PropertySpec(
    pid=PID,
    modules=MODULES,
    run=run,
    replay=replay,
    gen=translate.gen_for('FormulasC06', 'FormulasC14'),
    rule=('[FFT step] 60 (thorough 600) integer signals of 1-32 samples: numpy ifft(|fft(x, n=pad)|^2) vs GModel.Fft.cyclicAcorr for pad in {2n, 2n-1, 2n-2, n, n+k, n-k, 2n+k}; for pad >= 2n-1 also = the linear sums (instance of C06Fft.cyclic_eq_linear). '
          'random walks of 2-40 frames (thorough: every tenth up to 200) x 1-4 atoms, dyadic coordinates, step sizes up to 28/64 so '
          'that atoms cross faces many times, on pool lattices incl. strongly triclinic and re-oriented ones. mean_squared_displacement() '
          'vs the exact rational definition (average over time origins of |r(t+m) - r(t)|^2 on unwrapped Cartesian tracks) for every '
          'atom and lag, rel 1e-9; zero at lag 0; distances^2 vs metric quadratic form of the cumulative displacement; tracer '
          'diffusivity for d = 1,2,3 vs mean final squared distance / (2 d T dt). The model also evaluates the code\'s own S1-recursion '
          'algorithm and checks it equals the definition exactly on every case. Non-trivial: >= 2 atoms moving differently, a face '
          'crossing and a non-orthogonal cell.'),
    trusted=['np.fft.ifft(|np.fft.fft(x, n=pad)|^2) is the cyclic autocorrelation of the padded signal (convolution theorem; compared with GModel.Fft.cyclicAcorr on integer signals to 1e-6 absolute); that this is the linear autocorrelation for the source\'s pad length is PROVED (C06Fft.cyclic_eq_linear, C06Gen.msdFftLength_ok on the translated length)',
             'np.sqrt, lattice.get_cartesian_coords (float matrix product) compared with tolerance 1e-9'],
    assumptions=['NoTie (unwrapping is defined)'],
)
