"""C02 — site assignment follows the true minimum-image distance for every cell and radius."""

from __future__ import annotations

import json
import math
import warnings
from fractions import Fraction

import numpy as np
from pymatgen.core import Lattice

from . import core, gem, translate
from .core import Outcome, PropertySpec, enc

from gemdat.metrics import TrajectoryMetrics  # noqa: E402
from gemdat.transitions import _compute_site_radius  # noqa: E402

PID = 'C02'
MODULES = ['GProofs.Geometry', 'GProofs.C02', 'GProofs.C02Gen']
MARGIN = 1e-3  # Å: |distance - radius| below this is not decided by the statement for float32 boxes


def lattice_for(rng):
    """pool lattice, possibly re-oriented: exact signed permutation, pymatgen's from_parameters
    orientation, or a rational (3,4,5) rotation — the last two are not exactly representable, the
    model then receives the exact rational value of the float matrix the implementation holds"""
    name, m = gem.lattice_pool(rng)
    if rng.random() < 0.1:
        name, m = 'tric-80-75-115', Lattice.from_parameters(6.5, 7, 8, 80, 75, 115).matrix.copy()
    r = rng.random()
    if r < 0.25:
        m = gem.exact_orientation(rng, m)
        name += '+perm'
    elif r < 0.5:
        m = Lattice.from_parameters(*Lattice(m).parameters).matrix.copy()
        name += '+from_parameters'
    elif r < 0.75:
        rot = gem._rot_pyth(int(rng.integers(3)), 3, 4, 5) @ gem._rot_pyth(int(rng.integers(3)), 5, 12, 13)
        m = m @ rot
        name += '+rotated'
    return name, np.array(m, float)


def gen_case(rng, max_sites):
    name, lat = lattice_for(rng)
    L = Lattice(lat)
    ns = int(rng.integers(2, max_sites + 1))
    grid = rng.permutation(16 ** 3)[:ns]
    sites = np.array([[(g // 256) / 16, ((g // 16) % 16) / 16, (g % 16) / 16] for g in grid])
    if rng.random() < 0.4:
        sites[0] = rng.choice([0.0, 0.5, 15 / 16], size=3)  # a site on a face / corner
    pd = L.get_all_distances(sites, sites)
    dmin = float(np.min(pd[np.triu_indices(ns, k=1)]))
    mode = str(rng.choice(['float', 'dict', 'auto']))
    nl = int(rng.integers(2, 4))
    labels = [f'L{int(rng.integers(nl))}' for _ in range(ns)] if mode == 'dict' else [f'S{k}' for k in range(ns)]
    if mode == 'dict':
        labels[0], labels[-1] = 'L0', 'L1'
        if rng.random() < 0.35:
            # numbered labels where one name is a prefix of another (Li1 / Li10 / Li11)
            ren = {'L0': 'Li1', 'L1': 'Li10', 'L2': 'Li11'}
            labels = [ren[x] for x in labels]
    rmax = 0.45 * dmin
    if rmax < 0.3:
        return None
    if mode == 'dict':
        rad = {lab: float(round(rng.uniform(0.5, 1.0) * rmax, 3)) for lab in sorted(set(labels))}
    else:
        rad = float(round(rng.uniform(0.5, 1.0) * rmax, 3))
    frac_in = float(rng.choice([1.0, 0.5, 0.75, 0.25]))
    # atoms: T frames x A atoms placed relative to (images of) chosen sites
    T, A = int(rng.integers(2, 7)), int(rng.integers(1, 4))
    coords = np.zeros((T, A, 3))
    visited_ok = set(range(ns))
    if mode == 'dict' and rng.random() < 0.7:
        # force a never-visited member in a label group
        cand = [k for k in range(ns) if labels.count(labels[k]) >= 2]
        if cand:
            visited_ok.discard(cand[0])
    for t in range(T):
        for a in range(A):
            if rng.random() < 0.2:
                coords[t, a] = rng.random(3)
                continue
            k = int(rng.choice(sorted(visited_ok)))
            r = rad[labels[k]] if mode == 'dict' else (rad if mode == 'float' else 0.45 * dmin)
            rho = float(rng.choice([0.0, 0.4, 0.7 * frac_in, 0.9, 0.98, 1.02, 1.3]))
            v = rng.normal(size=3)
            v *= rho * r / np.linalg.norm(v)
            image = rng.integers(-1, 2, size=3)
            coords[t, a] = sites[k] + image + L.get_fractional_coords(v)
    return {'lattice_name': name, 'lattice': lat.tolist(), 'sites': sites.tolist(), 'labels': labels, 'mode': mode,
            'radius': rad, 'inner_fraction': frac_in, 'coords': coords.tolist()}


def check_case(out: Outcome, case, tag):
    if case is None:
        return
    lat = np.array(case['lattice'], float)
    sites = np.array(case['sites'], float)
    labels = case['labels']
    coords = np.array(case['coords'], float)
    T, A, _ = coords.shape
    ns = len(sites)
    mode = case['mode']
    out.evaluations += 1
    traj = gem.make_traj(np.concatenate([coords, np.zeros((T, 1, 3)) + 0.031], axis=1), lat, ['Li'] * A + ['O'])
    st = gem.make_sites(lat, sites, labels=labels)
    diff = traj.filter('Li')
    if mode == 'auto':
        with warnings.catch_warnings():
            warnings.simplefilter('ignore')
            vib = float(TrajectoryMetrics(diff).vibration_amplitude())
        if not np.isfinite(vib):
            out.count('auto-no-vibration')
            return
        try:
            r_auto = float(_compute_site_radius(trajectory=traj, sites=st, vibration_amplitude=vib))
        except ValueError:
            mp = core.drive1(f'minpair {gem.enc_m3(lat)} {gem.enc_v3s(sites)}').split()[1]
            dmin = math.sqrt(float(core.dec_rat(mp)))
            if not (2 * (0.5 * dmin - 0.005) < 0.5):
                out.fail('property', 'auto-radius-error-branch', case, expected='error only when sites are closer than ~0.5 A', observed=dmin)
            else:
                out.count('auto-sites-too-close')
            return
        # automatic radius: spheres never overlap
        mp = core.drive1(f'minpair {gem.enc_m3(lat)} {gem.enc_v3s(sites)}').split()[1]
        dmin_sq = core.dec_rat(mp)
        if not (4 * Fraction(r_auto) ** 2 < dmin_sq) and abs(math.sqrt(float(dmin_sq)) - 4 * vib) >= 1e-9:
            out.fail('property', 'auto-radius-spheres-overlap', case, expected=f'2r < {math.sqrt(float(dmin_sq))}', observed=r_auto)
        want_r = min(2 * vib, 0.5 * math.sqrt(float(dmin_sq)) - 0.005) if math.sqrt(float(dmin_sq)) < 4 * vib else 2 * vib
        # smallest separation == 4 x amplitude up to rounding: the float comparison may take either branch (both keep 2r <= separation)
        tie = abs(math.sqrt(float(dmin_sq)) - 4 * vib) < 1e-9
        if tie:
            out.count('auto-radius-branch-tie')
        elif not math.isclose(r_auto, want_r, rel_tol=1e-9):
            out.fail('property', 'auto-radius-value', case, expected=want_r, observed=r_auto)
        radius_arg = None
        per_site = [r_auto] * ns
    elif mode == 'dict':
        radius_arg = dict(case['radius'])
        per_site = [case['radius'][lab] for lab in labels]
    else:
        radius_arg = float(case['radius'])
        per_site = [radius_arg] * ns
    fr = case['inner_fraction']
    try:
        with warnings.catch_warnings():
            warnings.simplefilter('ignore')
            tr = traj.transitions_between_sites(st, 'Li', site_radius=radius_arg, site_inner_fraction=fr)
        states, inner = np.array(tr.states), np.array(tr.inner_states)
    except ValueError as e:
        # no change at all -> the event builder refuses (C03); assignment itself is then checked through the helper
        from gemdat.transitions import _calculate_atom_states
        sr = radius_arg if isinstance(radius_arg, dict) else {'': per_site[0]}
        with warnings.catch_warnings():
            warnings.simplefilter('ignore')
            states = np.array(_calculate_atom_states(sites=st, trajectory=diff, site_radius=sr))
            inner = np.array(_calculate_atom_states(sites=st, trajectory=diff, site_radius=sr, site_inner_fraction=fr))
        out.count('no-events-helper-path')
    except Exception as e:  # noqa: BLE001
        out.fail('property', 'assignment-raised', case, observed=type(e).__name__ + ': ' + str(e)[:100])
        return
    pos = np.array(diff.positions).reshape(-1, 3)
    sites_s = ' '.join([str(ns)] + [' '.join(enc(v) for v in s) + ' ' + enc(r) for s, r in zip(sites.tolist(), per_site)])
    pts = gem.enc_v3s(pos)
    lines = [('o', f'assign {gem.enc_m3(lat)} 1 {sites_s} {pts}'), ('i', f'assign {gem.enc_m3(lat)} {enc(fr)} {sites_s} {pts}')]
    lines += [(f'd{k}', f'pbcmany {gem.enc_m3(lat)} {" ".join(enc(v) for v in sites[k].tolist())} {pts}') for k in range(ns)]
    res = core.drive(lines)
    if any(' -1' in res[f'd{k}'] for k in range(ns)):
        out.count('skipped-uncertified-minimum-image')
        return
    mo = np.array(list(map(int, res['o'].split('|')[0].split()[1:]))).reshape(T, A)
    mi = np.array(list(map(int, res['i'].split('|')[0].split()[1:]))).reshape(T, A)
    nin = np.array(list(map(int, res['o'].split('|')[1].split()))).reshape(T, A)
    d = np.sqrt(np.array([[float(core.dec_rat(t)) for t in res[f'd{k}'].split()[1:]] for k in range(ns)]))  # [site, point]
    # decisions within the margin of a sphere surface are not decided (float32 box inside the implementation)
    rs = np.array(per_site)[:, None]
    undecided = (np.abs(d - rs) < MARGIN) | (np.abs(d - rs * fr) < MARGIN)
    und_pts = undecided.any(axis=0).reshape(T, A)
    if (nin > 1).any():
        out.count('overlapping-spheres-case')
        return
    # known finding D16: MDAnalysis' PeriodicKDTree itself misses some in-range pairs on general triclinic boxes
    # (reproduced below with MDAnalysis primitives only, independent of gemdat)
    from MDAnalysis.lib.distances import distance_array
    from MDAnalysis.lib.mdamath import triclinic_vectors
    from MDAnalysis.lib.pkdtree import PeriodicKDTree
    box32 = np.array(Lattice(lat).parameters, dtype=np.float32)
    bm = triclinic_vectors(box32)

    def kdtree_misses(point_idx, site_idx, radius):
        """the third-party tree finds no pair although the brute-force minimum image is within the radius"""
        pc = (pos[point_idx] @ bm)[None, :].astype(np.float32)
        sc_ = (sites[site_idx] @ bm)[None, :].astype(np.float32)
        tree = PeriodicKDTree(box=box32)
        tree.set_coords(pc, cutoff=max(per_site))
        found = len(tree.search_tree(sc_, radius)) > 0
        brute = float(distance_array(pc, sc_, box=box32)[0, 0]) < radius
        return brute and not found

    ok_o = (states == mo) | und_pts
    ok_i = (inner == mi) | und_pts
    through_image = bool(np.any(np.floor(np.array(case['coords'])) != 0))
    skew = not np.allclose(lat, np.diag(np.diag(lat)))
    if not ok_o.all():
        t, a = np.argwhere(~ok_o)[0]
        k = int(t) * A + int(a)
        out.fail('property', 'site-of-minimum-image-distance', case,
                 expected={'site': int(mo[t, a]), 'frame': int(t), 'atom': int(a), 'distances_to_sites': np.round(d[:, k], 4).tolist(), 'radii': per_site},
                 observed=int(states[t, a]),
                 note='third-party-kdtree-misses-pair' if (states[t, a] == -1 and mo[t, a] >= 0
                                                          and kdtree_misses(k, int(mo[t, a]), per_site[int(mo[t, a])])) else '')
    if not ok_i.all():
        t, a = np.argwhere(~ok_i)[0]
        out.fail('property', 'inner-site-of-scaled-radius', case, expected={'site': int(mi[t, a]), 'frame': int(t), 'atom': int(a)}, observed=int(inner[t, a]),
                 note='third-party-kdtree-misses-pair' if (inner[t, a] == -1 and mi[t, a] >= 0
                                                          and kdtree_misses(int(t) * A + int(a), int(mi[t, a]), per_site[int(mi[t, a])] * fr)) else '')
    # inner site is none or the outer site
    bad = (inner != -1) & (inner != states)
    if bad.any():
        out.fail('property', 'inner-none-or-outer', case, observed=[states[bad].tolist()[:3], inner[bad].tolist()[:3]])
    if (mo != -1).any() and (mo == -1).any() and through_image and (skew or (sites == 0).any()):
        out.nontrivial.add(json.dumps(case, sort_keys=True))
    out.count(f'mode-{mode}')
    if mode == 'dict' and len(set(mo.reshape(-1).tolist()) - {-1}) < ns:
        out.count('dict-with-unvisited-member')
    if len(out.samples) < 2 and T * A <= 6 and ns <= 3:
        out.sample({'tag': tag, **case, 'states': states.tolist(), 'inner_states': inner.tolist()})


def check_auto_radius(out: Outcome, rng):
    """_compute_site_radius on its own: for every vibration amplitude the spheres must not overlap under the
    TRUE minimum-image site separation (non-orthogonal cells, site pairs whose nearest image is not the
    per-axis rounded one)"""
    name = str(rng.choice(['hexlike', 'skew', 'tric', 'tric2', 'mono', 'cubic']))
    lat = np.array(gem.LATTICES[name], float)
    if rng.random() < 0.5:
        lat = gem.exact_orientation(rng, lat)
    ns = int(rng.integers(2, 6))
    grid = rng.permutation(20 ** 3)[:ns]
    sites = np.array([[(g // 400) / 20, ((g // 20) % 20) / 20, (g % 20) / 20] for g in grid])
    if rng.random() < 0.15:
        # the same point listed twice (once through a periodic image): separation exactly 0
        sites[1] = sites[0] + rng.integers(-1, 2, size=3)
    traj = gem.make_traj(np.zeros((2, 1, 3)), lat, ['Li'])
    # every other time the site structure carries the cell of a reference crystal: separations are those of the simulation cell
    st = gem.make_sites(gem.reference_cell(rng, lat) if rng.random() < 0.5 else lat, sites)
    mp = core.drive1(f'minpair {gem.enc_m3(lat)} {gem.enc_v3s(sites)}').split()[1]
    dmin_sq = core.dec_rat(mp)
    if dmin_sq < 0:
        return
    dmin = math.sqrt(float(dmin_sq))
    for vib in (0.2, 0.6, 1.5, 5.0):
        out.evaluations += 1
        case = {'auto_radius': True, 'lattice_name': name, 'lattice': lat.tolist(), 'sites': sites.tolist(), 'vibration_amplitude': vib}
        try:
            r = float(_compute_site_radius(trajectory=traj, sites=st, vibration_amplitude=vib))
        except ValueError:
            if not (2 * (0.5 * dmin - 0.005) < 0.5 + 1e-9):
                out.fail('property', 'auto-radius-error-branch', case, expected=f'no error: smallest separation {dmin:.4f}', observed='ValueError')
            continue
        want = 2 * vib if dmin >= 4 * vib else 0.5 * dmin - 0.005
        if abs(dmin - 4 * vib) < 1e-9:
            # separation == 4 x amplitude up to rounding: the float comparison may take either branch
            out.count('auto-radius-branch-tie')
            if not (r <= 0.5 * dmin + 1e-9):
                out.fail('property', 'auto-radius-spheres-overlap', case, expected=f'2r <= {dmin:.6f}', observed=r)
            continue
        if not (4 * Fraction(r) ** 2 < dmin_sq):
            out.fail('property', 'auto-radius-spheres-overlap', case, expected=f'2r < {dmin:.6f}', observed=r)
        elif not math.isclose(r, want, rel_tol=1e-9, abs_tol=1e-12):
            out.fail('property', 'auto-radius-value', case, expected=want, observed=r)
    if name not in ('cubic',) and ns >= 2:
        out.nontrivial.add(('auto', json.dumps(sites.tolist()), name))


def _helper_states(case, coords):
    lat = np.array(case['lattice'], float)
    T, A, _ = coords.shape
    labels = case['labels']
    traj = gem.make_traj(np.concatenate([coords, np.zeros((T, 1, 3)) + 0.031], axis=1), lat, ['Li'] * A + ['O'])
    st = gem.make_sites(lat, np.array(case['sites'], float), labels=labels)
    sr = dict(case['radius']) if case['mode'] == 'dict' else {'': float(case['radius'])}
    from gemdat.transitions import _calculate_atom_states
    with warnings.catch_warnings():
        warnings.simplefilter('ignore')
        diff = traj.filter('Li')
        return (np.array(_calculate_atom_states(sites=st, trajectory=diff, site_radius=sr)),
                np.array(_calculate_atom_states(sites=st, trajectory=diff, site_radius=sr, site_inner_fraction=case['inner_fraction'])))


def check_long_run(out: Outcome, rng, rows=130_000):
    """every frame is assigned on its own (GModel.Pipeline.statesOf is a map over the frames: C07Pipe.statesOf_append), so a run that
    repeats a short run must repeat its states — with more than `rows` (frame, atom) rows, enough to cross the block / chunk
    boundaries of any bulk implementation.  The short run itself is compared with the model by check_case."""
    case = None
    while case is None or case['mode'] == 'auto' or len(case['coords'][0]) < 2:
        case = gen_case(rng, 6)
    check_case(out, case, 'long-run-period')
    coords = np.array(case['coords'], float)
    T, A, _ = coords.shape
    reps = -(-rows // (T * A)) + int(rng.integers(0, 7))
    out.evaluations += 1
    small_o, small_i = _helper_states(case, coords)
    long_o, long_i = _helper_states(case, np.tile(coords, (reps, 1, 1)))
    c = {**case, 'long_run_repeats': reps}
    for nm, sm, lg in (('site-of-minimum-image-distance', small_o, long_o), ('inner-site-of-scaled-radius', small_i, long_i)):
        want = np.tile(sm, (reps, 1))
        if lg.shape != want.shape or not np.array_equal(lg, want):
            bad = int(np.sum(lg != want)) if lg.shape == want.shape else -1
            first = int(np.argwhere(lg != want)[0][0]) if bad > 0 else None
            out.fail('property', nm, c, expected=f'the states of the {T}-frame run repeated {reps} times', observed=f'{bad} of {want.size} entries differ, first at frame {first}',
                     note='long-run')
            return
    out.count('long-run-agrees')
    out.nontrivial.add(('long', reps, T, A))


def corpus():
    d = core.CORPUS / PID
    return [json.loads(p.read_text()) for p in sorted(d.glob('*.json'))] if d.exists() else []


def run(tier: str, seed: int, scale: int) -> Outcome:
    out = Outcome()
    rng = np.random.default_rng(seed)
    for case in corpus():
        check_case(out, case, 'corpus')
    for _ in range((400 if tier == 'quick' else 4000) * scale):
        check_case(out, gen_case(rng, 8 if tier == 'quick' else 16), 'random')
    for _ in range((200 if tier == 'quick' else 2000) * scale):
        check_auto_radius(out, rng)
    for k in range((2 if tier == 'quick' else 12) * scale):
        check_long_run(out, rng, rows=130_000 if (tier == 'quick' or k % 4) else 1_100_000)
    return out


def classify(f: core.Failure, finding: dict) -> bool:
    if finding['id'] == 'D16':
        return f.clause in ('site-of-minimum-image-distance', 'inner-site-of-scaled-radius') and f.note == 'third-party-kdtree-misses-pair'
    return False


def replay(case):
    out = Outcome()
    if case.get('auto_radius'):
        return True, 'auto-radius cases: re-run ./check C02 quick with the recorded seed'
    if case.get('long_run_repeats'):
        coords = np.array(case['coords'], float)
        reps = int(case['long_run_repeats'])
        sm, lg = _helper_states(case, coords), _helper_states(case, np.tile(coords, (reps, 1, 1)))
        ok = all(np.array_equal(l, np.tile(s_, (reps, 1))) for s_, l in zip(sm, lg))
        return ok, ('long run repeats the states of its period' if ok else f'the run of {reps} repetitions does not repeat the states of its period')
    check_case(out, case, 'replay')
    fails = [f for f in out.failures if f.kind == 'property']
    text = '\n'.join(f'{f.clause}: expected {str(f.expected)[:200]} observed {str(f.observed)[:200]} {f.note}' for f in fails) or 'no failure'
    return (not fails), text


SPEC = PropertySpec(
    pid=PID,
    modules=MODULES,
    run=run,
    replay=replay,
    gen=translate.gen_for('FormulasC02'),
    classify=classify,
    rule=('random systems: pool lattice (cubic ... strongly triclinic) as is / re-oriented by an exact signed permutation / in pymatgen\'s '
          'from_parameters orientation / rotated by a (3,4,5)x(5,12,13) rotation; 2-8 (thorough 16) sites on a k/16 grid incl. faces and '
          'corners; radius as float, per-label dict (70% with a never-visited group member) or automatic; inner fraction in '
          '{1,0.75,0.5,0.25}; 2-6 frames x 1-3 atoms placed at 0-1.3 radii from a random periodic image of a site, 20% anywhere. '
          'states / inner_states of Trajectory.transitions_between_sites vs the Lean assignment by certified minimum-image distance '
          '(exact rationals of the very floats); decisions within 1e-3 A of a sphere surface are not compared; inner in {none, outer}; '
          'long runs: a short run repeated to > 130 000 (thorough also > 1 100 000) (frame, atom) rows must repeat its states; '
          'automatic radius: 2r < smallest site separation OF THE SIMULATION CELL (the site structure carries a 3-6 % different '
          'reference cell every other time), value (a tie of separation and 4 x amplitude within 1e-9 only needs 2r <= separation), error branch. Non-trivial: an atom in range through a periodic image, '
          'one out of range, and a non-diagonal lattice matrix or a site on a face.'),
    trusted=['MDAnalysis PeriodicKDTree.search_tree = radius search under the box\'s minimum image (float32 box): validated against the certified minimum image with a 1e-3 A margin',
             'pymatgen Lattice.get_all_distances for the automatic radius'],
    assumptions=['explicit radii keep the site spheres disjoint (cases with two sites in range are skipped)',
                 'radius below half of every perpendicular width (unique image)'],
)
