"""C13 — drift correction removes exactly the reference-frame motion."""

from __future__ import annotations

import json
import warnings

import numpy as np
from pymatgen.core import Element, Species

from . import core, gem, trajsc
from .core import Outcome, PropertySpec

PID = 'C13'
MODULES = ['GProofs.C01', 'GProofs.C15', 'GProofs.C13', 'GProofs.C13Rigid', 'GProofs.C13Sel']


def gen_case(rng):
    name, lat = gem.lattice_pool(rng)
    T = int(rng.integers(2, 10))
    # species layout: reference species get 1, 2 or 4 atoms (exact means), plus floating atoms
    layouts = [['O', 'Li'], ['O', 'O', 'Li'], ['O', 'O', 'S', 'S', 'Li', 'Li'], ['O', 'S', 'Li', 'Li'], ['O', 'O', 'O', 'O', 'Li'],
               ['O', 'O', 'O', 'Li', 'Li'], ['Si', 'S', 'Li'], ['S', 'S', 'Si', 'Si'], ['N', 'O', 'Na'], ['C', 'C', 'Cl', 'O']]
    species = list(layouts[int(rng.integers(len(layouts)))])
    A = len(species)
    c = trajsc.rand_coords(rng, T, A, step_scale=6)  # steps <= 6/64: SmallSteps holds with margin
    # rigid time-dependent translation, zero in the first frame
    inj = np.concatenate([np.zeros((1, 1, 3)), np.cumsum(rng.integers(-5, 6, size=(T - 1, 1, 3)), axis=0) / 64])
    # the floating species' symbol may CONTAIN the symbol of a reference species (Si/S, Na/N, Cl/C)
    floating = 'Li' if 'Li' in species else [x for x in ('Si', 'Na', 'Cl') if x in species][0]
    fixed = sorted(set(species) - {floating})
    return {'lattice_name': name, 'lattice': lat.tolist(), 'species': species, 'coords': c.tolist(), 'inject': inj.tolist(),
            'floating': floating, 'fixed': fixed, 'kind': str(rng.choice(['Element', 'Species', 'Species+oxidation']))}


OXIDATION = {'Li': 1, 'Na': 1, 'O': -2, 'S': -2, 'Si': 4, 'N': -3, 'C': 4, 'Cl': -1}


def build(case, coords):
    if case['kind'] == 'Species+oxidation':
        sp = [Species(s, OXIDATION[s]) for s in case['species']]  # decorated species: str(sp) is e.g. 'Li+', sp.symbol stays 'Li'
    else:
        cls = Element if case['kind'] == 'Element' else Species
        sp = [cls(s) for s in case['species']]
    return gem.make_traj(coords, case['lattice'], sp, metadata={'temperature': 300.0, 'tag': 'x'})


def check_case(out: Outcome, case, tag):
    lat = np.array(case['lattice'], float)
    coords = np.array(case['coords'], float)
    inj = np.array(case['inject'], float)
    species = case['species']
    fixed, floating = case['fixed'], case['floating']
    T, A, _ = coords.shape
    out.evaluations += 1
    nref = sum(s in fixed for s in species)
    exact = nref in (1, 2, 4, 8)
    tol = 0 if exact else 1e-12

    def eq(a, b):
        return np.array_equal(a, b) if exact else np.allclose(a, b, rtol=0, atol=tol)

    base_tr = build(case, coords)
    first = np.array(base_tr.positions)[0].copy()
    forms = {
        'fixed-list': dict(fixed_species=list(fixed)),
        'fixed-str': dict(fixed_species=fixed[0]) if len(fixed) == 1 else dict(fixed_species=tuple(fixed)),
        'floating-str': dict(floating_species=floating),
        'floating-list': dict(floating_species=[floating]),
        # every reference atom's symbol, one entry per atom (names repeated as often as the species has atoms)
        'fixed-per-atom-list': dict(fixed_species=[x for x in species if x in fixed]),
        'fixed-set': dict(fixed_species=set(fixed)),
    }
    results = {}
    with warnings.catch_warnings():
        warnings.simplefilter('ignore')
        for nm, kw in forms.items():
            try:
                tr = build(case, coords)
                cor = tr.apply_drift_correction(**kw)
                results[nm] = (cor, np.array(cor.positions))
            except Exception as e:  # noqa: BLE001
                out.fail('property', 'drift-correction-raised', {**case, 'form': nm}, observed=type(e).__name__ + ': ' + str(e)[:100],
                         note=f'species given as {case["kind"]}')
                results[nm] = None
    ref = results.get('fixed-list')
    if ref is None:
        return
    cor, pos = ref
    # (a) the mean per-frame displacement of the reference species is zero in every frame
    with warnings.catch_warnings():
        warnings.simplefilter('ignore')
        resid = np.array(cor.drift(fixed_species=list(fixed)))
    if not eq(resid, np.zeros_like(resid)):
        out.fail('property', 'residual-drift-zero', case, expected=0, observed=float(np.abs(resid).max()))
    # (b) first frame, species, lattice, time step, metadata unchanged
    if not np.array_equal(pos[0], first):
        out.fail('property', 'first-frame-unchanged', case, expected=first.tolist(), observed=pos[0].tolist())
    if ([str(s) for s in cor.species] != [str(s) for s in base_tr.species] or not np.array_equal(cor.get_lattice().matrix, lat)
            or cor.time_step != base_tr.time_step or cor.metadata != base_tr.metadata):
        out.fail('property', 'species-lattice-timestep-metadata', case, observed=[str(cor.species), cor.time_step, cor.metadata])
    # (c) idempotent
    with warnings.catch_warnings():
        warnings.simplefilter('ignore')
        pos2 = np.array(cor.apply_drift_correction(fixed_species=list(fixed)).positions)
    if not eq(pos2, pos):
        out.fail('property', 'idempotent', case, expected=pos.tolist(), observed=pos2.tolist())
    # (d) an injected rigid, time-dependent translation does not change the corrected motion
    with warnings.catch_warnings():
        warnings.simplefilter('ignore')
        pos_inj = np.array(build(case, coords + inj).apply_drift_correction(fixed_species=list(fixed)).positions)
    if not eq(pos_inj, pos):
        out.fail('property', 'rigid-drift-invariance', case, expected=pos.tolist(), observed=pos_inj.tolist())
    # (e) naming the floating species == naming all others as fixed; str == collection
    for nm in ('fixed-str', 'floating-str', 'floating-list', 'fixed-per-atom-list', 'fixed-set'):
        r = results.get(nm)
        if r is None:
            continue
        if r[1].shape != pos.shape or not eq(r[1], pos) or np.isnan(r[1]).any():
            out.fail('property', 'selection-forms-equivalent', {**case, 'form': nm}, expected=pos.tolist(),
                     observed=np.array(r[1]).tolist(), note=f'species given as {case["kind"]}')
    # correspondence with the Lean model: drift vector and corrected positions
    def selmask(mode, names):
        r = core.drive1(f'selmask {mode} {len(names)} ' + ' '.join(names) + f' {len(species)} ' + ' '.join(species)).split()
        return [t == '1' for t in r[1:]]
    mask = selmask('fixed', list(fixed))
    # GModel.Labels: the reference atoms by whole-symbol comparison; floating = complement (theorem floating_eq_fixed_others)
    if mask != [s in fixed for s in species] or selmask('floating', [floating]) != mask:
        out.fail('correspondence', 'model-selection', case, expected=[s in fixed for s in species], observed=mask)
    ops = [('Y', 0, mask), ('X', 0, mask), ('P', 1), ('X', 0, []), ('P', 2), ('Y', 0, [])]
    impl, _, _ = trajsc.run_impl(lat, [coords], [[(Element if case['kind'] == 'Element' else Species)(s) for s in species]], ops)
    model = trajsc.parse_model(core.drive1(trajsc.model_line(lat, [coords], ops)))
    for n, t, why in trajsc.compare(impl, model):
        if t == 'P' and (not exact or (n == 4 and A not in (1, 2, 4, 8))):
            ma = np.array(impl[n][1], float)
            mb = np.array([float(v) for v in model[n][1]])
            if ma.shape == mb.shape and np.allclose(ma, mb, atol=1e-12):
                continue
        out.fail('property' if t == 'P' else 'correspondence', f'model-{t}', case, observed=why, note=f'op #{n} {ops[n][0]}')
    d = np.diff(coords, axis=0)
    refmove = len({tuple(np.round(d[:, a].reshape(-1), 9)) for a in range(A) if mask[a]}) >= 2
    if refmove and np.any(inj != 0):
        out.nontrivial.add(json.dumps(case, sort_keys=True))
    if len(out.samples) < 2 and T * A <= 8:
        out.sample({'tag': tag, **case, 'corrected_positions': pos.tolist()})


def corpus():
    d = core.CORPUS / PID
    return [json.loads(p.read_text()) for p in sorted(d.glob('*.json'))] if d.exists() else []


def run(tier: str, seed: int, scale: int) -> Outcome:
    out = Outcome()
    rng = np.random.default_rng(seed)
    for case in corpus():
        check_case(out, case, 'corpus')
    for _ in range((300 if tier == 'quick' else 3000) * scale):
        check_case(out, gen_case(rng), 'random')
    if tier != 'quick':
        # domain boundary: a corrected step of half a cell or more cannot be represented modulo 1 (SmallSteps violated)
        c = np.array([[[0, 0, 0], [0, 0, 0]], [[0.375, 0, 0], [-0.375, 0, 0]]], float)  # drift 0, steps fine
        tr = gem.make_traj(c, np.eye(3) * 4, ['O', 'Li'])
        cor = tr.apply_drift_correction(fixed_species='O')
        again = cor.apply_drift_correction(fixed_species='O')
        out.extra['domain_boundary_observations'] = [{'case': 'reference atom steps 0.375, floating -0.375: corrected floating step -0.75',
                                                      'idempotent': bool(np.array_equal(cor.positions, again.positions))}]
    return out


def replay(case):
    out = Outcome()
    check_case(out, case, 'replay')
    fails = [f for f in out.failures if f.kind == 'property']
    text = '\n'.join(f'{f.clause}: expected {str(f.expected)[:200]} observed {str(f.observed)[:200]} {f.note}' for f in fails) or 'no failure'
    return (not fails), text


SPEC = PropertySpec(
    pid=PID,
    modules=MODULES,
    run=run,
    replay=replay,
    rule=('random dyadic trajectories (2-9 frames, 2-6 atoms: 1-4 reference atoms of 1-2 species + floating Li; also Si/S to expose '
          'substring matching), steps <= 6/64 (SmallSteps holds), pool lattices, species given as Element or as Species objects; '
          'selection as fixed list / fixed str or tuple / floating str / floating list / none; an injected rigid time-dependent '
          'translation (zero in frame 0). On the implementation: residual drift of the reference species = 0 in every frame (exact for '
          '1, 2, 4 reference atoms, 1e-12 otherwise), first frame / species / lattice / time step / metadata unchanged, idempotent, '
          'invariant under the injected drift, all selection forms give the same corrected positions; drift vectors and corrected '
          'positions vs the Lean model. Non-trivial: >= 2 reference atoms moving differently and a non-zero injected drift.'),
    trusted=['np.mean over the atom axis is exact when the number of reference atoms is a power of two (checked otherwise to 1e-12)'],
    assumptions=['SmallSteps: every corrected step and every injected step stays below half a cell (positions modulo 1 cannot represent more)'],
)
