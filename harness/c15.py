"""C15 — select/slice/split/extend and read-only queries never alter the data."""

from __future__ import annotations

import json
from itertools import pairwise

import numpy as np

from . import core, gem, trajsc
from .core import Outcome, PropertySpec

PID = 'C15'
MODULES = ['GProofs.C01', 'GProofs.C15']


def gen_case(rng, max_ops):
    name, lat = gem.lattice_pool(rng)
    A = int(rng.integers(2, 5))
    nsp = int(rng.integers(1, 4))
    species = [trajsc.SPECIES_POOL[int(rng.integers(nsp))] for _ in range(A)]
    objs = []
    for _ in range(int(rng.integers(1, 3))):
        T = int(rng.integers(1, 8))
        c = trajsc.rand_coords(rng, T, A, step_scale=int(rng.choice([4, 20]))) if rng.random() < 0.5 else trajsc.rand_coords(rng, T, A)
        objs.append(trajsc.fix_ties(rng, c).tolist())
    # plan ops on a symbolic shape table so that only meaningful ops are generated
    shapes = [(len(o), list(species)) for o in objs]  # (frames, species)
    ops = []
    for _ in range(int(rng.integers(1, max_ops + 1))):
        k = int(rng.integers(len(shapes)))
        T, sp = shapes[k]
        if T is None:
            continue
        r = rng.random()
        if r < 0.45:
            ops.append([str(rng.choice(['P', 'D', 'C', 'R', 'B', 'P', 'D'])), k])
        elif r < 0.55:
            ops.append(['Q', k, str(rng.choice(['volume', 'speed', 'msd', 'tracer', 'density']))])
        elif r < 0.70:
            names = sorted(set(sp))
            pick = [n for n in names if rng.random() < 0.6] or [names[0]]
            mask = [s in pick for s in sp]
            ops.append(['F', k, mask, str(rng.choice(['list', 'list', 'tuple', 'set', 'frozenset', 'dict-keys', 'str', 'array']))])
            shapes.append((T, [s for s, b in zip(sp, mask) if b]))
        elif r < 0.90:
            def ri():
                return None if rng.random() < 0.3 else int(rng.integers(-T - 2, T + 3))
            step = None if rng.random() < 0.5 else int(rng.choice([1, 2, 3, -1, -2]))
            a, b = ri(), ri()
            idx = list(range(T))[slice(a, b, step)]
            if idx and rng.random() < 0.35:
                # the same frames selected by an explicit list / integer array of indices
                ops.append(['I', k, a, b, step, str(rng.choice(['list', 'array']))])
            else:
                ops.append(['S', k, a, b, step])
            shapes.append((len(idx) if idx else None, sp))
        else:
            cands = [j for j, (Tj, spj) in enumerate(shapes) if Tj is not None and spj == sp and j != k]
            if not cands:
                continue
            j = int(cands[int(rng.integers(len(cands)))])
            ops.append(['E', k, j])
            shapes[k] = (T + shapes[j][0], sp)
    # every fourth history ends with: analysis query, extend in place, the same query again (the answer must describe the longer object)
    if rng.random() < 0.25:
        pairs = [(k, j) for k, (Tk, spk) in enumerate(shapes) for j, (Tj, spj) in enumerate(shapes) if k != j and Tk is not None and Tj is not None and spk == spj]
        if pairs:
            k, j = pairs[int(rng.integers(len(pairs)))]
            w = str(rng.choice(['speed', 'tracer', 'msd', 'volume']))
            ops += [['Q', k, w], ['E', k, j], ['Q', k, w]]
    return {'lattice_name': name, 'lattice': lat.tolist(), 'species': species, 'objs': objs, 'ops': ops}


def check_case(out: Outcome, case, tag):
    lat = np.array(case['lattice'], float)
    objs = [np.array(o, float) for o in case['objs']]
    species = [case['species']] * len(objs)
    ops = [tuple(o) for o in case['ops']]
    out.evaluations += 1
    # --- specification oracle, in plain numpy: what each object denotes (wrapped positions)
    denote = [np.mod(o, 1) for o in objs]
    sp_of = [list(case['species']) for _ in objs]
    impl, trajs, impl_sp = trajsc.run_impl(lat, objs, species, ops)
    model = trajsc.parse_model(core.drive1(trajsc.model_line(lat, objs, ops)))
    # replay the ops on the denotations and compare the real objects after the whole sequence
    alive = [True] * len(objs)
    for op in ops:
        t, k = op[0], op[1]
        if t == 'F':
            mask = np.array(op[2], bool)
            denote.append(denote[k][:, mask])
            sp_of.append([s for s, b in zip(sp_of[k], op[2]) if b])
            alive.append(True)
        elif t in 'SI':
            sel = denote[k][slice(op[2], op[3], op[4])]
            denote.append(sel)
            sp_of.append(sp_of[k])
            alive.append(len(sel) > 0)
        elif t == 'E':
            denote[k] = np.concatenate([denote[k], denote[op[2]]])
    raised = [s for s in impl if isinstance(s[1], str) and s[1].startswith('raised')]
    if raised:
        out.fail('property', 'query-describes-current-object' if 'QueryMismatch' in raised[0][1] else 'operation-raised', case, observed=raised[0][1], note=f'op {raised[0][0]}')
        return
    for k, tr in enumerate(trajs):
        if tr is None:
            if alive[k]:
                out.fail('property', 'slice-refused', case, expected=denote[k].shape, observed='error', note=f'object {k}')
            continue
        if not alive[k]:
            out.fail('correspondence', 'empty-slice-accepted', case, note=f'object {k}')
            continue
        got = np.array(tr.positions)
        if got.shape != denote[k].shape or not np.array_equal(got, denote[k]):
            out.fail('property', 'positions-after-history', case, expected=denote[k].tolist(), observed=got.tolist(),
                     note=f'object {k} after the whole operation sequence')
            break
        if [s.symbol for s in tr.species] != sp_of[k]:
            out.fail('property', 'species-order', case, expected=sp_of[k], observed=[s.symbol for s in tr.species], note=f'object {k}')
        if not np.array_equal(tr.get_lattice().matrix, lat) or tr.time_step != 1e-15 or tr.metadata != {'temperature': 300.0}:
            out.fail('property', 'lattice-timestep-metadata', case, observed=[tr.time_step, tr.metadata], note=f'object {k}')
    # every intermediate read against the Lean model (exact)
    for n, t, why in trajsc.compare(impl, model):
        out.fail('property', f'read-{t}-in-history', case, observed=why, note=f'op #{n}: {ops[n] if n < len(ops) else "?"}')
    # non-trivial: a mode switch before a derived op, and a face crossing
    tags = [o[0] for o in ops]
    switch_before_derived = any(tags[i] in 'DCRQ' and any(t in 'FSIE' for t in tags[i + 1:]) for i in range(len(tags)))
    wraps = any(np.any(np.floor(o[1:]) != np.floor(o[:-1])) for o in objs if len(o) > 1)
    if switch_before_derived and wraps:
        out.nontrivial.add(json.dumps(case, sort_keys=True))
    for t in set(tags):
        out.count(f'op-{t}')
    if len(out.samples) < 2 and 3 <= len(ops) <= 6 and switch_before_derived and sum(len(o) for o in objs) <= 6:
        out.sample({'tag': tag, **case})


def check_split(out: Outcome, rng):
    """Trajectory.split: every part holds exactly the source frames [b_i, b_{i+1}) whatever mode the source is in"""
    name, lat = gem.lattice_pool(rng)
    T, A = int(rng.integers(3, 40)), int(rng.integers(1, 4))
    c = trajsc.rand_coords(rng, T, A, step_scale=20)
    tr = gem.make_traj(c, lat, ['Li'] * A)
    if rng.random() < 0.5:
        _ = tr.displacements  # source currently stored as displacements
    n = int(rng.integers(1, T))
    iv = np.linspace(0, T - 1, n + 1, dtype=int)
    out.evaluations += 1
    if any(b <= a for a, b in pairwise(iv)):
        return
    case = {'split': True, 'T': T, 'A': A, 'n': n, 'lattice': lat.tolist(), 'coords': c.tolist() if T * A < 20 else 'omitted'}
    parts = tr.split(n)
    want = np.mod(c, 1)
    for (a, b), p in zip(pairwise(iv), parts):
        if not np.array_equal(np.array(p.positions), want[a:b]):
            out.fail('property', 'split-part-frames', case, expected=[int(a), int(b)], observed=len(p))
            break
    if not np.array_equal(np.array(tr.positions), want):
        out.fail('property', 'split-altered-source', case)


def corpus():
    d = core.CORPUS / PID
    return [json.loads(p.read_text()) for p in sorted(d.glob('*.json'))] if d.exists() else []


def run(tier: str, seed: int, scale: int) -> Outcome:
    out = Outcome()
    rng = np.random.default_rng(seed)
    for case in corpus():
        check_case(out, case, 'corpus')
    n = (400 if tier == 'quick' else 5000) * scale
    max_ops = 12 if tier == 'quick' else 30
    for _ in range(n):
        check_case(out, gen_case(rng, max_ops), 'random')
    for _ in range(n // 2):
        check_split(out, rng)
    return out


def replay(case):
    out = Outcome()
    check_case(out, case, 'replay')
    fails = [f for f in out.failures if f.kind == 'property']
    text = '\n'.join(f'{f.clause}: expected {str(f.expected)[:300]} observed {str(f.observed)[:300]} {f.note}' for f in fails) or 'no failure'
    return (not fails), text


SPEC = PropertySpec(
    pid=PID,
    modules=MODULES,
    run=run,
    replay=replay,
    rule=('random operation sequences (1-12 ops quick, 1-30 thorough) over 1-2 dyadic trajectories (1-7 frames, 2-4 atoms of 1-3 species) '
          'on pool lattices: reads (positions, displacements, cumulative displacements, distances, base positions), read-only analysis '
          'queries (volume, speed, MSD, tracer diffusivity, density), filter by species sets, slices with random start/stop/step '
          '(None, negative, out of range), the same frame selections given as a list / integer array of indices, extend, on sources and on derived objects. After the sequence every object must denote '
          'exactly the frames/atoms a plain numpy replay of the history selects (positions modulo 1, species order, lattice, time '
          'step, metadata); every intermediate read is compared EXACTLY with the Lean state machine (GModel.Traj). Trajectory.split '
          'on sources in either storage mode. Non-trivial: a mode-switching read before a derived operation and a face crossing; '
          'distinct = distinct case.'),
    trusted=['pymatgen Trajectory.__getitem__/extend/constructor (base_positions = first frame of positions) as modelled in GModel.Traj',
             'Python slice.indices semantics as modelled by sliceIndices'],
    assumptions=['constant-cell trajectories; non-empty selections (pymatgen cannot build an empty trajectory: a refusal is expected there)'],
)
